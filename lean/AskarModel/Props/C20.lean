/-
C20 — secret memory is wiped before release and never printed.
ONLY property theorems, refutations with witnesses, and non-vacuity examples; helpers in Lemmas/SecretBuf.lean and
Lemmas/SecretFmt.lean.

Part A (Model/SecretBuf.lean): `SecretBytes` over an explicit heap with an event log.  All theorems quantify over EVERY
operation sequence (any number of buffers, any sizes, any interleaving of constructors, append / insert / splice / remove /
resize / reserve / shrink / clear / zeroize / clone / drop / into_vec / into_boxed_slice) and over every pair of growth laws that
return at least the requested capacity (`Params.Sound`); the pinned tree's laws are one instance (`std_sound`).

Part B (Model/SecretFmt.lean): `Debug` output as a function of the public part, parametrised by `FmtCfg` — six flags read from
the source on every run (Generated/Flags.lean) saying which `Debug` impls are the hand-written redacting ones.  Every theorem
below is true WHATEVER the flags are.  The full-strength statement `FmtNonInterfering cfg` was FALSE on the pinned tree (D9
`Options`, D16 BLS keys, D17 `Argon2` / `BlsKeyGen`, and two further types found by this check: `PostgresStoreOptions`,
`JwkParts`): `fmt_noninterfering_refuted_pinned` with witnesses; it is the full theorem on the repaired tree
(`fmt_noninterfering_fixed`), and for the tree under check it holds iff all six flags are on (`fmt_noninterfering_current`).
-/
import AskarModel.Lemmas.SecretBuf
import AskarModel.Lemmas.SecretFmt

namespace Askar.C20
open Askar.SecretBuf

/-! ## Part A -/

/-- Every block released to the allocator — by `free` or by `realloc` — holds no content byte in ANY of its cells (the whole
    capacity, not just `len`), for every program.  Blocks that leave through `into_vec` / `into_boxed_slice` are `escape`
    events: ownership passes to the caller. -/
theorem free_only_zeroed (P : Params) (hP : P.Sound) (ops : List Op) :
    ∀ e ∈ (runAll P ops).log, e.Clean := by
  intro e he
  have := Lemmas.runAll_good P hP ops e he
  cases e <;> simp_all [Event.Strict, Event.Clean]

/-- … and in fact the allocator's `realloc` is never invoked at all: `Vec` never grows (or shrinks) a block it owns by itself. -/
theorem no_hidden_realloc (P : Params) (hP : P.Sound) (ops : List Op) :
    ∀ e ∈ (runAll P ops).log, e.isRealloc = false := by
  intro e he
  have := Lemmas.runAll_good P hP ops e he
  cases e <;> simp_all [Event.Strict, Event.isRealloc]

/-- The same holds at every intermediate point of the program, not only at its end. -/
theorem free_only_zeroed_prefix (P : Params) (hP : P.Sound) (ops : List Op) :
    ∀ e ∈ (run P St.init ops).heap.log, e.Clean ∧ e.isRealloc = false := by
  intro e he
  have := Lemmas.run_good P hP ops St.init Lemmas.good_init e he
  cases e <;> simp_all [Event.Strict, Event.Clean, Event.isRealloc]

/-- The lemma that excludes hidden reallocation: after `ensure_capacity min_cap` the capacity is at least `min_cap`, the
    bytes are unchanged, and nothing un-wiped was released on the way. -/
theorem capacity_suffices (P : Params) (hP : P.Sound) (s : RVec) (minCap : Nat) (h : Heap) :
    minCap ≤ (ensureCapacity P s minCap h).1.cap ∧ (ensureCapacity P s minCap h).1.data = s.data := by
  -- the log hypothesis of the helper is irrelevant to these two components: instantiate it with the events so far removed
  have := Lemmas.ensureCapacity_spec P hP s minCap ⟨h.next, []⟩ (by intro e he; simp at he)
  have hcap : (ensureCapacity P s minCap h).1 = (ensureCapacity P s minCap ⟨h.next, []⟩).1 := by
    unfold ensureCapacity vecReserve vecGrowTo vecExtend vecReserve vecGrowTo alloc
    simp only
    repeat' split
    all_goals rfl
  rw [hcap]
  exact ⟨this.2.2, this.2.1⟩

/-- Before every raw `Vec` write performed by `extend_from_slice` / `buffer_write` there is room for it. -/
theorem reserve_leaves_room (P : Params) (hP : P.Sound) (s : RVec) (extra : Nat) (h : Heap) (hg : Lemmas.Good h) :
    extra ≤ (reserve P s extra h).1.spare.length :=
  (Lemmas.reserve_spec P hP s extra h hg).2.2

/-- The visible bytes (and the panics) are those of the obvious list semantics, for every buffer of every program: wiping and
    re-allocation never corrupt data. -/
theorem contents_correct (P : Params) (hP : P.Sound) (ops : List Op) :
    (run P St.init ops).slots.map (·.data) = specRun [] ops :=
  Lemmas.run_data P hP ops St.init Lemmas.good_init

/-- one step, including its outcome (ok / panic / skip), from any reachable state -/
theorem contents_correct_step (P : Params) (hP : P.Sound) (pre : List Op) (op : Op) :
    let st := run P St.init pre
    ((step P st op).1.slots.map (·.data), (step P st op).2) = specStep (st.slots.map (·.data)) op :=
  Lemmas.step_data P hP _ op (Lemmas.run_good P hP pre St.init Lemmas.good_init)

/-- The growth law of the pinned tree: a buffer that owns a block is replaced by one of `max(min_cap, 2·cap, 32)` bytes exactly
    when `min_cap ≥ cap`, and is left alone otherwise (diagnostic channel: makes the model's allocation trace predictive). -/
theorem growth_law (s : RVec) (minCap : Nat) (h : Heap) (hc : 0 < s.cap) :
    (ensureCapacity Params.std s minCap h).1.cap = if minCap ≥ s.cap then max (max minCap (s.cap * 2)) 32 else s.cap := by
  have hc0 : ¬ s.cap = 0 := by omega
  unfold ensureCapacity
  simp only [hc0, if_false]
  split
  · next hm =>
    have hfit : s.data.length ≤ (alloc (Params.std.grow s.cap minCap) h).1.spare.length := by
      rw [Lemmas.alloc_spare, List.length_replicate]
      simp only [Params.std, RVec.cap] at hm ⊢; omega
    simp only [Lemmas.vecExtend_fit Params.std _ s.data _ hfit]
    rw [Lemmas.pushBytes_cap _ _ hfit, Lemmas.alloc_cap]
    rfl
  · rfl

/-- the hypothesis of the theorems is satisfiable: the pinned tree's growth laws are sound -/
theorem std_sound : Params.std.Sound := by
  constructor <;> intro c m <;> simp only [Params.std] <;> omega

/-! ### non-vacuity and sensitivity -/

/-- a concrete program that grows across two capacity boundaries, clones, shrinks and drops: it frees five blocks that held data -/
example :
    ((runAll Params.std [.new (.fromSlice [1, 2, 3] 0), .buf 0 (.extend (List.replicate 40 7)), .clone 0, .buf 0 (.insert 1 [9, 9]),
        .buf 1 .shrink, .buf 0 (.resize 100), .drop 1]).log.filter fun e => match e with | .free .. => true | _ => false).length = 5 := by
  decide

/-- the soundness hypothesis is needed: with a growth law that returns less than requested, `Vec` reallocates a block that
    holds data (the leak the buffer exists to prevent) -/
theorem unsound_growth_leaks :
    ∃ (P : Params) (ops : List Op), ∃ e ∈ (runAll P ops).log, ¬ e.Clean :=
  ⟨⟨fun cap _ => cap, Params.std.vecGrow⟩, [.new (.fromSlice [1, 2, 3] 0), .buf 0 (.extend [4, 5])], by decide⟩

/-- what the buffer avoids: the same append done by `Vec` itself on the inner vector releases an un-wiped copy -/
theorem raw_vec_append_leaks :
    ∃ (v : RVec) (d : List UInt8) (h : Heap), ∃ e ∈ (vecExtend Params.std v d h).2.log, ¬ e.Clean :=
  ⟨⟨1, [1, 2, 3], []⟩, [4], Heap.init, by decide⟩

/-- wiping `len` instead of the capacity would not do: after a truncation the spare capacity still holds content -/
example : ¬ clean ((bufferResize Params.std ⟨1, [1, 2, 3, 4], []⟩ 1 Heap.init).1.cells.drop 1) := by decide

/-! ### the C boundary (`src/ffi/secret.rs`): `SecretBuffer::from_secret`, `askar_buffer_free`, `EncryptedBuffer`

`Op.ffiFree` (export + release) is one of the operations of `Op`, so `free_only_zeroed`, `no_hidden_realloc`, `free_only_zeroed_prefix`
and `contents_correct` above already cover programs in which buffers cross the C boundary at any point.  The theorems below
say what happens to ONE buffer, from any state. -/

/-- For every secret buffer (any length, any capacity, any stale content in its spare capacity) and every heap whose log is good:
    exporting it with `from_secret` and releasing it with `askar_buffer_free` releases nothing un-wiped and never reallocates; the C
    caller sees exactly the secret bytes and `len` is their number; the block handed out has capacity = `len` (so the
    `Vec::from_raw_parts(data, len, len)` of `askar_buffer_free` describes the real block and its wipe covers all of it); and a
    non-empty buffer's block IS released, as `len` wiped cells. -/
theorem ffi_buffer_free_wipes (P : Params) (s : RVec) (h : Heap) (hg : Lemmas.Good h) :
    (∀ e ∈ (ffiRoundTrip P s h).log, e.Clean ∧ e.isRealloc = false) ∧
    (ffiFromSecret P s h).1.len = s.data.length ∧
    (∃ v, (ffiFromSecret P s h).1.block = some v ∧ v.data = s.data ∧ v.cap = (ffiFromSecret P s h).1.len) ∧
    (s.data ≠ [] → ∃ id, Event.free id (List.replicate s.data.length none) ∈ (ffiRoundTrip P s h).log) := by
  obtain ⟨_, hl, v, hv, hd, _, hc⟩ := Lemmas.ffiFromSecret_spec P s h hg
  refine ⟨?_, hl, ⟨v, hv, hd, hc⟩, Lemmas.ffiRoundTrip_frees P s h hg⟩
  intro e he
  have := Lemmas.ffiRoundTrip_good P s h hg e he
  cases e <;> simp_all [Event.Strict, Event.Clean, Event.isRealloc]

/-- … whatever the C caller wrote into the buffer in between (`data` is `*mut u8`). -/
theorem ffi_buffer_free_wipes_after_caller_writes (P : Params) (s : RVec) (h : Heap) (hg : Lemmas.Good h) (d : List UInt8) :
    ∀ e ∈ (ffiBufferFree ((ffiFromSecret P s h).1.overwrite d) (ffiFromSecret P s h).2).log, e.Clean ∧ e.isRealloc = false := by
  obtain ⟨h1, _, v, hv, _, _, hc⟩ := Lemmas.ffiFromSecret_spec P s h hg
  have hb : ∀ w, (ffiFromSecret P s h).1.block = some w → w.cap = (ffiFromSecret P s h).1.len := by
    intro w hw; rw [hv] at hw; cases hw; exact hc
  intro e he
  have := Lemmas.ffiBufferFree_good _ _ h1 (Lemmas.overwrite_cap _ d hb) e he
  cases e <;> simp_all [Event.Strict, Event.Clean, Event.isRealloc]

/-- `askar_buffer_free` of the default buffer (`data = NULL`) and of an exported empty buffer (dangling `data`, `len` 0) releases nothing. -/
theorem ffi_buffer_free_empty (P : Params) (h : Heap) :
    ffiBufferFree ⟨0, none⟩ h = h ∧ ffiRoundTrip P RVec.empty h = h := by
  constructor <;> rfl

/-- `EncryptedBuffer::from_encrypted`: its `buffer` is the `SecretBuffer` of the ciphertext; the positions are plain numbers. -/
theorem encrypted_buffer_is_secret_buffer (P : Params) (s : RVec) (t n : Nat) (h : Heap) :
    (ffiFromEncrypted P s t n h).1.1 = (ffiFromSecret P s h).1 ∧ (ffiFromEncrypted P s t n h).2 = (ffiFromSecret P s h).2 ∧
    (ffiFromEncrypted P s t n h).1.2 = (t, n) := ⟨rfl, rfl, rfl⟩

/-- sensitivity: it is the `shrink_to_fit` in `from_secret` that makes the wipe complete — without it a buffer with stale spare
    capacity goes back to the allocator with that content (and with a layout that is not the allocated one) -/
theorem ffi_without_shrink_leaks :
    ∃ (s : RVec) (h : Heap), ∃ e ∈ (ffiBufferFree (ffiFromSecretNoShrink s h).1 (ffiFromSecretNoShrink s h).2).log, ¬ e.Clean :=
  ⟨⟨1, [1], [some 2]⟩, Heap.init, by decide⟩

/-- non-vacuity: a program in which a grown, then truncated buffer crosses the C boundary: the block it outgrew, the block the
    `shrink_to_fit` of `from_secret` leaves behind and the exported block are released (3 frees), the last one after an `escape` -/
example :
    ((runAll Params.std [.new (.fromSlice [1, 2, 3] 0), .buf 0 (.extend (List.replicate 40 7)), .buf 0 (.resize 10), .ffiFree 0]).log.filter
      fun e => match e with | .free .. => true | _ => false).length = 3 ∧
    ((runAll Params.std [.new (.fromSlice [1, 2, 3] 0), .buf 0 (.extend (List.replicate 40 7)), .buf 0 (.resize 10), .ffiFree 0]).log.filter
      fun e => match e with | .escape .. => true | _ => false).length = 1 := by
  decide

/-! ## Part B -/
open Askar.SecretFmt

/-- Full strength (what the property demands), for the tree described by `cfg`: the `Debug` text of every secret-bearing type
    is a function of the public part. -/
def FmtNonInterfering (cfg : FmtCfg) : Prop :=
  ∀ (t : Ty) (pub : String) (s₁ s₂ : List UInt8), render (debugFmt cfg t) ⟨pub, s₁⟩ = render (debugFmt cfg t) ⟨pub, s₂⟩

/-- Whatever the tree: every type classified as not leaky ignores the secret component. -/
theorem fmt_noninterfering_partial (cfg : FmtCfg) (t : Ty) (ht : leaky cfg t = false) (pub : String) (s₁ s₂ : List UInt8) :
    render (debugFmt cfg t) ⟨pub, s₁⟩ = render (debugFmt cfg t) ⟨pub, s₂⟩ :=
  SecretFmt.Lemmas.fmt_noninterfering_partial cfg t ht pub s₁ s₂

/-- The classification, exactly, in terms of the flags read from the source: a type is leaky iff it is `Options` (D9),
    `PostgresStoreOptions`, `Argon2` / `BlsKeyGen` (D17), `JwkParts`, or a BLS key pair in one of its three wrappings (D16), AND the
    `Debug` of that type is still the derived one — and nothing else is leaky. -/
theorem leaky_types_exactly (cfg : FmtCfg) (t : Ty) :
    leaky cfg t = true ↔
      (cfg.optionsRedacts = false ∧ ∃ q, t = .options q) ∨ (cfg.pgOptionsRedacts = false ∧ ∃ q, t = .pgOptions q) ∨
      (cfg.argon2Redacts = false ∧ t = .argon2) ∨ (cfg.blsKeyGenRedacts = false ∧ t = .blsKeyGen) ∨
      (cfg.jwkPartsRedacts = false ∧ ∃ a, t = .jwkParts a) ∨
      (cfg.blsSecretRedacts = false ∧ ∃ a, a.isBls = true ∧ (t = .key a ∨ t = .anyKey a ∨ t = .localKey a)) :=
  SecretFmt.Lemmas.leaky_iff cfg t

/-- Every leaky type really prints the secret: different secrets, different text. -/
theorem leaky_prints_secret (cfg : FmtCfg) (t : Ty) (ht : leaky cfg t = true) (pub : String) (s₁ s₂ : List UInt8) (hs : s₁ ≠ s₂) :
    render (debugFmt cfg t) ⟨pub, s₁⟩ ≠ render (debugFmt cfg t) ⟨pub, s₂⟩ :=
  SecretFmt.Lemmas.render_depends_on_secret _ ht pub s₁ s₂ hs

/-- The full statement holds exactly when no type is classified as leaky … -/
theorem fmt_noninterfering_iff (cfg : FmtCfg) : FmtNonInterfering cfg ↔ ∀ t, leaky cfg t = false := by
  constructor
  · intro h t
    cases ht : leaky cfg t with
    | false => rfl
    | true => exact absurd (h t "" [1] [2]) (leaky_prints_secret cfg t ht "" [1] [2] (by decide))
  · intro h t pub s₁ s₂
    exact fmt_noninterfering_partial cfg t (h t) pub s₁ s₂

/-- … that is, exactly when all six `Debug` implementations are the redacting ones. -/
theorem fmt_noninterfering_iff_flags (cfg : FmtCfg) : FmtNonInterfering cfg ↔ cfg.allRedact = true :=
  (fmt_noninterfering_iff cfg).trans (SecretFmt.Lemmas.no_leaky_iff cfg)

/-- THE FULL THEOREM on the repaired tree. -/
theorem fmt_noninterfering_fixed : FmtNonInterfering FmtCfg.fixed :=
  (fmt_noninterfering_iff_flags FmtCfg.fixed).mpr rfl

/-- The tree the check runs against (flags regenerated from /repo on every run) satisfies the full statement iff all six
    source-derived flags are on; true whatever the flags are, so a regression of one `Debug` impl does not break the proof — it
    flips the model's prediction and is caught by the `c20:fmt` / `c20:log` oracle. -/
theorem fmt_noninterfering_current :
    FmtNonInterfering FmtCfg.current ↔
      (Askar.Generated.Flags.optionsDebugRedacts && Askar.Generated.Flags.blsSecretDebugRedacts &&
       Askar.Generated.Flags.blsKeyGenDebugRedacts && Askar.Generated.Flags.argon2DebugRedacts &&
       Askar.Generated.Flags.pgOptionsDebugRedacts && Askar.Generated.Flags.jwkPartsDebugRedacts) = true :=
  fmt_noninterfering_iff_flags FmtCfg.current

/-- The full statement is refuted on the model of the PINNED tree. -/
theorem fmt_noninterfering_refuted_pinned : ¬ FmtNonInterfering FmtCfg.pinned := by
  intro h
  have := (fmt_noninterfering_iff_flags FmtCfg.pinned).mp h
  exact absurd this (by decide)

theorem options_debug_prints_password_witness :          -- D9
    ∃ pub s₁ s₂, render (debugFmt FmtCfg.pinned (.options false)) ⟨pub, s₁⟩ ≠ render (debugFmt FmtCfg.pinned (.options false)) ⟨pub, s₂⟩ :=
  ⟨"", [1], [2], leaky_prints_secret _ _ (by decide) _ _ _ (by decide)⟩

theorem bls_debug_prints_scalar_witness :                -- D16
    ∃ pub s₁ s₂, render (debugFmt FmtCfg.pinned (.localKey .bls12381g1)) ⟨pub, s₁⟩ ≠
      render (debugFmt FmtCfg.pinned (.localKey .bls12381g1)) ⟨pub, s₂⟩ :=
  ⟨"", [1], [2], leaky_prints_secret _ _ (by decide) _ _ _ (by decide)⟩

theorem argon2_debug_prints_password_witness :           -- D17
    ∃ pub s₁ s₂, render (debugFmt FmtCfg.pinned .argon2) ⟨pub, s₁⟩ ≠ render (debugFmt FmtCfg.pinned .argon2) ⟨pub, s₂⟩ :=
  ⟨"", [1], [2], leaky_prints_secret _ _ (by decide) _ _ _ (by decide)⟩

/-- Log records: a capture leaks iff `Options` still has the derived `Debug` (D9), the URI carried credentials and the `any.rs`
    "… store with options: {:?}" site fired; every other call site passes labels, handles and algorithm names only. -/
theorem log_leaks_exactly (cfg : FmtCfg) (s : Scenario) :
    s.leaks cfg = true ↔ cfg.optionsRedacts = false ∧ s.uriHasCredentials = true ∧ LogSite.anyOptions ∈ s.sites :=
  SecretFmt.Lemmas.scenario_leaks_iff cfg s

/-- on the repaired tree no log capture leaks -/
theorem log_never_leaks_fixed (s : Scenario) : s.leaks FmtCfg.fixed = false := by
  cases h : s.leaks FmtCfg.fixed with
  | false => rfl
  | true => exact absurd ((log_leaks_exactly FmtCfg.fixed s).mp h).1 (by decide)

/-! ### error TEXT (`Display`, `Debug`, the `source()` chain, the C API's JSON) and the C API's logger -/

/-- For every error of the three crates with a cause chain of ANY length: a token that carries secret bytes can occur in `{}` /
    `{:?}` of the error, in `{}` / `{:?}` of any error on its `source()` chain, or in the JSON of `askar_get_current_error`, only if
    it occurs in the MESSAGE of one of the links: the formatting code (kind text, "\nCaused by: ", the derived `Debug`) adds none. -/
theorem error_text_only_from_messages (c : List ErrLink) :
    ∀ t ∈ errTexts c ++ [errJson c], ∀ tok ∈ t, tok.isSecret = true → tok ∈ chainMessages c := by
  intro t hT tok ht hs
  simp only [List.mem_append, List.mem_singleton] at hT
  rcases hT with hT | rfl
  · exact SecretFmt.Lemmas.errTexts_secret c t hT tok ht hs
  · exact SecretFmt.Lemmas.errJson_secret c tok ht hs

/-- Hence: when every message of the chain is label text (string literals, algorithm / scheme / parameter names — every `err_msg!`
    site reached by the campaigns, and the foreign causes' own texts as observed), no rendering of the error carries a secret. -/
theorem error_text_clean (c : List ErrLink) (hm : ∀ tok ∈ chainMessages c, tok.isSecret = false) :
    ∀ t ∈ errTexts c ++ [errJson c], ∀ tok ∈ t, tok.isSecret = false := by
  intro t hT tok ht
  cases hs : tok.isSecret with
  | false => rfl
  | true =>
    have := hm tok (error_text_only_from_messages c t hT tok ht hs)
    rw [hs] at this; exact absurd this (by decide)

/-- sensitivity: a message that embeds secret bytes is shown by `Display`, even from the bottom of a chain -/
theorem error_message_secret_shows :
    ∃ c : List ErrLink, ∃ tok ∈ errDisplay c, tok.isSecret = true :=
  ⟨[⟨"Backend", none⟩, ⟨"Input", some [.text "bad key ", .raw [1, 2]]⟩], .raw [1, 2], by decide, rfl⟩

/-- `CustomLogger::log` hands the C callback the record's own target / message / module path / file and nothing else; a disabled
    logger hands over nothing. -/
theorem custom_logger_forwards_record_only (en : Bool) (r : LogRecord) (fs : List (List Tok)) (h : customLoggerForward en r = some fs) :
    ∀ f ∈ fs, ∀ tok ∈ f, tok ∈ r.target ∨ tok ∈ r.message ∨ (∃ m, r.modulePath = some m ∧ tok ∈ m) ∨ (∃ m, r.file = some m ∧ tok ∈ m) := by
  unfold customLoggerForward at h
  split at h
  · simp only [Option.some.injEq] at h
    subst h
    intro f hf tok ht
    simp only [List.mem_cons, List.not_mem_nil, or_false] at hf
    rcases hf with rfl | rfl | rfl | rfl
    · exact Or.inl ht
    · exact Or.inr (Or.inl ht)
    · cases hm : r.modulePath with
      | none => simp [hm] at ht
      | some m => exact Or.inr (Or.inr (Or.inl ⟨m, rfl, by simpa [hm] using ht⟩))
    · cases hm : r.file with
      | none => simp [hm] at ht
      | some m => exact Or.inr (Or.inr (Or.inr ⟨m, rfl, by simpa [hm] using ht⟩))
  · simp at h

theorem custom_logger_disabled_silent (r : LogRecord) : customLoggerForward false r = none := rfl

/-- the C API's own log sites are label sites: a capture through the C logger leaks exactly when one through `log::Log` does -/
theorem ffi_log_sites_add_nothing (cfg : FmtCfg) (sites : List LogSite) (cred : Bool) :
    (Scenario.mk (.ffiLabel :: sites) cred).leaks cfg = (Scenario.mk sites cred).leaks cfg := by
  simp [Scenario.leaks, LogSite.leaky]

/-- Observations (types outside the property's list): every one of them prints contents — by design. -/
theorem obs_types_print_contents (t : ObsTy) : obsLeaky t = true := by
  cases t <;> rfl

/-- `Debug` of a `Scan` (a handle on a running query) is a function of the page size, whatever the tree. -/
example (cfg : FmtCfg) : leaky cfg .scan = false := rfl

/-- non-vacuity of `error_text_clean`: a three-link chain as the run sees it (storage error without message ← sqlx ← SQLite) -/
example : ∀ tok ∈ chainMessages [⟨"Backend error", none⟩, ⟨"sqlx", some [.text "error returned from database: (code: 26) file is not a database"]⟩,
    ⟨"sqlite", some [.text "(code: 26) file is not a database"]⟩], tok.isSecret = false := by decide

/-- Dropping a heap-allocated key object leaves only zero bytes in its block. -/
theorem key_drop_wipes (k : KeyBlock) : ∀ c ∈ (dropKey k).cells, c = 0 :=
  SecretFmt.Lemmas.key_drop_wipes k

/-- non-vacuity: whatever the flags, most types are not leaky; on the pinned tree the six are, on the fixed tree none is -/
example (cfg : FmtCfg) : leaky cfg .secretBytes = false ∧ leaky cfg .passKey = false ∧ leaky cfg .keyEntry = false ∧
    leaky cfg (.error .wrongPassKey) = false := ⟨rfl, rfl, rfl, rfl⟩
example : leaky FmtCfg.pinned (.options true) = true ∧ leaky FmtCfg.fixed (.options true) = false ∧
    leaky FmtCfg.pinned (.localKey .bls12381g2) = true ∧ leaky FmtCfg.fixed (.localKey .bls12381g2) = false ∧
    leaky FmtCfg.pinned (.localKey .ed25519) = false := by decide

end Askar.C20
