/-
Helper lemmas and proofs for C09 (`Props/C09.lean`): the CBOR subset, Base58, and the storage scheme of
`Model/StorageScheme.lean`.  Core Lean only.
-/
import AskarModel.Model.StorageScheme

namespace Askar.Lemmas.StorageScheme
open Askar Askar.Crypto Askar.StorageScheme

/-! ### CBOR -/
namespace Cbor
open Askar.Crypto.Cbor

theorem length_beBytes (k n : Nat) : (beBytes k n).length = k := by
  induction k with
  | zero => rfl
  | succ k ih => simp [beBytes, ih]

theorem beNat_beBytes (k n : Nat) : beNat (beBytes k n) = n % 256 ^ k := by
  induction k with
  | zero => simp [beBytes, beNat, Nat.mod_one]
  | succ k ih =>
    have hb : (UInt8.ofNat (n / 256 ^ k % 256)).toNat = n / 256 ^ k % 256 := by
      rw [UInt8.toNat_ofNat']; exact Nat.mod_eq_of_lt (by omega)
    simp only [beBytes, beNat, length_beBytes, ih, hb]
    rw [Nat.mod_pow_succ (x := n) (b := 256) (k := k), Nat.mul_comm]
    omega

theorem beNat_beBytes_lt {k n : Nat} (h : n < 256 ^ k) : beNat (beBytes k n) = n := by
  rw [beNat_beBytes, Nat.mod_eq_of_lt h]

end Cbor
end Askar.Lemmas.StorageScheme
