/-
Model B of C08: `askar-storage/src/options.rs` — `Options::parse_uri` / `Options::into_uri`,
with the pieces of the `percent-encoding` 2.3 and `form_urlencoded` 1.2 crates they call.

Strings.  A Rust `str` *is* a byte sequence (with the invariant "valid UTF-8"); every operation of
the modelled code is a byte operation (`splitn` / `find` / `trim_start_matches` on ASCII patterns,
`percent_decode` on `as_bytes()`, `push_str`), and the only place where Unicode enters is
`decode_utf8_lossy`.  The model therefore works on `Str := List UInt8` exactly like the code does,
`lossy` is Rust's `String::from_utf8_lossy` (bytes → bytes, U+FFFD = EF BF BD inserted), and the
type invariant of `str` appears in the theorems as the explicit predicate `validUtf8`.
The `List Char` view (`Uri.utf8 : List Char → Str`, every image is `validUtf8`) is in
`Lemmas/Uri.lean`; the property theorems are stated for both views.

Slices: `&host[..path_pos]` / `&host[path_pos..]` cut at the index returned by `find('/')`, which
is in range and on a character boundary by construction — there is no panic outcome to model in
this file (unlike store_key.rs, see Model/Keys.lean).

`HashMap<String,String>`: modelled as an association list with distinct keys, newest binding
first (`mapInsert`); its *iteration order* in `into_uri` is unspecified in Rust, so `intoUriWith`
takes the enumeration `qs` explicitly and the theorems quantify over every permutation.
-/
import AskarModel.Base.Bytes
import AskarModel.Generated.Flags

namespace Askar.Uri

abbrev Str := List UInt8

/-- ASCII literal → bytes (only used with ASCII literals) -/
def lit (s : String) : Str := s.toList.map fun c => UInt8.ofNat c.toNat

/-- What `into_uri` writes between two `key=value` pairs of the query.  Read from the SOURCE on
    every run (tools/extract.py → `Generated.Flags.uriQueryAmpersand`): `&` when the loop over
    `self.query` pushes a separator, nothing otherwise (defect D1, fixed in 3030f32). -/
def queryPairSeparator : Str := if Askar.Generated.Flags.uriQueryAmpersand then [0x26] else []

/-! ### Rust string primitives -/

/-- `s.splitn(2, c)`: (first piece, rest after the first `c` if there is one) -/
def splitOnce (c : UInt8) : Str → Str × Option Str
  | [] => ([], none)
  | b :: bs =>
    if b = c then ([], some bs)
    else
      let r := splitOnce c bs
      (b :: r.1, r.2)

/-- all pieces of `s.split(c)` -/
def splitAll (c : UInt8) : Str → List Str
  | [] => [[]]
  | b :: bs =>
    if b = c then [] :: splitAll c bs
    else
      match splitAll c bs with
      | [] => [[b]]            -- unreachable: splitAll never returns []
      | p :: ps => (b :: p) :: ps

/-- `s.trim_start_matches("//")` : strips the pattern repeatedly -/
def trimSlashes : Str → Str
  | 0x2F :: 0x2F :: rest => trimSlashes rest
  | s => s

/-- `char::to_digit(16)` on a byte -/
def hexVal (b : UInt8) : Option Nat :=
  if 0x30 ≤ b ∧ b ≤ 0x39 then some (b.toNat - 0x30)
  else if 0x61 ≤ b ∧ b ≤ 0x66 then some (b.toNat - 0x57)
  else if 0x41 ≤ b ∧ b ≤ 0x46 then some (b.toNat - 0x37)
  else none

def isAlnum (b : UInt8) : Bool :=
  (0x30 ≤ b && b ≤ 0x39) || (0x41 ≤ b && b ≤ 0x5A) || (0x61 ≤ b && b ≤ 0x7A)

/-- upper-case hex digit, as `percent_encode_byte` writes it -/
def hexUp (n : Nat) : UInt8 := if n < 10 then UInt8.ofNat (0x30 + n) else UInt8.ofNat (0x37 + n)

/-- `percent_encode_byte(b)` = `%XX` -/
def pctByte (b : UInt8) : Str := [0x25, hexUp (b.toNat / 16), hexUp (b.toNat % 16)]

/-- `utf8_percent_encode(s, NON_ALPHANUMERIC)`: every byte that is not an ASCII letter or digit
    (in particular every non-ASCII byte) becomes `%XX` -/
def pctEncode (s : Str) : Str := s.flatMap fun b => if isAlnum b then [b] else pctByte b

/-- `percent_decode(bytes)`: `%` followed by two hex digits (either case) is one byte; anything
    else, including a dangling `%`, is copied -/
def pctDecode : Str → Str
  | [] => []
  | [b] => [b]
  | [b, c] => [b, c]
  | b :: h :: l :: rest =>
    if b = 0x25 then
      match hexVal h, hexVal l with
      | some x, some y => UInt8.ofNat (x * 16 + y) :: pctDecode rest
      | _, _ => b :: pctDecode (h :: l :: rest)
    else b :: pctDecode (h :: l :: rest)

/-! ### `String::from_utf8_lossy` (core::str::lossy::Utf8Chunks) -/

def isCont (b : UInt8) : Bool := 0x80 ≤ b && b ≤ 0xBF

/-- U+FFFD in UTF-8 -/
def replacement : Str := [0xEF, 0xBF, 0xBD]

/-- admissible second byte after lead `b0` of a 3-byte sequence (Unicode table 3-7) -/
def second3 (b0 b1 : UInt8) : Bool :=
  if b0 = 0xE0 then 0xA0 ≤ b1 && b1 ≤ 0xBF
  else if b0 = 0xED then 0x80 ≤ b1 && b1 ≤ 0x9F
  else 0x80 ≤ b1 && b1 ≤ 0xBF

/-- admissible second byte after lead `b0` of a 4-byte sequence -/
def second4 (b0 b1 : UInt8) : Bool :=
  if b0 = 0xF0 then 0x90 ≤ b1 && b1 ≤ 0xBF
  else if b0 = 0xF4 then 0x80 ≤ b1 && b1 ≤ 0x8F
  else 0x80 ≤ b1 && b1 ≤ 0xBF

/-- One step of `Utf8Chunks`: given the lead byte and the rest, `(n, ok)` = number of bytes after
    the lead that are consumed together with it, and whether they form a complete scalar.  An
    incomplete sequence is replaced by ONE U+FFFD covering the lead and the accepted continuation
    bytes ("maximal subpart"). -/
def lossyStep (b0 : UInt8) (rest : Str) : Nat × Bool :=
  if b0 < 0x80 then (0, true)
  else if 0xC2 ≤ b0 ∧ b0 ≤ 0xDF then
    match rest with
    | b1 :: _ => if isCont b1 then (1, true) else (0, false)
    | [] => (0, false)
  else if 0xE0 ≤ b0 ∧ b0 ≤ 0xEF then
    match rest with
    | b1 :: r1 =>
      if second3 b0 b1 then
        match r1 with
        | b2 :: _ => if isCont b2 then (2, true) else (1, false)
        | [] => (1, false)
      else (0, false)
    | [] => (0, false)
  else if 0xF0 ≤ b0 ∧ b0 ≤ 0xF4 then
    match rest with
    | b1 :: r1 =>
      if second4 b0 b1 then
        match r1 with
        | b2 :: r2 =>
          if isCont b2 then
            match r2 with
            | b3 :: _ => if isCont b3 then (3, true) else (2, false)
            | [] => (2, false)
          else (1, false)
        | [] => (1, false)
      else (0, false)
    | [] => (0, false)
  else (0, false)

/-- `String::from_utf8_lossy(bytes).into_bytes()`.  The first argument counts bytes that were
    already consumed together with the previous lead byte (keeps the recursion structural). -/
def lossyAux : Nat → Str → Str
  | _, [] => []
  | skip + 1, _ :: rest => lossyAux skip rest
  | 0, b0 :: rest =>
    let st := lossyStep b0 rest
    (if st.2 then b0 :: rest.take st.1 else replacement) ++ lossyAux st.1 rest

def lossy (s : Str) : Str := lossyAux 0 s

/-- Well-formed UTF-8 (Unicode 15 table 3-7), written independently of `lossy`:
    the type invariant of a Rust `str`. -/
def validUtf8 : Str → Bool
  | [] => true
  | b0 :: rest =>
    if b0 < 0x80 then validUtf8 rest
    else if 0xC2 ≤ b0 ∧ b0 ≤ 0xDF then
      match rest with
      | b1 :: r => isCont b1 && validUtf8 r
      | _ => false
    else if 0xE0 ≤ b0 ∧ b0 ≤ 0xEF then
      match rest with
      | b1 :: b2 :: r => second3 b0 b1 && isCont b2 && validUtf8 r
      | _ => false
    else if 0xF0 ≤ b0 ∧ b0 ≤ 0xF4 then
      match rest with
      | b1 :: b2 :: b3 :: r => second4 b0 b1 && isCont b2 && isCont b3 && validUtf8 r
      | _ => false
    else false

/-- options.rs `percent_decode(s)` = `percent_decode_str(s).decode_utf8_lossy()` -/
def dec (s : Str) : Str := lossy (pctDecode s)

/-! ### form_urlencoded -/

/-- `byte_serialized_unchanged` -/
def formUnchanged (b : UInt8) : Bool :=
  b = 0x2A || b = 0x2D || b = 0x2E || b = 0x5F || isAlnum b

/-- `form_urlencoded::byte_serialize(bytes)` concatenated -/
def formSerialize (s : Str) : Str :=
  s.flatMap fun b => if formUnchanged b then [b] else if b = 0x20 then [0x2B] else pctByte b

def replacePlus (s : Str) : Str := s.map fun b => if b = 0x2B then 0x20 else b

/-- form_urlencoded `decode` -/
def formDecode (s : Str) : Str := lossy (pctDecode (replacePlus s))

/-- `form_urlencoded::parse(query)` collected in order: split at `&`, skip empty pieces, split
    each piece at its first `=` -/
def formParse (q : Str) : List (Str × Str) :=
  ((splitAll 0x26 q).filter fun p => !p.isEmpty).map fun p =>
    let r := splitOnce 0x3D p
    (formDecode r.1, formDecode (r.2.getD []))

/-! ### Options -/

abbrev QueryMap := List (Str × Str)

/-- `HashMap::insert`: the new binding replaces an existing one for the same key -/
def mapInsert (m : QueryMap) (kv : Str × Str) : QueryMap := kv :: m.filter fun e => e.1 ≠ kv.1

def mapGet (m : QueryMap) (k : Str) : Option Str := (m.find? fun e => e.1 = k).map (·.2)

structure Options where
  scheme : Str := []
  user : Str := []
  password : Str := []
  host : Str := []
  path : Str := []
  query : QueryMap := []
  fragment : Str := []
  deriving DecidableEq, Repr, Inhabited

/-- `PartialEq` of `Options` as Rust computes it: component-wise, the query compared *as a map*
    (for association lists with distinct keys: equal up to order) -/
def Options.Equiv (a b : Options) : Prop :=
  a.scheme = b.scheme ∧ a.user = b.user ∧ a.password = b.password ∧ a.host = b.host ∧ a.path = b.path ∧
  a.fragment = b.fragment ∧ a.query.Perm b.query

/-- `scheme_and_remain`: raw scheme and the `host_and_query` remainder -/
def splitScheme (uri : Str) : Str × Str :=
  match splitOnce 0x3A uri with
  | (scheme, some remain) => if scheme.isEmpty then ([], uri) else (scheme, trimSlashes remain)
  | (_, none) => ([], uri)

/-- user, password, host, path out of the part before `?` -/
def parseAuthority (hp : Str) : Str × Str × Str × Str :=
  let up := splitOnce 0x40 hp
  let uph : Str × Str × Str :=
    match up.2 with
    | some host =>
      let upw := splitOnce 0x3A up.1
      (dec upw.1, dec (upw.2.getD []), host)
    | none => ([], [], up.1)
  -- `host.find('/')`
  let host := uph.2.2.takeWhile (· ≠ 0x2F)
  let path := uph.2.2.dropWhile (· ≠ 0x2F)
  (uph.1, uph.2.1, dec host, dec path)

def parseQuery : Option Str → QueryMap
  | some q => (formParse q).foldl mapInsert []
  | none => []

/-- `Options::parse_uri` (it cannot fail: the `Result` is always `Ok`) -/
def parseUri (uri : Str) : Options :=
  let fr := splitOnce 0x23 uri
  let sh := splitScheme fr.1
  let hq := splitOnce 0x3F sh.2
  let a := parseAuthority hq.1
  { scheme := dec sh.1, user := a.1, password := a.2.1, host := a.2.2.1, path := a.2.2.2,
    query := parseQuery hq.2, fragment := dec (fr.2.getD []) }

/-- the query text written for the enumeration `qs`, pairs separated by `sep` -/
def joinPairs (sep : Str) : List (Str × Str) → Str
  | [] => []
  | [kv] => formSerialize kv.1 ++ [0x3D] ++ formSerialize kv.2
  | kv :: rest => formSerialize kv.1 ++ [0x3D] ++ formSerialize kv.2 ++ sep ++ joinPairs sep rest

/-- `Options::into_uri` when the hash map enumerates its entries in the order `qs`,
    with `sep` written between consecutive pairs. -/
def intoUriSep (sep : Str) (qs : List (Str × Str)) (o : Options) : Str :=
  (if o.scheme.isEmpty then [] else pctEncode o.scheme ++ [0x3A, 0x2F, 0x2F]) ++
  (if o.user.isEmpty && o.password.isEmpty then []
   else pctEncode o.user ++ [0x3A] ++ pctEncode o.password ++ [0x40]) ++
  o.host ++ o.path ++
  (if qs.isEmpty then [] else 0x3F :: joinPairs sep qs) ++
  (if o.fragment.isEmpty then [] else 0x23 :: pctEncode o.fragment)

/-- `Options::into_uri` of the current tree for the enumeration order `qs` -/
def intoUriWith (qs : List (Str × Str)) (o : Options) : Str := intoUriSep queryPairSeparator qs o

/-- one admissible run: the entries in the order the association list holds them -/
def intoUri (o : Options) : Str := intoUriWith o.query o

/-! ### The well-formedness predicate of the round-trip theorem -/

/-- a `%` followed by two hex digits occurs in `s` (such a triple is altered by `percent_decode`) -/
def hasEscape : Str → Bool
  | [] => false
  | b :: rest =>
    (match rest with
     | h :: l :: _ => b = 0x25 && (hexVal h).isSome && (hexVal l).isSome
     | _ => false) || hasEscape rest

def startsWith2Slash : Str → Bool
  | 0x2F :: 0x2F :: _ => true
  | _ => false

def noUserInfo (o : Options) : Bool := o.user.isEmpty && o.password.isEmpty

/-- Explicit, decidable domain of `uri_roundtrip`.  Each clause is a feature of the URI *syntax*
    that `into_uri` writes (host and path are written verbatim, not escaped):
    * every component is a Rust `str` (valid UTF-8), query keys are distinct (it is a map);
    * host: no `/ ? #`, no `%hh` triple; path: empty or starts with `/`, no `? #`, no `%hh` triple;
    * without user-info, host+path contain no `@`;
    * with an empty scheme: a user-info must have an empty user (`:pw@…`), and without user-info
      host+path contain no `:` unless the host starts with one;
    * with a scheme, no user-info and an empty host, the path does not start with `//`
      (`trim_start_matches("//")` strips repeatedly). -/
def Options.WF (o : Options) : Bool :=
  validUtf8 o.scheme && validUtf8 o.user && validUtf8 o.password && validUtf8 o.host &&
  validUtf8 o.path && validUtf8 o.fragment &&
  o.query.all (fun kv => validUtf8 kv.1 && validUtf8 kv.2) &&
  decide (o.query.map (·.1)).Nodup &&
  !o.host.contains 0x2F && !o.host.contains 0x3F && !o.host.contains 0x23 && !hasEscape o.host &&
  (o.path.isEmpty || o.path.head? = some 0x2F) &&
  !o.path.contains 0x3F && !o.path.contains 0x23 && !hasEscape o.path &&
  (!noUserInfo o || !(o.host ++ o.path).contains 0x40) &&
  (!o.scheme.isEmpty ||
     (if noUserInfo o then !(o.host ++ o.path).contains 0x3A || o.host.head? = some 0x3A
      else o.user.isEmpty)) &&
  (o.scheme.isEmpty || !noUserInfo o || !o.host.isEmpty || !startsWith2Slash o.path)

/-! ### the `List Char` view of a Rust string -/


/-- UTF-8 encoding of one Unicode scalar value (RFC 3629), arithmetic form -/
def encChar (c : Char) : Str :=
  let v := c.toNat
  if v < 0x80 then [UInt8.ofNat v]
  else if v < 0x800 then [UInt8.ofNat (0xC0 + v / 64), UInt8.ofNat (0x80 + v % 64)]
  else if v < 0x10000 then [UInt8.ofNat (0xE0 + v / 4096), UInt8.ofNat (0x80 + v / 64 % 64), UInt8.ofNat (0x80 + v % 64)]
  else [UInt8.ofNat (0xF0 + v / 262144), UInt8.ofNat (0x80 + v / 4096 % 64), UInt8.ofNat (0x80 + v / 64 % 64),
        UInt8.ofNat (0x80 + v % 64)]

/-- the bytes of a Rust `String` holding the characters `cs` -/
def utf8 (cs : List Char) : Str := cs.flatMap encChar

example : encChar 'é' = String.utf8EncodeChar 'é' := by decide
example : encChar '€' = String.utf8EncodeChar '€' := by decide
example : encChar '𝄞' = String.utf8EncodeChar '𝄞' := by decide


end Askar.Uri
