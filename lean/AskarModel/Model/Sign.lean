/-
C13 — model of signature creation / verification dispatch on the tree in /repo:
  askar-crypto/src/alg/mod.rs      `normalize_alg`, `NormalizedAlg::new`, `NormalizedIter::next`
  askar-crypto/src/buffer/writer.rs `Writer<[u8]>::buffer_write`
  askar-crypto/src/sign.rs         `SignatureType::from_str`, `signature_length`
  askar-crypto/src/alg/{ed25519,p256,p384,k256}.rs  `sign`, `verify_signature`, `KeySign::write_signature`, `KeySigVerify::verify_signature`
  askar-crypto/src/alg/any.rs      `KeySign` / `KeySigVerify for AnyKey` (`match_key_alg!` over Ed25519, K256, P256, P256Hardware, P384)
  src/kms/local_key.rs             `LocalKey::sign_message`, `LocalKey::verify_signature`
  src/error.rs                     `From<askar_crypto::Error> for Error` (error-kind mapping)

What is modelled: every branch of askar's OWN code on these paths — the order of evaluation (the signature-type string is parsed
before the key algorithm is looked at), the bounded 64-byte normalisation buffer, the type/algorithm dispatch table, the
missing-secret branches (a different error kind for Ed25519 than for the three ECDSA curves), the exact-length parse of the
signature returning `false`, and every place where the Rust can panic (`unwrap`, slice bounds) as an explicit `Res.panic`.

What is NOT modelled (third-party crates; parameters of the model): the curve mathematics.  A `SigScheme` gives, per algorithm,
`sign`, `verify`, `pubOf`, `validPub` and the laws the code relies on.  `verify` stands for "parse the fixed-width signature
(ed25519: `Signature::from_bytes`; ECDSA: `Signature::try_from`, which also rejects r, s ∉ [1, n-1]) and check the equation"
(ed25519: `verify_strict`).  `sign` stands for RFC 8032 / RFC 6979 deterministic signing.

Text: a signature-type string (`&str`) is a `List Char`; the normalisation buffer holds its UTF-8 bytes (`String.utf8EncodeChar`,
core Lean's RFC 3629 encoder), the 64-byte bound counts bytes, and the comparison with `"eddsa"` etc. is bytewise, as in the Rust.
-/
import AskarModel.Base.Bytes

namespace Askar.Sign

/-! ## outcomes -/

/-- `askar_crypto::ErrorKind` values reachable on these paths -/
inductive CErr
  | exceededBuffer | missingSecretKey | unsupported
  deriving DecidableEq, Repr, Inhabited

/-- `aries_askar::ErrorKind` values reachable on these paths -/
inductive ErrKind
  | input | unexpected | unsupported
  deriving DecidableEq, Repr, Inhabited

def ErrKind.name : ErrKind → String
  | .input => "Input"
  | .unexpected => "Unexpected"
  | .unsupported => "Unsupported"

/-- src/error.rs `impl From<CryptoError> for Error` restricted to the kinds above -/
def CErr.toKind : CErr → ErrKind
  | .exceededBuffer => .unexpected
  | .missingSecretKey => .input
  | .unsupported => .unsupported

/-- result of a library call: a value, an error of type `ε`, or a Rust panic (with the site) -/
inductive Res (ε α : Type)
  | ok (a : α)
  | err (e : ε)
  | panic (site : String)
  deriving Repr, DecidableEq

namespace Res
variable {ε ε' α β : Type}

def bind (r : Res ε α) (f : α → Res ε β) : Res ε β :=
  match r with
  | .ok a => f a
  | .err e => .err e
  | .panic s => .panic s

instance : Monad (Res ε) where
  pure := .ok
  bind := Res.bind

/-- `?` across the crate boundary (`From<CryptoError>`) -/
def mapErr (f : ε → ε') : Res ε α → Res ε' α
  | .ok a => .ok a
  | .err e => .err (f e)
  | .panic s => .panic s

def isPanic : Res ε α → Bool
  | .panic _ => true
  | _ => false

def isErr : Res ε α → Bool
  | .err _ => true
  | _ => false

@[simp] theorem bind_ok (a : α) (f : α → Res ε β) : (Res.ok a >>= f) = f a := rfl
@[simp] theorem bind_err (e : ε) (f : α → Res ε β) : ((Res.err e : Res ε α) >>= f) = .err e := rfl
@[simp] theorem bind_panic (s : String) (f : α → Res ε β) : ((Res.panic s : Res ε α) >>= f) = .panic s := rfl
@[simp] theorem pure_eq (a : α) : (pure a : Res ε α) = .ok a := rfl
end Res

/-! ## `normalize_alg` -/

/-- capacity of `NormalizedAlg::buf` -/
def normCap : Nat := 64

/-- `str::as_bytes` / `char::encode_utf8`: UTF-8 of a character list -/
def encode (cs : List Char) : Bytes := cs.flatMap String.utf8EncodeChar

/-- `Writer<[u8]>` over a slice of `total` bytes; `written` = `inner[..pos]`, so `pos = written.length` -/
structure Writer where
  total : Nat
  written : Bytes
  deriving Repr, DecidableEq

def Writer.pos (w : Writer) : Nat := w.written.length

/-- `buffer_write(data)`:
    `end = pos + data.len(); if end > total { Err(ExceededBuffer) }; inner[pos..end].copy_from_slice(data); pos += data.len()` -/
def Writer.write (w : Writer) (data : Bytes) : Res CErr Writer :=
  let end_ := w.pos + data.length
  if end_ > w.total then .err .exceededBuffer
  else if w.pos ≤ end_ ∧ end_ ≤ w.total then            -- bounds check of `self.inner[self.pos..end]`
    .ok { w with written := w.written ++ data }
  else .panic "writer.rs: inner[pos..end]"

/-- `c != '-' && c != '_' && c != ' '` fails -/
def isSep (c : Char) : Bool := c == '-' || c == '_' || c == ' '

/-- the loop of `NormalizedAlg::new` fused with `NormalizedIter::next` (skip separators, `to_ascii_lowercase`, encode, write; the
    first write that does not fit ends the loop with the error) -/
def fill (w : Writer) : List Char → Res CErr Writer
  | [] => .ok w
  | c :: rest =>
    if isSep c then fill w rest
    else (w.write (String.utf8EncodeChar c.toLower)).bind fun w' => fill w' rest

/-- `NormalizedIter::next` as written: `while let Some(c) = chars.next() { if c != '-' && c != '_' && c != ' ' { return Some(lower(c)) } } None`;
    the second component is the iterator state after the call -/
def NormalizedIter.next : List Char → Option (Char × List Char)
  | [] => none
  | c :: rest => if c ≠ '-' ∧ c ≠ '_' ∧ c ≠ ' ' then some (c.toLower, rest) else NormalizedIter.next rest

theorem NormalizedIter.next_shorter : ∀ {cs : List Char} {c : Char} {rest : List Char},
    NormalizedIter.next cs = some (c, rest) → rest.length < cs.length
  | [], _, _, h => by cases h
  | x :: xs, c, rest, h => by
    unfold NormalizedIter.next at h
    split at h
    · cases h; simp
    · have := NormalizedIter.next_shorter h
      simp; omega

/-- the `for c in NormalizedIter::new(val)` loop of `NormalizedAlg::new` as written -/
def fillIter (w : Writer) (cs : List Char) : Res CErr Writer :=
  match _h : NormalizedIter.next cs with
  | none => .ok w
  | some (c, rest) => (w.write (String.utf8EncodeChar c)).bind fun w' => fillIter w' rest
termination_by cs.length
decreasing_by exact NormalizedIter.next_shorter _h

/-- `NormalizedAlg { len, buf }`, `buf : [u8; 64]` zero-initialised -/
structure NormalizedAlg where
  len : Nat
  buf : Bytes
  deriving Repr, DecidableEq

/-- `NormalizedAlg::new` -/
def normalizeAlg (s : List Char) : Res CErr NormalizedAlg :=
  (fill { total := normCap, written := [] } s).bind fun w =>
    .ok { len := w.pos, buf := w.written ++ List.replicate (normCap - w.pos) 0 }

/-- `NormalizedAlg::new` with the iterator-driven loop (`Lemmas/Sign.lean`: equal to `normalizeAlg`) -/
def normalizeAlgIter (s : List Char) : Res CErr NormalizedAlg :=
  (fillIter { total := normCap, written := [] } s).bind fun w =>
    .ok { len := w.pos, buf := w.written ++ List.replicate (normCap - w.pos) 0 }

/-- `as_ref`: `&self.buf[..self.len]` -/
def NormalizedAlg.asRef (n : NormalizedAlg) : Res CErr Bytes :=
  if n.len ≤ n.buf.length then .ok (n.buf.take n.len) else .panic "alg/mod.rs: buf[..len]"

/-! ## `SignatureType` -/

inductive SignatureType
  | eddsa | es256 | es256k | es384
  deriving DecidableEq, Repr, Inhabited

/-- the name each arm of `from_str` compares with -/
def SignatureType.canonical : SignatureType → List Char
  | .eddsa => "eddsa".toList
  | .es256 => "es256".toList
  | .es256k => "es256k".toList
  | .es384 => "es384".toList

/-- `SignatureType::signature_length` -/
def SignatureType.signatureLength : SignatureType → Nat
  | .eddsa | .es256 | .es256k => 64
  | .es384 => 96

/-- `impl FromStr for SignatureType` (`a == "eddsa"` is `a.as_ref() == "eddsa".as_ref()`, bytewise) -/
def SignatureType.fromStr (s : List Char) : Res CErr SignatureType :=
  (normalizeAlg s).bind fun n => n.asRef.bind fun a =>
    if a = encode "eddsa".toList then .ok .eddsa
    else if a = encode "es256".toList then .ok .es256
    else if a = encode "es256k".toList then .ok .es256k
    else if a = encode "es384".toList then .ok .es384
    else .err .unsupported

/-- `sig_type.map(SignatureType::from_str).transpose()?` -/
def parseSigType : Option (List Char) → Res CErr (Option SignatureType)
  | none => .ok none
  | some s => (SignatureType.fromStr s).bind fun t => .ok (some t)

/-! ## the external signature schemes (parameters) -/

/-- one signature algorithm as askar sees it through `ed25519-dalek` / `p256` / `p384` / `k256` -/
structure SigScheme where
  /-- width of the fixed-size signature encoding (`[u8; 64]`, `[u8; 96]`) -/
  sigLen : Nat
  /-- secret key bytes ↦ public key bytes -/
  pubOf : Bytes → Bytes
  /-- the stored public bytes decode (`VerifyingKey::from_bytes` succeeds) -/
  validPub : Bytes → Bool
  sign : Bytes → Bytes → Bytes
  /-- `verify pk msg sig` for a `sig` of length `sigLen` -/
  verify : Bytes → Bytes → Bytes → Bool
  /-- type-level fact in the Rust (`GenericArray<u8, U64>` etc.) -/
  sign_len : ∀ sk m, (sign sk m).length = sigLen
  /-- a public key derived from a secret key decodes -/
  pub_valid : ∀ sk, validPub (pubOf sk) = true
  /-- correctness of the scheme -/
  verify_sign : ∀ sk m, verify (pubOf sk) m (sign sk m) = true

/-- the four algorithms that can sign -/
inductive SigAlg
  | ed25519 | k256 | p256 | p384
  deriving DecidableEq, Repr, Inhabited

/-- the signature type an algorithm produces (`None | Some(<this>)` in its `write_signature`) -/
def SigAlg.native : SigAlg → SignatureType
  | .ed25519 => .eddsa
  | .k256 => .es256k
  | .p256 => .es256
  | .p384 => .es384

structure Schemes where
  ed25519 : SigScheme
  k256 : SigScheme
  p256 : SigScheme
  p384 : SigScheme

def Schemes.scheme (Sch : Schemes) : SigAlg → SigScheme
  | .ed25519 => Sch.ed25519
  | .k256 => Sch.k256
  | .p256 => Sch.p256
  | .p384 => Sch.p384

/-! ## keys -/

/-- `askar_crypto::alg::KeyAlg` (software backend; `p256_hardware` is not compiled in) -/
inductive KeyAlg
  | a128Gcm | a256Gcm | a128CbcHs256 | a256CbcHs512 | a128Kw | a256Kw
  | blsG1 | blsG2 | blsG1G2 | c20p | xc20p
  | ed25519 | x25519 | k256 | p256 | p384
  deriving DecidableEq, Repr, Inhabited

def KeyAlg.all : List KeyAlg :=
  [.a128Gcm, .a256Gcm, .a128CbcHs256, .a256CbcHs512, .a128Kw, .a256Kw, .blsG1, .blsG2, .blsG1G2, .c20p, .xc20p,
   .ed25519, .x25519, .k256, .p256, .p384]

/-- `KeyAlg::as_str` -/
def KeyAlg.name : KeyAlg → String
  | .a128Gcm => "a128gcm" | .a256Gcm => "a256gcm" | .a128CbcHs256 => "a128cbchs256" | .a256CbcHs512 => "a256cbchs512"
  | .a128Kw => "a128kw" | .a256Kw => "a256kw" | .blsG1 => "bls12381g1" | .blsG2 => "bls12381g2" | .blsG1G2 => "bls12381g1g2"
  | .c20p => "c20p" | .xc20p => "xc20p" | .ed25519 => "ed25519" | .x25519 => "x25519" | .k256 => "k256" | .p256 => "p256"
  | .p384 => "p384"

/-- which arm of `match_key_alg!{ Ed25519, K256, P256, P256Hardware, P384 }` fires -/
def KeyAlg.sigAlg? : KeyAlg → Option SigAlg
  | .ed25519 => some .ed25519
  | .k256 => some .k256
  | .p256 => some .p256
  | .p384 => some .p384
  | _ => none

/-- a key as far as signing is concerned: algorithm, optional secret, the stored public bytes -/
structure Key where
  alg : KeyAlg
  secret : Option Bytes
  pub : Bytes
  deriving DecidableEq, Repr

/-- `from_secret_bytes` / `generate` / `from_seed` / JWK import with `d`: the public part is derived from the secret
    (length and range checks of the import are C14's subject) -/
def Key.ofSecret (Sch : Schemes) (a : SigAlg) (alg : KeyAlg) (sk : Bytes) : Key :=
  { alg := alg, secret := some sk, pub := (Sch.scheme a).pubOf sk }

/-- `from_public_bytes` / JWK import without `d`: rejected unless the bytes decode -/
def Key.ofPublic (Sch : Schemes) (a : SigAlg) (alg : KeyAlg) (pk : Bytes) : Option Key :=
  if (Sch.scheme a).validPub pk then some { alg := alg, secret := none, pub := pk } else none

/-- `from_public_bytes(to_public_bytes(k))` -/
def Key.toPublic (k : Key) : Key := { k with secret := none }

/-- the invariant every constructor establishes: the stored public bytes decode and belong to the secret -/
def Key.WF (Sch : Schemes) (k : Key) : Prop :=
  match k.alg.sigAlg? with
  | none => True
  | some a => (Sch.scheme a).validPub k.pub = true ∧ ∀ sk, k.secret = some sk → k.pub = (Sch.scheme a).pubOf sk

/-! ## per-algorithm `KeySign` / `KeySigVerify` -/

/-- `impl KeySign for Ed25519KeyPair` (`out` is a `Vec<u8>`: `buffer_write` cannot fail).
    A missing secret is `MissingSecretKey` here and `Unsupported` for the ECDSA curves. -/
def ed25519WriteSignature (S : SigScheme) (k : Key) (m : Bytes) (t : Option SignatureType) : Res CErr Bytes :=
  match t with
  | none | some .eddsa =>
    match k.secret with
    | some sk => .ok (S.sign sk m)
    | none => .err .missingSecretKey
  | _ => .err .unsupported

/-- `Ed25519KeyPair::verify_signature`: `Signature::try_from` is a pure length test; then `VerifyingKey::from_bytes(..).unwrap()` -/
def ed25519Verify (S : SigScheme) (k : Key) (m sig : Bytes) : Res CErr Bool :=
  if sig.length = S.sigLen then
    if S.validPub k.pub then .ok (S.verify k.pub m sig)
    else .panic "ed25519.rs: VerifyingKey::from_bytes(&self.public).unwrap()"
  else .ok false

def ed25519VerifySignature (S : SigScheme) (k : Key) (m sig : Bytes) (t : Option SignatureType) : Res CErr Bool :=
  match t with
  | none | some .eddsa => ed25519Verify S k m sig
  | _ => .err .unsupported

/-- `P256KeyPair::sign` etc.: `sig.to_bytes().try_into().unwrap()` / `copy_from_slice` into `[u8; N]` -/
def ecSign (S : SigScheme) (k : Key) (m : Bytes) : Res CErr (Option Bytes) :=
  match k.secret with
  | some sk =>
    let sig := S.sign sk m
    if sig.length = S.sigLen then .ok (some sig) else .panic "p256.rs/p384.rs/k256.rs: signature into [u8; N]"
  | none => .ok none

/-- `impl KeySign for {P256,P384,K256}KeyPair`, `native` = ES256 / ES384 / ES256K -/
def ecWriteSignature (S : SigScheme) (native : SignatureType) (k : Key) (m : Bytes) (t : Option SignatureType) : Res CErr Bytes :=
  if t = none ∨ t = some native then
    (ecSign S k m).bind fun
      | some sig => .ok sig
      | none => .err .unsupported            -- "Undefined secret key"
  else .err .unsupported                      -- "Unsupported signature type"

/-- `{P256,P384,K256}KeyPair::verify_signature`: the public key is a decoded point already -/
def ecVerify (S : SigScheme) (k : Key) (m sig : Bytes) : Res CErr Bool :=
  if sig.length = S.sigLen then .ok (S.verify k.pub m sig) else .ok false

def ecVerifySignature (S : SigScheme) (native : SignatureType) (k : Key) (m sig : Bytes) (t : Option SignatureType) : Res CErr Bool :=
  if t = none ∨ t = some native then ecVerify S k m sig else .err .unsupported

/-! ## `AnyKey` -/

/-- `impl KeySign for AnyKey` -/
def anyWriteSignature (Sch : Schemes) (k : Key) (m : Bytes) (t : Option SignatureType) : Res CErr Bytes :=
  match k.alg.sigAlg? with
  | some .ed25519 => ed25519WriteSignature Sch.ed25519 k m t
  | some .k256 => ecWriteSignature Sch.k256 .es256k k m t
  | some .p256 => ecWriteSignature Sch.p256 .es256 k m t
  | some .p384 => ecWriteSignature Sch.p384 .es384 k m t
  | none => .err .unsupported                 -- "Signing is not supported for this key type"

/-- `impl KeySigVerify for AnyKey` -/
def anyVerifySignature (Sch : Schemes) (k : Key) (m sig : Bytes) (t : Option SignatureType) : Res CErr Bool :=
  match k.alg.sigAlg? with
  | some .ed25519 => ed25519VerifySignature Sch.ed25519 k m sig t
  | some .k256 => ecVerifySignature Sch.k256 .es256k k m sig t
  | some .p256 => ecVerifySignature Sch.p256 .es256 k m sig t
  | some .p384 => ecVerifySignature Sch.p384 .es384 k m sig t
  | none => .err .unsupported                 -- "Signature verification is not supported for this key type"

/-! ## `LocalKey` -/

/-- `LocalKey::sign_message`: the type string is parsed first (argument evaluation), then the key is dispatched -/
def signMessage (Sch : Schemes) (k : Key) (m : Bytes) (t : Option (List Char)) : Res ErrKind Bytes :=
  ((parseSigType t).bind fun st => anyWriteSignature Sch k m st).mapErr CErr.toKind

/-- `LocalKey::verify_signature` -/
def verifySignature (Sch : Schemes) (k : Key) (m sig : Bytes) (t : Option (List Char)) : Res ErrKind Bool :=
  ((parseSigType t).bind fun st => anyVerifySignature Sch k m sig st).mapErr CErr.toKind

/-! ## an executable instance (driver, non-vacuity examples)

A toy scheme over byte strings: the signature is an expansion of a 64-bit FNV-1a digest of (tag, public key, message); `verify`
recomputes it.  With `malleable` the second half of the signature may also be presented complemented — the counterpart of ECDSA's
(r, n − s) for the curves whose verifier accepts a high s. -/

namespace Toy

def fnv (data : Bytes) : UInt64 :=
  data.foldl (fun h b => (h ^^^ b.toUInt64) * 0x100000001b3) 0xcbf29ce484222325

def mix (z0 : UInt64) : UInt64 :=
  let z := z0 + 0x9E3779B97F4A7C15
  let z := (z ^^^ (z >>> 30)) * 0xBF58476D1CE4E5B9
  let z := (z ^^^ (z >>> 27)) * 0x94D049BB133111EB
  z ^^^ (z >>> 31)

/-- `n` bytes; the first eight are the digest itself, so different digests give different strings (for n ≥ 8) -/
def expand (n : Nat) (h : UInt64) : Bytes :=
  (List.range n).map fun i =>
    if i < 8 then (h >>> (UInt64.ofNat (8 * i))).toUInt8 else (mix (h + UInt64.ofNat i)).toUInt8

def digest (tag : Bytes) (pk m : Bytes) : UInt64 :=
  fnv (tag ++ Bytes.be32 pk.length ++ pk ++ Bytes.be32 m.length ++ m)

def negS (s : Bytes) : Bytes :=
  s.take (s.length / 2) ++ (s.drop (s.length / 2)).map fun b => 255 - b

def pubOf (sk : Bytes) : Bytes := 0x50 :: sk

def scheme (tag : Bytes) (sigLen : Nat) (malleable : Bool) : SigScheme where
  sigLen := sigLen
  pubOf := pubOf
  validPub := fun pk => pk.head? == some 0x50
  sign := fun sk m => expand sigLen (digest tag (pubOf sk) m)
  verify := fun pk m s =>
    let good := expand sigLen (digest tag pk m)
    s == good || (malleable && negS s == good)
  sign_len := by intro sk m; simp [expand]
  pub_valid := by intro sk; simp [pubOf]
  verify_sign := by intro sk m; simp

/-- calibrated against the crates: `p256` / `p384` accept a high s, `k256` and `ed25519-dalek` (strict) do not -/
def schemes : Schemes where
  ed25519 := scheme (utf8 "ed25519") 64 false
  k256 := scheme (utf8 "k256") 64 false
  p256 := scheme (utf8 "p256") 64 true
  p384 := scheme (utf8 "p384") 96 true

end Toy

end Askar.Sign
