/- Driver for `kind = "c03"` cases: the corruption campaign, judged by the logical model `Model/Tamper.lean`.
   Case format: see `harness/src/c03.rs`. -/
import Driver.Common
import AskarModel.Model.Tamper

open Lean

namespace Driver.C03
open Askar Askar.Tamper
open Askar.Decrypt (EK Res)

/-- store key of the harness (`RAW_KEY`) and "another well-formed key" -/
def rightKey : Nat := 1
def otherKey : Nat := 2

/-- length of a wrapped profile key: nonce 12 + CBOR 235 (map header 1, "ver":"1" 6, six × (4-byte name + 34-byte string)) + tag 16 -/
def wrappedLen : Nat := 12 + (1 + 6 + 6 * (4 + 34)) + 16

def bytesToString (b : Bytes) : String :=
  match String.fromUTF8? ⟨b.toArray⟩ with
  | some s => s
  | none => "<non-utf8:" ++ Bytes.toHex b ++ ">"

def parseTag (j : Json) : Tamper.Tag :=
  match j with
  | .arr a =>
    let pl := match a[0]? with | some v => (v.getInt?.toOption.getD 0) != 0 | none => false
    ⟨pl, utf8 (asStr (a[1]?.getD .null)), utf8 (asStr (a[2]?.getD .null))⟩
  | _ => ⟨false, [], []⟩

def parseRec (j : Json) : RecSpec :=
  ⟨nat! j "k", utf8 (str! j "c"), utf8 (str! j "n"), value! j "v", (arr! j "t").map parseTag⟩

def parseProfile (j : Json) : ProfSpec := ⟨str! j "name", (arr! j "recs").map parseRec⟩

def tagLt (a b : Tamper.Tag) : Bool :=
  if a.plaintext != b.plaintext then !a.plaintext && b.plaintext
  else if a.name != b.name then Bytes.lt a.name b.name
  else Bytes.lt a.value b.value

def insertSorted {α} (lt : α → α → Bool) (x : α) : List α → List α
  | [] => [x]
  | y :: ys => if lt y x then y :: insertSorted lt x ys else x :: y :: ys

def sortBy {α} (lt : α → α → Bool) (l : List α) : List α := l.foldr (insertSorted lt) []

def jtag (t : Tamper.Tag) : Json :=
  .arr #[jnat (if t.plaintext then 1 else 0), .str (bytesToString t.name), .str (bytesToString t.value)]

def jentry (e : Entry) : Json :=
  Json.mkObj [("k", jnat e.kind), ("c", .str (bytesToString e.cat)), ("n", .str (bytesToString e.name)), ("v", jvalue e.value),
    ("t", .arr ((sortBy tagLt e.tags).map jtag).toArray)]

def entryLt (a b : Entry) : Bool :=
  if a.kind != b.kind then a.kind < b.kind
  else if a.cat != b.cat then Bytes.lt a.cat b.cat
  else Bytes.lt a.name b.name

def jek (e : EK) : Json := jerr e.name

def jres {α} (f : α → Json) : Res α → Json
  | .ok a => f a
  | .err e => jek e
  | .panic => .str "panic"

def janswer : Answer → Json
  | .entry none => .null
  | .entry (some e) => jentry e
  | .entries es => .arr ((sortBy entryLt es).map jentry).toArray
  | .count n => jnat n

def catOpt (j : Json) : Option Bytes := (strOpt j "c").map utf8

def parseRead (j : Json) : Read :=
  match str! j "r" with
  | "fetch" => .fetch (nat! j "k") (utf8 (str! j "c")) (utf8 (str! j "n"))
  | "count" => .count none (catOpt j)
  | _ => .scan none (catOpt j)

/-- index of record `r` of profile `p` in the item list of `store` (insertion order, profile by profile) -/
def rowIndex (ps : List ProfSpec) (p r : Nat) : Nat := ((ps.take p).map (·.recs.length)).foldl (· + ·) 0 + r

def colOf (col : String) (t : Nat) : Option Col :=
  match col with
  | "category" => some .category
  | "name" => some .name
  | "value" => some .value
  | "tag_name" => some (.tagName t)
  | "tag_value" => some (.tagValue t)
  | _ => none

/-- the logical effect of a byte-level mutation of a cell holding `len0` bytes: `none` = bytes unchanged -/
def garbageOf (m : Json) (len0 : Nat) : Option (Option Nat) :=
  if (getD? m "flip").isSome then some (some len0)                       -- at least one bit differs
  else match natOpt m "trunc" with
    | some l => some (if l = len0 then none else some l)
    | none =>
      match strOpt m "extend" with
      | some h => let k := h.length / 2; some (if k = 0 then none else some (len0 + k))
      | none => if (getD? m "empty").isSome then some (some 0) else none

def runReads (db : Db) (profile : String) (reads : List Read) : Json :=
  .arr ((reads.map fun r => jres janswer (read db rightKey profile r)).toArray)

def runOpen (db : Db) (ps : List ProfSpec) (reads : List Read) (how : String) : Json :=
  let dflt := (ps.head?.map (·.name)).getD ""
  let (method, pass) : Option Method × Pass := match how with
    | "wrong_key" => (some .raw, .key otherKey)
    | "empty_key" => (some .raw, .empty)
    | "bad_format" => (some .raw, .malformed)
    | "short_key" => (some .raw, .wrongLength)
    | "wrong_method_kdf" => (some .kdf, .key rightKey)
    | "wrong_method_none" => (some .unprotected, .key rightKey)
    | "no_method" => (none, .key rightKey)
    | _ => (none, .key otherKey)
  match openWith Decrypt.unwrapChecksLength db method pass dflt with
  | .ok _ => Json.mkObj [("open", .str "ok"), ("res", runReads db dflt reads)]
  | .err e => Json.mkObj [("open", jek e)]
  | .panic => Json.mkObj [("open", .str "panic")]

def runOp (ps : List ProfSpec) (db0 : Db) (reads : List Read) (op : Json) : Json :=
  match strOpt op "open" with
  | some how => runOpen db0 ps reads how
  | none =>
    let col := str! op "col"
    let p := nat! op "p"
    let m := (getD? op "mut").getD .null
    let dflt := (ps.head?.map (·.name)).getD ""
    let pname := ((ps[p]?).map (·.name)).getD ""
    -- the tampered database and the original length of the cell
    let tampered : Option (Nat × Db) :=
      if col = "profile_key" then
        match db0.profiles[p]? with
        | none => none
        | some _ =>
          match getD? m "subst" with
          | some s => (db0.profiles[nat! s "p"]?).map fun q => (wrappedLen, tamperProfile db0 p q.key)
          | none =>
            match garbageOf m wrappedLen with
            | some (some l) => some (wrappedLen, tamperProfile db0 p (.garbage l))
            | some none => some (wrappedLen, db0)
            | none => none
      else
        match colOf col (nat! op "t") with
        | none => none
        | some c =>
          let i := rowIndex ps p (nat! op "r")
          match (db0.items[i]?).bind (·.get? c) with
          | none => none
          | some ct0 =>
            match getD? m "subst" with
            | some s =>
              let j := rowIndex ps (nat! s "p") (nat! s "r")
              let c2 := (colOf col (nat! s "t")).getD c
              ((db0.items[j]?).bind (·.get? c2)).map fun x => (ct0.len, tamperItem db0 i c x)
            | none =>
              match garbageOf m ct0.len with
              | some (some l) => some (ct0.len, tamperItem db0 i c (.garbage l))
              | some none => some (ct0.len, db0)
              | none => none
    match tampered with
    | none => jerr "model: no such cell or mutation"
    | some (len0, db) =>
      if violatesUnique db then Json.mkObj [("skip", .str "unique")] else
      -- the handle is opened on the default profile first (`open_db`), then the reads run on the op's profile
      match openWith Decrypt.unwrapChecksLength db (some .raw) (.key rightKey) dflt with
      | .err e => Json.mkObj [("len", jnat len0), ("open", jek e)]
      | .panic => Json.mkObj [("len", jnat len0), ("open", .str "panic")]
      | .ok _ => Json.mkObj [("len", jnat len0), ("open", .str "ok"), ("res", runReads db pname reads)]

def runCase (j : Json) : Json :=
  let ps := (arr! j "profiles").map parseProfile
  let db0 := store rightKey ps
  let reads := (arr! j "reads").map parseRead
  .arr (((arr! j "ops").map (runOp ps db0 reads)).toArray)

end Driver.C03
