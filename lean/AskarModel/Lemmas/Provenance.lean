/-
Helper lemmas for Props/C02.lean (provenance model, Model/Provenance.lean).
-/
import AskarModel.Model.Provenance

namespace Askar.Provenance
open Askar.Wql Askar.Store

/-- `Good allowKey a`: `a` is not a plaintext secret — except, when `allowKey`, the unwrapped profile key
    (which a store with key method `none` stores by design). -/
def Good (allowKey : Bool) (a : Arg) : Prop := ∀ f, a.prov = .secretPlain f → (allowKey = true ∧ f = .profileKey)

def AllGood (b : Bool) (l : List Arg) : Prop := ∀ a ∈ l, Good b a

namespace Lemmas

theorem good_of_not_secret {b : Bool} {a : Arg} (h : a.prov.isSecretPlain = false) : Good b a := by
  intro f hf; rw [hf] at h; simp [Prov.isSecretPlain] at h

@[simp] theorem good_searchable (b : Bool) (C : Crypto) (k f x) : Good b (C.searchable k f x) := by
  intro f' h; simp [Crypto.searchable] at h
@[simp] theorem good_sealValue (b : Bool) (C : Crypto) (k c n r v) : Good b (C.sealValue k c n r v) := by
  intro f' h; simp [Crypto.sealValue] at h
@[simp] theorem good_metaStr (b : Bool) (s) : Good b (Src.metaStr s) := by intro f h; simp [Src.metaStr] at h
@[simp] theorem good_nat (b : Bool) (n) : Good b (Src.nat n) := by simp [Src.nat]
@[simp] theorem good_null (b : Bool) : Good b Src.null := by simp [Src.null]
@[simp] theorem good_optNat (b : Bool) (n) : Good b (Src.optNat n) := by cases n <;> simp [Src.optNat]
@[simp] theorem good_flag (b : Bool) (p) : Good b (Src.flag p) := by simp [Src.flag]
@[simp] theorem good_profileName (b : Bool) (s) : Good b (Src.profileName s) := by
  intro f h; simp [Src.profileName] at h
@[simp] theorem good_plainTagValue (b : Bool) (s) : Good b (Src.tagValue true s) := by
  intro f h; simp [Src.tagValue] at h
@[simp] theorem good_valueArg (b : Bool) (C : Crypto) (k p v) : Good b (valueArg C k p v) := by
  unfold valueArg; split <;> simp_all
@[simp] theorem good_nameArg (b : Bool) (C : Crypto) (k n) : Good b (nameArg C k n) := by simp [nameArg]
@[simp] theorem good_prefix12 (b : Bool) (a : Arg) (h : Good b a) : Good b a.prefix12 := by
  intro f hf; exact h f (by simpa [Arg.prefix12] using hf)

/-- the wrapped profile key is good when there is a store key, or when the unwrapped key is tolerated -/
theorem good_wrap (b : Bool) (C : Crypto) (sk : Option Nat) (r k) (h : b = false → sk.isSome) :
    Good b (C.wrap sk r (Src.profileKey C k)) := by
  intro f hf
  cases sk with
  | none =>
    cases b with
    | false => simp at h
    | true => simp [Crypto.wrap, Src.profileKey] at hf; exact ⟨rfl, hf.symm⟩
  | some s => simp [Crypto.wrap] at hf

@[simp] theorem allGood_nil (b) : AllGood b [] := by intro a h; cases h
theorem allGood_append {b l₁ l₂} : AllGood b (l₁ ++ l₂) ↔ AllGood b l₁ ∧ AllGood b l₂ := by
  simp [AllGood, List.mem_append, or_imp, forall_and]
theorem allGood_cons {b a l} : AllGood b (a :: l) ↔ Good b a ∧ AllGood b l := by
  simp [AllGood]

/-! #### filter arguments -/

theorem opArgs_good (b : Bool) (C : Crypto) (k op n v) : AllGood b (opArgs C k op n v) := by
  unfold opArgs
  simp only
  split
  · split <;> simp [allGood_cons]
  · simp [allGood_cons]

mutual
theorem filterArgs_good (b : Bool) (C : Crypto) (k : Nat) : ∀ q, AllGood b (filterArgs C k q)
  | .and qs => by simpa [filterArgs] using filterArgsList_good b C k qs
  | .or qs => by simpa [filterArgs] using filterArgsList_good b C k qs
  | .not q => by simpa [filterArgs] using filterArgs_good b C k q
  | .cmp op n v => by simpa [filterArgs] using opArgs_good b C k op n v
  | .isIn n vs => by
    simp only [filterArgs, allGood_cons, good_nameArg, true_and]
    intro a ha; simp only [List.mem_map] at ha; obtain ⟨v, _, rfl⟩ := ha; simp
  | .exist ns => by
    simp only [filterArgs]
    intro a ha; simp only [List.mem_map] at ha; obtain ⟨v, _, rfl⟩ := ha; simp
theorem filterArgsList_good (b : Bool) (C : Crypto) (k : Nat) : ∀ qs, AllGood b (filterArgsList C k qs)
  | [] => by simp [filterArgsList]
  | q :: qs => by
    simp only [filterArgsList, allGood_append]
    exact ⟨filterArgs_good b C k q, filterArgsList_good b C k qs⟩
end

theorem encodeFilter_good (b : Bool) (C : Crypto) (k f) : AllGood b (encodeFilter C k f).2 := by
  unfold encodeFilter; split
  · simp
  · exact filterArgs_good b C k _

/-! #### every operation binds good arguments only and keeps the store key -/

def BG (b : Bool) (x : Ctx) : Prop := AllGood b x.bound

theorem bind_good {b x as} (h : BG b x) (ha : AllGood b as) : BG b (x.bind as) := by
  simp only [BG, Ctx.bind, allGood_append]; exact ⟨h, ha⟩

@[simp] theorem sqlInsertItem_bound (db pid kind c n v g) :
    (sqlInsertItem db pid kind c n v g).2.2 = [Src.nat pid, Src.nat kind, c, n, v, Src.null] := by
  unfold sqlInsertItem; split <;> rfl
@[simp] theorem sqlUpdateItem_bound (db pid kind c n v g) :
    (sqlUpdateItem db pid kind c n v g).2.2 = [Src.nat pid, Src.nat kind, c, n, v, Src.null] := by
  unfold sqlUpdateItem; split <;> rfl
@[simp] theorem sqlDeleteTags_bound (db id) : (sqlDeleteTags db id).2 = [Src.nat id] := rfl
@[simp] theorem sqlDeleteItem_bound (db pid kind c n) :
    (sqlDeleteItem db pid kind c n).2.2 = [Src.nat pid, Src.nat kind, c, n] := rfl
@[simp] theorem sqlDeleteAll_bound (like db pid kind c f) :
    (sqlDeleteAll like db pid kind c f).2.2 = scopeBound pid kind c f := rfl
@[simp] theorem sqlSelect_bound (like db pid kind c f) :
    (sqlSelect like db pid kind c f).2 = scopeBound pid kind c f := rfl
@[simp] theorem sqlFetch_bound (db pid kind c n) :
    (sqlFetch db pid kind c n).2 = [Src.nat pid, Src.nat kind, c, n] := rfl
@[simp] theorem sqlInsertProfile_bound (db n k kid) : (sqlInsertProfile db n k kid).2.2 = [n, k] := by
  unfold sqlInsertProfile; split <;> rfl
@[simp] theorem sqlDeleteProfile_bound (db n) : (sqlDeleteProfile db n).2.2 = [n] := rfl
@[simp] theorem sqlSelectProfile_bound (db n) : (sqlSelectProfile db n).2 = [n] := rfl
@[simp] theorem sqlUpdateProfileKey_bound (db k pid) : (sqlUpdateProfileKey db k pid).2 = [k, Src.nat pid] := rfl

theorem scopeBound_good (b : Bool) (C : Crypto) (k pid kind cat f) :
    AllGood b (scopeBound pid kind (encCatOpt C k cat) (encodeFilter C k f)) := by
  unfold scopeBound
  rw [allGood_append]
  constructor
  · cases cat <;> simp [allGood_cons, encCatOpt]
  · split
    · simp
    · exact encodeFilter_good b C k f

theorem resolveP_good {b s x p} (h : BG b x) :
    BG b (resolveP s x p).2.1 ∧ (resolveP s x p).1.storeKey = s.storeKey := by
  unfold resolveP
  split
  · exact ⟨h, rfl⟩
  · simp only
    split <;> exact ⟨bind_good h (by simp [allGood_cons]), rfl⟩

theorem insertTags_good (b : Bool) (C : Crypto) (k : Nat) (id : Nat) :
    ∀ (ts : List Tag) (db : PDb), AllGood b (insertTags db id (ts.map (encryptTag C k))).2
  | [], db => by simp [insertTags]
  | t :: ts, db => by
    simp only [List.map, insertTags, encryptTag, sqlInsertTag, allGood_append, allGood_cons]
    refine ⟨⟨by simp, by simp, ?_, by simp, by simp⟩, insertTags_good b C k id ts _⟩
    split <;> simp

theorem encTags_good (b : Bool) (C : Crypto) (k id : Nat) (tags : Option (List Tag)) (db : PDb) :
    AllGood b (insertTags db id ((tags.map fun ts => ts.map (encryptTag C k)).getD [])).2 := by
  cases tags with
  | none => simp [insertTags]
  | some ts => exact insertTags_good b C k id ts db

theorem update_good {b C rng s x p kind ins cat name value tags} (h : BG b x) :
    BG b (update C rng s x p kind ins cat name value tags).2.1 ∧
    (update C rng s x p kind ins cat name value tags).1.storeKey = s.storeKey := by
  unfold update
  have hr := @resolveP_good b s x p h
  split
  · rename_i s' x' e heq; rw [heq] at hr; exact hr
  · rename_i s' x' pid k heq
    rw [heq] at hr
    obtain ⟨hx, hs⟩ := hr
    simp only at hx hs
    have hx' : BG b { x' with ctr := x'.ctr + 1, sealed := x'.sealed ++ [(x'.ctr, C.sealValue k (Src.category cat) (Src.name name) (rng x'.ctr) (Src.value value))] } := hx
    simp only
    split
    · split
      · exact ⟨bind_good hx' (by simp [allGood_cons]), hs⟩
      · exact ⟨bind_good (bind_good hx' (by simp [allGood_cons])) (encTags_good b C k _ tags _), hs⟩
    · split
      · exact ⟨bind_good hx' (by simp [allGood_cons]), hs⟩
      · exact ⟨bind_good (bind_good (bind_good hx' (by simp [allGood_cons])) (by simp [allGood_cons])) (encTags_good b C k _ tags _), hs⟩

theorem remove_good {b C s x p kind cat name} (h : BG b x) :
    BG b (remove C s x p kind cat name).2.1 ∧ (remove C s x p kind cat name).1.storeKey = s.storeKey := by
  unfold remove
  have hr := @resolveP_good b s x p h
  split
  · rename_i s' x' e heq; rw [heq] at hr; exact hr
  · rename_i s' x' pid k heq
    rw [heq] at hr
    obtain ⟨hx, hs⟩ := hr
    simp only at hx hs ⊢
    split <;> exact ⟨bind_good hx (by simp [allGood_cons]), hs⟩

theorem removeAll_good {b C like s x p kind cat f} (h : BG b x) :
    BG b (removeAll C like s x p kind cat f).2.1 ∧ (removeAll C like s x p kind cat f).1.storeKey = s.storeKey := by
  unfold removeAll
  have hr := @resolveP_good b s x p h
  split
  · rename_i s' x' e heq; rw [heq] at hr; exact hr
  · rename_i s' x' pid k heq
    rw [heq] at hr
    obtain ⟨hx, hs⟩ := hr
    simp only at hx hs ⊢
    exact ⟨bind_good hx (by simpa using scopeBound_good b C k pid kind cat f), hs⟩

theorem select_good {b C like s x p kind cat f} (h : BG b x) :
    BG b (select C like s x p kind cat f).2.1 ∧ (select C like s x p kind cat f).1.storeKey = s.storeKey := by
  unfold select
  have hr := @resolveP_good b s x p h
  split
  · rename_i s' x' e heq; rw [heq] at hr; exact hr
  · rename_i s' x' pid k heq
    rw [heq] at hr
    obtain ⟨hx, hs⟩ := hr
    simp only at hx hs ⊢
    exact ⟨bind_good hx (by simpa using scopeBound_good b C k pid kind cat f), hs⟩

theorem fetch_good {b C s x p kind cat name} (h : BG b x) :
    BG b (fetch C s x p kind cat name).2.1 ∧ (fetch C s x p kind cat name).1.storeKey = s.storeKey := by
  unfold fetch
  have hr := @resolveP_good b s x p h
  split
  · rename_i s' x' e heq; rw [heq] at hr; exact hr
  · rename_i s' x' pid k heq
    rw [heq] at hr
    obtain ⟨hx, hs⟩ := hr
    simp only at hx hs ⊢
    exact ⟨bind_good hx (by simp [allGood_cons]), hs⟩

theorem wrapProfileKey_good {b C rng sk x k} (h : BG b x) (hk : b = false → sk.isSome) :
    Good b (wrapProfileKey C rng sk x k).1 ∧ BG b (wrapProfileKey C rng sk x k).2 := by
  unfold wrapProfileKey
  refine ⟨good_wrap b C sk _ k hk, ?_⟩
  simp only; split <;> exact h

theorem createProfile_good {b C rng s x name} (h : BG b x) (hk : b = false → s.storeKey.isSome) :
    BG b (createProfile C rng s x name).2.1 ∧ (createProfile C rng s x name).1.storeKey = s.storeKey := by
  unfold createProfile
  have hx0 : BG b { x with nextKey := x.nextKey + 1 } := h
  have hw := @wrapProfileKey_good b C rng s.storeKey _ x.nextKey hx0 hk
  simp only
  split <;> exact ⟨bind_good hw.2 (by simp [allGood_cons, hw.1]), rfl⟩

theorem removeProfile_good {b s x name} (h : BG b x) :
    BG b (removeProfile s x name).2.1 ∧ (removeProfile s x name).1.storeKey = s.storeKey := by
  unfold removeProfile
  exact ⟨bind_good h (by simp [allGood_cons]), rfl⟩

theorem setDefault_good {b s x name} (h : BG b x) :
    BG b (setDefault s x name).2 ∧ (setDefault s x name).1.storeKey = s.storeKey := by
  unfold setDefault
  exact ⟨bind_good h (by simp [allGood_cons]), rfl⟩

theorem reopen_good {b s x} (h : BG b x) : BG b (reopen s x).2 ∧ (reopen s x).1.storeKey = s.storeKey := by
  unfold reopen
  simp only
  split <;> exact ⟨bind_good h (by simp [allGood_cons]), rfl⟩

theorem newStoreKey_good {b m x} (h : BG b x) : BG b (newStoreKey m x).2 ∧ (m ≠ .none → (newStoreKey m x).1.isSome) := by
  unfold newStoreKey
  cases m <;> simp <;> exact h

theorem rewrapAll_good {b C rng sk} (hk : b = false → sk.isSome) :
    ∀ (ps : List PProfile) (db : PDb) (x : Ctx), BG b x → BG b (rewrapAll C rng sk ps db x).2
  | [], db, x, h => by simpa [rewrapAll] using h
  | p :: ps, db, x, h => by
    simp only [rewrapAll]
    have hw := @wrapProfileKey_good b C rng sk x p.keyId h hk
    exact rewrapAll_good hk ps _ _ (bind_good hw.2 (by simp [allGood_cons, hw.1]))

theorem rekey_good {b C rng s x m} (h : BG b x) (hm : b = false → m ≠ .none) :
    BG b (rekey C rng s x m).2 ∧ (b = false → (rekey C rng s x m).1.storeKey.isSome) := by
  unfold rekey
  have hn := @newStoreKey_good b m x h
  simp only
  refine ⟨bind_good (rewrapAll_good (fun hb => hn.2 (hm hb)) _ _ _ hn.1) (by simp [allGood_cons]), fun hb => hn.2 (hm hb)⟩

theorem provision_good {b C rng x m profile} (h : BG b x) (hm : b = false → m ≠ .none) :
    BG b (provision C rng x m profile).2 ∧ (b = false → (provision C rng x m profile).1.storeKey.isSome) := by
  unfold provision
  have hn := @newStoreKey_good b m x h
  have hx0 : BG b { (newStoreKey m x).2 with nextKey := (newStoreKey m x).2.nextKey + 1 } := hn.1
  have hw := @wrapProfileKey_good b C rng (newStoreKey m x).1 _ (newStoreKey m x).2.nextKey hx0 (fun hb => hn.2 (hm hb))
  simp only
  exact ⟨bind_good hw.2 (by simp [allGood_cons, hw.1]), fun hb => hn.2 (hm hb)⟩

theorem insertKey_good {b C rng s x p n md jwk alg thumbs tags} (h : BG b x) :
    BG b (insertKey C rng s x p n md jwk alg thumbs tags).2.1 ∧
    (insertKey C rng s x p n md jwk alg thumbs tags).1.storeKey = s.storeKey := by
  unfold insertKey; exact update_good h

theorem importRows_good {b C rng profile} :
    ∀ (es : List Entry) (t : PStore) (x : Ctx), BG b x →
      BG b (importRows C rng profile es t x).2.1 ∧ (importRows C rng profile es t x).1.storeKey = t.storeKey
  | [], t, x, h => by simpa [importRows] using h
  | e :: es, t, x, h => by
    simp only [importRows]
    have hu := @update_good b C rng t x profile e.kind true e.cat e.name e.value (some e.tags) h
    split
    · rename_i t' x' err heq; rw [heq] at hu; exact hu
    · rename_i t' x' heq
      rw [heq] at hu
      have := importRows_good (b := b) (C := C) (rng := rng) (profile := profile) es t' x' hu.1
      exact ⟨this.1, this.2.trans hu.2⟩

theorem copyProfiles_good {b C rng like} :
    ∀ (ps : List PProfile) (src t : PStore) (x : Ctx), BG b x → (b = false → t.storeKey.isSome) →
      BG b (copyProfiles C rng like ps src t x).2.2.1 ∧
      (copyProfiles C rng like ps src t x).1.storeKey = src.storeKey ∧
      (copyProfiles C rng like ps src t x).2.1.storeKey = t.storeKey
  | [], src, t, x, h, _ => by simpa [copyProfiles] using h
  | p :: ps, src, t, x, h, hk => by
    simp only [copyProfiles]
    generalize hpn : (String.fromUTF8? (ByteArray.mk p.name.bytes.toArray)).getD "" = pname
    have hs := @select_good b C like src x pname none none none h
    split
    · rename_i src' x' e heq; rw [heq] at hs; exact ⟨hs.1, hs.2, rfl⟩
    · rename_i src' x' k rows heq
      rw [heq] at hs
      split
      · exact ⟨hs.1, hs.2, rfl⟩
      · have hc := @createProfile_good b C rng t x' pname hs.1 hk
        have hs2 := @select_good b C like (createProfile C rng t x' pname).1 (createProfile C rng t x' pname).2.1 pname none none none hc.1
        split
        · rename_i t' x'' e heq2; rw [heq2] at hs2; exact ⟨hs2.1, hs.2, hs2.2.trans hc.2⟩
        · rename_i t' x'' k2 existing heq2
          rw [heq2] at hs2
          split
          · exact ⟨hs2.1, hs.2, hs2.2.trans hc.2⟩
          · have hi := @importRows_good b C rng pname (rows.map (·.plain)) t' x'' hs2.1
            split
            · rename_i t'' x3 e heq3; rw [heq3] at hi; exact ⟨hi.1, hs.2, hi.2.trans (hs2.2.trans hc.2)⟩
            · rename_i t'' x3 heq3
              rw [heq3] at hi
              have hk' : b = false → t''.storeKey.isSome := fun hb => by
                rw [hi.2, hs2.2, hc.2]; exact hk hb
              have := copyProfiles_good (b := b) (C := C) (rng := rng) (like := like) ps src' t'' x3 hi.1 hk'
              exact ⟨this.1, this.2.1.trans hs.2, this.2.2.trans (hi.2.trans (hs2.2.trans hc.2))⟩

theorem copyTo_good {b C rng like src x m} (h : BG b x) (hm : b = false → m ≠ .none) :
    BG b (copyTo C rng like src x m).2.2.1 ∧ (copyTo C rng like src x m).1.storeKey = src.storeKey ∧
    (b = false → (copyTo C rng like src x m).2.1.storeKey.isSome) := by
  unfold copyTo
  have hx0 : BG b (x.bind [Src.metaStr "default_profile"]) := bind_good h (by simp [allGood_cons])
  have hp := @provision_good b C rng _ m (defaultProfile src.db) hx0 hm
  have := copyProfiles_good (b := b) (C := C) (rng := rng) (like := like) src.db.profiles src _ _ hp.1 hp.2
  simp only
  exact ⟨this.1, this.2.1, fun hb => by rw [this.2.2]; exact hp.2 hb⟩

/-! #### histories -/

def Inv (b : Bool) (st : St) : Prop := BG b st.ctx ∧ (b = false → st.main.storeKey.isSome)

theorem step_inv {b C rng like st} (op : Op) (h : Inv b st) (hop : b = false → op.keepsProtected = true) :
    Inv b (step C rng like st op).1 := by
  obtain ⟨hx, hk⟩ := h
  cases op with
  | update p k ins c n v t =>
    have := @update_good b C rng st.main st.ctx p k ins c n v t hx
    exact ⟨this.1, fun hb => by simp only [step]; rw [this.2]; exact hk hb⟩
  | remove p k c n =>
    have := @remove_good b C st.main st.ctx p k c n hx
    exact ⟨this.1, fun hb => by simp only [step]; rw [this.2]; exact hk hb⟩
  | removeAll p k c f =>
    have := @removeAll_good b C like st.main st.ctx p k c f hx
    exact ⟨this.1, fun hb => by simp only [step]; rw [this.2]; exact hk hb⟩
  | fetch p k c n =>
    have := @fetch_good b C st.main st.ctx p k c n hx
    exact ⟨this.1, fun hb => by simp only [step]; rw [this.2]; exact hk hb⟩
  | count p k c f =>
    have := @select_good b C like st.main st.ctx p k c f hx
    exact ⟨this.1, fun hb => by simp only [step]; rw [this.2]; exact hk hb⟩
  | scan p k c f =>
    have := @select_good b C like st.main st.ctx p k c f hx
    exact ⟨this.1, fun hb => by simp only [step]; rw [this.2]; exact hk hb⟩
  | insertKey p n m jwk alg thumbs t =>
    have := @insertKey_good b C rng st.main st.ctx p n m jwk alg thumbs t hx
    exact ⟨this.1, fun hb => by simp only [step]; rw [this.2]; exact hk hb⟩
  | createProfile n =>
    have := @createProfile_good b C rng st.main st.ctx n hx hk
    exact ⟨this.1, fun hb => by simp only [step]; rw [this.2]; exact hk hb⟩
  | removeProfile n =>
    have := @removeProfile_good b st.main st.ctx n hx
    exact ⟨this.1, fun hb => by simp only [step]; rw [this.2]; exact hk hb⟩
  | setDefault n =>
    have := @setDefault_good b st.main st.ctx n hx
    exact ⟨this.1, fun hb => by simp only [step]; rw [this.2]; exact hk hb⟩
  | rekey m =>
    have hm : b = false → m ≠ .none := fun hb hm => by subst hm; simpa [Op.keepsProtected] using hop hb
    have := @rekey_good b C rng st.main st.ctx m hx hm
    exact ⟨this.1, this.2⟩
  | copy m =>
    have hm : b = false → m ≠ .none := fun hb hm => by subst hm; simpa [Op.keepsProtected] using hop hb
    have := @copyTo_good b C rng like st.main st.ctx m hx hm
    exact ⟨this.1, fun hb => by simp only [step]; rw [this.2.1]; exact hk hb⟩
  | checkpoint => exact ⟨hx, hk⟩
  | reopen =>
    have := @reopen_good b st.main st.ctx hx
    exact ⟨this.1, fun hb => by simp only [step]; rw [this.2]; exact hk hb⟩

theorem run_inv {b C rng like} : ∀ (ops : List Op) (st : St), Inv b st → (b = false → ∀ op ∈ ops, op.keepsProtected = true) →
    Inv b (run C rng like st ops).1
  | [], st, h, _ => by simpa [run] using h
  | op :: ops, st, h, hops => by
    simp only [run]
    exact run_inv ops _ (step_inv op h (fun hb => hops hb op (List.mem_cons_self ..)))
      (fun hb o ho => hops hb o (List.mem_cons_of_mem _ ho))

theorem init_inv {b C rng m p} (hm : b = false → m ≠ .none) : Inv b (init C rng m p) := by
  have := @provision_good b C rng {} m p (by simp [BG]) hm
  exact ⟨this.1, this.2⟩

theorem no_plain_secret_bound (C : Crypto) (rng : Nat → Nonce) (like : Bytes → Bytes → Bool) (m : Method) (p : String)
    (ops : List Op) (hm : m ≠ .none) (hops : ∀ op ∈ ops, op.keepsProtected = true) :
    ∀ a ∈ boundArgs (run C rng like (init C rng m p) ops).1, a.prov.isSecretPlain = false := by
  intro a ha
  have h := (run_inv (b := false) (C := C) (rng := rng) (like := like) ops _ (init_inv (fun _ => hm)) (fun _ => hops)).1 a ha
  cases hp : a.prov with
  | secretPlain f => have := h f hp; simp at this
  | _ => rfl

theorem only_profile_key_plain (C : Crypto) (rng : Nat → Nonce) (like : Bytes → Bytes → Bool) (m : Method) (p : String)
    (ops : List Op) :
    ∀ a ∈ boundArgs (run C rng like (init C rng m p) ops).1, ∀ f, a.prov = .secretPlain f → f = .profileKey := by
  intro a ha f hf
  exact ((run_inv (b := true) (C := C) (rng := rng) (like := like) ops _ (init_inv (by simp)) (by simp)).1 a ha f hf).2

end Lemmas
end Askar.Provenance
