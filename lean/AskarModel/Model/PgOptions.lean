/-
Model B″ of C08: `PostgresStoreOptions::new` (askar-storage/src/backend/postgres/provision.rs:58-134) — what the
Postgres backend derives from a store URI: four numeric pool parameters, the database / user / schema identifiers and
TWO connection URIs (`uri` for the store's own role, `admin_uri` for the role that creates the database).  A pure
function of the parsed `Options` (Model/Uri.lean); no server is involved.

  let mut opts = options.into_options()?;                       -- `&str`: `Options::parse_uri`, which cannot fail
  connect_timeout  = query.remove(..) → `str::parse::<u64>()`   (default 30;  failure: Input)       -- in THIS order,
  idle_timeout     = query.remove(..) → `str::parse::<u64>()`   (default 300; failure: Input)       -- the first
  max_connections  = query.remove(..) → `str::parse::<u32>()`   (default 10;  failure: Input)       -- failure
  min_connections  = query.remove(..) → `str::parse::<u32>()`   (default 0;   failure: Input)       -- returns
  schema / admin_account / admin_password = query.remove(..)
  username = if opts.user == "" { "postgres" } else { opts.user }
  uri = opts.clone().into_uri()                                  -- every component, the REMAINING parameters
  opts.user = admin_account (if given); opts.password = admin_password (if given)
  host = opts.host
  if opts.path.len() < 2 → Input "Missing database name"
  name = opts.path[1..]                                          -- a `str` slice: PANICS when byte 1 is not a char boundary
  _validate_ident(schema) (if given); _validate_ident(name); _validate_ident(username)     -- empty, '"' or NUL: Input
  opts.path = "/postgres"; admin_uri = opts.into_uri()

`query` is a `HashMap`: a key given several times in the URI holds the LAST value (`Uri.parseQuery` = fold of
`mapInsert`), `remove` returns it and deletes the binding.  The iteration order of the map in the two `into_uri` calls is
unspecified; as in Model/Uri.lean the model keeps the two `Options` values that are serialised (`uriOpts`, `adminOpts`)
and the text is `intoUriWith qs …` for an enumeration `qs`; the theorems quantify over every enumeration of each.

The slice `path[1..]`: the length check makes index 1 in range; it is a char boundary iff byte 1 is not a UTF-8
continuation byte.  A path that comes out of `parse_uri` is empty or starts with `/`, so the panic is reachable only
through a hand-built `Options` value (`IntoOptions for Options`; the fields are public): explicit outcome `Fail.panic`.
-/
import AskarModel.Model.Uri
import AskarModel.Model.SqliteOpts

namespace Askar.PgOptions
open Askar.Uri

/-- how a call can end without a value: `ErrorKind::Input`, or a panic (the `str` slice) -/
inductive Fail | input | panic
  deriving DecidableEq, Repr, Inhabited

/-! ### constants of provision.rs (lines 23-26: stated here, NOT read by tools/extract.py) -/
def defaultConnectTimeout : Nat := 30
def defaultIdleTimeout : Nat := 300
def defaultMinConnections : Nat := 0
def defaultMaxConnections : Nat := 10

/-! the seven names, as bytes (explicit lists: a `lit "…"` is re-evaluated at every use by `decide`); checked against the text below -/
def kConnect : Str := [0x63, 0x6F, 0x6E, 0x6E, 0x65, 0x63, 0x74, 0x5F, 0x74, 0x69, 0x6D, 0x65, 0x6F, 0x75, 0x74]        -- "connect_timeout"
def kIdle : Str := [0x69, 0x64, 0x6C, 0x65, 0x5F, 0x74, 0x69, 0x6D, 0x65, 0x6F, 0x75, 0x74]        -- "idle_timeout"
def kMax : Str := [0x6D, 0x61, 0x78, 0x5F, 0x63, 0x6F, 0x6E, 0x6E, 0x65, 0x63, 0x74, 0x69, 0x6F, 0x6E, 0x73]        -- "max_connections"
def kMin : Str := [0x6D, 0x69, 0x6E, 0x5F, 0x63, 0x6F, 0x6E, 0x6E, 0x65, 0x63, 0x74, 0x69, 0x6F, 0x6E, 0x73]        -- "min_connections"
def kSchema : Str := [0x73, 0x63, 0x68, 0x65, 0x6D, 0x61]        -- "schema"
def kAdminAcct : Str := [0x61, 0x64, 0x6D, 0x69, 0x6E, 0x5F, 0x61, 0x63, 0x63, 0x6F, 0x75, 0x6E, 0x74]        -- "admin_account"
def kAdminPass : Str := [0x61, 0x64, 0x6D, 0x69, 0x6E, 0x5F, 0x70, 0x61, 0x73, 0x73, 0x77, 0x6F, 0x72, 0x64]        -- "admin_password"
example : kConnect = lit "connect_timeout" ∧ kIdle = lit "idle_timeout" ∧ kMax = lit "max_connections" ∧ kMin = lit "min_connections" ∧ kSchema = lit "schema" ∧ kAdminAcct = lit "admin_account" ∧ kAdminPass = lit "admin_password" := by decide

/-- the seven parameters `new` takes out of the query, in the order of the code -/
def consumed : List Str := [kConnect, kIdle, kMax, kMin, kSchema, kAdminAcct, kAdminPass]

def sPostgres : Str := [0x70, 0x6F, 0x73, 0x74, 0x67, 0x72, 0x65, 0x73]            -- "postgres"
def sAdminPath : Str := 0x2F :: sPostgres                                          -- "/postgres"
example : sPostgres = lit "postgres" ∧ sAdminPath = lit "/postgres" := by decide

/-- `HashMap::remove(k)`: the value bound to `k` (if any) and the map without that binding -/
def mapRemove (m : QueryMap) (k : Str) : Option Str × QueryMap := (mapGet m k, m.filter fun e => e.1 ≠ k)

/-- `if let Some(v) = removed { v.parse().map_err(Input)? } else { default }` for an unsigned type of `bits` bits -/
def numOf (bits dflt : Nat) : Option Str → Except Fail Nat
  | none => .ok dflt
  | some v =>
    match parseUnsigned bits v with
    | some n => .ok n
    | none => .error .input

/-- `_validate_ident`: not empty, neither `"` nor NUL (an ASCII byte occurs in a `str` iff the character does) -/
def validIdent (s : Str) : Bool := !s.isEmpty && !s.contains 0x22 && !s.contains 0x00

/-- `str::is_char_boundary(1)` for a string of at least two bytes -/
def boundaryAt1 : Str → Bool
  | _ :: b :: _ => !isCont b
  | _ => true

/-- `match opts.user.as_ref() { "" => "postgres", a => a }` -/
def usernameOf (o : Options) : Str := if o.user.isEmpty then sPostgres else o.user

structure PgOpts where
  /-- seconds -/
  connectTimeout : Nat
  /-- seconds -/
  idleTimeout : Nat
  maxConnections : Nat
  minConnections : Nat
  /-- the value `uri` is written from: `uri = into_uri(uriOpts)` -/
  uriOpts : Options
  /-- the value `admin_uri` is written from -/
  adminOpts : Options
  host : Str
  name : Str
  username : Str
  schema : Option Str
  deriving DecidableEq, Repr

/-- `uri` / `admin_uri` when the hash map enumerates its entries in the order `qs` -/
def PgOpts.uriWith (r : PgOpts) (qs : List (Str × Str)) : Str := intoUriWith qs r.uriOpts
def PgOpts.adminUriWith (r : PgOpts) (qs : List (Str × Str)) : Str := intoUriWith qs r.adminOpts
/-- one admissible run -/
def PgOpts.uri (r : PgOpts) : Str := intoUri r.uriOpts
def PgOpts.adminUri (r : PgOpts) : Str := intoUri r.adminOpts

/-- `PostgresStoreOptions::new(opts)` for an `Options` value -/
def pgNew (o : Options) : Except Fail PgOpts :=
  let t1 := mapRemove o.query kConnect
  match numOf 64 defaultConnectTimeout t1.1 with
  | .error e => .error e
  | .ok ct =>
  let t2 := mapRemove t1.2 kIdle
  match numOf 64 defaultIdleTimeout t2.1 with
  | .error e => .error e
  | .ok it =>
  let t3 := mapRemove t2.2 kMax
  match numOf 32 defaultMaxConnections t3.1 with
  | .error e => .error e
  | .ok maxc =>
  let t4 := mapRemove t3.2 kMin
  match numOf 32 defaultMinConnections t4.1 with
  | .error e => .error e
  | .ok minc =>
  let t5 := mapRemove t4.2 kSchema
  let t6 := mapRemove t5.2 kAdminAcct
  let t7 := mapRemove t6.2 kAdminPass
  let schema := t5.1
  let username := usernameOf o
  let uriOpts : Options := { o with query := t7.2 }
  -- `if let Some(a) = admin_acct { opts.user = a }`, the same for the password
  let admin : Options := { uriOpts with user := t6.1.getD o.user, password := t7.1.getD o.password }
  if o.path.length < 2 then .error .input                    -- "Missing database name"
  else if !boundaryAt1 o.path then .error .panic             -- `path[1..]`
  else
    let name := o.path.drop 1
    if !(match schema with | some s => validIdent s | none => true) then .error .input
    else if !validIdent name then .error .input
    else if !validIdent username then .error .input
    else
      .ok { connectTimeout := ct, idleTimeout := it, maxConnections := maxc, minConnections := minc,
            uriOpts := uriOpts, adminOpts := { admin with path := sAdminPath },
            host := o.host, name := name, username := username, schema := schema }

/-- `PostgresStoreOptions::new(uri: &str)` -/
def pgNewOfUri (uri : Str) : Except Fail PgOpts := pgNew (parseUri uri)

/-! ### what the theorems compare with -/

/-- a numeric field `n` is what the parameter says: the default when it is absent, else the value `FromStr` gives its text -/
def NumReads (x : Option Str) (bits dflt n : Nat) : Prop :=
  match x with
  | none => n = dflt
  | some v => parseUnsigned bits v = some n

/-- `o` without the seven consumed parameters — everything else as it is -/
def withoutConsumed (o : Options) : Options := { o with query := o.query.filter fun e => !consumed.contains e.1 }

/-- the `Options` the admin URI should denote: `withoutConsumed o` with the admin credentials where given and the
    default database as path -/
def adminExpected (o : Options) : Options :=
  { withoutConsumed o with
    user := (mapGet o.query kAdminAcct).getD o.user,
    password := (mapGet o.query kAdminPass).getD o.password,
    path := sAdminPath }

end Askar.PgOptions
