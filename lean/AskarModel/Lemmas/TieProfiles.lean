/-
Tie 1 (helpers): the two models of profiles and the key cache agree when ONE store handle acts.

  engine C07   `Askar.Store`        one handle `h` (cache + key counter), tables at the level of decrypted rows with row ids, kinds,
                                    byte values, expiry; `createProfile`, `removeProfile`, `resolve`, `ping`, `step`
  engine C07H  `Askar.TwoHandles`   shared tables (no item row ids, one kind, text values, no expiry, key counter in the database)
                                    + one cache PER handle; `createProfile`, `removeProfile`, `resolve`, `ping`, `openSession`,
                                    `scan`, `insert` … `removeAll`

What is related (`Sim`): the profile rows one to one (`liftProf`), the handle's cache entry by entry (`liftEntry`), the key counter
(`Store.Handle.nextKey` = `TwoHandles.Db.nextKey`), and the item rows one to one IN ORDER: a Store row is the TwoHandles row with
SOME row id (`ItemRel`: the TwoHandles model has no item ids, so the abstraction map `absDb` takes the id assignment as a
parameter), the fixed kind `E.kind`, no expiry, and the payload pushed through an arbitrary encoding `E` of values and tags.
The Store side's ids increase along the list (`Store.Sorted`, an invariant of every Store run).

Everything here is proved for ALL states related by `Sim`, all calls, all histories.
-/
import AskarModel.Lemmas.TwoHandles
import AskarModel.Lemmas.Refine

namespace Askar.Ties.Profiles
open Askar

/-! ## lists related element by element -/

inductive All₂ {α β : Type} (R : α → β → Prop) : List α → List β → Prop
  | nil : All₂ R [] []
  | cons {a b l₁ l₂} : R a b → All₂ R l₁ l₂ → All₂ R (a :: l₁) (b :: l₂)

namespace All₂
variable {α β γ : Type} {R : α → β → Prop} {l₁ : List α} {l₂ : List β}

theorem any_eq {p : α → Bool} {q : β → Bool} (hpq : ∀ a b, R a b → p a = q b) (h : All₂ R l₁ l₂) :
    l₁.any p = l₂.any q := by
  induction h with
  | nil => rfl
  | cons hab _ ih => simp only [List.any_cons, hpq _ _ hab, ih]

theorem all_eq {p : α → Bool} {q : β → Bool} (hpq : ∀ a b, R a b → p a = q b) (h : All₂ R l₁ l₂) :
    l₁.all p = l₂.all q := by
  induction h with
  | nil => rfl
  | cons hab _ ih => simp only [List.all_cons, hpq _ _ hab, ih]

theorem filter {p : α → Bool} {q : β → Bool} (hpq : ∀ a b, R a b → p a = q b) (h : All₂ R l₁ l₂) :
    All₂ R (l₁.filter p) (l₂.filter q) := by
  induction h with
  | nil => exact .nil
  | @cons a b _ _ hab _ ih =>
    simp only [List.filter_cons, hpq _ _ hab]
    cases q b with
    | true => exact .cons hab ih
    | false => exact ih

theorem length_eq (h : All₂ R l₁ l₂) : l₁.length = l₂.length := by
  induction h with
  | nil => rfl
  | cons _ _ ih => simp [ih]

theorem map {α' β' : Type} {S : α' → β' → Prop} {f : α → α'} {g : β → β'} (hf : ∀ a b, R a b → S (f a) (g b))
    (h : All₂ R l₁ l₂) : All₂ S (l₁.map f) (l₂.map g) := by
  induction h with
  | nil => exact .nil
  | cons hab _ ih => exact .cons (hf _ _ hab) ih

theorem append {m₁ : List α} {m₂ : List β} (h : All₂ R l₁ l₂) (h' : All₂ R m₁ m₂) : All₂ R (l₁ ++ m₁) (l₂ ++ m₂) := by
  induction h with
  | nil => exact h'
  | cons hab _ ih => exact .cons hab ih

theorem map_eq {F : α → γ} {G : β → γ} (hFG : ∀ a b, R a b → F a = G b) (h : All₂ R l₁ l₂) : l₁.map F = l₂.map G := by
  induction h with
  | nil => rfl
  | cons hab _ ih => simp only [List.map_cons, hFG _ _ hab, ih]

theorem find?_map {p : α → Bool} {q : β → Bool} {F : α → γ} {G : β → γ} (hpq : ∀ a b, R a b → p a = q b)
    (hFG : ∀ a b, R a b → F a = G b) (h : All₂ R l₁ l₂) : (l₁.find? p).map F = (l₂.find? q).map G := by
  induction h with
  | nil => rfl
  | @cons a b _ _ hab _ ih =>
    simp only [List.find?_cons, hpq _ _ hab]
    cases q b with
    | true => simp only [Option.map_some, hFG _ _ hab]
    | false => exact ih

theorem mem_right (h : All₂ R l₁ l₂) {b : β} (hb : b ∈ l₂) : ∃ a ∈ l₁, R a b := by
  induction h with
  | nil => cases hb
  | cons hab _ ih =>
    rcases List.mem_cons.mp hb with rfl | hb'
    · exact ⟨_, List.mem_cons_self, hab⟩
    · obtain ⟨a, ha, hr⟩ := ih hb'
      exact ⟨a, List.mem_cons_of_mem _ ha, hr⟩

theorem mem_left (h : All₂ R l₁ l₂) {a : α} (ha : a ∈ l₁) : ∃ b ∈ l₂, R a b := by
  induction h with
  | nil => cases ha
  | cons hab _ ih =>
    rcases List.mem_cons.mp ha with rfl | ha'
    · exact ⟨_, List.mem_cons_self, hab⟩
    · obtain ⟨b, hb, hr⟩ := ih ha'
      exact ⟨b, List.mem_cons_of_mem _ hb, hr⟩

end All₂

/-! ## the abstraction -/

/-- how the payload of a TwoHandles record (text value, `(plain?, name, value)` tags, no kind) is read as a Store record:
    ANY encoding — the theorems hold for all of them -/
structure Enc where
  kind : Store.Kind
  val : String → Bytes
  tag : Nat × String × String → Wql.Tag

def liftErr : TwoHandles.Err → Store.Err
  | .notFound => .notFound | .duplicate => .duplicate | .backend => .backend | .encryption => .encryption

def liftSess (s : TwoHandles.Sess) : Store.Sess := ⟨s.pid, s.key⟩

def liftProf (r : TwoHandles.ProfRow) : Store.Profile := ⟨r.id, r.name, r.key⟩

def liftEntry (e : TwoHandles.CacheEntry) : String × Nat × Nat := (e.name, e.pid, e.key)

def liftRec (E : Enc) (r : TwoHandles.Rec) : Store.Entry := ⟨E.kind, r.cat, r.name, E.val r.value, r.tags.map E.tag⟩

/-- the Store row of a TwoHandles row, given its row id -/
def liftItem (E : Enc) (id : Nat) (it : TwoHandles.Item) : Store.Item :=
  { id := id, pid := it.pid, key := it.key, kind := E.kind, cat := it.data.cat, name := it.data.name,
    value := E.val it.data.value, tags := it.data.tags.map E.tag, expiry := none }

/-- `b` is the row `a` under some row id -/
def ItemRel (E : Enc) (a : TwoHandles.Item) (b : Store.Item) : Prop := b = liftItem E b.id a

/-- THE ABSTRACTION MAP, handle part: that handle's cache, and the database's key counter -/
def absHandle (h : TwoHandles.Handle) (db : TwoHandles.Db) : Store.Handle :=
  { cache := h.cache.map liftEntry, nextKey := db.nextKey }

/-- THE ABSTRACTION MAP, database part, for the item row ids `ids` (TwoHandles rows carry none) -/
def absDb (E : Enc) (ids : List Nat) (db : TwoHandles.Db) : Store.Db :=
  { items := List.zipWith (liftItem E) ids db.items, profiles := db.profiles.map liftProf }

/-- the simulation relation: `(sdb, sh)` is the image of `(db, h's cache)` for SOME increasing assignment of item row ids -/
structure Sim (E : Enc) (h : TwoHandles.Handle) (db : TwoHandles.Db) (sdb : Store.Db) (sh : Store.Handle) : Prop where
  profiles : sdb.profiles = db.profiles.map liftProf
  items : All₂ (ItemRel E) db.items sdb.items
  sorted : Store.Sorted sdb
  handle : sh = absHandle h db

theorem all₂_zipWith (E : Enc) : ∀ (ids : List Nat) (items : List TwoHandles.Item), ids.length = items.length →
    All₂ (ItemRel E) items (List.zipWith (liftItem E) ids items)
  | [], [], _ => .nil
  | i :: ids, a :: items, h => .cons rfl (all₂_zipWith E ids items (by simpa using h))
  | [], _ :: _, h => by simp at h
  | _ :: _, [], h => by simp at h

theorem ids_zipWith (E : Enc) : ∀ (ids : List Nat) (items : List TwoHandles.Item), ids.length = items.length →
    (List.zipWith (liftItem E) ids items).map (·.id) = ids
  | [], [], _ => rfl
  | i :: ids, a :: items, h => by
    simp only [List.zipWith_cons_cons, List.map_cons, ids_zipWith E ids items (by simpa using h)]
    rfl
  | [], _ :: _, h => by simp at h
  | _ :: _, [], h => by simp at h

/-- the map lands in the relation: any strictly increasing id assignment of the right length will do -/
theorem sim_abs (E : Enc) (h : TwoHandles.Handle) (db : TwoHandles.Db) (ids : List Nat) (hl : ids.length = db.items.length)
    (hs : ids.Pairwise (· < ·)) : Sim E h db (absDb E ids db) (absHandle h db) where
  profiles := rfl
  items := all₂_zipWith E ids db.items hl
  sorted := by unfold Store.Sorted absDb; rw [ids_zipWith E ids db.items hl]; exact hs
  handle := rfl

/-- and every related Store state is such an image -/
theorem sim_is_abs (E : Enc) {h : TwoHandles.Handle} {db : TwoHandles.Db} {sdb : Store.Db} {sh : Store.Handle}
    (hs : Sim E h db sdb sh) : sdb = absDb E (sdb.items.map (·.id)) db ∧ sh = absHandle h db := by
  refine ⟨?_, hs.handle⟩
  have : ∀ (l₁ : List TwoHandles.Item) (l₂ : List Store.Item), All₂ (ItemRel E) l₁ l₂ →
      l₂ = List.zipWith (liftItem E) (l₂.map (·.id)) l₁ := by
    intro l₁ l₂ hr
    induction hr with
    | nil => rfl
    | cons hab _ ih =>
      simp only [List.map_cons, List.zipWith_cons_cons, ← ih]
      rw [← show _ = liftItem E _ _ from hab]
  cases sdb with
  | mk items profiles =>
    simp only [absDb, Store.Db.mk.injEq]
    exact ⟨this _ _ hs.items, hs.profiles⟩

/-! ## pointwise correspondences -/

theorem beq_dec {α : Type} [BEq α] [LawfulBEq α] [DecidableEq α] (a b : α) : (a == b) = decide (a = b) := by
  by_cases h : a = b <;> simp [h]

theorem hits_eq (E : Enc) (s : TwoHandles.Sess) (c n : String) {a : TwoHandles.Item} {b : Store.Item} (hab : ItemRel E a b) :
    TwoHandles.hits s c n a = b.sameIdent s.pid s.key E.kind c n := by
  rw [hab]
  simp [TwoHandles.hits, Store.Item.sameIdent, liftItem, Bool.and_assoc, beq_dec]

theorem inScope_eq (E : Enc) (s : TwoHandles.Sess) (cat : Option String) {a : TwoHandles.Item} {b : Store.Item}
    (hab : ItemRel E a b) : TwoHandles.inScope s cat a = b.inScope s.pid s.key none cat := by
  rw [hab]
  cases cat <;> simp [TwoHandles.inScope, Store.Item.inScope, liftItem, beq_dec]

theorem live_rel (E : Enc) (now : Int) {a : TwoHandles.Item} {b : Store.Item} (hab : ItemRel E a b) : Store.live now b = true := by
  rw [hab]; rfl

theorem toEntry_rel (E : Enc) {a : TwoHandles.Item} {b : Store.Item} (hab : ItemRel E a b) :
    liftRec E a.data = Store.toEntry b := by
  rw [hab]; rfl

/-! ## the item calls both models have -/

inductive ItemCall
  | insert (r : TwoHandles.Rec)
  | replace (r : TwoHandles.Rec)
  | remove (c n : String)
  | fetch (c n : String)
  | fetchAll (cat : Option String)
  | count (cat : Option String)
  | removeAll (cat : Option String)
  deriving Repr, DecidableEq

/-- what a TwoHandles call returns -/
inductive TOut
  | ok
  | err (e : TwoHandles.Err)
  | removed (b : Bool)
  | sess (s : TwoHandles.Sess)
  | one (r : Option TwoHandles.Rec)
  | recs (rs : List TwoHandles.Rec)
  | count (n : Nat)
  | scanned (rs : List TwoHandles.Rec)
  deriving Repr, DecidableEq

/-- what a Store-model call returns -/
inductive SOut
  | removed (b : Bool)
  | sess (s : Store.Sess)
  | out (o : Store.Out)
  deriving Repr

/-- outputs are compared through the payload encoding; a scan is reported in pages of `page` rows by the Store model -/
def liftOut (E : Enc) (page : Nat) : TOut → SOut
  | .ok => .out .ok
  | .err e => .out (.err (liftErr e))
  | .removed b => .removed b
  | .sess s => .sess (liftSess s)
  | .one r => .out (.entry (r.map (liftRec E)))
  | .recs rs => .out (.entries (rs.map (liftRec E)))
  | .count n => .out (.count n)
  | .scanned rs => .out (.pages (Store.batches page (rs.map (liftRec E))))

/-- the Store-model call of a TwoHandles item call: kind `E.kind`, no expiry, no tag filter, no window -/
def toOp (E : Enc) : ItemCall → Store.Op
  | .insert r => .insert E.kind r.cat r.name (E.val r.value) (some (r.tags.map E.tag)) none
  | .replace r => .replace E.kind r.cat r.name (E.val r.value) (some (r.tags.map E.tag)) none
  | .remove c n => .remove E.kind c n
  | .fetch c n => .fetch E.kind c n
  | .fetchAll cat => .fetchAll none cat none none false
  | .count cat => .count none cat none
  | .removeAll cat => .removeAll none cat none

/-- one item call through the pair `s`, in the TwoHandles model -/
def thItem (s : TwoHandles.Sess) (db : TwoHandles.Db) : ItemCall → TwoHandles.Db × TOut
  | .insert r => match TwoHandles.insert s db r with | .ok db' => (db', .ok) | .error e => (db, .err e)
  | .replace r => match TwoHandles.replace s db r with | .ok db' => (db', .ok) | .error e => (db, .err e)
  | .remove c n => match TwoHandles.remove s db c n with | .ok db' => (db', .ok) | .error e => (db, .err e)
  | .fetch c n => (db, .one (TwoHandles.fetch s db c n))
  | .fetchAll cat => match TwoHandles.fetchAll s db cat with | .ok rs => (db, .recs rs) | .error e => (db, .err e)
  | .count cat => (db, .count (TwoHandles.count s db cat))
  | .removeAll cat => ((TwoHandles.removeAll s db cat).1, .count (TwoHandles.removeAll s db cat).2)

/-- the only call on which the two models can differ: an insert through a pair whose profile row is gone -/
def ItemCall.needsParent : ItemCall → Bool
  | .insert _ => true
  | _ => false

theorem decryptRows_eq (key : Nat) (l : List Store.Item) :
    Store.decryptRows key l = if l.all (fun it => it.key == key) then .ok (l.map Store.toEntry) else .error .encryption := by
  induction l with
  | nil => rfl
  | cons x l ih =>
    simp only [Store.decryptRows, ih, Store.decryptRow, List.all_cons, List.map_cons]
    by_cases hx : (x.key == key) = true
    · by_cases hl : (l.all fun it => it.key == key) = true
      · simp [hx, hl, Store.toEntry]
      · simp [hx, hl]
    · by_cases hl : (l.all fun it => it.key == key) = true
      · simp [hx, hl]
      · simp [hx, hl]

theorem scopeFilter_eq (E : Enc) (like : Bytes → Bytes → Bool) (now : Int) (s : TwoHandles.Sess) (cat : Option String)
    {a : TwoHandles.Item} {b : Store.Item} (hab : ItemRel E a b) :
    TwoHandles.inScope s cat a = (b.inScope s.pid s.key none cat && Store.live now b && Store.matchFilter like none b) := by
  rw [inScope_eq E s cat hab, live_rel E now hab]
  simp [Store.matchFilter, Store.matchTags]

theorem scopeFilter_eq' (E : Enc) (like : Bytes → Bytes → Bool) (s : TwoHandles.Sess) (cat : Option String)
    {a : TwoHandles.Item} {b : Store.Item} (hab : ItemRel E a b) :
    TwoHandles.inScope s cat a = (b.inScope s.pid s.key none cat && Store.matchFilter like none b) := by
  rw [inScope_eq E s cat hab]
  simp [Store.matchFilter, Store.matchTags]

/-- the rows a listing reads and decrypts, in both models -/
theorem rows_tie (E : Enc) (like : Bytes → Bytes → Bool) (now : Int) (s : TwoHandles.Sess) (cat : Option String)
    {db : TwoHandles.Db} {sdb : Store.Db} (hi : All₂ (ItemRel E) db.items sdb.items) (hsorted : Store.Sorted sdb) :
    Store.decryptRows s.key (Store.selectRows like sdb now s.pid s.key none cat none none none false) =
      match TwoHandles.fetchAll s db cat with
      | .ok rs => .ok (rs.map (liftRec E))
      | .error e => .error (liftErr e) := by
  have hf := hi.filter (p := TwoHandles.inScope s cat)
    (q := fun it => it.inScope s.pid s.key none cat && Store.live now it && Store.matchFilter like none it)
    (fun a b hab => scopeFilter_eq E like now s cat hab)
  have hsel : Store.selectRows like sdb now s.pid s.key none cat none none none false =
      sdb.items.filter (fun it => it.inScope s.pid s.key none cat && Store.live now it && Store.matchFilter like none it) := by
    simp only [Store.selectRows, Store.window, Bool.false_eq_true, if_false]
    exact Store.sortById_of_sorted _ (Store.sorted_filter _ _ hsorted)
  rw [hsel, decryptRows_eq]
  have hall := hf.all_eq (p := fun it => decide (it.key = s.key)) (q := fun it => it.key == s.key)
    (fun a b hab => by rw [hab]; simp [liftItem, beq_dec])
  have hmap := hf.map_eq (F := fun a => liftRec E a.data) (G := Store.toEntry) (fun a b hab => toEntry_rel E hab)
  unfold TwoHandles.fetchAll
  simp only
  rw [hall]
  split
  · simp only [List.map_map]
    rw [← hmap]
    rfl
  · rfl

theorem sim_items {E : Enc} {h : TwoHandles.Handle} {db db' : TwoHandles.Db} {sdb sdb' : Store.Db} {sh : Store.Handle}
    (hs : Sim E h db sdb sh) (hp : db'.profiles = db.profiles) (hk : db'.nextKey = db.nextKey)
    (hp' : sdb'.profiles = sdb.profiles) (hi : All₂ (ItemRel E) db'.items sdb'.items) (hsorted : Store.Sorted sdb') :
    Sim E h db' sdb' sh where
  profiles := by rw [hp', hp, hs.profiles]
  items := hi
  sorted := hsorted
  handle := by rw [hs.handle]; simp [absHandle, hk]

theorem insert_refines (E : Enc) (like : Bytes → Bytes → Bool) (page : Nat) (now : Int) (s : TwoHandles.Sess)
    {h : TwoHandles.Handle} {db : TwoHandles.Db} {sdb : Store.Db} {sh : Store.Handle} (hs : Sim E h db sdb sh)
    (r : TwoHandles.Rec) (hfk : db.hasId s.pid = true) :
    Sim E h (thItem s db (.insert r)).1 (Store.step like page now (liftSess s) sdb (toOp E (.insert r))).1 sh ∧
    SOut.out (Store.step like page now (liftSess s) sdb (toOp E (.insert r))).2 = liftOut E page (thItem s db (.insert r)).2 := by
  have hsorted' := Store.step_sorted like page now (liftSess s) sdb (toOp E (.insert r)) hs.sorted
  have hany : db.items.any (TwoHandles.hits s r.cat r.name) =
      sdb.items.any (fun it => it.sameIdent s.pid s.key E.kind r.cat r.name) :=
    hs.items.any_eq (fun a b hab => hits_eq E s r.cat r.name hab)
  revert hsorted'
  simp only [toOp, Store.step, Store.Lemmas.doInsert_none, liftSess, ← hany, thItem, TwoHandles.insert, hfk, if_true]
  by_cases hd : db.items.any (TwoHandles.hits s r.cat r.name) = true
  · simp only [hd, if_true]
    intro _
    exact ⟨hs, rfl⟩
  · simp only [hd, Bool.false_eq_true, if_false]
    intro hsorted'
    refine ⟨sim_items hs rfl rfl rfl ?_ hsorted', rfl⟩
    exact hs.items.append (.cons rfl .nil)

theorem replace_refines (E : Enc) (like : Bytes → Bytes → Bool) (page : Nat) (now : Int) (s : TwoHandles.Sess)
    {h : TwoHandles.Handle} {db : TwoHandles.Db} {sdb : Store.Db} {sh : Store.Handle} (hs : Sim E h db sdb sh)
    (r : TwoHandles.Rec) :
    Sim E h (thItem s db (.replace r)).1 (Store.step like page now (liftSess s) sdb (toOp E (.replace r))).1 sh ∧
    SOut.out (Store.step like page now (liftSess s) sdb (toOp E (.replace r))).2 = liftOut E page (thItem s db (.replace r)).2 := by
  have hsorted' := Store.step_sorted like page now (liftSess s) sdb (toOp E (.replace r)) hs.sorted
  have hany : db.items.any (TwoHandles.hits s r.cat r.name) =
      sdb.items.any (fun it => it.sameIdent s.pid s.key E.kind r.cat r.name) :=
    hs.items.any_eq (fun a b hab => hits_eq E s r.cat r.name hab)
  revert hsorted'
  simp only [toOp, Store.step, Store.Lemmas.doReplace_none, liftSess, ← hany, thItem, TwoHandles.replace]
  by_cases hd : db.items.any (TwoHandles.hits s r.cat r.name) = true
  · simp only [hd, if_true]
    intro hsorted'
    refine ⟨sim_items hs rfl rfl rfl ?_ hsorted', rfl⟩
    refine hs.items.map ?_
    intro a b hab
    rw [← hits_eq E s r.cat r.name hab]
    by_cases hh : TwoHandles.hits s r.cat r.name a = true
    · simp only [hh, if_true]
      have hcn : a.data.cat = r.cat ∧ a.data.name = r.name := by
        simp [TwoHandles.hits] at hh; exact ⟨hh.1.2, hh.2⟩
      unfold ItemRel at hab ⊢
      rw [hab]
      simp [liftItem, hcn.1, hcn.2]
    · simp only [hh, Bool.false_eq_true, if_false]
      exact hab
  · simp only [hd, Bool.false_eq_true, if_false]
    intro _
    exact ⟨hs, rfl⟩

theorem remove_refines (E : Enc) (like : Bytes → Bytes → Bool) (page : Nat) (now : Int) (s : TwoHandles.Sess)
    {h : TwoHandles.Handle} {db : TwoHandles.Db} {sdb : Store.Db} {sh : Store.Handle} (hs : Sim E h db sdb sh)
    (c n : String) :
    Sim E h (thItem s db (.remove c n)).1 (Store.step like page now (liftSess s) sdb (toOp E (.remove c n))).1 sh ∧
    SOut.out (Store.step like page now (liftSess s) sdb (toOp E (.remove c n))).2 = liftOut E page (thItem s db (.remove c n)).2 := by
  have hsorted' := Store.step_sorted like page now (liftSess s) sdb (toOp E (.remove c n)) hs.sorted
  have hany : db.items.any (TwoHandles.hits s c n) = sdb.items.any (fun it => it.sameIdent s.pid s.key E.kind c n) :=
    hs.items.any_eq (fun a b hab => hits_eq E s c n hab)
  revert hsorted'
  simp only [toOp, Store.step, Store.doRemove, liftSess, ← hany, thItem, TwoHandles.remove]
  by_cases hd : db.items.any (TwoHandles.hits s c n) = true
  · simp only [hd, if_true]
    intro hsorted'
    refine ⟨sim_items hs rfl rfl rfl ?_ hsorted', rfl⟩
    exact hs.items.filter (p := fun it => !TwoHandles.hits s c n it)
      (q := fun it => !it.sameIdent s.pid s.key E.kind c n) (fun a b hab => by rw [hits_eq E s c n hab])
  · simp only [hd, Bool.false_eq_true, if_false]
    intro _
    exact ⟨hs, rfl⟩

theorem doFetch_eq (db : Store.Db) (now : Int) (s : Store.Sess) (k : Store.Kind) (c n : String) :
    Store.doFetch db now s k c n =
      (db.items.find? fun it => it.sameIdent s.pid s.key k c n && Store.live now it).map Store.toEntry := by
  unfold Store.doFetch
  cases db.items.find? fun it => it.sameIdent s.pid s.key k c n && Store.live now it <;> rfl

theorem reads_refine (E : Enc) (like : Bytes → Bytes → Bool) (page : Nat) (now : Int) (s : TwoHandles.Sess)
    {h : TwoHandles.Handle} {db : TwoHandles.Db} {sdb : Store.Db} {sh : Store.Handle} (hs : Sim E h db sdb sh) :
    (∀ c n, (Store.step like page now (liftSess s) sdb (toOp E (.fetch c n))) = (sdb, .entry ((TwoHandles.fetch s db c n).map (liftRec E)))) ∧
    (∀ cat, (Store.step like page now (liftSess s) sdb (toOp E (.count cat))) = (sdb, .count (TwoHandles.count s db cat))) ∧
    (∀ cat, (Store.step like page now (liftSess s) sdb (toOp E (.fetchAll cat))) =
      (sdb, match TwoHandles.fetchAll s db cat with | .ok rs => .entries (rs.map (liftRec E)) | .error e => .err (liftErr e))) := by
  refine ⟨?_, ?_, ?_⟩
  · intro c n
    simp only [toOp, Store.step, doFetch_eq, liftSess, TwoHandles.fetch, Option.map_map]
    congr 2
    exact (hs.items.find?_map (p := TwoHandles.hits s c n)
      (q := fun it => it.sameIdent s.pid s.key E.kind c n && Store.live now it)
      (F := fun a => liftRec E a.data) (G := Store.toEntry)
      (fun a b hab => by rw [hits_eq E s c n hab, live_rel E now hab, Bool.and_true])
      (fun a b hab => toEntry_rel E hab)).symm
  · intro cat
    simp only [toOp, Store.step, Store.doCount, liftSess, TwoHandles.count]
    congr 2
    exact (hs.items.filter (fun a b hab => scopeFilter_eq E like now s cat hab)).length_eq.symm
  · intro cat
    have := rows_tie E like now s cat hs.items hs.sorted
    simp only [toOp, Store.step, Store.doFetchAll, liftSess, this]
    cases TwoHandles.fetchAll s db cat <;> rfl

theorem removeAll_refines (E : Enc) (like : Bytes → Bytes → Bool) (page : Nat) (now : Int) (s : TwoHandles.Sess)
    {h : TwoHandles.Handle} {db : TwoHandles.Db} {sdb : Store.Db} {sh : Store.Handle} (hs : Sim E h db sdb sh)
    (cat : Option String) :
    Sim E h (thItem s db (.removeAll cat)).1 (Store.step like page now (liftSess s) sdb (toOp E (.removeAll cat))).1 sh ∧
    SOut.out (Store.step like page now (liftSess s) sdb (toOp E (.removeAll cat))).2 = liftOut E page (thItem s db (.removeAll cat)).2 := by
  have hsorted' := Store.step_sorted like page now (liftSess s) sdb (toOp E (.removeAll cat)) hs.sorted
  revert hsorted'
  simp only [toOp, Store.step, Store.doRemoveAll, liftSess, thItem, TwoHandles.removeAll, TwoHandles.count]
  intro hsorted'
  refine ⟨sim_items hs rfl rfl rfl ?_ hsorted', ?_⟩
  · exact hs.items.filter (p := fun it => !TwoHandles.inScope s cat it)
      (q := fun it => !(it.inScope s.pid s.key none cat && Store.matchFilter like none it))
      (fun a b hab => by rw [scopeFilter_eq' E like s cat hab])
  · simp only [liftOut]
    congr 2
    exact (hs.items.filter (fun a b hab => scopeFilter_eq' E like s cat hab)).length_eq.symm

/-- ONE ITEM CALL through any pair `s` — opened now, or held for however long: same output, related states.
    The side condition concerns `insert` alone: the profile row with the pair's id must still exist (it does for every
    session `Store::session` has just handed out: the ping).  Without it the models differ: `insert_differs_without_parent`. -/
theorem item_refines (E : Enc) (like : Bytes → Bytes → Bool) (page : Nat) (now : Int) (s : TwoHandles.Sess)
    {h : TwoHandles.Handle} {db : TwoHandles.Db} {sdb : Store.Db} {sh : Store.Handle} (hs : Sim E h db sdb sh)
    (c : ItemCall) (hfk : c.needsParent = true → db.hasId s.pid = true) :
    Sim E h (thItem s db c).1 (Store.step like page now (liftSess s) sdb (toOp E c)).1 sh ∧
    SOut.out (Store.step like page now (liftSess s) sdb (toOp E c)).2 = liftOut E page (thItem s db c).2 := by
  cases c with
  | insert r => exact insert_refines E like page now s hs r (hfk rfl)
  | replace r => exact replace_refines E like page now s hs r
  | remove c n => exact remove_refines E like page now s hs c n
  | removeAll cat => exact removeAll_refines E like page now s hs cat
  | fetch c n => rw [(reads_refine E like page now s hs).1 c n]; exact ⟨hs, rfl⟩
  | count cat => rw [(reads_refine E like page now s hs).2.1 cat]; exact ⟨hs, rfl⟩
  | fetchAll cat =>
    rw [(reads_refine E like page now s hs).2.2 cat]
    simp only [thItem]
    cases TwoHandles.fetchAll s db cat <;> exact ⟨hs, rfl⟩

/-- THE DIFFERENCE between the two models: an insert through a pair whose profile row no longer exists.  TwoHandles (and
    SQLite: `FOREIGN KEY (profile_id) REFERENCES profiles (id)`, sqlx switches `foreign_keys` ON) refuses with Backend and
    writes nothing; `Store.step` acknowledges it and adds a row that no profile owns. -/
theorem insert_differs_without_parent (E : Enc) (like : Bytes → Bytes → Bool) (page : Nat) (now : Int) (s : TwoHandles.Sess)
    {h : TwoHandles.Handle} {db : TwoHandles.Db} {sdb : Store.Db} {sh : Store.Handle} (hs : Sim E h db sdb sh)
    (r : TwoHandles.Rec) (hfk : db.hasId s.pid = false) (hnew : db.items.any (TwoHandles.hits s r.cat r.name) = false) :
    thItem s db (.insert r) = (db, .err .backend) ∧
    (Store.step like page now (liftSess s) sdb (toOp E (.insert r))).2 = .ok ∧
    (Store.step like page now (liftSess s) sdb (toOp E (.insert r))).1.items =
      sdb.items ++ [liftItem E (Store.nextId (sdb.items.map (·.id))) ⟨s.pid, s.key, r⟩] ∧
    ¬ Store.FkInv (Store.step like page now (liftSess s) sdb (toOp E (.insert r))).1 := by
  have hany : db.items.any (TwoHandles.hits s r.cat r.name) =
      sdb.items.any (fun it => it.sameIdent s.pid s.key E.kind r.cat r.name) :=
    hs.items.any_eq (fun a b hab => hits_eq E s r.cat r.name hab)
  simp only [toOp, Store.step, Store.Lemmas.doInsert_none, liftSess, ← hany, thItem, TwoHandles.insert, hfk, hnew,
    Bool.false_eq_true, if_false, true_and]
  refine ⟨rfl, ?_⟩
  intro hfkinv
  obtain ⟨p, hp, hpid⟩ := hfkinv _ (List.mem_append_right _ (List.mem_singleton.mpr rfl))
  simp only [hs.profiles, List.mem_map] at hp
  obtain ⟨row, hrow, rfl⟩ := hp
  have : db.hasId s.pid = true := TwoHandles.hasId_iff.mpr ⟨row, hrow, hpid⟩
  rw [hfk] at this; cases this

/-! ## store-level calls: tables and cache under the map -/

theorem foldl_max_ids (ps : List TwoHandles.ProfRow) (a : Nat) :
    List.foldl max a ((ps.map liftProf).map (·.id)) = max a (TwoHandles.maxId ps) := by
  induction ps generalizing a with
  | nil => simp [TwoHandles.maxId]
  | cons r rs ih =>
    simp only [List.map_cons, List.foldl_cons, ih, TwoHandles.maxId, liftProf]
    omega

/-- both models allocate `max(id) + 1` -/
theorem nextId_eq (db : TwoHandles.Db) : Store.nextId ((db.profiles.map liftProf).map (·.id)) = db.newRowId := by
  unfold Store.nextId TwoHandles.Db.newRowId
  rw [foldl_max_ids, Nat.zero_max]

theorem find_name_eq (ps : List TwoHandles.ProfRow) (n : String) :
    (ps.map liftProf).find? (fun p => p.name == n) = (ps.find? (fun r => decide (r.name = n))).map liftProf := by
  induction ps with
  | nil => rfl
  | cons r rs ih =>
    simp only [List.map_cons, List.find?_cons, ih]
    by_cases h : r.name = n
    · simp [h, liftProf]
    · have h' : ((liftProf r).name == n) = false := by simp [liftProf, h]
      simp [h, h']

theorem any_name_eq (ps : List TwoHandles.ProfRow) (n : String) :
    (ps.map liftProf).any (fun p => p.name == n) = (ps.find? (fun r => decide (r.name = n))).isSome := by
  induction ps with
  | nil => rfl
  | cons r rs ih =>
    simp only [List.map_cons, List.any_cons, List.find?_cons, ih]
    by_cases h : r.name = n <;> simp [h, liftProf]

theorem any_id_eq (db : TwoHandles.Db) (p : Nat) : (db.profiles.map liftProf).any (fun q => q.id == p) = db.hasId p := by
  unfold TwoHandles.Db.hasId
  induction db.profiles with
  | nil => rfl
  | cons r rs ih =>
    simp only [List.map_cons, List.any_cons, ih]
    by_cases h : r.id = p <;> simp [h, liftProf]

theorem cacheGet_eq (c : List TwoHandles.CacheEntry) (n : String) :
    Store.cacheGet (c.map liftEntry) n = (TwoHandles.cacheGet c n).map (fun e => (e.pid, e.key)) := by
  unfold Store.cacheGet TwoHandles.cacheGet
  induction c with
  | nil => rfl
  | cons e c ih =>
    simp only [List.map_cons, List.find?_cons]
    by_cases h : e.name = n
    · simp [h, liftEntry]
    · simp only [liftEntry, beq_dec, h, decide_false]
      exact ih

theorem cacheDel_eq (c : List TwoHandles.CacheEntry) (n : String) :
    (c.map liftEntry).filter (fun x => x.1 != n) = (TwoHandles.cacheDel c n).map liftEntry := by
  unfold TwoHandles.cacheDel
  induction c with
  | nil => rfl
  | cons e c ih =>
    simp only [List.map_cons, List.filter_cons, ih]
    by_cases h : e.name = n <;> simp [h, liftEntry]

theorem cachePut_eq (c : List TwoHandles.CacheEntry) (n : String) (p k : Nat) :
    Store.cachePut (c.map liftEntry) n (p, k) = (TwoHandles.cachePut c n p k).map liftEntry := by
  unfold Store.cachePut TwoHandles.cachePut
  rw [List.map_cons, cacheDel_eq]
  rfl

theorem sim_handle {E : Enc} {h : TwoHandles.Handle} {db : TwoHandles.Db} {sdb : Store.Db} {sh : Store.Handle}
    (hs : Sim E h db sdb sh) (h' : TwoHandles.Handle) : Sim E h' db sdb (absHandle h' db) :=
  ⟨hs.profiles, hs.items, hs.sorted, rfl⟩

/-! ### create_profile -/

theorem create_tie (E : Enc) {h : TwoHandles.Handle} {db : TwoHandles.Db} {sdb : Store.Db} {sh : Store.Handle}
    (hs : Sim E h db sdb sh) (n : String) :
    match (TwoHandles.createProfile h db n).2.2 with
    | .ok _ => ∃ sdb' sh', Store.createProfile sdb sh n = .ok (sdb', sh') ∧
        Sim E (TwoHandles.createProfile h db n).1 (TwoHandles.createProfile h db n).2.1 sdb' sh'
    | .error e => Store.createProfile sdb sh n = .error (liftErr e) ∧
        (TwoHandles.createProfile h db n).1 = h ∧ (TwoHandles.createProfile h db n).2.1 = db := by
  have hsh := hs.handle
  subst hsh
  unfold TwoHandles.createProfile Store.createProfile
  rw [hs.profiles, any_name_eq]
  cases hr : db.rowByName n with
  | some row =>
    have : (db.profiles.find? fun r => decide (r.name = n)) = some row := hr
    simp [this, liftErr]
  | none =>
    have : (db.profiles.find? fun r => decide (r.name = n)) = none := hr
    simp only [this, Option.isSome_none, Bool.false_eq_true, if_false]
    refine ⟨_, _, rfl, ?_⟩
    constructor
    · simp only [nextId_eq, absHandle, List.map_append, List.map_cons, List.map_nil, liftProf]
    · exact hs.items
    · exact hs.sorted
    · simp only [absHandle, nextId_eq, cachePut_eq]

/-! ### remove_profile (with eviction: the current tree, `Store.evictOnRemove = true`) -/

theorem remove_tie (E : Enc) {h : TwoHandles.Handle} {db : TwoHandles.Db} {sdb : Store.Db} {sh : Store.Handle}
    (hs : Sim E h db sdb sh) (n : String) :
    Sim E (TwoHandles.removeProfile h db n).1 (TwoHandles.removeProfile h db n).2.1
      (Store.removeProfile sdb sh n true).1.1 (Store.removeProfile sdb sh n true).1.2 ∧
    (Store.removeProfile sdb sh n true).2 = (TwoHandles.removeProfile h db n).2.2 := by
  have hsh := hs.handle
  subst hsh
  unfold TwoHandles.removeProfile Store.removeProfile
  rw [hs.profiles, find_name_eq]
  cases hr : db.rowByName n with
  | none =>
    have : (db.profiles.find? fun r => decide (r.name = n)) = none := hr
    simp only [this, Option.map_none, if_true]
    refine ⟨⟨hs.profiles, hs.items, hs.sorted, ?_⟩, by first | rfl | trivial⟩
    simp only [absHandle, cacheDel_eq]
  | some row =>
    have : (db.profiles.find? fun r => decide (r.name = n)) = some row := hr
    simp only [this, Option.map_some, if_true]
    refine ⟨⟨?_, ?_, ?_, ?_⟩, by first | rfl | trivial⟩
    · show (db.profiles.map liftProf).filter (fun p => p.name != n) = (db.profiles.filter fun r => decide (r.name ≠ n)).map liftProf
      induction db.profiles with
      | nil => rfl
      | cons r rs ih =>
        simp only [List.map_cons, List.filter_cons, ih]
        by_cases h : r.name = n <;> simp [h, liftProf]
    · exact hs.items.filter (p := fun it => decide (it.pid ≠ row.id)) (q := fun it => it.pid != (liftProf row).id)
        (fun a b hab => by rw [hab]; simp [liftItem, liftProf, bne, beq_dec])
    · exact Store.sorted_filter _ _ hs.sorted
    · simp only [absHandle, cacheDel_eq]

/-! ### resolve, ping, session open, scan -/

theorem resolve_tie (E : Enc) {h : TwoHandles.Handle} {db : TwoHandles.Db} {sdb : Store.Db} {sh : Store.Handle}
    (hs : Sim E h db sdb sh) (n : String) :
    match (TwoHandles.resolve false h db n).2 with
    | .ok s => Store.resolve sdb sh n = .ok (liftSess s, absHandle (TwoHandles.resolve false h db n).1 db)
    | .error e => Store.resolve sdb sh n = .error (liftErr e) ∧ (TwoHandles.resolve false h db n).1 = h := by
  have hsh := hs.handle
  subst hsh
  unfold TwoHandles.resolve Store.resolve
  simp only [Bool.false_eq_true, if_false, absHandle, cacheGet_eq]
  cases hc : TwoHandles.cacheGet h.cache n with
  | some e => simp [liftSess]
  | none =>
    simp only [Option.map_none, hs.profiles, find_name_eq]
    cases hr : db.rowByName n with
    | none =>
      have : (db.profiles.find? fun r => decide (r.name = n)) = none := hr
      simp [this, liftErr]
    | some row =>
      have : (db.profiles.find? fun r => decide (r.name = n)) = some row := hr
      simp [this, liftSess, liftProf, cachePut_eq]

theorem ping_tie (E : Enc) {h : TwoHandles.Handle} {db : TwoHandles.Db} {sdb : Store.Db} {sh : Store.Handle}
    (hs : Sim E h db sdb sh) (s : TwoHandles.Sess) :
    Store.ping sdb (liftSess s) = if TwoHandles.ping db s = true then .ok () else .error .notFound := by
  unfold Store.ping TwoHandles.ping
  rw [hs.profiles, liftSess, any_id_eq]

/-- `Store::session` in the Store model's vocabulary: `resolve` through the handle, then `ping` -/
def storeOpen (sdb : Store.Db) (sh : Store.Handle) (name : String) : Store.Handle × Except Store.Err Store.Sess :=
  match Store.resolve sdb sh name with
  | .error e => (sh, .error e)
  | .ok (s, sh') =>
    match Store.ping sdb s with
    | .ok _ => (sh', .ok s)
    | .error e => (sh', .error e)

theorem open_tie (E : Enc) {h : TwoHandles.Handle} {db : TwoHandles.Db} {sdb : Store.Db} {sh : Store.Handle}
    (hs : Sim E h db sdb sh) (p : Option String) :
    storeOpen sdb sh (p.getD h.active) =
      (absHandle (TwoHandles.openSession false h db p).1 db,
       match (TwoHandles.openSession false h db p).2 with
       | .ok s => .ok (liftSess s)
       | .error e => .error (liftErr e)) := by
  have hsh := hs.handle
  subst hsh
  have hr := resolve_tie E hs (p.getD h.active)
  unfold storeOpen TwoHandles.openSession
  revert hr
  generalize TwoHandles.resolve false h db (p.getD h.active) = x
  obtain ⟨h', r⟩ := x
  cases r with
  | error e =>
    rintro ⟨h1, h2⟩
    simp only at h2
    subst h2
    simp only [h1]
  | ok s =>
    intro h1
    simp only at h1
    simp only [h1, ping_tie E hs s]
    cases TwoHandles.ping db s <;> simp [liftErr]

/-- a session that was opened has its profile row (the ping): the side condition of `item_refines` holds -/
theorem open_hasId {h h' : TwoHandles.Handle} {db : TwoHandles.Db} {p : Option String} {s : TwoHandles.Sess}
    (ho : TwoHandles.openSession false h db p = (h', .ok s)) : db.hasId s.pid = true := by
  unfold TwoHandles.openSession at ho
  revert ho
  generalize TwoHandles.resolve false h db (p.getD h.active) = x
  obtain ⟨h1, r⟩ := x
  cases r with
  | error e => intro ho; simp at ho
  | ok s' =>
    simp only
    split
    · rename_i hp
      intro ho
      simp only [Prod.mk.injEq, Except.ok.injEq] at ho
      rw [← ho.2]; exact hp
    · intro ho; simp at ho

theorem scan_tie (E : Enc) (like : Bytes → Bytes → Bool) (page : Nat) (now : Int)
    {h : TwoHandles.Handle} {db : TwoHandles.Db} {sdb : Store.Db} {sh : Store.Handle} (hs : Sim E h db sdb sh)
    (s : TwoHandles.Sess) (cat : Option String) :
    (Store.step like page now (liftSess s) sdb (.scan none cat none none none false)).2 =
      match TwoHandles.fetchAll s db cat with
      | .ok rs => .pages (Store.batches page (rs.map (liftRec E)))
      | .error e => .err (liftErr e) := by
  have := rows_tie E like now s cat hs.items hs.sorted
  simp only [Store.step, Store.doScan, liftSess, this]
  cases TwoHandles.fetchAll s db cat with
  | ok rs => simp only [Store.drain_batches]
  | error e => rfl

theorem thItem_frame (s : TwoHandles.Sess) (db : TwoHandles.Db) (c : ItemCall) :
    (thItem s db c).1.profiles = db.profiles ∧ (thItem s db c).1.nextKey = db.nextKey ∧ (thItem s db c).1.default = db.default := by
  cases c with
  | insert r =>
    by_cases h1 : db.items.any (TwoHandles.hits s r.cat r.name) = true <;> by_cases h2 : db.hasId s.pid = true <;>
      simp [thItem, TwoHandles.insert, h1, h2]
  | replace r =>
    by_cases h1 : db.items.any (TwoHandles.hits s r.cat r.name) = true <;> simp [thItem, TwoHandles.replace, h1]
  | remove c n =>
    by_cases h1 : db.items.any (TwoHandles.hits s c n) = true <;> simp [thItem, TwoHandles.remove, h1]
  | fetch c n => exact ⟨rfl, rfl, rfl⟩
  | fetchAll cat => simp only [thItem]; cases TwoHandles.fetchAll s db cat <;> exact ⟨rfl, rfl, rfl⟩
  | count cat => exact ⟨rfl, rfl, rfl⟩
  | removeAll cat => exact ⟨rfl, rfl, rfl⟩

theorem thItem_nextKey (s : TwoHandles.Sess) (db : TwoHandles.Db) (c : ItemCall) : (thItem s db c).1.nextKey = db.nextKey :=
  (thItem_frame s db c).2.1

/-! ## histories of ONE handle -/

/-- a call of the single handle.  `item p c` is `Store::session(p)` (resolve + ping), the call `c`, drop — the session is
    opened for the call; calls through a pair held for longer are covered by `item_refines`. -/
inductive Call
  | create (n : String)
  | remove (n : String)
  | openSession (p : Option String)
  | scan (p : Option String) (cat : Option String)
  | item (p : Option String) (c : ItemCall)
  deriving Repr, DecidableEq

/-- one call in the TwoHandles model (today's `resolve_profile_key`: `validate = false`) -/
def thStep (st : TwoHandles.Handle × TwoHandles.Db) : Call → (TwoHandles.Handle × TwoHandles.Db) × TOut
  | .create n =>
    (((TwoHandles.createProfile st.1 st.2 n).1, (TwoHandles.createProfile st.1 st.2 n).2.1),
     match (TwoHandles.createProfile st.1 st.2 n).2.2 with | .ok _ => .ok | .error e => .err e)
  | .remove n =>
    (((TwoHandles.removeProfile st.1 st.2 n).1, (TwoHandles.removeProfile st.1 st.2 n).2.1),
     .removed (TwoHandles.removeProfile st.1 st.2 n).2.2)
  | .openSession p =>
    (((TwoHandles.openSession false st.1 st.2 p).1, st.2),
     match (TwoHandles.openSession false st.1 st.2 p).2 with | .ok s => .sess s | .error e => .err e)
  | .scan p cat =>
    (((TwoHandles.scan false st.1 st.2 p cat).1, st.2),
     match (TwoHandles.scan false st.1 st.2 p cat).2 with | .ok rs => .scanned rs | .error e => .err e)
  | .item p c =>
    match (TwoHandles.openSession false st.1 st.2 p).2 with
    | .error e => (((TwoHandles.openSession false st.1 st.2 p).1, st.2), .err e)
    | .ok s => (((TwoHandles.openSession false st.1 st.2 p).1, (thItem s st.2 c).1), (thItem s st.2 c).2)

/-- the same call in the Store model: `createProfile` / `removeProfile` (eviction as in the current tree) / `resolve` / `ping` /
    `step`; `act` is the handle's active profile name (the Store model leaves it to its driver) -/
def storeStep (E : Enc) (like : Bytes → Bytes → Bool) (page : Nat) (now : Int) (act : String) (st : Store.Db × Store.Handle) :
    Call → (Store.Db × Store.Handle) × SOut
  | .create n =>
    match Store.createProfile st.1 st.2 n with
    | .ok r => (r, .out .ok)
    | .error e => (st, .out (.err e))
  | .remove n =>
    ((Store.removeProfile st.1 st.2 n Store.evictOnRemove).1, .removed (Store.removeProfile st.1 st.2 n Store.evictOnRemove).2)
  | .openSession p =>
    ((st.1, (storeOpen st.1 st.2 (p.getD act)).1),
     match (storeOpen st.1 st.2 (p.getD act)).2 with | .ok s => .sess s | .error e => .out (.err e))
  | .scan p cat =>
    match Store.resolve st.1 st.2 (p.getD act) with
    | .error e => (st, .out (.err e))
    | .ok (s, h') => ((st.1, h'), .out (Store.step like page now s st.1 (.scan none cat none none none false)).2)
  | .item p c =>
    match (storeOpen st.1 st.2 (p.getD act)).2 with
    | .error e => ((st.1, (storeOpen st.1 st.2 (p.getD act)).1), .out (.err e))
    | .ok s =>
      (((Store.step like page now s st.1 (toOp E c)).1, (storeOpen st.1 st.2 (p.getD act)).1),
       .out (Store.step like page now s st.1 (toOp E c)).2)

theorem openSession_fst (h : TwoHandles.Handle) (db : TwoHandles.Db) (p : Option String) :
    (TwoHandles.openSession false h db p).1 = (TwoHandles.resolve false h db (p.getD h.active)).1 := by
  unfold TwoHandles.openSession
  generalize TwoHandles.resolve false h db (p.getD h.active) = x
  obtain ⟨h', r⟩ := x
  cases r with
  | error e => rfl
  | ok s => simp only; split <;> rfl

theorem resolve_active (h : TwoHandles.Handle) (db : TwoHandles.Db) (n : String) :
    (TwoHandles.resolve false h db n).1.active = h.active := by
  unfold TwoHandles.resolve
  simp only [Bool.false_eq_true, if_false]
  cases TwoHandles.cacheGet h.cache n with
  | some e => rfl
  | none => cases db.rowByName n <;> rfl

/-- no call changes the handle's active profile name -/
theorem thStep_active (st : TwoHandles.Handle × TwoHandles.Db) (c : Call) : (thStep st c).1.1.active = st.1.active := by
  cases c with
  | create n => simp only [thStep, TwoHandles.createProfile]; cases st.2.rowByName n <;> rfl
  | remove n => simp only [thStep, TwoHandles.removeProfile]; cases st.2.rowByName n <;> rfl
  | openSession p => simp only [thStep, openSession_fst, resolve_active]
  | scan p cat =>
    simp only [thStep, TwoHandles.scan]
    have := resolve_active st.1 st.2 (p.getD st.1.active)
    revert this
    generalize TwoHandles.resolve false st.1 st.2 (p.getD st.1.active) = x
    obtain ⟨h', r⟩ := x
    cases r <;> exact id
  | item p c =>
    simp only [thStep]
    cases (TwoHandles.openSession false st.1 st.2 p).2 <;> simp only [openSession_fst, resolve_active]

/-- ONE CALL of the single handle: the Store model returns the same output and ends in the image of the TwoHandles state -/
theorem step_refines (E : Enc) (like : Bytes → Bytes → Bool) (page : Nat) (now : Int)
    {h : TwoHandles.Handle} {db : TwoHandles.Db} {sdb : Store.Db} {sh : Store.Handle} (hs : Sim E h db sdb sh) (c : Call) :
    Sim E (thStep (h, db) c).1.1 (thStep (h, db) c).1.2
      (storeStep E like page now h.active (sdb, sh) c).1.1 (storeStep E like page now h.active (sdb, sh) c).1.2 ∧
    (storeStep E like page now h.active (sdb, sh) c).2 = liftOut E page (thStep (h, db) c).2 := by
  cases c with
  | create n =>
    have := create_tie E hs n
    simp only [thStep, storeStep]
    revert this
    cases (TwoHandles.createProfile h db n).2.2 with
    | ok u =>
      rintro ⟨sdb', sh', h1, h2⟩
      simp only [h1]
      exact ⟨h2, rfl⟩
    | error e =>
      rintro ⟨h1, h2, h3⟩
      simp only [h1, h2, h3]
      exact ⟨hs, rfl⟩
  | remove n =>
    have := remove_tie E hs n
    simp only [thStep, storeStep, Store.evictOnRemove]
    exact ⟨this.1, by rw [this.2]; rfl⟩
  | openSession p =>
    simp only [thStep, storeStep, open_tie E hs p]
    refine ⟨sim_handle hs _, ?_⟩
    cases (TwoHandles.openSession false h db p).2 <;> rfl
  | scan p cat =>
    have hr := resolve_tie E hs (p.getD h.active)
    simp only [thStep, storeStep, TwoHandles.scan]
    revert hr
    generalize TwoHandles.resolve false h db (p.getD h.active) = x
    obtain ⟨h', r⟩ := x
    cases r with
    | error e =>
      rintro ⟨h1, h2⟩
      simp only at h2
      subst h2
      simp only [h1]
      exact ⟨hs, rfl⟩
    | ok s =>
      intro h1
      simp only at h1
      simp only [h1, scan_tie E like page now hs s cat]
      refine ⟨sim_handle hs _, ?_⟩
      cases TwoHandles.fetchAll s db cat <;> rfl
  | item p c =>
    simp only [thStep, storeStep, open_tie E hs p]
    cases ho : (TwoHandles.openSession false h db p).2 with
    | error e => exact ⟨sim_handle hs _, rfl⟩
    | ok s =>
      have hid : db.hasId s.pid = true :=
        open_hasId (h := h) (h' := (TwoHandles.openSession false h db p).1) (p := p) (by rw [← ho])
      have := item_refines E like page now s (sim_handle hs (TwoHandles.openSession false h db p).1) c (fun _ => hid)
      exact ⟨⟨this.1.profiles, this.1.items, this.1.sorted, by simp [absHandle, thItem_nextKey]⟩, by rw [← this.2]⟩

def thRun (st : TwoHandles.Handle × TwoHandles.Db) : List Call → (TwoHandles.Handle × TwoHandles.Db) × List TOut
  | [] => (st, [])
  | c :: cs => ((thRun (thStep st c).1 cs).1, (thStep st c).2 :: (thRun (thStep st c).1 cs).2)

def storeRun (E : Enc) (like : Bytes → Bytes → Bool) (page : Nat) (now : Int) (act : String) (st : Store.Db × Store.Handle) :
    List Call → (Store.Db × Store.Handle) × List SOut
  | [] => (st, [])
  | c :: cs =>
    ((storeRun E like page now act (storeStep E like page now act st c).1 cs).1,
     (storeStep E like page now act st c).2 :: (storeRun E like page now act (storeStep E like page now act st c).1 cs).2)

/-- A WHOLE HISTORY of the single handle, step for step -/
theorem run_refines (E : Enc) (like : Bytes → Bytes → Bool) (page : Nat) (now : Int) (cs : List Call) :
    ∀ {h : TwoHandles.Handle} {db : TwoHandles.Db} {sdb : Store.Db} {sh : Store.Handle}, Sim E h db sdb sh →
    Sim E (thRun (h, db) cs).1.1 (thRun (h, db) cs).1.2
      (storeRun E like page now h.active (sdb, sh) cs).1.1 (storeRun E like page now h.active (sdb, sh) cs).1.2 ∧
    (storeRun E like page now h.active (sdb, sh) cs).2 = (thRun (h, db) cs).2.map (liftOut E page) := by
  induction cs with
  | nil => intro h db sdb sh hs; exact ⟨hs, rfl⟩
  | cons c cs ih =>
    intro h db sdb sh hs
    have h1 := step_refines E like page now hs c
    have hact := thStep_active (h, db) c
    have h2 := ih h1.1
    rw [hact] at h2
    simp only [thRun, storeRun, List.map_cons]
    exact ⟨h2.1, by rw [h1.2, h2.2]⟩

/-! ## what every single-handle history keeps true -/

/-- unique names and unique row ids (the UNIQUE constraint on `profiles.name`, the rowid) -/
def ProfilesUnique (db : TwoHandles.Db) : Prop := db.profiles.Pairwise (fun a b => a.name ≠ b.name ∧ a.id ≠ b.id)

/-- every item row belongs to an existing profile row and was written under that row's key -/
def ItemsKeyed (db : TwoHandles.Db) : Prop := ∀ it ∈ db.items, ∃ r ∈ db.profiles, r.id = it.pid ∧ r.key = it.key

structure Good (h : TwoHandles.Handle) (db : TwoHandles.Db) : Prop where
  fresh : TwoHandles.CacheFresh h db
  unique : ProfilesUnique db
  keyed : ItemsKeyed db

theorem unique_eq {ps : List TwoHandles.ProfRow} (hu : ps.Pairwise (fun a b => a.name ≠ b.name ∧ a.id ≠ b.id))
    {a b : TwoHandles.ProfRow} (ha : a ∈ ps) (hb : b ∈ ps) (hab : a.name = b.name ∨ a.id = b.id) : a = b := by
  induction ps with
  | nil => cases ha
  | cons x xs ih =>
    rw [List.pairwise_cons] at hu
    rcases List.mem_cons.mp ha with rfl | ha' <;> rcases List.mem_cons.mp hb with rfl | hb'
    · rfl
    · have := hu.1 b hb'
      rcases hab with e | e
      · exact absurd e this.1
      · exact absurd e this.2
    · have := hu.1 a ha'
      rcases hab with e | e
      · exact absurd e.symm this.1
      · exact absurd e.symm this.2
    · exact ih hu.2 ha' hb'

theorem fresh_of_profiles {h : TwoHandles.Handle} {db db' : TwoHandles.Db} (hp : db'.profiles = db.profiles)
    (hf : TwoHandles.CacheFresh h db) : TwoHandles.CacheFresh h db' := by
  intro e he
  have := hf e he
  unfold TwoHandles.Db.rowByName at this ⊢
  rw [hp]; exact this

theorem good_create {h : TwoHandles.Handle} {db : TwoHandles.Db} (hg : Good h db) (n : String) :
    Good (TwoHandles.createProfile h db n).1 (TwoHandles.createProfile h db n).2.1 := by
  refine ⟨(TwoHandles.own_calls_fresh false h db hg.fresh n).1, ?_, ?_⟩
  · cases hr : db.rowByName n with
    | some row => simp only [TwoHandles.createProfile, hr]; exact hg.unique
    | none =>
      rw [TwoHandles.createProfile_absent h db n hr]
      unfold ProfilesUnique
      simp only
      rw [List.pairwise_append]
      refine ⟨hg.unique, List.pairwise_singleton _ _, ?_⟩
      intro a ha b hb
      rw [List.mem_singleton] at hb
      subst hb
      refine ⟨TwoHandles.rowByName_none hr a ha, ?_⟩
      have := TwoHandles.le_maxId ha
      show a.id ≠ TwoHandles.maxId db.profiles + 1
      intro e
      rw [e] at this
      exact Nat.not_succ_le_self _ this
  · cases hr : db.rowByName n with
    | some row => simp only [TwoHandles.createProfile, hr]; exact hg.keyed
    | none =>
      rw [TwoHandles.createProfile_absent h db n hr]
      intro it hit
      obtain ⟨r, hrm, h1⟩ := hg.keyed it hit
      exact ⟨r, List.mem_append_left _ hrm, h1⟩

theorem good_remove {h : TwoHandles.Handle} {db : TwoHandles.Db} (hg : Good h db) (n : String) :
    Good (TwoHandles.removeProfile h db n).1 (TwoHandles.removeProfile h db n).2.1 := by
  refine ⟨(TwoHandles.own_calls_fresh false h db hg.fresh n).2.1, ?_, ?_⟩
  · unfold TwoHandles.removeProfile
    cases hr : db.rowByName n with
    | none => exact hg.unique
    | some row => exact List.Pairwise.sublist List.filter_sublist hg.unique
  · unfold TwoHandles.removeProfile
    cases hr : db.rowByName n with
    | none => exact hg.keyed
    | some row =>
      intro it hit
      simp only at hit ⊢
      have hm := List.mem_filter.mp hit
      have hne : it.pid ≠ row.id := by simpa using hm.2
      obtain ⟨r, hrm, h1, h2⟩ := hg.keyed it hm.1
      refine ⟨r, List.mem_filter.mpr ⟨hrm, ?_⟩, h1, h2⟩
      have hrow := TwoHandles.rowByName_some hr
      have : r.name ≠ n := by
        intro e
        have : r = row := unique_eq hg.unique hrm hrow.1 (Or.inl (e.trans hrow.2.symm))
        subst this
        exact hne h1.symm
      simpa using this

theorem thItem_keyed {s : TwoHandles.Sess} {db : TwoHandles.Db} (hk : ItemsKeyed db)
    (hrow : ∃ r ∈ db.profiles, r.id = s.pid ∧ r.key = s.key) (c : ItemCall) : ItemsKeyed (thItem s db c).1 := by
  have sub : ∀ (items : List TwoHandles.Item), (∀ it ∈ items, ∃ it0 ∈ db.items, it.pid = it0.pid ∧ it.key = it0.key) →
      ItemsKeyed { db with items := items } := by
    intro items hsub it hit
    obtain ⟨it0, h0, e1, e2⟩ := hsub it hit
    obtain ⟨r, hrm, h1, h2⟩ := hk it0 h0
    exact ⟨r, hrm, h1.trans e1.symm, h2.trans e2.symm⟩
  cases c with
  | insert r =>
    by_cases h1 : db.items.any (TwoHandles.hits s r.cat r.name) = true
    · simpa [thItem, TwoHandles.insert, h1] using hk
    · by_cases h2 : db.hasId s.pid = true
      · simp only [thItem, TwoHandles.insert, h1, h2, Bool.false_eq_true, if_false, if_true]
        intro it hit
        rcases List.mem_append.mp hit with hit | hit
        · exact hk it hit
        · rw [List.mem_singleton] at hit; subst hit; exact hrow
      · simpa [thItem, TwoHandles.insert, h1, h2] using hk
  | replace r =>
    by_cases h1 : db.items.any (TwoHandles.hits s r.cat r.name) = true
    · simp only [thItem, TwoHandles.replace, h1, if_true]
      apply sub
      intro it hit
      obtain ⟨it0, h0, rfl⟩ := List.mem_map.mp hit
      refine ⟨it0, h0, ?_⟩
      split <;> exact ⟨rfl, rfl⟩
    · simpa [thItem, TwoHandles.replace, h1] using hk
  | remove c n =>
    by_cases h1 : db.items.any (TwoHandles.hits s c n) = true
    · simp only [thItem, TwoHandles.remove, h1, if_true]
      exact sub _ (fun it hit => ⟨it, (List.mem_filter.mp hit).1, rfl, rfl⟩)
    · simpa [thItem, TwoHandles.remove, h1] using hk
  | fetch c n => exact hk
  | fetchAll cat => simp only [thItem]; cases TwoHandles.fetchAll s db cat <;> exact hk
  | count cat => exact hk
  | removeAll cat =>
    simp only [thItem, TwoHandles.removeAll]
    exact sub _ (fun it hit => ⟨it, (List.mem_filter.mp hit).1, rfl, rfl⟩)

theorem scan_fst (h : TwoHandles.Handle) (db : TwoHandles.Db) (p : Option String) (cat : Option String) :
    (TwoHandles.scan false h db p cat).1 = (TwoHandles.resolve false h db (p.getD h.active)).1 := by
  unfold TwoHandles.scan
  generalize TwoHandles.resolve false h db (p.getD h.active) = x
  obtain ⟨h', r⟩ := x
  cases r <;> rfl

/-- every call of the handle keeps the invariant -/
theorem good_step {h : TwoHandles.Handle} {db : TwoHandles.Db} (hg : Good h db) (c : Call) :
    Good (thStep (h, db) c).1.1 (thStep (h, db) c).1.2 := by
  cases c with
  | create n => exact good_create hg n
  | remove n => exact good_remove hg n
  | openSession p =>
    simp only [thStep, openSession_fst]
    exact ⟨(TwoHandles.own_calls_fresh false h db hg.fresh _).2.2, hg.unique, hg.keyed⟩
  | scan p cat =>
    simp only [thStep, scan_fst]
    exact ⟨(TwoHandles.own_calls_fresh false h db hg.fresh _).2.2, hg.unique, hg.keyed⟩
  | item p c =>
    have hf' : TwoHandles.CacheFresh (TwoHandles.openSession false h db p).1 db := by
      rw [openSession_fst]; exact (TwoHandles.own_calls_fresh false h db hg.fresh _).2.2
    simp only [thStep]
    cases ho : (TwoHandles.openSession false h db p).2 with
    | error e => exact ⟨hf', hg.unique, hg.keyed⟩
    | ok s =>
      have hrow := TwoHandles.sees_named_of_fresh h (TwoHandles.openSession false h db p).1 db p s hg.fresh (by rw [← ho])
      have hfr := thItem_frame s db c
      refine ⟨fresh_of_profiles hfr.1 hf', ?_, ?_⟩
      · unfold ProfilesUnique; rw [hfr.1]; exact hg.unique
      · exact thItem_keyed hg.keyed ⟨_, (TwoHandles.rowByName_some hrow).1, rfl, rfl⟩ c

theorem good_run (cs : List Call) : ∀ {h : TwoHandles.Handle} {db : TwoHandles.Db}, Good h db →
    Good (thRun (h, db) cs).1.1 (thRun (h, db) cs).1.2 := by
  induction cs with
  | nil => intro h db hg; exact hg
  | cons c cs ih => intro h db hg; exact ih (good_step hg c)

/-- a freshly provisioned store opened by one handle -/
theorem good_init (p : String) : Good ⟨p, [⟨p, 1, 0⟩]⟩ (TwoHandles.Db.provisioned p) := by
  refine ⟨?_, ?_, ?_⟩
  · intro e he
    simp only [List.mem_singleton] at he
    subst he
    simp [TwoHandles.Db.provisioned, TwoHandles.Db.rowByName]
  · simp [ProfilesUnique, TwoHandles.Db.provisioned]
  · intro it hit; simp [TwoHandles.Db.provisioned] at hit

/-- the pair a session works with is the pair of a profile row: all rows of that id carry the pair's key -/
theorem keyCoherent_of_good {h : TwoHandles.Handle} {db : TwoHandles.Db} (hg : Good h db) {s : TwoHandles.Sess}
    (hrow : ∃ r ∈ db.profiles, r.id = s.pid ∧ r.key = s.key) : ∀ it ∈ db.items, it.pid = s.pid → it.key = s.key := by
  intro it hit hp
  obtain ⟨r, hrm, h1, h2⟩ := hg.keyed it hit
  obtain ⟨r', hrm', h1', h2'⟩ := hrow
  have : r = r' := unique_eq hg.unique hrm hrm' (Or.inr (h1.trans (hp.trans h1'.symm)))
  subst this
  exact h2.symm.trans h2'

/-- the invariants of the Store model (C07) hold on the image -/
theorem store_invariants (E : Enc) {h : TwoHandles.Handle} {db : TwoHandles.Db} {sdb : Store.Db} {sh : Store.Handle}
    (hs : Sim E h db sdb sh) (hg : Good h db) :
    Store.CacheCoherent sdb sh ∧ Store.ProfilesWF sdb ∧ Store.FkInv sdb := by
  refine ⟨?_, ?_, ?_⟩
  · intro name pid key hc
    rw [hs.handle] at hc
    simp only [absHandle, cacheGet_eq] at hc
    cases hce : TwoHandles.cacheGet h.cache name with
    | none => rw [hce] at hc; simp at hc
    | some e =>
      rw [hce] at hc
      simp only [Option.map_some, Option.some.injEq, Prod.mk.injEq] at hc
      obtain ⟨hmem, hname⟩ := TwoHandles.cacheGet_some hce
      have := (TwoHandles.rowByName_some (hg.fresh e hmem)).1
      rw [hs.profiles, List.mem_map]
      exact ⟨_, this, by simp [liftProf, hc.1, hc.2, hname]⟩
  · unfold Store.ProfilesWF
    rw [hs.profiles, List.pairwise_map]
    exact hg.unique
  · intro it hit
    obtain ⟨a, ha, hab⟩ := hs.items.mem_right hit
    obtain ⟨r, hrm, h1, _⟩ := hg.keyed a ha
    refine ⟨liftProf r, by rw [hs.profiles]; exact List.mem_map_of_mem hrm, ?_⟩
    rw [hab]; exact h1

theorem store_keyCoherent (E : Enc) {h : TwoHandles.Handle} {db : TwoHandles.Db} {sdb : Store.Db} {sh : Store.Handle}
    (hs : Sim E h db sdb sh) {s : TwoHandles.Sess} (hk : ∀ it ∈ db.items, it.pid = s.pid → it.key = s.key) :
    Store.KeyCoherent (liftSess s) sdb := by
  intro it hit hp
  obtain ⟨a, ha, hab⟩ := hs.items.mem_right hit
  rw [hab] at hp ⊢
  exact hk a ha hp

end Askar.Ties.Profiles
