import Driver.C08
def main : IO Unit := Driver.mainLoop fun _ j => Driver.C08.runCase j
