/- Helper lemmas for C19 (model: AskarModel/Model/Ffi.lean). Core Lean only. -/
import AskarModel.Model.Ffi

namespace Askar.Ffi.Lemmas
open Askar.Ffi
open Askar.Store (Err)
open Askar.Wql (Tag)
open Askar.Ffi.ResMap (removeAllLoop findFrom)

/-! ### (b) get_row -/

theorem getRow_err {α} (l : ResultList α) (idx : Int32) (x : Err) (h : l.getRow idx = .error x) : x = .input := by
  unfold ResultList.getRow at h
  split at h
  · cases l with
    | single e => simp only at h; split at h <;> simp_all
    | rows r => simp only at h; split at h <;> simp_all
  · simp_all

theorem getRow_ok_iff {α} (l : ResultList α) (idx : Int32) (e : α) :
    l.getRow idx = .ok e ↔ (0 ≤ idx.toInt ∧ l.toList[idx.toInt.toNat]? = some e) := by
  have h0 : idx ≥ 0 ↔ 0 ≤ idx.toInt := by
    show (0 : Int32) ≤ idx ↔ _
    rw [Int32.le_iff_toInt_le]; simp
  unfold ResultList.getRow
  by_cases hge : idx ≥ 0
  · have hi := h0.mp hge
    simp only [hge, if_true]
    cases l with
    | single a =>
      simp only [ResultList.toList]
      by_cases hz : idx = 0
      · subst hz; simp
      · simp only [hz, if_false]
        have : idx.toInt ≠ 0 := fun h => hz (Int32.toInt_inj.mp (by simpa using h))
        have : idx.toInt.toNat ≠ 0 := by omega
        constructor
        · intro h; cases h
        · rintro ⟨_, h⟩
          cases hn : idx.toInt.toNat with
          | zero => exact absurd hn this
          | succ n => rw [hn] at h; simp at h
    | rows r =>
      simp only [ResultList.toList]
      cases hr : r[idx.toInt.toNat]? with
      | none => simp
      | some v => simp [hi]
  · simp only [hge, if_false]
    constructor
    · intro h; cases h
    · rintro ⟨h, _⟩; exact absurd (h0.mpr h) hge

/-! ### (d) callbacks -/

theorem drop_resolved {ρ} : (EnsureCb.drop (ρ := ρ) { resolved := true }) = [] := rfl

theorem taskFires_length {ρ} (fate : TaskFate ρ) : (taskFires ({} : EnsureCb) fate).length = 1 := by
  cases fate <;> simp [taskFires, EnsureCb.resolve, EnsureCb.drop]

theorem ofErr_ne_success (e : Err) : Code.ofErr e ≠ .success := by cases e <;> simp [Code.ofErr]

theorem callback_exactly_once {ρ} (mode : CbMode) (cbGiven : Bool) (early : Option Code) (decode : Except Err Unit)
    (fate : TaskFate ρ) (hearly : early ≠ some .success) :
    ((runEntry mode cbGiven early decode fate).1 = .success →
        (runEntry mode cbGiven early decode fate).2.length = if cbGiven then 1 else 0)
    ∧ ((runEntry mode cbGiven early decode fate).1 ≠ .success → (runEntry mode cbGiven early decode fate).2 = []) := by
  unfold runEntry
  cases early with
  | some c => simp; intro h; subst h; exact absurd rfl hearly
  | none =>
    simp only
    split
    · simp
    · cases decode with
      | error e => simp [ofErr_ne_success]
      | ok u =>
        cases cbGiven
        · simp
        · simp [taskFires_length]

/-! ### (a) registries -/

variable {V : Type}

theorem get_none_of_not_mem {β} (m : KMap β) (k : Nat) (h : k ∉ m.keys) : m.get k = none := by
  unfold KMap.get
  rw [List.find?_eq_none.mpr]
  · rfl
  · intro e he hk
    apply h
    simp only [beq_iff_eq] at hk
    exact List.mem_map.mpr ⟨e, he, hk⟩

theorem borrow_unknown (m : ResMap V) (h : Nat) (hn : h ∉ m.keys) : m.borrow h = .error .input := by
  unfold ResMap.borrow; rw [get_none_of_not_mem _ _ hn]

theorem remove_unknown (m : ResMap V) (h : Nat) (hn : h ∉ m.keys) : m.remove h = (none, m) := by
  unfold ResMap.remove; rw [get_none_of_not_mem _ _ hn]

theorem keys_erase {β} (m : KMap β) (k x : Nat) : x ∈ (m.erase k).keys ↔ x ∈ m.keys ∧ x ≠ k := by
  unfold KMap.erase KMap.keys
  simp only [List.mem_map, List.mem_filter, bne_iff_ne, ne_eq]
  constructor
  · rintro ⟨e, ⟨he, hne⟩, rfl⟩; exact ⟨⟨e, he, rfl⟩, hne⟩
  · rintro ⟨⟨e, he, rfl⟩, hne⟩; exact ⟨e, ⟨he, hne⟩, rfl⟩

theorem keys_insert {β} (m : KMap β) (k x : Nat) (v : β) : x ∈ (KMap.insert k v m).keys ↔ x = k ∨ x ∈ m.keys := by
  induction m with
  | nil => simp [KMap.insert, KMap.keys]
  | cons e rest ih =>
    obtain ⟨k', v'⟩ := e
    unfold KMap.insert
    split
    · simp [KMap.keys]
    · split
      · rename_i h; subst h; simp [KMap.keys]
      · simp only [KMap.keys, List.map_cons, List.mem_cons] at ih ⊢
        rw [ih]; constructor
        · rintro (h | h | h) <;> simp [h]
        · rintro (h | h | h) <;> simp [h]

theorem remove_counter (m : ResMap V) (h : Nat) : (m.remove h).2.counter = m.counter := by
  unfold ResMap.remove; split <;> rfl

theorem remove_keys (m : ResMap V) (h x : Nat) : x ∈ (m.remove h).2.keys → x ∈ m.keys ∧ x ≠ h := by
  unfold ResMap.remove
  split
  · intro hx; exact (keys_erase _ _ _).mp hx
  · rename_i hnone
    intro hx
    refine ⟨hx, ?_⟩
    rintro rfl
    -- x is a key, so `get` cannot be none
    unfold KMap.get at hnone
    obtain ⟨e, he, hk⟩ := List.mem_map.mp hx
    cases hf : List.find? (fun e => e.1 == x) m.map with
    | some y => simp [hf] at hnone
    | none =>
      have := List.find?_eq_none.mp hf e he
      simp [hk] at this

theorem removeAllLoop_keys (store : Nat) : ∀ (fuel pos : Nat) (m m' : KMap (Nat × V)),
    removeAllLoop store fuel pos m = some m' → ∀ x, x ∈ m'.keys → x ∈ m.keys := by
  intro fuel
  induction fuel with
  | zero =>
    intro pos m m' h x hx
    unfold removeAllLoop at h
    split at h
    · cases h; exact hx
    · simp at h
  | succ n ih =>
    intro pos m m' h x hx
    unfold removeAllLoop at h
    split at h
    · cases h; exact hx
    · exact ((keys_erase _ _ _).mp (ih _ _ _ h x hx)).1

theorem removeAll_counter (m : ResMap V) (s : Nat) : ((m.removeAll s).getD m).counter = m.counter := by
  unfold ResMap.removeAll
  cases removeAllLoop s m.map.length 0 m.map <;> rfl

theorem removeAll_keys (m : ResMap V) (s x : Nat) : x ∈ ((m.removeAll s).getD m).keys → x ∈ m.keys := by
  unfold ResMap.removeAll
  cases h : removeAllLoop s m.map.length 0 m.map with
  | none => simp
  | some mp => simp only [Option.map_some, Option.getD_some]; exact removeAllLoop_keys s _ _ _ _ h x

theorem nextHandle_small (c : Nat) (h : c + 1 < usizeMod) : nextHandle c = (c + 1, c + 1) := by
  unfold nextHandle; rw [Nat.mod_eq_of_lt h]

/-- handles issued by a run are above the counter at its start and strictly increasing;
    every key of the final registry was a key at the start or was issued during the run -/
theorem runReg_spec : ∀ (ops : List (RegOp V)) (m : ResMap V), m.counter + ops.length < usizeMod →
    (∀ h ∈ (runReg m ops).2, m.counter < h) ∧ (runReg m ops).2.Pairwise (· < ·)
    ∧ (∀ x ∈ (runReg m ops).1.keys, x ∈ m.keys ∨ x ∈ (runReg m ops).2)
    ∧ m.counter ≤ (runReg m ops).1.counter := by
  intro ops
  induction ops with
  | nil => intro m _; simp [runReg]
  | cons op ops ih =>
    intro m hlt
    simp only [List.length_cons] at hlt
    cases op with
    | insert s v =>
      have hn := nextHandle_small m.counter (by omega)
      simp only [runReg, ResMap.insert, hn]
      have := ih { counter := m.counter + 1, map := KMap.insert (m.counter + 1) (s, v) m.map } (by simp; omega)
      obtain ⟨h1, h2, h3, h4⟩ := this
      simp only at h1 h3 h4
      refine ⟨?_, ?_, ?_, ?_⟩
      · intro h hh
        rcases List.mem_cons.mp hh with rfl | hh
        · omega
        · have := h1 h hh; omega
      · exact List.pairwise_cons.mpr ⟨fun a ha => h1 a ha, h2⟩
      · intro x hx
        rcases h3 x hx with hk | hi
        · rcases (keys_insert _ _ _ _).mp hk with rfl | hk
          · right; simp
          · left; exact hk
        · right; exact List.mem_cons_of_mem _ hi
      · omega
    | borrow h =>
      simp only [runReg]
      exact ih m (by omega)
    | remove h =>
      simp only [runReg]
      have := ih (m.remove h).2 (by rw [remove_counter]; omega)
      rw [remove_counter] at this
      obtain ⟨h1, h2, h3, h4⟩ := this
      refine ⟨h1, h2, ?_, h4⟩
      intro x hx
      rcases h3 x hx with hk | hi
      · left; exact (remove_keys m h x hk).1
      · right; exact hi
    | removeAll s =>
      simp only [runReg]
      have := ih ((m.removeAll s).getD m) (by rw [removeAll_counter]; omega)
      rw [removeAll_counter] at this
      obtain ⟨h1, h2, h3, h4⟩ := this
      refine ⟨h1, h2, ?_, h4⟩
      intro x hx
      rcases h3 x hx with hk | hi
      · left; exact removeAll_keys m s x hk
      · right; exact hi


/-! ### remove_all -/

theorem sorted_split {β} (as bs : List (Nat × β)) (e : Nat × β)
    (hs : (KMap.keys (as ++ e :: bs)).Pairwise (· < ·)) :
    (∀ x ∈ as, x.1 < e.1) ∧ (∀ x ∈ bs, e.1 < x.1) ∧ (KMap.keys (as ++ bs)).Pairwise (· < ·) := by
  unfold KMap.keys at hs ⊢
  rw [List.map_append, List.map_cons, List.pairwise_append] at hs
  obtain ⟨h1, h2, h3⟩ := hs
  rw [List.pairwise_cons] at h2
  refine ⟨?_, ?_, ?_⟩
  · intro x hx; exact h3 x.1 (List.mem_map.mpr ⟨x, hx, rfl⟩) e.1 (by simp)
  · intro x hx; exact h2.1 x.1 (List.mem_map.mpr ⟨x, hx, rfl⟩)
  · rw [List.map_append, List.pairwise_append]
    refine ⟨h1, h2.2, ?_⟩
    intro a ha b hb
    exact h3 a ha b (List.mem_cons_of_mem _ hb)

theorem erase_split {β} (as bs : List (Nat × β)) (e : Nat × β)
    (ha : ∀ x ∈ as, x.1 < e.1) (hb : ∀ x ∈ bs, e.1 < x.1) :
    KMap.erase (as ++ e :: bs) e.1 = as ++ bs := by
  unfold KMap.erase
  rw [List.filter_append, List.filter_cons]
  have h1 : as.filter (fun x => x.1 != e.1) = as := by
    apply List.filter_eq_self.mpr; intro x hx; have := ha x hx; simp; omega
  have h2 : bs.filter (fun x => x.1 != e.1) = bs := by
    apply List.filter_eq_self.mpr; intro x hx; have := hb x hx; simp; omega
  simp [h1, h2]

theorem loop_exact (s : Nat) : ∀ (fuel pos : Nat) (m : KMap (Nat × V)), m.keys.Pairwise (· < ·) →
    (∀ e ∈ m, e.2.1 = s → pos ≤ e.1) → (m.filter (fun e => e.2.1 == s)).length ≤ fuel →
    removeAllLoop s fuel pos m = some (m.filter (fun e => e.2.1 != s)) := by
  intro fuel
  induction fuel with
  | zero =>
    intro pos m _ hH hc
    have hnone : ∀ e ∈ m, ¬ (e.2.1 = s) := by
      intro e he hes
      have : e ∈ m.filter (fun e => e.2.1 == s) := List.mem_filter.mpr ⟨he, by simp [hes]⟩
      have := List.length_pos_of_mem this
      omega
    have hf : findFrom s pos m = none := by
      unfold findFrom
      rw [List.find?_eq_none.mpr]; · rfl
      intro e he; simp; intro _; exact hnone e he
    unfold removeAllLoop
    rw [hf]
    simp only
    congr 1
    exact (List.filter_eq_self.mpr (by intro e he; simpa using hnone e he)).symm
  | succ n ih =>
    intro pos m hs hH hc
    unfold removeAllLoop
    cases hf : findFrom s pos m with
    | none =>
      simp only
      unfold findFrom at hf
      have hnone : ∀ e ∈ m, ¬ (e.2.1 = s) := by
        intro e he hes
        cases hfind : m.find? (fun e => decide (pos ≤ e.1) && e.2.1 == s) with
        | some y => simp [hfind] at hf
        | none =>
          have := List.find?_eq_none.mp hfind e he
          simp [hes, hH e he hes] at this
      congr 1
      exact (List.filter_eq_self.mpr (by intro e he; simpa using hnone e he)).symm
    | some h =>
      simp only
      unfold findFrom at hf
      cases hfind : m.find? (fun e => decide (pos ≤ e.1) && e.2.1 == s) with
      | none => simp [hfind] at hf
      | some e =>
        simp [hfind] at hf
        subst hf
        obtain ⟨hp, as, bs, hm, hfirst⟩ := List.find?_eq_some_iff_append.mp hfind
        simp only [Bool.and_eq_true, decide_eq_true_eq, beq_iff_eq] at hp
        subst hm
        obtain ⟨ha, hb, hs'⟩ := sorted_split as bs e hs
        rw [erase_split as bs e ha hb]
        have hasn : ∀ x ∈ as, ¬ (x.2.1 = s) := by
          intro x hx hxs
          have := hfirst x hx
          simp [hxs, hH x (by simp [hx]) hxs] at this
        rw [ih e.1 (as ++ bs) hs' ?_ ?_]
        · congr 1
          simp [List.filter_append, hp.2]
        · intro x hx hxs
          rcases List.mem_append.mp hx with hx | hx
          · exact absurd hxs (hasn x hx)
          · exact Nat.le_of_lt (hb x hx)
        · simp only [List.filter_append, List.filter_cons, hp.2, beq_self_eq_true, if_true,
            List.length_append, List.length_cons] at hc ⊢
          omega

theorem removeAll_exact (m : ResMap V) (s : Nat) (hs : m.map.keys.Pairwise (· < ·)) :
    m.removeAll s = some { m with map := m.map.filter (fun e => e.2.1 != s) } := by
  unfold ResMap.removeAll
  rw [loop_exact s m.map.length 0 m.map hs (by intro _ _ _; omega) (List.length_filter_le _ _)]
  rfl

/-! ### (c) tag-set codec, decoded-member level -/

def tagOf (k : TagKey) (v : String) : Tag := ⟨!k.enc, k.name, v⟩

def flat (G : List (TagKey × List String)) : List Tag := G.flatMap fun g => g.2.map (tagOf g.1)

/-- the key can be expressed in the JSON form: an encrypted name is non-empty and does not start with `~` -/
def KeyOK (k : TagKey) : Prop :=
  k.enc = true → match k.name.toList with | [] => False | c :: _ => c ≠ '~'

theorem flat_cons (g : TagKey × List String) (G) : flat (g :: G) = g.2.map (tagOf g.1) ++ flat G := by
  simp [flat]

theorem groupPush_flat (k : TagKey) (v : String) : ∀ G, (flat (groupPush k v G)).Perm (flat G ++ [tagOf k v]) := by
  intro G
  induction G with
  | nil => simp [groupPush, flat]
  | cons g rest ih =>
    obtain ⟨k', vs⟩ := g
    unfold groupPush
    split
    · rename_i h; subst h
      simp only [flat_cons, List.map_append, List.map_cons, List.map_nil, List.append_assoc]
      exact List.Perm.append_left _ List.perm_append_comm
    · split
      · simp only [flat_cons, List.map_cons, List.map_nil]
        exact (List.perm_append_comm (l₁ := [tagOf k v]))
      · simp only [flat_cons, List.append_assoc]
        exact List.Perm.append_left _ ih

theorem groupPush_mem (k : TagKey) (v : String) : ∀ G g, g ∈ groupPush k v G →
    (g.1 = k ∧ g.2 ≠ []) ∨ g ∈ G := by
  intro G
  induction G with
  | nil => intro g hg; simp [groupPush] at hg; subst hg; simp
  | cons g0 rest ih =>
    obtain ⟨k', vs⟩ := g0
    intro g hg
    unfold groupPush at hg
    split at hg
    · rename_i h; subst h
      rcases List.mem_cons.mp hg with rfl | hg
      · left; simp
      · right; exact List.mem_cons_of_mem _ hg
    · split at hg
      · rcases List.mem_cons.mp hg with rfl | hg
        · left; simp
        · right; exact hg
      · rcases List.mem_cons.mp hg with rfl | hg
        · right; simp
        · rcases ih g hg with h | h
          · left; exact h
          · right; exact List.mem_cons_of_mem _ h

def keyOfTag (t : Tag) : TagKey := ⟨t.name, !t.plain⟩

theorem tagOf_keyOfTag (t : Tag) : tagOf (keyOfTag t) t.value = t := by
  cases t; simp [tagOf, keyOfTag]

structure GInv (G : List (TagKey × List String)) (tags : List Tag) : Prop where
  perm : (flat G).Perm tags
  nonempty : ∀ g ∈ G, g.2 ≠ []
  keys : ∀ g ∈ G, ∃ t ∈ tags, g.1 = keyOfTag t

theorem fold_inv : ∀ (rest done : List Tag) (G : List (TagKey × List String)), GInv G done →
    GInv (rest.foldl (fun m t => groupPush ⟨t.name, !t.plain⟩ t.value m) G) (done ++ rest) := by
  intro rest
  induction rest with
  | nil => intro done G h; simpa using h
  | cons t rest ih =>
    intro done G h
    simp only [List.foldl_cons]
    have : GInv (groupPush ⟨t.name, !t.plain⟩ t.value G) (done ++ [t]) := by
      refine ⟨?_, ?_, ?_⟩
      · refine (groupPush_flat _ _ G).trans ?_
        have := tagOf_keyOfTag t
        simp only [keyOfTag] at this
        rw [this]
        exact List.Perm.append_right _ h.perm
      · intro g hg
        rcases groupPush_mem _ _ G g hg with h1 | h1
        · exact h1.2
        · exact h.nonempty g h1
      · intro g hg
        rcases groupPush_mem _ _ G g hg with h1 | h1
        · exact ⟨t, by simp, h1.1⟩
        · obtain ⟨t', ht', hk⟩ := h.keys g h1
          exact ⟨t', by simp [ht'], hk⟩
    have := ih (done ++ [t]) _ this
    simpa using this

theorem groupTags_inv (tags : List Tag) : GInv (groupTags tags) tags := by
  have := fold_inv tags [] [] ⟨by simp [flat], by simp, by simp⟩
  simpa [groupTags] using this

theorem splitKey_render (k : TagKey) (hk : KeyOK k) : splitKey k.render = .ok (k.name, !k.enc) := by
  unfold TagKey.render splitKey
  cases he : k.enc with
  | false =>
    have : ("~" ++ k.name).toList = '~' :: k.name.toList := by simp [String.toList_append]
    simp [this, String.ofList_toList]
  | true =>
    have h := hk he
    simp only [if_true]
    cases hn : k.name.toList with
    | nil => rw [hn] at h; exact absurd h id
    | cons c rest =>
      rw [hn] at h
      simp only at h
      split
      · rename_i r heq; injection heq with h1 _; exact absurd h1.symm (by simpa using fun h' => h h'.symm)
      · rename_i heq; cases heq
      · simp

theorem memberOf_spec (k : TagKey) (vs : List String) (hne : vs ≠ []) :
    ∃ val, memberOf k vs = some (k.render, val) ∧ ∀ name plain, tagsOfMember name plain val = vs.map fun v => ⟨plain, name, v⟩ := by
  unfold memberOf
  split
  · exact ⟨.multiple vs, rfl, fun _ _ => rfl⟩
  · rename_i hlen
    cases vs with
    | nil => exact absurd rfl hne
    | cons v rest =>
      cases rest with
      | nil => exact ⟨.single v, rfl, fun _ _ => rfl⟩
      | cons w r => simp at hlen

theorem serialize_visit (b : Bool) : ∀ G : List (TagKey × List String), (∀ g ∈ G, g.2 ≠ [] ∧ KeyOK g.1) →
    ∃ obj, G.mapM (fun (g : TagKey × List String) => memberOf g.1 g.2) = some obj ∧
      visitMap b (obj.map fun (m : String × TagVal) => (⟨m.1, false⟩, m.2)) = .ok (flat G) := by
  intro G
  induction G with
  | nil => intro _; exact ⟨[], by simp, by simp [visitMap, flat]⟩
  | cons g rest ih =>
    intro h
    obtain ⟨obj, ho, hv⟩ := ih (fun g' hg' => h g' (List.mem_cons_of_mem _ hg'))
    obtain ⟨hne, hok⟩ := h g (by simp)
    obtain ⟨val, hm, ht⟩ := memberOf_spec g.1 g.2 hne
    refine ⟨(g.1.render, val) :: obj, ?_, ?_⟩
    · simp [List.mapM_cons, hm, ho]
    · simp only [List.map_cons, visitMap, Bool.and_false, Bool.false_eq_true, if_false, splitKey_render g.1 hok, hv, ht]
      rw [flat_cons]
      rfl

/-! ### (c') tag-set codec, JSON text level: reader ∘ writer -/

theorem hexDigitVal_hexDigit : ∀ k, k < 16 → hexDigitVal (Bytes.hexDigit k) = some k := by decide

theorem hex4_ctrl (n : Nat) (h : n < 256) :
    hex4 '0' '0' (Bytes.hexDigit (n / 16)) (Bytes.hexDigit (n % 16)) = some n := by
  have h0 : hexDigitVal '0' = some 0 := by decide
  unfold hex4
  rw [h0, hexDigitVal_hexDigit (n / 16) (by omega), hexDigitVal_hexDigit (n % 16) (by omega)]
  simp only [Option.some.injEq]
  omega

theorem char_eq_of_toNat {c : Char} {n : Nat} (h : c.toNat = n) : c = Char.ofNat n := by
  rw [← h, Char.ofNat_toNat]

/-- one character: the reader undoes `renderChar` -/
theorem parse_renderChar (c : Char) (rest acc : List Char) (esc : Bool) :
    parseStrBody (renderChar c ++ rest) acc esc = parseStrBody rest (c :: acc) (esc || needsEscape c) := by
  unfold renderChar
  split
  · rename_i h; subst h; simp [parseStrBody.eq_4, needsEscape]
  split
  · rename_i h; subst h; simp [parseStrBody.eq_5, needsEscape]
  split
  · rename_i h; subst h; simp [parseStrBody.eq_9, needsEscape]
  split
  · rename_i h; subst h; simp [parseStrBody.eq_10, needsEscape]
  split
  · rename_i h; subst h; simp [parseStrBody.eq_11, needsEscape]
  split
  · rename_i h; have := char_eq_of_toNat h; subst this; simp [parseStrBody.eq_7, needsEscape]
  split
  · rename_i h; have := char_eq_of_toNat h; subst this; simp [parseStrBody.eq_8, needsEscape]
  split
  · rename_i h
    have hne : needsEscape c = true := by simp [needsEscape, h]
    simp only [List.cons_append, List.nil_append, parseStrBody.eq_3, hex4_ctrl c.toNat (by omega)]
    rw [if_neg (by omega), if_neg (by omega), Char.ofNat_toNat, hne, Bool.or_true]
  · rename_i h1 h2 _ _ _ _ _ h3
    have hne : needsEscape c = false := by simp [needsEscape, h1, h2, h3]
    simp only [List.cons_append, List.nil_append]
    rw [parseStrBody.eq_14 _ _ _ _ (fun h => h1 h) (fun _ _ _ _ _ h _ => h2 h) (fun _ _ h _ => h2 h) (fun h _ => h2 h),
      if_neg h3, hne, Bool.or_false]

theorem parse_body : ∀ (s rest acc : List Char) (esc : Bool),
    parseStrBody (s.flatMap renderChar ++ '"' :: rest) acc esc
      = some (acc.reverse ++ s, esc || s.any needsEscape, rest) := by
  intro s
  induction s with
  | nil => intro rest acc esc; simp [parseStrBody.eq_2]
  | cons c s ih =>
    intro rest acc esc
    rw [List.flatMap_cons, List.append_assoc, parse_renderChar, ih]
    simp [Bool.or_assoc]

theorem renderStr_append (s rest : List Char) :
    renderStr s ++ rest = '"' :: (s.flatMap renderChar ++ '"' :: rest) := by simp [renderStr]

/-- `readString (writeString s ++ rest) = (s, had an escape, rest)` -/
theorem parse_renderStr (s rest : List Char) :
    parseStrBody (s.flatMap renderChar ++ '"' :: rest) [] false = some (s, s.any needsEscape, rest) := by
  rw [parse_body]; simp

theorem skipWs_quote (r : List Char) : skipWs ('"' :: r) = '"' :: r := by simp [skipWs, isWs]
theorem skipWs_comma (r : List Char) : skipWs (',' :: r) = ',' :: r := by simp [skipWs, isWs]
theorem skipWs_colon (r : List Char) : skipWs (':' :: r) = ':' :: r := by simp [skipWs, isWs]
theorem skipWs_rbracket (r : List Char) : skipWs (']' :: r) = ']' :: r := by simp [skipWs, isWs]
theorem skipWs_lbracket (r : List Char) : skipWs ('[' :: r) = '[' :: r := by simp [skipWs, isWs]
theorem skipWs_rbrace (r : List Char) : skipWs ('}' :: r) = '}' :: r := by simp [skipWs, isWs]
theorem skipWs_lbrace (r : List Char) : skipWs ('{' :: r) = '{' :: r := by simp [skipWs, isWs]

theorem renderStrs_cons2 (v w : String) (r : List String) :
    renderStrs (v :: w :: r) = renderStr v.toList ++ ',' :: renderStrs (w :: r) := by
  simp [renderStrs]

theorem renderStrs_length : ∀ vs : List String, vs.length ≤ (renderStrs vs).length := by
  intro vs
  induction vs with
  | nil => simp
  | cons v vs ih =>
    cases vs with
    | nil => simp [renderStrs, renderStr]
    | cons w r =>
      rw [renderStrs_cons2]
      simp only [List.length_append, List.length_cons] at ih ⊢
      omega

/-- a non-empty array of strings after `[` -/
theorem parse_strs : ∀ (vs : List String) (fuel : Nat) (first : Bool) (rest : List Char) (acc : List String),
    vs ≠ [] → vs.length ≤ fuel →
    parseStrArray fuel first (renderStrs vs ++ ']' :: rest) acc = some (acc.reverse ++ vs, rest) := by
  intro vs
  induction vs with
  | nil => intro _ _ _ _ h; exact absurd rfl h
  | cons v vs ih =>
    intro fuel first rest acc _ hf
    cases fuel with
    | zero => simp at hf
    | succ f =>
      cases vs with
      | nil =>
        simp only [renderStrs, renderStr_append]
        unfold parseStrArray
        simp only [skipWs_quote, parse_renderStr, skipWs_rbracket, String.ofList_toList]
        simp
      | cons w r =>
        rw [renderStrs_cons2, List.append_assoc, renderStr_append]
        unfold parseStrArray
        simp only [skipWs_quote, parse_renderStr, List.cons_append, skipWs_comma, String.ofList_toList]
        rw [ih f false rest (v :: acc) (by simp) (by simpa using hf)]
        simp

/-- `EntryTagValues`: a string, or an array of strings (any length, including none) -/
theorem parse_val (v : TagVal) (fuel : Nat) (rest : List Char) (hf : (renderVal v).length ≤ fuel) :
    parseTagVal fuel (renderVal v ++ rest) = some (v, rest) := by
  cases v with
  | single s =>
    simp only [renderVal, renderStr_append]
    unfold parseTagVal
    simp only [skipWs_quote, parse_renderStr, String.ofList_toList]
  | multiple vs =>
    have hl := renderStrs_length vs
    simp only [renderVal, List.length_cons, List.length_append] at hf
    simp only [renderVal, List.cons_append, List.append_assoc, List.nil_append]
    unfold parseTagVal
    simp only [skipWs_lbracket]
    cases vs with
    | nil =>
      cases fuel with
      | zero => simp at hf
      | succ f => simp [renderStrs, parseStrArray, skipWs_rbracket]
    | cons v r =>
      rw [parse_strs (v :: r) fuel true rest [] (by simp) (by omega)]
      simp

/-- a member as the reader delivers it -/
def tokOf (m : String × TagVal) : KeyTok × TagVal := (⟨m.1, m.1.toList.any needsEscape⟩, m.2)

theorem renderMembers_cons2 (m m' : String × TagVal) (r : TagObj) :
    renderMembers (m :: m' :: r) = renderStr m.1.toList ++ ':' :: renderVal m.2 ++ ',' :: renderMembers (m' :: r) := by
  obtain ⟨k, v⟩ := m
  simp [renderMembers]

theorem renderMembers_one (m : String × TagVal) :
    renderMembers [m] = renderStr m.1.toList ++ ':' :: renderVal m.2 := by
  obtain ⟨k, v⟩ := m
  simp [renderMembers]

/-- a non-empty member list after `{` -/
theorem parse_members : ∀ (ms : TagObj) (fuel : Nat) (first : Bool) (rest : List Char) (acc : List (KeyTok × TagVal)),
    ms ≠ [] → (renderMembers ms).length ≤ fuel →
    parseMembers fuel first (renderMembers ms ++ '}' :: rest) acc = some (acc.reverse ++ ms.map tokOf, rest) := by
  intro ms
  induction ms with
  | nil => intro _ _ _ _ h; exact absurd rfl h
  | cons m ms ih =>
    intro fuel first rest acc _ hf
    cases ms with
    | nil =>
      rw [renderMembers_one] at hf ⊢
      simp only [List.length_append, List.length_cons] at hf
      cases fuel with
      | zero => omega
      | succ f =>
        rw [List.append_assoc, renderStr_append]
        unfold parseMembers
        simp only [skipWs_quote, parse_renderStr, List.cons_append, skipWs_colon, String.ofList_toList]
        rw [parse_val m.2 (f + 1) ('}' :: rest) (by omega)]
        simp [skipWs_rbrace, tokOf]
    | cons m' r =>
      rw [renderMembers_cons2] at hf ⊢
      simp only [List.length_append, List.length_cons] at hf
      cases fuel with
      | zero => omega
      | succ f =>
        rw [List.append_assoc, renderStr_append]
        unfold parseMembers
        simp only [skipWs_quote, parse_renderStr, List.cons_append, List.append_assoc, skipWs_colon,
          String.ofList_toList]
        rw [parse_val m.2 (f + 1) _ (by omega)]
        simp only [skipWs_comma]
        rw [ih f false rest _ (List.cons_ne_nil _ _) (by omega)]
        simp [tokOf]

/-- reader ∘ writer on the whole object: every member comes back, with the "spelled with an
    escape" flag of its key -/
theorem read_render (o : TagObj) : readTagObj (renderObj o) = some (o.map tokOf) := by
  unfold readTagObj renderObj
  simp only [List.cons_append, skipWs_lbrace]
  cases o with
  | nil => simp [renderMembers, parseMembers, skipWs_rbrace, skipWs]
  | cons m r =>
    rw [parse_members (m :: r) _ true [] [] (by simp) (by simp only [List.length_append, List.length_cons]; omega)]
    simp [skipWs]


theorem visitMap_tok (b : Bool) : ∀ obj : TagObj,
    (b = true → ∀ m ∈ obj, m.1.toList.any needsEscape = false) →
    visitMap b (obj.map tokOf) = visitMap b (obj.map fun m => (⟨m.1, false⟩, m.2)) := by
  intro obj
  induction obj with
  | nil => intro _; rfl
  | cons m r ih =>
    intro h
    have ih' := ih (fun hb x hx => h hb x (List.mem_cons_of_mem _ hx))
    cases b with
    | false => simp only [List.map_cons, visitMap, tokOf, Bool.false_and, ih']
    | true =>
      have hm := h rfl m (by simp)
      simp only [List.map_cons, visitMap, tokOf, hm, Bool.and_false, ih']

theorem serialize_keys : ∀ (G : List (TagKey × List String)) (obj : TagObj),
    G.mapM (fun (g : TagKey × List String) => memberOf g.1 g.2) = some obj →
    ∀ m ∈ obj, ∃ g ∈ G, m.1 = g.1.render := by
  intro G
  induction G with
  | nil => intro obj h m hm; simp at h; subst h; simp at hm
  | cons g rest ih =>
    intro obj h m hm
    rw [List.mapM_cons] at h
    cases hg : memberOf g.1 g.2 with
    | none => simp [hg] at h
    | some x =>
      cases hr : rest.mapM (fun (g : TagKey × List String) => memberOf g.1 g.2) with
      | none => simp [hg, hr] at h
      | some xs =>
        simp [hg, hr] at h
        subst h
        rcases List.mem_cons.mp hm with rfl | hm
        · refine ⟨g, by simp, ?_⟩
          unfold memberOf at hg
          split at hg
          · cases hg; rfl
          · split at hg
            · cases hg; rfl
            · cases hg
        · obtain ⟨g', hg', he⟩ := ih xs hr m hm
          exact ⟨g', List.mem_cons_of_mem _ hg', he⟩

theorem render_plain (k : TagKey) (h : k.name.toList.all (fun c => !needsEscape c) = true) :
    k.render.toList.any needsEscape = false := by
  have h' : k.name.toList.any needsEscape = false := by
    rw [List.any_eq_false]
    intro c hc
    have := List.all_eq_true.mp h c hc
    simpa using this
  unfold TagKey.render
  split
  · exact h'
  · have : ("~" ++ k.name).toList = '~' :: k.name.toList := by simp [String.toList_append]
    rw [this, List.any_cons, h']
    decide

/-- writer then reader at the level of the JSON text: for every non-empty tag list of the domain.
    With borrowed keys (`b = true`) the names must be spelled without escapes. -/
theorem text_roundtrip (b : Bool) (tags : List Tag) (hne : tags ≠ [])
    (hdom : ∀ t ∈ tags, t.plain = false → match t.name.toList with | [] => False | c :: _ => c ≠ '~')
    (hplain : b = true → ∀ t ∈ tags, t.name.toList.all (fun c => !needsEscape c) = true) :
    ∃ text, encodeTags tags = some (some text) ∧ ∃ out, decodeTags b text = .ok out ∧ out.Perm tags := by
  have inv := groupTags_inv tags
  have hall : ∀ g ∈ groupTags tags, g.2 ≠ [] ∧ KeyOK g.1 := by
    intro g hg
    refine ⟨inv.nonempty g hg, ?_⟩
    obtain ⟨t, ht, hk⟩ := inv.keys g hg
    intro henc
    rw [hk] at henc ⊢
    simp only [keyOfTag] at henc ⊢
    exact hdom t ht (by simpa using henc)
  obtain ⟨obj, ho, hv⟩ := serialize_visit b (groupTags tags) hall
  have hser : serializeSet tags = some obj := by unfold serializeSet; rw [← ho]
  refine ⟨String.ofList (renderObj obj), ?_, flat (groupTags tags), ?_, inv.perm⟩
  · unfold encodeTags
    have : tags.isEmpty = false := by cases tags with | nil => exact absurd rfl hne | cons _ _ => rfl
    simp [this, hser]
  · unfold decodeTags
    rw [String.toList_ofList, read_render]
    simp only
    rw [visitMap_tok b obj ?_, hv]
    intro hb m hm
    obtain ⟨g, hg, he⟩ := serialize_keys _ obj ho m hm
    obtain ⟨t, ht, hk⟩ := inv.keys g hg
    rw [he]
    apply render_plain
    rw [hk]
    exact hplain hb t ht

end Askar.Ffi.Lemmas
