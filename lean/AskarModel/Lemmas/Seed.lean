/-
Helper lemmas about `Model/Seed.lean`: `create_signature` against `write_signature` / `sign_message`, `signature_length`,
`Ed25519KeyPair::sign`, and `LocalKey::from_seed` (method dispatch, how the seed reaches the generator, totality, widths).
Core Lean only.
-/
import AskarModel.Model.Seed
import AskarModel.Lemmas.Sign

namespace Askar.Seed
open Askar.Sign

/-! ## `create_signature` -/

theorem createSignature_eq (write : Bytes → Option SignatureType → Res CErr Bytes) (m : Bytes) (t : Option SignatureType) :
    createSignature write m t = write m t := by
  unfold createSignature
  cases write m t <;> simp [Res.bind]

theorem anyCreate_eq (Sch : Schemes) (k : Key) (m : Bytes) (t : Option SignatureType) :
    anyCreateSignature Sch k m t = anyWriteSignature Sch k m t := createSignature_eq _ _ _

theorem concrete_eq_any {Sch : Schemes} {k : Key} {a : SigAlg} (ha : k.alg.sigAlg? = some a) (m : Bytes) (t : Option SignatureType) :
    concreteCreateSignature Sch a k m t = anyCreateSignature Sch k m t := by
  rw [anyCreate_eq]
  unfold concreteCreateSignature anyWriteSignature
  rw [ha]
  cases a <;> simp only [createSignature_eq]

theorem signMessage_eq_create (Sch : Schemes) (k : Key) (m : Bytes) (t : Option (List Char)) :
    signMessage Sch k m t = ((parseSigType t).bind fun st => anyCreateSignature Sch k m st).mapErr CErr.toKind := by
  unfold signMessage
  simp only [anyCreate_eq]

theorem create_ok_elim {Sch : Schemes} {k : Key} {m s : Bytes} {st : Option SignatureType}
    (h : anyCreateSignature Sch k m st = .ok s) :
    ∃ a sk, k.alg.sigAlg? = some a ∧ k.secret = some sk ∧ typeOk a st ∧ s = (Sch.scheme a).sign sk m := by
  rw [anyCreate_eq, anyWrite_eq] at h
  cases ha : k.alg.sigAlg? with
  | none => rw [ha] at h; cases h
  | some a =>
    rw [ha] at h
    by_cases hty : typeOk a st
    · simp only [hty, if_true] at h
      cases hs : k.secret with
      | none => rw [hs] at h; cases h
      | some sk => rw [hs] at h; cases h; exact ⟨a, sk, rfl, rfl, hty, rfl⟩
    · simp only [hty, if_false] at h
      cases h

theorem create_length {Sch : Schemes} (hstd : Sch.Std) {k : Key} {m s : Bytes} {st : Option SignatureType}
    (h : anyCreateSignature Sch k m st = .ok s) :
    ∃ a, k.alg.sigAlg? = some a ∧ s.length = a.native.signatureLength ∧ ∀ ty, st = some ty → s.length = ty.signatureLength := by
  obtain ⟨a, sk, ha, _, hty, rfl⟩ := create_ok_elim h
  have hl : ((Sch.scheme a).sign sk m).length = a.native.signatureLength := by rw [(Sch.scheme a).sign_len, hstd a]
  refine ⟨a, ha, hl, ?_⟩
  intro ty hst
  cases hty with
  | inl h0 => rw [h0] at hst; cases hst
  | inr h1 => rw [h1] at hst; cases hst; exact hl

theorem ed25519Sign_eq (S : SigScheme) (k : Key) (m : Bytes) :
    createSignature (ed25519WriteSignature S k) m none =
      match ed25519Sign S k m with
      | some s => .ok s
      | none => .err .missingSecretKey := by
  rw [createSignature_eq]
  unfold ed25519WriteSignature ed25519Sign
  cases k.secret <;> rfl

/-! ## `signature_length` -/

theorem signatureLengthOf_ok_iff (s : List Char) (n : Nat) :
    signatureLengthOf s = .ok n ↔ ∃ t : SignatureType, normSpec s = t.canonical ∧ n = t.signatureLength := by
  unfold signatureLengthOf
  constructor
  · intro h
    cases hf : SignatureType.fromStr s with
    | ok t =>
      rw [hf] at h
      simp only [Res.bind] at h
      cases h
      exact ⟨t, (fromStr_ok_iff s t).mp hf, rfl⟩
    | err e => rw [hf] at h; cases h
    | panic p => rw [hf] at h; cases h
  · rintro ⟨t, ht, rfl⟩
    rw [(fromStr_ok_iff s t).mpr ht]
    rfl

theorem signatureLengthOf_err_iff (s : List Char) (e : CErr) :
    signatureLengthOf s = .err e ↔ SignatureType.fromStr s = .err e := by
  unfold signatureLengthOf
  cases SignatureType.fromStr s <;> simp [Res.bind]

/-! ## the seed -/

theorem detSeed_length (s : Bytes) : (detSeed s).length = 32 := by
  simp [detSeed, seedLen]; omega

theorem detSeed_of_length {s : Bytes} (h : s.length = 32) : detSeed s = s := by
  unfold detSeed seedLen
  rw [List.take_of_length_le (by omega), h]
  simp

theorem detSeed_append_of_ge {s : Bytes} (h : 32 ≤ s.length) (t : Bytes) : detSeed (s ++ t) = detSeed s := by
  unfold detSeed seedLen
  rw [List.take_append_of_le_length h]
  have h1 : 32 - (s ++ t).length = 0 := by simp; omega
  have h2 : 32 - s.length = 0 := by omega
  rw [h1, h2]

theorem detSeed_zero_ext {s : Bytes} (h : s.length < 32) : detSeed (s ++ [0]) = detSeed s := by
  unfold detSeed seedLen
  have hl : (s ++ [0]).length = s.length + 1 := by simp
  rw [List.take_of_length_le (by omega), List.take_of_length_le (by omega), hl]
  have : 32 - s.length = (32 - (s.length + 1)) + 1 := by omega
  rw [this, List.replicate_succ]
  simp

/-! ## `rngOf` -/

theorem rngOf_unknown (strict : Bool) (seed : Bytes) {method : Option String}
    (h1 : method ≠ none) (h2 : method ≠ some "") (h3 : method ≠ some "bls_keygen") : rngOf strict seed method = .err .unsupported := by
  unfold rngOf
  simp [h1, h2, h3]

theorem rngOf_bls (strict : Bool) (seed : Bytes) :
    rngOf strict seed (some "bls_keygen") = if seed.length < 32 then .err .input else .ok (.bls seed none) := by
  unfold rngOf
  simp

theorem rngOf_none (strict : Bool) (seed : Bytes) :
    rngOf strict seed none = if strict = true ∧ seed.length ≠ 32 then .err .input else .ok (.det (detSeed seed) 0) := by
  unfold rngOf seedLen
  simp

theorem rngOf_empty (strict : Bool) (seed : Bytes) : rngOf strict seed (some "") = rngOf strict seed none := by
  unfold rngOf
  simp

theorem rngOf_bls_ok {strict : Bool} {s : Bytes} {r : Rng} (h : rngOf strict s (some "bls_keygen") = .ok r) :
    r = .bls s none ∧ 32 ≤ s.length := by
  rw [rngOf_bls] at h
  split at h
  · cases h
  · cases h; exact ⟨rfl, by omega⟩

theorem rngOf_none_ok {strict : Bool} {s : Bytes} {r : Rng} (h : rngOf strict s none = .ok r) :
    r = .det (detSeed s) 0 ∧ (strict = true → s.length = 32) := by
  rw [rngOf_none] at h
  split at h
  · cases h
  · rename_i hc
    cases h
    refine ⟨rfl, fun hs => ?_⟩
    by_cases hl : s.length = 32
    · exact hl
    · exact absurd ⟨hs, hl⟩ hc

theorem method_cases (method : Option String) :
    (method = some "bls_keygen" ∨ method = none ∨ method = some "") ∨
    (method ≠ none ∧ method ≠ some "" ∧ method ≠ some "bls_keygen") := by
  by_cases h3 : method = some "bls_keygen"
  · exact .inl (.inl h3)
  · by_cases h1 : method = none
    · exact .inl (.inr (.inl h1))
    · by_cases h2 : method = some ""
      · exact .inl (.inr (.inr h2))
      · exact .inr ⟨h1, h2, h3⟩

/-! ## `generate` -/

theorem keyLen_bls {alg : KeyAlg} (h : isBls alg = true) : keyLen alg = 32 := by
  cases alg <;> simp_all [isBls, keyLen]

theorem ecLoop_ok {P : Prims} {alg : KeyAlg} : ∀ {fuel : Nat} {rng : Rng} {sk : Bytes},
    ecLoop P alg fuel rng = .ok sk → P.validScalar alg sk = true ∧ sk.length = keyLen alg
  | 0, _, _, h => by cases h
  | fuel + 1, rng, sk, h => by
    unfold ecLoop at h
    simp only at h
    split at h
    · rename_i hv
      cases h
      exact ⟨hv, P.read_len rng (keyLen alg)⟩
    · exact ecLoop_ok h

theorem ecLoop_no_err {P : Prims} {alg : KeyAlg} : ∀ (fuel : Nat) (rng : Rng) (e : CErr), ecLoop P alg fuel rng ≠ .err e
  | 0, _, _ => by intro h; cases h
  | fuel + 1, rng, e => by
    unfold ecLoop
    simp only
    split
    · intro h; cases h
    · exact ecLoop_no_err fuel _ e

/-- the first candidate is taken when it is a valid scalar -/
theorem ecLoop_first {P : Prims} {alg : KeyAlg} {rng : Rng} (fuel : Nat) (h : P.validScalar alg (P.read rng (keyLen alg)).1 = true) :
    ecLoop P alg (fuel + 1) rng = .ok (P.read rng (keyLen alg)).1 := by
  unfold ecLoop
  simp [h]

theorem generate_no_err (P : Prims) (alg : KeyAlg) (rng : Rng) (e : CErr) : generate P alg rng ≠ .err e := by
  unfold generate
  split
  · exact ecLoop_no_err _ _ e
  · split <;> (intro h; cases h)

theorem generate_ok_length {P : Prims} {alg : KeyAlg} {rng : Rng} {sk : Bytes} (h : generate P alg rng = .ok sk) :
    sk.length = keyLen alg := by
  unfold generate at h
  split at h
  · exact (ecLoop_ok h).2
  · split at h
    · rename_i hb
      cases h
      rw [keyLen_bls hb]
      exact Crypto.Ecdsa.i2osp_length 32 _
    · cases h
      exact P.read_len rng (keyLen alg)

theorem generate_total {P : Prims} {alg : KeyAlg} (h : isEcLoop alg = false) (rng : Rng) :
    ∃ sk, generate P alg rng = .ok sk ∧ sk.length = keyLen alg := by
  have : ∃ sk, generate P alg rng = .ok sk := by
    unfold generate
    simp only [h, Bool.false_eq_true, if_false]
    split <;> exact ⟨_, rfl⟩
  obtain ⟨sk, hsk⟩ := this
  exact ⟨sk, hsk, generate_ok_length hsk⟩

/-! ## `from_seed` -/

theorem fromSeed_unknown (P : Prims) (strict : Bool) (alg : KeyAlg) (seed : Bytes) {method : Option String}
    (h1 : method ≠ none) (h2 : method ≠ some "") (h3 : method ≠ some "bls_keygen") :
    fromSeed P strict alg seed method = .err .unsupported := by
  unfold fromSeed
  rw [rngOf_unknown strict seed h1 h2 h3]
  rfl

theorem fromSeed_bls_short (P : Prims) (strict : Bool) (alg : KeyAlg) {seed : Bytes} (h : seed.length < 32) :
    fromSeed P strict alg seed (some "bls_keygen") = .err .input := by
  unfold fromSeed
  rw [rngOf_bls, if_pos h]
  rfl

theorem fromSeed_bls (P : Prims) (strict : Bool) (alg : KeyAlg) {seed : Bytes} (h : 32 ≤ seed.length) :
    fromSeed P strict alg seed (some "bls_keygen") = (generate P alg (.bls seed none)).mapErr CErr.toKind := by
  unfold fromSeed
  rw [rngOf_bls, if_neg (by omega)]
  rfl

theorem fromSeed_none_current (P : Prims) (alg : KeyAlg) (seed : Bytes) :
    fromSeed P false alg seed none = (generate P alg (.det (detSeed seed) 0)).mapErr CErr.toKind := by
  unfold fromSeed
  rw [rngOf_none]
  simp
  rfl

theorem fromSeed_empty (P : Prims) (strict : Bool) (alg : KeyAlg) (seed : Bytes) :
    fromSeed P strict alg seed (some "") = fromSeed P strict alg seed none := by
  unfold fromSeed
  rw [rngOf_empty]

theorem mapErr_ok_iff {ε ε' α : Type} (f : ε → ε') (r : Res ε α) (a : α) : r.mapErr f = .ok a ↔ r = .ok a := by
  cases r <;> simp [Res.mapErr]

theorem fromSeed_ok_elim {P : Prims} {strict : Bool} {alg : KeyAlg} {seed : Bytes} {method : Option String} {sk : Bytes}
    (h : fromSeed P strict alg seed method = .ok sk) : ∃ rng, rngOf strict seed method = .ok rng ∧ generate P alg rng = .ok sk := by
  unfold fromSeed at h
  cases hr : rngOf strict seed method with
  | ok rng =>
    rw [hr] at h
    exact ⟨rng, rfl, (mapErr_ok_iff _ _ _).mp h⟩
  | err e => rw [hr] at h; cases h
  | panic p => rw [hr] at h; cases h

theorem fromSeed_err_elim {P : Prims} {strict : Bool} {alg : KeyAlg} {seed : Bytes} {method : Option String} {e : ErrKind}
    (h : fromSeed P strict alg seed method = .err e) : rngOf strict seed method = .err e := by
  unfold fromSeed at h
  cases hr : rngOf strict seed method with
  | ok rng =>
    rw [hr] at h
    exfalso
    cases hg : generate P alg rng with
    | ok sk => simp [Res.bind, hg, Res.mapErr] at h
    | err e' => exact generate_no_err P alg rng e' hg
    | panic p => simp [Res.bind, hg, Res.mapErr] at h
  | err e' => rw [hr] at h; cases h; rfl
  | panic p => rw [hr] at h; cases h

end Askar.Seed
