CFG = {
    "gens": ["C10"],
    "feature": "c10",
    "rule": "real threads: N worker tasks (2-12) + 0-2 reader tasks on one store (file-backed WAL 3/4, in-memory shared cache 1/4; pool sizes 1,2,4,8; busy timeouts 50/500/3000 ms) running one workload: counter increments (read-modify-write transactions), transfers between 40+ accounts keeping the sum (readers use fetch_all and multi-page scans), racing unique-token inserts through plain sessions, concurrent profile create/remove/use; every committed transaction logs what it read and wrote incl. a version record that fixes the serial order; the observed history is judged by the Lean checker (accept / snapshotOk, proved sound) and independently by the harness; watchdog (120 s) for deadlock, panics caught; non-trivial = at least 2 committed transactions and (for counter/transfer) at least one concurrent reader snapshot or one aborted attempt; distinct = hash of the case parameters",
    "assumptions": ["SQLite WAL / shared-cache locking is outside the model: the lock-protocol theorems are about TxStore; what real threads do is sampled (partial)",
                    "the history is what the harness logged through the public API (values read by fetch(for_update), values written by replace, results of fetch_all/scan)"],
    "trusted_base": [],
}


def nontrivial(rec):
    f = rec["impl"].get("feat") or {}
    w = rec["case"].get("workload")
    if w in ("counter", "transfer"):
        return f.get("txn-committed", 0) >= 2 and (f.get("snapshot-fetch_all", 0) + f.get("snapshot-scan", 0) + f.get("failed-attempts", 0)) >= 1
    if w == "tokens":
        return f.get("token-won", 0) >= 2 and f.get("token-err:Duplicate", 0) >= 1
    return f.get("profile-op", 0) >= 4
