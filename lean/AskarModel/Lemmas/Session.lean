import AskarModel.Model.Session
namespace Askar.Store
namespace Lemmas
end Lemmas
end Askar.Store
