//! C13: signatures verify only for the signed message and key, and interoperate (DESIGN.md section 4, C13).
//!
//! One case format, several generators (`kind` = "c13:rfc" | "c13:round" | "c13:flip" | "c13:garbage" | "c13:type" | "c13:cross"):
//!   {"keys": [keyspec…], "ops": [op…]}
//!   keyspec = {"alg", "src": "secret"|"seed"|"public" , "data": hex}  | {"alg", "src": "generate"}
//!           | {"alg", "src": "jwk", "data": <jwk text>, "secret": bool} ; optional "fam": index of the key it is another import of
//!           | {"src": "public_of"|"jwk_public_of"|"jwk_secret_of"|"secret_of", "of": i}      re-import of key i through the named export
//!   op = {"op": "sign", "key": i, "msg": hex, "t": null|string, "expect"?: hex, "expect_pub"?: hex}
//!      | {"op": "verify", "key": j, "msg": hex, "t": null|string, "sig": {"raw": hex} | {"by": i, "msg": hex, "t": null|string, "mut": M}}
//!   M = null | {"flip": bit} | {"trunc": n} | {"extend": hex} | "neg_s" | "s_plus_n"
//! Every op is self-contained (a verify names the signature it checks by how it is made), so op lists shrink freely.
//! Gap ops (COVERAGE.md rows 17 / 20; kinds "c13:create", "c13:seed"), at the `askar_crypto` level (errors are CRYPTO error kinds):
//!      | {"op": "create", "key": i, "via": "any"|"concrete", "msg": hex, "t": null|string}   `KeySign::create_signature` on `Box<AnyKey>` / on
//!        `Ed25519KeyPair` | `K256KeyPair` | `P256KeyPair` | `P384KeyPair` rebuilt from the key's exported bytes  ↦ {"ok": length, "csig": hex} | {"err": kind}
//!      | {"op": "siglen", "t": string}     `SignatureType::from_str(t).map(signature_length)`                  ↦ {"len": n} | {"err": kind}
//!      | {"op": "edsign", "key": i, "msg": hex}   `Ed25519KeyPair::sign`                                         ↦ hex | null
//!      | {"op": "seed", "alg", "seed": hex, "method": null|string, "msg": hex}   `LocalKey::from_seed`, then (signing algorithms) sign + verify
//!        ↦ {"sk": hex, "pk": hex|null, "sig": hex|null} | {"err": kind}
//! `out` = per op: sign ↦ {"ok": length, "sig": hex, "pub": hex} | {"err": kind}; verify ↦ true | false | {"err": kind} | {"sigerr": kind}.
//! The Lean side computes the same from executable specifications of Ed25519 (RFC 8032) and ECDSA + RFC 6979 (`lean/AskarModel/Crypto/
//! {Ed25519,Ecdsa}.lean`): the signature VALUE of every sign op and the VERDICT of every verify op.  The key material the specification
//! needs for keys whose secret is not in the case (generate / seed / JWK) is exported here and handed over as `model_input.km`.
//! The executor ALSO asks the compiled specification itself (a child process running the C13 driver, one per worker thread, fed the
//! case + "km" + "spec": true) and turns every difference in a signature value / public key / verification verdict into an oracle
//! failure `sign:value-differs-from-spec:<alg>[:digest-ge-n]`, `key:public-differs-from-spec:<alg>`,
//! `verify:verdict-differs-from-spec:<alg>:<class>` — so a deviation is reported with its input, not only as a correspondence break.
//! (`ASKAR_C13_SPEC_BIN` overrides the path of the driver binary; `ASKAR_C13_SPEC=off` disables the child.)
//! Judged here without the specification: RFC 8032 §7.1 and RFC 6979 A.2.5 / A.2.6 vectors, determinism, own-signature verification,
//! rejection of every mutation, low-S for secp256k1.
use crate::rng::Rng;
use aries_askar::kms::{KeyAlg, LocalKey};
use aries_askar::{Error, ErrorKind};
use serde_json::{json, Map, Value};
use std::cell::RefCell;
use std::collections::HashMap;
use std::io::{BufRead, BufReader, Write};
use std::process::{Child, ChildStdin, ChildStdout, Command, Stdio};
use std::str::FromStr;
use askar_crypto::alg::{ed25519::Ed25519KeyPair, k256::K256KeyPair, p256::P256KeyPair, p384::P384KeyPair, AnyKey, AnyKeyCreate};
use askar_crypto::repr::{KeyPublicBytes, KeySecretBytes};
use askar_crypto::sign::{KeySign, SignatureType};

// ---------------------------------------------------------------------------------------------------------------------
// small independent helpers

fn kind_name(k: ErrorKind) -> &'static str {
    match k {
        ErrorKind::Backend => "Backend",
        ErrorKind::Busy => "Busy",
        ErrorKind::Custom => "Custom",
        ErrorKind::Duplicate => "Duplicate",
        ErrorKind::Encryption => "Encryption",
        ErrorKind::Input => "Input",
        ErrorKind::NotFound => "NotFound",
        ErrorKind::Unexpected => "Unexpected",
        ErrorKind::Unsupported => "Unsupported",
    }
}

fn b64url(data: &[u8]) -> String {
    const A: &[u8] = b"ABCDEFGHIJKLMNOPQRSTUVWXYZabcdefghijklmnopqrstuvwxyz0123456789-_";
    let mut s = String::new();
    for ch in data.chunks(3) {
        let n = ((ch[0] as u32) << 16) | ((*ch.get(1).unwrap_or(&0) as u32) << 8) | (*ch.get(2).unwrap_or(&0) as u32);
        s.push(A[(n >> 18) as usize & 63] as char);
        s.push(A[(n >> 12) as usize & 63] as char);
        if ch.len() > 1 { s.push(A[(n >> 6) as usize & 63] as char); }
        if ch.len() > 2 { s.push(A[n as usize & 63] as char); }
    }
    s
}

fn unhex(s: &str) -> Vec<u8> { hex::decode(s).unwrap_or_default() }

/// group orders, big-endian
const N_P256: &str = "ffffffff00000000ffffffffffffffffbce6faada7179e84f3b9cac2fc632551";
const N_K256: &str = "fffffffffffffffffffffffffffffffebaaedce6af48a03bbfd25e8cd0364141";
const N_P384: &str = "ffffffffffffffffffffffffffffffffffffffffffffffffc7634d81f4372ddf581a0db248b0a77aecec196accc52973";
const L_ED25519: &str = "1000000000000000000000000000000014def9dea2f79cd65812631a5cf5d3ed";

fn order_of(alg: &str) -> Vec<u8> {
    unhex(match alg { "p256" => N_P256, "k256" => N_K256, "p384" => N_P384, _ => L_ED25519 })
}

/// a + b over big-endian strings of equal length; None on overflow of the width
fn be_add(a: &[u8], b: &[u8]) -> Option<Vec<u8>> {
    let mut out = vec![0u8; a.len()];
    let mut c = 0u16;
    for i in (0..a.len()).rev() {
        let s = a[i] as u16 + b[i] as u16 + c;
        out[i] = s as u8;
        c = s >> 8;
    }
    if c == 0 { Some(out) } else { None }
}

/// a - b (a >= b) over big-endian strings of equal length
fn be_sub(a: &[u8], b: &[u8]) -> Vec<u8> {
    let mut out = vec![0u8; a.len()];
    let mut br = 0i16;
    for i in (0..a.len()).rev() {
        let mut d = a[i] as i16 - b[i] as i16 - br;
        if d < 0 { d += 256; br = 1; } else { br = 0; }
        out[i] = d as u8;
    }
    out
}

/// the scalar half of a signature as a big-endian number (Ed25519 stores S little-endian)
fn s_of(alg: &str, sig: &[u8]) -> Vec<u8> {
    let mut s = sig[sig.len() / 2..].to_vec();
    if alg == "ed25519" { s.reverse(); }
    s
}

fn with_s(alg: &str, sig: &[u8], s_be: &[u8]) -> Vec<u8> {
    let mut s = s_be.to_vec();
    if alg == "ed25519" { s.reverse(); }
    let mut out = sig[..sig.len() / 2].to_vec();
    out.extend_from_slice(&s);
    out
}

fn sig_len_of(alg: &str) -> Option<usize> {
    match alg { "ed25519" | "p256" | "k256" => Some(64), "p384" => Some(96), _ => None }
}

/// spellings the oracle itself vouches for (documented names); everything else is judged by the model comparison only
fn vouched_type(alg: &str, t: Option<&str>) -> bool {
    match (alg, t) {
        (a, None) => sig_len_of(a).is_some(),
        ("ed25519", Some(s)) => s == "EdDSA" || s == "eddsa",
        ("p256", Some(s)) => s == "ES256" || s == "es256",
        ("k256", Some(s)) => s == "ES256K" || s == "es256k",
        ("p384", Some(s)) => s == "ES384" || s == "es384",
        _ => false,
    }
}

/// a documented spelling of the signature type of ANOTHER signing algorithm: answering it would mislabel the signature
fn foreign_type(alg: &str, t: Option<&str>) -> bool {
    t.is_some() && !vouched_type(alg, t) && ["ed25519", "p256", "k256", "p384"].iter().any(|a| *a != alg && vouched_type(a, t))
}

// ---------------------------------------------------------------------------------------------------------------------
// executor

struct K {
    key: LocalKey,
    alg: String,
    has_secret: bool,
    public: Option<Vec<u8>>,
    secret: Option<Vec<u8>>,
}

fn build_key(spec: &Value, built: &[K]) -> Result<K, Error> {
    let src = spec["src"].as_str().unwrap_or("");
    let derived = matches!(src, "public_of" | "jwk_public_of" | "jwk_secret_of" | "secret_of");
    let (key, alg, has_secret) = if derived {
        let b = &built[spec["of"].as_u64().unwrap_or(0) as usize];
        let kalg = b.key.algorithm();
        let k = match src {
            "public_of" => LocalKey::from_public_bytes(kalg, &b.key.to_public_bytes()?)?,
            "jwk_public_of" => LocalKey::from_jwk(&b.key.to_jwk_public(None)?)?,
            "jwk_secret_of" => LocalKey::from_jwk_slice(&b.key.to_jwk_secret()?)?,
            _ => LocalKey::from_secret_bytes(kalg, &b.key.to_secret_bytes()?)?,
        };
        (k, b.alg.clone(), b.has_secret && (src == "jwk_secret_of" || src == "secret_of"))
    } else {
        let name = spec["alg"].as_str().unwrap_or("");
        let kalg = KeyAlg::from_str(name)?;
        let data = spec["data"].as_str().unwrap_or("");
        match src {
            "secret" => (LocalKey::from_secret_bytes(kalg, &unhex(data))?, name.to_string(), true),
            "seed" => (LocalKey::from_seed(kalg, &unhex(data), None)?, name.to_string(), true),
            "public" => (LocalKey::from_public_bytes(kalg, &unhex(data))?, name.to_string(), false),
            "jwk" => (LocalKey::from_jwk(data)?, name.to_string(), spec["secret"].as_bool().unwrap_or(false)),
            _ => (LocalKey::generate_with_rng(kalg, true)?, name.to_string(), true),
        }
    };
    let public = key.to_public_bytes().ok().map(|b| b.to_vec());
    let secret = if has_secret { key.to_secret_bytes().ok().map(|b| b.to_vec()) } else { None };
    Ok(K { key, alg, has_secret, public, secret })
}

struct Ctx {
    oracle: Vec<Value>,
    feat: Map<String, Value>,
    cache: HashMap<(usize, Vec<u8>, Option<String>), Result<Vec<u8>, &'static str>>,
    /// per op: (algorithm of the key, mutation class of the signature presented) — context for the comparison with the specification
    meta: Vec<(String, String)>,
    cur: Option<(String, String)>,
    /// observations outside the property statements (never oracle failures): witnesses, at most 8 per case
    diag: Vec<Value>,
}

impl Ctx {
    fn bump(&mut self, k: &str) {
        let n = self.feat.get(k).and_then(|v| v.as_u64()).unwrap_or(0);
        self.feat.insert(k.to_string(), json!(n + 1));
    }
    fn fail(&mut self, sig: String, detail: Value) {
        if self.oracle.len() < 20 { self.oracle.push(json!({"sig": sig, "detail": detail})); }
    }
}

fn t_of(v: &Value) -> Option<String> { v["t"].as_str().map(|s| s.to_string()) }

fn tclass(t: &Option<String>) -> &'static str { if t.is_some() { "typed" } else { "default" } }

/// the signing step, with the checks every produced signature must pass (property, not model)
fn do_sign(cx: &mut Ctx, keys: &[K], i: usize, msg: &[u8], t: &Option<String>) -> Result<Vec<u8>, &'static str> {
    let ck = (i, msg.to_vec(), t.clone());
    if let Some(r) = cx.cache.get(&ck) { return r.clone(); }
    let k = &keys[i];
    let r1 = k.key.sign_message(msg, t.as_deref());
    let r2 = k.key.sign_message(msg, t.as_deref());
    let res = match (r1, r2) {
        (Ok(s1), Ok(s2)) => {
            cx.bump("sign_ok");
            cx.bump(&format!("sign_ok_{}", k.alg));
            if s1 != s2 { cx.fail(format!("sign:not-deterministic:{}", k.alg), json!({"msg": hex::encode(msg), "a": hex::encode(&s1), "b": hex::encode(&s2)})); }
            match sig_len_of(&k.alg) {
                Some(n) if s1.len() == n => {}
                _ => cx.fail(format!("sign:wrong-length:{}:{}", k.alg, s1.len()), json!({"msg": hex::encode(msg)})),
            }
            if !k.has_secret { cx.fail(format!("sign:ok-without-secret:{}", k.alg), json!({})); }
            if foreign_type(&k.alg, t.as_deref()) { cx.fail(format!("sign:err->ok:foreign-type:{}", k.alg), json!({"t": t})); }
            // the signature verifies under the signing key itself, with the same type argument
            match k.key.verify_signature(msg, &s1, t.as_deref()) {
                Ok(true) => {}
                Ok(false) => cx.fail(format!("verify-own:true->false:{}:{}", k.alg, tclass(t)), json!({"msg": hex::encode(msg), "sig": hex::encode(&s1), "t": t})),
                Err(e) => cx.fail(format!("verify-own:true->err:{}:{}:{}", kind_name(e.kind()), k.alg, tclass(t)), json!({"msg": hex::encode(msg), "t": t})),
            }
            // secp256k1: low-S form (s <= n - s)
            if k.alg == "k256" && s1.len() == 64 {
                let s = s_of("k256", &s1);
                let neg = be_sub(&order_of("k256"), &s);
                if s > neg { cx.fail("sign:high-s:k256".into(), json!({"sig": hex::encode(&s1)})); } else { cx.bump("k256_low_s"); }
            }
            Ok(s1)
        }
        (Err(e1), Err(e2)) => {
            let n = kind_name(e1.kind());
            cx.bump(&format!("sign_err_{}", n));
            if e1.kind() != e2.kind() { cx.fail(format!("sign:not-deterministic-error:{}", k.alg), json!({})); }
            if k.has_secret && vouched_type(&k.alg, t.as_deref()) {
                cx.fail(format!("sign:ok->err:{}:{}:{}", n, k.alg, tclass(t)), json!({"msg": hex::encode(msg), "t": t}));
            }
            Err(n)
        }
        _ => { cx.fail(format!("sign:not-deterministic-outcome:{}", k.alg), json!({"msg": hex::encode(msg), "t": t})); Err("Nondeterministic") }
    };
    cx.cache.insert(ck, res.clone());
    res
}

fn mutate(alg: &str, m: &Value, sig: &[u8]) -> Vec<u8> {
    let mut s = sig.to_vec();
    if let Some(name) = m.as_str() {
        if sig.len() % 2 == 0 && !sig.is_empty() && sig_len_of(alg) == Some(sig.len()) {
            let n = order_of(alg);
            let sv = s_of(alg, sig);
            if name == "neg_s" && sv <= n { return with_s(alg, sig, &be_sub(&n, &sv)); }
            if name == "s_plus_n" { return with_s(alg, sig, &be_add(&sv, &n).unwrap_or(n.clone())); }
        }
        return s;
    }
    if let Some(b) = m["flip"].as_u64() {
        let b = b as usize;
        if b / 8 < s.len() { s[b / 8] ^= 1 << (b % 8); }
    } else if let Some(n) = m["trunc"].as_u64() {
        s.truncate(n as usize);
    } else if let Some(h) = m["extend"].as_str() {
        s.extend_from_slice(&unhex(h));
    }
    s
}

fn mut_class(m: &Value) -> &'static str {
    if let Some(s) = m.as_str() { return if s == "neg_s" { "neg_s" } else { "s_plus_n" }; }
    if m.is_null() { "none" } else if !m["flip"].is_null() { "flip" } else if !m["trunc"].is_null() { "trunc" } else { "extend" }
}

fn run_op(cx: &mut Ctx, keys: &[K], op: &Value) -> Value {
    match op["op"].as_str() {
        Some("siglen") => return run_siglen(cx, op),
        Some("seed") => return run_seed(cx, op),
        Some("create") | Some("edsign") => {
            let i = op["key"].as_u64().unwrap_or(0) as usize;
            if i >= keys.len() { return json!({"err": "nokey"}); }
            return if op["op"].as_str() == Some("create") { run_create(cx, keys, i, op) } else { run_edsign(cx, keys, i, op) };
        }
        _ => {}
    }
    let i = op["key"].as_u64().unwrap_or(0) as usize;
    if i >= keys.len() { return json!({"err": "nokey"}); }
    let msg = unhex(op["msg"].as_str().unwrap_or(""));
    let t = t_of(op);
    if op["op"].as_str() == Some("sign") {
        cx.bump("op_sign");
        let r = do_sign(cx, keys, i, &msg, &t);
        if let Ok(s) = &r {
            if let Some(e) = op["expect"].as_str() {
                if hex::encode(s) == e.to_lowercase() { cx.bump("rfc_vector_match"); } else {
                    cx.fail(format!("sign:differs-from-rfc-vector:{}", keys[i].alg), json!({"msg": hex::encode(&msg), "got": hex::encode(s), "want": e}));
                }
            }
        }
        if let Some(e) = op["expect"].as_str() {
            match keys[i].key.verify_signature(&msg, &unhex(e), t.as_deref()) {
                Ok(true) => cx.bump("rfc_vector_verifies"),
                other => cx.fail(format!("verify:rfc-vector-rejected:{}", keys[i].alg), json!({"msg": hex::encode(&msg), "sig": e, "got": format!("{:?}", other.map_err(|x| kind_name(x.kind())))})),
            }
        }
        if let Some(e) = op["expect_pub"].as_str() {
            if keys[i].public.as_ref().map(hex::encode).as_deref() == Some(&e.to_lowercase()) { cx.bump("rfc_pubkey_match"); } else {
                cx.fail(format!("key:public-differs-from-rfc-vector:{}", keys[i].alg), json!({"got": keys[i].public.as_ref().map(hex::encode), "want": e}));
            }
        }
        if !keys[i].has_secret && r.is_ok() { cx.fail(format!("sign:ok-without-secret:{}", keys[i].alg), json!({})); }
        cx.cur = Some((keys[i].alg.clone(), "sign".into()));
        return match r { Ok(s) => json!({"ok": s.len(), "sig": hex::encode(&s), "pub": keys[i].public.as_ref().map(hex::encode)}), Err(n) => json!({"err": n}) };
    }
    cx.bump("op_verify");
    let sj = &op["sig"];
    // (signature bytes, expectation of the PROPERTY: Some(true) must verify, Some(false) must be exactly Ok(false), None must not be Ok(true))
    let (sig, must): (Vec<u8>, Option<bool>);
    let mut class = "raw";
    let mut neg_s_ecdsa = false;
    // unchanged signature under a type spelling the oracle does not vouch for: the dispatch decides (model comparison only)
    let mut any = false;
    if let Some(h) = sj["raw"].as_str() {
        sig = unhex(h);
        must = None;
        cx.bump("verify_raw");
    } else {
        let by = sj["by"].as_u64().unwrap_or(0) as usize;
        if by >= keys.len() { return json!({"err": "nokey"}); }
        let smsg = unhex(sj["msg"].as_str().unwrap_or(""));
        let st = t_of(sj);
        let base = match do_sign(cx, keys, by, &smsg, &st) { Ok(s) => s, Err(n) => return json!({"sigerr": n}) };
        let m = &sj["mut"];
        class = mut_class(m);
        sig = mutate(&keys[by].alg, m, &base);
        let same_key = keys[by].alg == keys[i].alg && keys[by].public.is_some() && keys[by].public == keys[i].public;
        let vouched = vouched_type(&keys[i].alg, t.as_deref());
        let changed = sig != base || smsg != msg || !same_key;
        if class == "neg_s" && keys[by].alg != "ed25519" && same_key && smsg == msg && sig != base { neg_s_ecdsa = true; }
        if !changed && !vouched { any = true; }
        must = if !changed { if vouched { Some(true) } else { None } }
               else if neg_s_ecdsa { None }
               else if vouched && same_key && (class == "flip" || class == "none" || class == "neg_s" || class == "s_plus_n") { Some(false) }
               else { None };
        if smsg != msg { cx.bump("verify_msg_changed"); }
        if !same_key { cx.bump("verify_other_key"); }
        cx.bump(&format!("verify_mut_{}", class));
    }
    let r = keys[i].key.verify_signature(&msg, &sig, t.as_deref());
    let alg = keys[i].alg.clone();
    cx.cur = Some((alg.clone(), class.to_string()));
    let ctx = || json!({"alg": alg, "msg": hex::encode(&msg), "sig": hex::encode(&sig), "t": t, "op": op});
    if r.is_ok() && foreign_type(&alg, t.as_deref()) { cx.fail(format!("verify:err->ok:foreign-type:{}", alg), json!({"t": t})); }
    match &r {
        Ok(true) => {
            cx.bump("verify_true");
            if neg_s_ecdsa { cx.bump(&format!("neg_s_accepted_{}", alg)); }
            else if must != Some(true) && !any {
                let what = if sj["raw"].is_string() { "garbage".to_string() } else { format!("altered-{}", class) };
                cx.fail(format!("verify:false->true:{}:{}", what, alg), ctx());
            }
        }
        Ok(false) => {
            cx.bump("verify_false");
            if neg_s_ecdsa { cx.bump(&format!("neg_s_rejected_{}", alg)); }
            if must == Some(true) { cx.fail(format!("verify:true->false:{}:{}", alg, tclass(&t)), ctx()); }
        }
        Err(e) => {
            let n = kind_name(e.kind());
            cx.bump(&format!("verify_err_{}", n));
            if must == Some(true) { cx.fail(format!("verify:true->err:{}:{}:{}", n, alg, tclass(&t)), ctx()); }
            if must == Some(false) { cx.fail(format!("verify:false->err:{}:{}:{}", n, alg, class), ctx()); }
        }
    }
    match r { Ok(b) => json!(b), Err(e) => json!({"err": kind_name(e.kind())}) }
}

// ---------------------------------------------------------------------------------------------------------------------
// gap ops: `KeySign::create_signature`, `SignatureType::signature_length`, `Ed25519KeyPair::sign`, `LocalKey::from_seed`

fn ckind(e: &askar_crypto::Error) -> String { format!("{:?}", e.kind()) }

/// src/error.rs `From<CryptoError>`: the askar kind a crypto kind is reported as
fn ckind_to_kind(c: &str) -> &'static str {
    match c {
        "Custom" => "Custom",
        "Encryption" => "Encryption",
        "ExceededBuffer" | "Unexpected" => "Unexpected",
        "Unsupported" => "Unsupported",
        _ => "Input",
    }
}

type SigRes = Result<Vec<u8>, String>;

/// (create_signature, write_signature into a Vec) on the concrete key type rebuilt from the exported bytes
macro_rules! on_concrete {
    ($T:ty, $k:expr, $msg:expr, $st:expr) => {{
        let key: Result<$T, askar_crypto::Error> = match (&$k.secret, &$k.public) {
            (Some(s), _) => <$T>::from_secret_bytes(s),
            (None, Some(p)) => <$T>::from_public_bytes(p),
            _ => Err(askar_crypto::Error::from(askar_crypto::ErrorKind::Invalid)),
        };
        match key {
            Ok(key) => {
                let a: SigRes = key.create_signature($msg, $st).map(|b| b.as_ref().to_vec()).map_err(|e| ckind(&e));
                let mut v: Vec<u8> = Vec::new();
                let b: SigRes = key.write_signature($msg, $st, &mut v).map(|_| v).map_err(|e| ckind(&e));
                (a, b)
            }
            Err(e) => (Err(format!("rebuild:{}", ckind(&e))), Err(format!("rebuild:{}", ckind(&e)))),
        }
    }};
}

fn create_pair(k: &K, via: &str, msg: &[u8], st: Option<SignatureType>) -> (SigRes, SigRes) {
    if via == "concrete" {
        return match k.alg.as_str() {
            "ed25519" => on_concrete!(Ed25519KeyPair, k, msg, st),
            "k256" => on_concrete!(K256KeyPair, k, msg, st),
            "p256" => on_concrete!(P256KeyPair, k, msg, st),
            "p384" => on_concrete!(P384KeyPair, k, msg, st),
            _ => (Err("noconcrete".into()), Err("noconcrete".into())),
        };
    }
    let alg = k.key.algorithm();
    let key: Result<Box<AnyKey>, askar_crypto::Error> = match (&k.secret, &k.public) {
        (Some(s), _) => Box::<AnyKey>::from_secret_bytes(alg, s),
        (None, Some(p)) => Box::<AnyKey>::from_public_bytes(alg, p),
        _ => Err(askar_crypto::Error::from(askar_crypto::ErrorKind::Invalid)),
    };
    match key {
        Ok(key) => {
            let a: SigRes = key.create_signature(msg, st).map(|b| b.as_ref().to_vec()).map_err(|e| ckind(&e));
            let mut v: Vec<u8> = Vec::new();
            let b: SigRes = key.write_signature(msg, st, &mut v).map(|_| v).map_err(|e| ckind(&e));
            (a, b)
        }
        Err(e) => (Err(format!("rebuild:{}", ckind(&e))), Err(format!("rebuild:{}", ckind(&e)))),
    }
}

fn run_create(cx: &mut Ctx, keys: &[K], i: usize, op: &Value) -> Value {
    cx.bump("op_create");
    let k = &keys[i];
    let msg = unhex(op["msg"].as_str().unwrap_or(""));
    let t = t_of(op);
    let via = op["via"].as_str().unwrap_or("any");
    cx.bump(&format!("create_via_{}", via));
    // what LocalKey::sign_message answers for the same key, message and type string (the property's observation point)
    let lk: Result<Vec<u8>, &'static str> = k.key.sign_message(&msg, t.as_deref()).map_err(|e| kind_name(e.kind()));
    let st = match t.as_deref().map(SignatureType::from_str).transpose() {
        Ok(st) => st,
        Err(e) => {
            let c = ckind(&e);
            cx.bump(&format!("create_err_{}", c));
            if lk.as_ref().err().copied() != Some(ckind_to_kind(&c)) {
                cx.fail(format!("create:type-parse-differs-from-sign_message:{}", k.alg), json!({"t": t, "parse": c, "sign_message": lk.as_ref().map(hex::encode).map_err(|e| *e)}));
            }
            return json!({"err": c});
        }
    };
    let (a, b) = create_pair(k, via, &msg, st);
    let ctx = json!({"alg": k.alg, "via": via, "msg": hex::encode(&msg), "t": t});
    // the allocating method is the writing method
    if a != b { cx.fail(format!("create:differs-from-write_signature:{}:{}", k.alg, via), json!({"ctx": ctx, "create": a, "write": b})); }
    match &a {
        Ok(sig) => {
            cx.bump("create_ok");
            cx.bump(&format!("create_ok_{}", k.alg));
            match &lk {
                Ok(s) if s == sig => cx.bump("create_eq_sign_message"),
                Ok(s) => cx.fail(format!("create:value-differs-from-sign_message:{}:{}", k.alg, via), json!({"ctx": ctx, "create": hex::encode(sig), "sign_message": hex::encode(s)})),
                Err(e) => cx.fail(format!("create:ok-where-sign_message-errs:{}:{}:{}", e, k.alg, via), ctx.clone()),
            }
            // the announced length: of the requested type, else of the algorithm's own type
            let announced = st.or_else(|| SignatureType::from_str(native(&k.alg)).ok()).map(|x| x.signature_length());
            if announced != Some(sig.len()) || sig_len_of(&k.alg) != Some(sig.len()) {
                cx.fail(format!("create:length-differs-from-signature_length:{}:{}", k.alg, via), json!({"ctx": ctx, "len": sig.len(), "announced": announced}));
            } else { cx.bump("create_len_eq_signature_length"); }
            match k.key.verify_signature(&msg, sig, t.as_deref()) {
                Ok(true) => cx.bump("create_verifies"),
                other => cx.fail(format!("create:own-signature-rejected:{}:{}", k.alg, via), json!({"ctx": ctx, "got": format!("{:?}", other.map_err(|x| kind_name(x.kind())))})),
            }
            if !k.has_secret { cx.fail(format!("create:ok-without-secret:{}", k.alg), ctx.clone()); }
            if foreign_type(&k.alg, t.as_deref()) { cx.fail(format!("create:err->ok:foreign-type:{}", k.alg), ctx.clone()); }
            json!({"ok": sig.len(), "csig": hex::encode(sig)})
        }
        Err(c) => {
            cx.bump(&format!("create_err_{}", c));
            match &lk {
                Err(e) if *e == ckind_to_kind(c) => cx.bump("create_err_eq_sign_message"),
                other => cx.fail(format!("create:error-differs-from-sign_message:{}:{}:{}", c, k.alg, via), json!({"ctx": ctx, "sign_message": other.as_ref().map(hex::encode).map_err(|e| *e)})),
            }
            if k.has_secret && vouched_type(&k.alg, t.as_deref()) { cx.fail(format!("create:ok->err:{}:{}:{}", c, k.alg, via), ctx.clone()); }
            json!({"err": c})
        }
    }
}

fn run_siglen(cx: &mut Ctx, op: &Value) -> Value {
    cx.bump("op_siglen");
    let t = op["t"].as_str().unwrap_or("");
    match SignatureType::from_str(t) {
        Ok(st) => {
            let n = st.signature_length();
            cx.bump("siglen_ok");
            // a documented spelling announces the width of the algorithm it names
            for a in SIG_ALGS { if vouched_type(a, Some(t)) && sig_len_of(a) != Some(n) { cx.fail(format!("siglen:wrong:{}", a), json!({"t": t, "len": n})); } }
            if n != 64 && n != 96 { cx.fail("siglen:not-a-signature-width".into(), json!({"t": t, "len": n})); }
            json!({"len": n})
        }
        Err(e) => {
            let c = ckind(&e);
            cx.bump(&format!("siglen_err_{}", c));
            if SIG_ALGS.iter().any(|a| vouched_type(a, Some(t))) { cx.fail(format!("siglen:ok->err:{}", c), json!({"t": t})); }
            json!({"err": c})
        }
    }
}

fn run_edsign(cx: &mut Ctx, keys: &[K], i: usize, op: &Value) -> Value {
    cx.bump("op_edsign");
    let k = &keys[i];
    if k.alg != "ed25519" { return json!({"err": "notEd25519"}); }
    let msg = unhex(op["msg"].as_str().unwrap_or(""));
    let key = match (&k.secret, &k.public) {
        (Some(s), _) => Ed25519KeyPair::from_secret_bytes(s),
        (None, Some(p)) => Ed25519KeyPair::from_public_bytes(p),
        _ => Err(askar_crypto::Error::from(askar_crypto::ErrorKind::Invalid)),
    };
    let key = match key { Ok(k) => k, Err(e) => return json!({"err": format!("rebuild:{}", ckind(&e))}) };
    let lk = k.key.sign_message(&msg, None);
    match key.sign(&msg) {
        Some(sig) => {
            cx.bump("edsign_some");
            match &lk {
                Ok(s) if s[..] == sig[..] => cx.bump("edsign_eq_sign_message"),
                other => cx.fail("edsign:differs-from-sign_message".into(), json!({"msg": hex::encode(&msg), "sign": hex::encode(&sig[..]), "sign_message": format!("{:?}", other.as_ref().map(hex::encode).map_err(|e| kind_name(e.kind())))})),
            }
            if !k.has_secret { cx.fail("edsign:some-without-secret".into(), json!({})); }
            json!(hex::encode(&sig[..]))
        }
        None => {
            cx.bump("edsign_none");
            if k.has_secret || lk.is_ok() { cx.fail("edsign:none-with-secret".into(), json!({})); }
            Value::Null
        }
    }
}

/// how two different seeds that gave the same key relate (label of the oracle failure only)
fn seed_collision_class(a: &[u8], b: &[u8]) -> &'static str {
    let pad = |s: &[u8]| { let mut p = s[..s.len().min(32)].to_vec(); p.resize(32, 0); p };
    if pad(a) != pad(b) { "unrelated" } else if a.len() >= 32 && b.len() >= 32 { "bytes-beyond-32-ignored" } else { "zero-padded" }
}

thread_local! { static SEEDS_SEEN: RefCell<Vec<(String, String, Vec<u8>, Vec<u8>)>> = RefCell::new(vec![]); }

fn run_seed(cx: &mut Ctx, op: &Value) -> Value {
    cx.bump("op_seed");
    let name = op["alg"].as_str().unwrap_or("");
    let alg = match KeyAlg::from_str(name) { Ok(a) => a, Err(_) => return json!({"err": "noalg"}) };
    let seed = unhex(op["seed"].as_str().unwrap_or(""));
    let method = op["method"].as_str();
    let msg = unhex(op["msg"].as_str().unwrap_or(""));
    let mclass = match method { None | Some("") => "det", Some("bls_keygen") => "bls_keygen", _ => "unknown" };
    let r1 = LocalKey::from_seed(alg, &seed, method);
    let r2 = LocalKey::from_seed(alg, &seed, method);
    let ctx = json!({"alg": name, "seed": hex::encode(&seed), "method": method});
    match (r1, r2) {
        (Ok(k1), Ok(k2)) => {
            cx.bump("seed_ok");
            cx.bump(&format!("seed_ok_{}_{}", mclass, seed.len().min(65)));
            let sk = k1.to_secret_bytes().map(|b| b.to_vec()).unwrap_or_default();
            let sk2 = k2.to_secret_bytes().map(|b| b.to_vec()).unwrap_or_default();
            let pk = k1.to_public_bytes().ok().map(|b| b.to_vec());
            if sk != sk2 || sk.is_empty() { cx.fail(format!("from_seed:not-deterministic:{}", name), ctx.clone()); }
            if mclass == "unknown" { cx.fail(format!("from_seed:err->ok:unknown-method:{}", name), ctx.clone()); }
            if mclass == "bls_keygen" && seed.len() < 32 { cx.fail(format!("from_seed:err->ok:bls-short-seed:{}", name), ctx.clone()); }
            if k1.algorithm() != alg { cx.fail(format!("from_seed:wrong-algorithm:{}", name), ctx.clone()); }
            // different seeds give different keys (same algorithm, same method), equal seeds equal keys — over the ops of this case
            let hit = SEEDS_SEEN.with(|s| {
                let mut s = s.borrow_mut();
                let hit = s.iter().find(|(a, m, sd, k)| a == name && m == mclass && ((*sd != seed) == (*k == sk))).map(|(_, _, sd, _)| sd.clone());
                s.push((name.to_string(), mclass.to_string(), seed.clone(), sk.clone()));
                hit
            });
            if let Some(other) = hit {
                if other == seed { cx.fail(format!("from_seed:same-seed-different-key:{}", name), ctx.clone()); }
                else {
                    let class = seed_collision_class(&other, &seed);
                    let w = json!({"alg": name, "seed_a": hex::encode(&other), "seed_b": hex::encode(&seed), "method": method, "key": hex::encode(&sk)});
                    if mclass == "det" && class != "unrelated" {
                        // OBSERVATION, outside the property statements (neither C11 nor C13 states that distinct seeds give distinct keys):
                        // `RandomDet::new` keeps the first 32 bytes of the seed and zero-pads a shorter one
                        cx.bump(&format!("obs:from_seed:seed-collision:{}", class));
                        if cx.diag.len() < 8 { cx.diag.push(json!({"obs": format!("from_seed:seed-collision:{}", class), "witness": w})); }
                    } else {
                        // the seed does not reach the key at all / two unrelated seeds collide: the key is not "seeded" by its seed
                        cx.fail(format!("from_seed:distinct-seeds-same-key:{}:{}", mclass, class), w);
                    }
                }
            }
            // a seeded signing key signs, deterministically, and its signature verifies under it and under its public-only import
            let mut sigv = Value::Null;
            if sig_len_of(name).is_some() {
                match (k1.sign_message(&msg, None), k2.sign_message(&msg, None)) {
                    (Ok(s1), Ok(s2)) => {
                        cx.bump("sign_ok");
                        if s1 != s2 { cx.fail(format!("from_seed:sign-not-deterministic:{}", name), ctx.clone()); }
                        if sig_len_of(name) != Some(s1.len()) { cx.fail(format!("sign:wrong-length:{}:{}", name, s1.len()), ctx.clone()); }
                        let pubk = pk.as_ref().and_then(|p| LocalKey::from_public_bytes(alg, p).ok());
                        let v1 = k1.verify_signature(&msg, &s1, None).unwrap_or(false);
                        let v2 = pubk.as_ref().map_or(false, |p| p.verify_signature(&msg, &s1, None).unwrap_or(false));
                        if !(v1 && v2) { cx.fail(format!("verify-own:true->false:{}:seeded", name), ctx.clone()); }
                        let mut bad = s1.clone();
                        let nb = bad.len();
                        bad[nb - 1] ^= 1;
                        match k1.verify_signature(&msg, &bad, None) { Ok(false) => cx.bump("verify_false"), _ => cx.fail(format!("verify:false->true:altered-flip:{}", name), ctx.clone()) }
                        sigv = json!(hex::encode(&s1));
                    }
                    _ => cx.fail(format!("sign:ok->err:seeded:{}", name), ctx.clone()),
                }
            }
            json!({"sk": hex::encode(&sk), "pk": if sig_len_of(name).is_some() { json!(pk.map(hex::encode)) } else { Value::Null }, "sig": sigv})
        }
        (Err(e1), Err(e2)) => {
            let n = kind_name(e1.kind());
            cx.bump(&format!("seed_err_{}", n));
            cx.bump(&format!("seed_err_{}_{}", mclass, n));
            if e1.kind() != e2.kind() { cx.fail(format!("from_seed:not-deterministic-error:{}", name), ctx.clone()); }
            match mclass {
                "unknown" => if n != "Unsupported" { cx.fail(format!("from_seed:unknown-method:Unsupported->{}", n), ctx.clone()) },
                "bls_keygen" => if seed.len() >= 32 || n != "Input" { cx.fail(format!("from_seed:bls_keygen:ok->err:{}:{}", n, name), ctx.clone()) },
                _ => if seed.len() == 32 { cx.fail(format!("from_seed:ok->err:{}:{}", n, name), ctx.clone()) },
            }
            json!({"err": n})
        }
        _ => { cx.fail(format!("from_seed:not-deterministic-outcome:{}", name), ctx); json!({"err": "Nondeterministic"}) }
    }
}

pub fn exec(case: &Value, _tag: &str) -> Value {
    if case["kind"].as_str() == Some("c13:selftest") { return exec_selftest(case); }
    let mut cx = Ctx { oracle: vec![], feat: Map::new(), cache: HashMap::new(), meta: vec![], cur: None, diag: vec![] };
    SEEDS_SEEN.with(|s| s.borrow_mut().clear());
    let mut keys: Vec<K> = vec![];
    for (i, spec) in case["keys"].as_array().cloned().unwrap_or_default().iter().enumerate() {
        match build_key(spec, &keys) {
            Ok(k) => {
                cx.bump(&format!("key_{}", spec["src"].as_str().unwrap_or("?")));
                if let Some(f) = spec["fam"].as_u64() {
                    // a second import of the same key pair must expose the same public key
                    if keys.get(f as usize).map_or(false, |b| b.public != k.public) {
                        cx.fail(format!("key:import-routes-disagree:{}", k.alg), json!({"key": i, "fam": f}));
                    }
                }
                if let Some(of) = spec["of"].as_u64() {
                    if keys.get(of as usize).map_or(false, |b| b.public != k.public) {
                        cx.fail(format!("key:reimport-changes-public:{}:{}", k.alg, spec["src"].as_str().unwrap_or("")), json!({"key": i}));
                    }
                }
                keys.push(k);
            }
            Err(e) => {
                let n = kind_name(e.kind());
                return json!({"out": {"keyerr": i, "err": n},
                    "oracle": [{"sig": format!("key:construct:ok->err:{}:{}", n, spec["src"].as_str().unwrap_or("")), "detail": spec}], "feat": cx.feat});
            }
        }
    }
    let mut out = vec![];
    for op in case["ops"].as_array().cloned().unwrap_or_default().iter() {
        out.push(run_op(&mut cx, &keys, op));
        let m = cx.cur.take().unwrap_or_default();
        cx.meta.push(m);
    }
    cx.bump(&format!("case_{}", case["kind"].as_str().unwrap_or("c13").trim_start_matches("c13:")));
    // key material for the specification: what the library itself exports for each key
    let km: Vec<Value> = keys.iter().map(|k| json!({"sk": k.secret.as_ref().map(hex::encode), "pk": k.public.as_ref().map(hex::encode)})).collect();
    // a "secret" key must export the bytes it was built from (the specification signs with the case's bytes, not with the export)
    for (i, spec) in case["keys"].as_array().cloned().unwrap_or_default().iter().enumerate() {
        if spec["src"].as_str() == Some("secret") && sig_len_of(&keys[i].alg).is_some() {
            if keys[i].secret.as_ref().map(hex::encode).as_deref() != spec["data"].as_str().map(|s| s.to_lowercase()).as_deref() {
                cx.fail(format!("key:secret-export-differs-from-import:{}", keys[i].alg), json!({"key": i}));
            }
        }
    }
    // (seed cases: every value is compared with the specification through the correspondence; no sign / verify op for the child to judge)
    if case["kind"].as_str() != Some("c13:seed") { compare_with_spec(&mut cx, case, &km, &out); }
    json!({"out": out, "oracle": cx.oracle, "feat": cx.feat, "model_input": {"km": km}, "diag": cx.diag})
}

// ---------------------------------------------------------------------------------------------------------------------
// the executable specification (compiled Lean driver) as an oracle

struct SpecProc { child: Child, stdin: ChildStdin, stdout: BufReader<ChildStdout> }

impl Drop for SpecProc {
    fn drop(&mut self) { self.child.kill().ok(); self.child.wait().ok(); }
}

thread_local! { static SPEC: RefCell<Option<SpecProc>> = RefCell::new(None); }

fn spec_bin() -> String {
    std::env::var("ASKAR_C13_SPEC_BIN").unwrap_or_else(|_| concat!(env!("CARGO_MANIFEST_DIR"), "/../lean/.lake/build/bin/askar_model_c13").to_string())
}

fn spec_start() -> Result<SpecProc, String> {
    let mut child = Command::new(spec_bin()).stdin(Stdio::piped()).stdout(Stdio::piped()).stderr(Stdio::null()).spawn()
        .map_err(|e| format!("spawn {}: {}", spec_bin(), e))?;
    let stdin = child.stdin.take().ok_or("no stdin")?;
    let stdout = BufReader::new(child.stdout.take().ok_or("no stdout")?);
    Ok(SpecProc { child, stdin, stdout })
}

/// one case line in, the driver's `out` back
fn spec_query(line: &str) -> Result<Value, String> {
    SPEC.with(|cell| {
        let mut g = cell.borrow_mut();
        for attempt in 0..2 {
            if g.is_none() { *g = Some(spec_start()?); }
            let p = g.as_mut().unwrap();
            let sent = writeln!(p.stdin, "{}", line).and_then(|_| p.stdin.flush());
            let mut resp = String::new();
            let got = if sent.is_ok() { p.stdout.read_line(&mut resp).unwrap_or(0) } else { 0 };
            if got > 0 {
                return serde_json::from_str::<Value>(&resp).map(|v| v["out"].clone()).map_err(|e| format!("spec answer: {}", e));
            }
            *g = None;   // the child died: start a fresh one once
            if attempt == 1 { return Err("the specification process gives no answer".into()); }
        }
        Err("unreachable".into())
    })
}

/// H(m) >= n as integers (the case in which RFC 6979's bits2octets reduces the digest)
fn digest_ge_n(alg: &str, msg: &[u8]) -> bool {
    use sha2::Digest;
    let d: Vec<u8> = match alg { "p384" => sha2::Sha384::digest(msg).to_vec(), "p256" | "k256" => sha2::Sha256::digest(msg).to_vec(), _ => return false };
    d >= order_of(alg)
}

fn compare_with_spec(cx: &mut Ctx, case: &Value, km: &[Value], out: &[Value]) {
    if std::env::var("ASKAR_C13_SPEC").map_or(false, |v| v == "off") { cx.bump("spec_off"); return; }
    let mut q = case.clone();
    q["km"] = json!(km);
    q["spec"] = json!(true);
    let spec = match spec_query(&q.to_string()) {
        Ok(Value::Array(a)) if a.len() == out.len() => a,
        Ok(other) => { cx.fail("spec:unusable-answer".into(), json!({"answer": other.to_string().chars().take(300).collect::<String>()})); return; }
        Err(e) => { cx.fail("spec:unavailable".into(), json!({"error": e})); return; }
    };
    let ops = case["ops"].as_array().cloned().unwrap_or_default();
    for (i, (mine, want)) in out.iter().zip(spec.iter()).enumerate() {
        let (alg, class) = cx.meta.get(i).cloned().unwrap_or_default();
        let msg = unhex(ops[i]["msg"].as_str().unwrap_or(""));
        if let Some(sig) = mine["sig"].as_str() {
            // a signature was produced: its value and the signer's public key are fixed by the RFCs
            match want["rfc"].as_str() {
                Some(w) if w == sig => cx.bump("spec_sign_match"),
                Some(w) => {
                    let tail = if digest_ge_n(&alg, &msg) { ":digest-ge-n" } else { "" };
                    cx.fail(format!("sign:value-differs-from-spec:{}{}", alg, tail), json!({"op": i, "key": km.get(ops[i]["key"].as_u64().unwrap_or(0) as usize),
                        "msg": hex::encode(&msg), "library": sig, "rfc": w, "library_equals_unreduced_digest_variant": want["sig"].as_str() == Some(sig)}));
                }
                None => cx.fail(format!("sign:no-spec-value:{}", alg), json!({"op": i, "spec": want})),
            }
            match (mine["pub"].as_str(), want["pub"].as_str()) {
                (Some(a), Some(b)) if a == b => cx.bump("spec_pub_match"),
                (a, b) => cx.fail(format!("key:public-differs-from-spec:{}", alg), json!({"op": i, "library": a, "spec": b})),
            }
        } else if let (Some(a), Some(b)) = (mine.as_bool(), want.as_bool()) {
            if a == b { cx.bump("spec_verify_match"); } else {
                cx.fail(format!("verify:verdict-differs-from-spec:{}:{}", alg, class), json!({"op": ops[i], "library": a, "spec": b, "key": km.get(ops[i]["key"].as_u64().unwrap_or(0) as usize)}));
            }
        }
        // every other difference (error kinds, ok versus error) is the dispatch: judged by the model comparison and by the checks above
    }
}

fn exec_selftest(case: &Value) -> Value {
    // the specifications' own tests against the RFC vectors: all must hold
    let want = json!({"sha2": true, "hmac": true, "ed25519": true, "ecdsa": true});
    let mut oracle = vec![];
    if !std::env::var("ASKAR_C13_SPEC").map_or(false, |v| v == "off") {
        match spec_query(&case.to_string()) {
            Ok(v) if v == want => {}
            Ok(v) => oracle.push(json!({"sig": "spec:selftest-failed", "detail": v})),
            Err(e) => oracle.push(json!({"sig": "spec:unavailable", "detail": {"error": e}})),
        }
    }
    json!({"out": want, "oracle": oracle, "feat": {"case_selftest": 1}})
}

// ---------------------------------------------------------------------------------------------------------------------
// generators

const SIG_ALGS: [&str; 4] = ["ed25519", "p256", "k256", "p384"];
const OTHER_ALGS: [&str; 12] = ["a128gcm", "a256gcm", "a128cbchs256", "a256cbchs512", "a128kw", "a256kw", "bls12381g1", "bls12381g2", "bls12381g1g2", "c20p", "xc20p", "x25519"];

fn native(alg: &str) -> &'static str {
    match alg { "ed25519" => "EdDSA", "p256" => "ES256", "k256" => "ES256K", _ => "ES384" }
}

fn secret_len(alg: &str) -> usize { if alg == "p384" { 48 } else { 32 } }

/// secret bytes that are a valid scalar for every curve: top byte below 0x7f and not all zero
fn rand_secret(r: &mut Rng, alg: &str) -> Vec<u8> {
    let mut b = r.bytes(secret_len(alg));
    if alg != "ed25519" { b[0] &= 0x7f; b[1] |= 1; }
    b
}

fn base_key(r: &mut Rng, alg: &str, how: usize) -> Value {
    match how % 3 {
        0 => json!({"alg": alg, "src": "secret", "data": hex::encode(rand_secret(r, alg))}),
        1 => json!({"alg": alg, "src": "seed", "data": hex::encode(r.bytes(32))}),
        _ => json!({"alg": alg, "src": "generate"}),
    }
}

const LENS: [usize; 22] = [0, 1, 2, 3, 7, 8, 15, 16, 17, 31, 32, 33, 55, 56, 63, 64, 65, 111, 112, 127, 128, 129];

fn rand_msg(r: &mut Rng, thorough: bool) -> Vec<u8> {
    let n = match r.below(10) {
        0..=5 => *r.pick(&LENS),
        6..=7 => r.below(300),
        8 => 1023,
        _ => if thorough { r.below(5000) } else { r.below(1200) },
    };
    r.bytes(n)
}

fn sign_op(key: usize, msg: &[u8], t: Option<&str>) -> Value { json!({"op": "sign", "key": key, "msg": hex::encode(msg), "t": t}) }

fn verify_op(key: usize, msg: &[u8], t: Option<&str>, by: usize, smsg: &[u8], st: Option<&str>, m: Value) -> Value {
    json!({"op": "verify", "key": key, "msg": hex::encode(msg), "t": t, "sig": {"by": by, "msg": hex::encode(smsg), "t": st, "mut": m}})
}

fn verify_raw(key: usize, msg: &[u8], t: Option<&str>, raw: &[u8]) -> Value {
    json!({"op": "verify", "key": key, "msg": hex::encode(msg), "t": t, "sig": {"raw": hex::encode(raw)}})
}

/// the type-string spelling classes (every class of the normaliser: case, the three separators, empty, near misses, non-ASCII,
/// strings around the 64-byte buffer bound counted in UTF-8 bytes AFTER normalisation)
fn type_strings(r: &mut Rng, thorough: bool) -> Vec<String> {
    let mut v: Vec<String> = vec![];
    for n in ["eddsa", "es256", "es256k", "es384"] {
        v.push(n.to_string());
        v.push(n.to_uppercase());
    }
    for s in ["EdDSA", "Ed-DSA", "ed_dsa", " e d d s a ", "ES-256", "ES_256", "es 256", "E-S-2-5-6-K", "es256-k", "ES256_K", "-es384-", "__ES__384__", "Es384",
              "--EDDSA", "eddsa  ", "eS256k"] { v.push(s.to_string()); }
    v.push(format!("{}eddsa", "-".repeat(100)));
    v.push(format!("es{}256{}", "_".repeat(70), " ".repeat(70)));
    v.push(format!("E{}S384", "- _".repeat(40)));
    for s in ["", "-", " _-", "e", "es", "es25", "es2566", "es256kk", "es512", "es385", "eddsa1", "xeddsa", "ecdsa", "ed25519", "p256", "es256r", "rs256",
              "hs256", "es-256-k-", "es.256", "es\t256", "es\n256", "es256\u{0}", "\u{0}", "es+256", "es/256", "es256=", "\"es256\"", "es256,es384"] { v.push(s.to_string()); }
    // non-ASCII: only ASCII letters are lower-cased, only the three ASCII separators are dropped
    for s in ["ĖdDSA", "es256\u{212a}", "ES256\u{212a}", "ｅｓ２５６", "es２56", "édDSA", "eddſa", "İS256", "es\u{a0}256", "es\u{2013}256", "es\u{2212}256", "es\u{ff0d}256",
              "es\u{ff3f}256", "es\u{3000}256", "es256\u{301}", "𝐞𝐬256", "es256\u{1f511}", "εδδσα", "еs256", "ЕS256"] { v.push(s.to_string()); }
    // the 64-byte buffer: bytes of the normalised string decide
    v.push("a".repeat(63));
    v.push("a".repeat(64));
    v.push("a".repeat(65));
    v.push("A".repeat(64));
    v.push(format!("{}{}", "a".repeat(64), "-".repeat(100)));
    v.push(format!("{}{}", "-_ ".repeat(50), "a".repeat(64)));
    v.push(format!("{}{}a", "-_ ".repeat(50), "a".repeat(64)));
    v.push(format!("{}é", "a".repeat(62)));
    v.push(format!("{}é", "a".repeat(63)));
    v.push(format!("{}€", "a".repeat(61)));
    v.push(format!("{}€", "a".repeat(62)));
    v.push(format!("{}𝐞", "a".repeat(60)));
    v.push(format!("{}𝐞", "a".repeat(61)));
    v.push("𝐞".repeat(16));
    v.push("𝐞".repeat(17));
    v.push(format!("{}a", "𝐞".repeat(16)));
    v.push("é".repeat(32));
    v.push("é".repeat(33));
    v.push(format!("eddsa{}", "x".repeat(59)));
    v.push(format!("eddsa{}", "x".repeat(60)));
    v.push(format!("eddsa{}", "-".repeat(60)));
    v.push(format!("es256{}", " ".repeat(1000)));
    v.push(format!("es256{}", "k".repeat(200)));
    v.push("ES384".repeat(13));
    v.push("x".repeat(1000));
    v.push("€".repeat(400));
    // random strings over an alphabet that makes hits and near misses likely
    let alpha: Vec<char> = "edsaEDSA256384kK-_ \u{212a}é\t".chars().collect();
    for _ in 0..(if thorough { 400 } else { 40 }) {
        let n = r.below(9);
        v.push((0..n).map(|_| *r.pick(&alpha)).collect());
    }
    // random decorations of the accepted names
    for _ in 0..(if thorough { 400 } else { 40 }) {
        let base: Vec<char> = r.pick(&["eddsa", "es256", "es256k", "es384"]).chars().collect();
        let mut s = String::new();
        for c in base {
            while r.chance(1, 4) { s.push(*r.pick(&['-', '_', ' '])); }
            s.push(if r.chance(1, 2) { c.to_ascii_uppercase() } else { c });
        }
        while r.chance(1, 3) { s.push(*r.pick(&['-', '_', ' '])); }
        if r.chance(1, 10) { s.push(*r.pick(&['x', '\u{212a}', '.', '1'])); }
        v.push(s);
    }
    v
}

/// RFC 8032 section 7.1 "TEST 1024": the 1023-byte message
const MSG_1024: &str = concat!(
    "08b8b2b733424243760fe426a4b54908632110a66c2f6591eabd3345e3e4eb98fa6e264bf09efe12ee50f8f54e9f77b1e355f6c50544e23fb1433ddf73be84d8",
    "79de7c0046dc4996d9e773f4bc9efe5738829adb26c81b37c93a1b270b20329d658675fc6ea534e0810a4432826bf58c941efb65d57a338bbd2e26640f89ffbc",
    "1a858efcb8550ee3a5e1998bd177e93a7363c344fe6b199ee5d02e82d522c4feba15452f80288a821a579116ec6dad2b3b310da903401aa62100ab5d1a36553e",
    "06203b33890cc9b832f79ef80560ccb9a39ce767967ed628c6ad573cb116dbefefd75499da96bd68a8a97b928a8bbc103b6621fcde2beca1231d206be6cd9ec7",
    "aff6f6c94fcd7204ed3455c68c83f4a41da4af2b74ef5c53f1d8ac70bdcb7ed185ce81bd84359d44254d95629e9855a94a7c1958d1f8ada5d0532ed8a5aa3fb2",
    "d17ba70eb6248e594e1a2297acbbb39d502f1a8c6eb6f1ce22b3de1a1f40cc24554119a831a9aad6079cad88425de6bde1a9187ebb6092cf67bf2b13fd65f270",
    "88d78b7e883c8759d2c4f5c65adb7553878ad575f9fad878e80a0c9ba63bcbcc2732e69485bbc9c90bfbd62481d9089beccf80cfe2df16a2cf65bd92dd597b07",
    "07e0917af48bbb75fed413d238f5555a7a569d80c3414a8d0859dc65a46128bab27af87a71314f318c782b23ebfe808b82b0ce26401d2e22f04d83d1255dc51a",
    "ddd3b75a2b1ae0784504df543af8969be3ea7082ff7fc9888c144da2af58429ec96031dbcad3dad9af0dcbaaaf268cb8fcffead94f3c7ca495e056a9b47acdb7",
    "51fb73e666c6c655ade8297297d07ad1ba5e43f1bca32301651339e22904cc8c42f58c30c04aafdb038dda0847dd988dcda6f3bfd15c4b4c4525004aa06eeff8",
    "ca61783aacec57fb3d1f92b0fe2fd1a85f6724517b65e614ad6808d6f6ee34dff7310fdc82aebfd904b01e1dc54b2927094b2db68d6f903b68401adebf5a7e08",
    "d78ff4ef5d63653a65040cf9bfd4aca7984a74d37145986780fc0b16ac451649de6188a7dbdf191f64b5fc5e2ab47b57f7f7276cd419c17a3ca8e1b939ae49e4",
    "88acba6b965610b5480109c8b17b80e1b7b750dfc7598d5d5011fd2dcc5600a32ef5b52a1ecc820e308aa342721aac0943bf6686b64b2579376504ccc493d97e",
    "6aed3fb0f9cd71a43dd497f01f17c0e2cb3797aa2a2f256656168e6c496afc5fb93246f6b1116398a346f1a641f3b041e989f7914f90cc2c7fff357876e506b5",
    "0d334ba77c225bc307ba537152f3f1610e4eafe595f6d9d90d11faa933a15ef1369546868a7f3a45a96768d40fd9d03412c091c6315cf4fde7cb68606937380d",
    "b2eaaa707b4c4185c32eddcdd306705e4dc1ffc872eeee475a64dfac86aba41c0618983f8741c5ef68d3a101e8a3b8cac60c905c15fc910840b94c00a0b9d0");

struct RfcKey { alg: &'static str, secret: &'static str, public: &'static str, jwk_extra: &'static str, sigs: &'static [(&'static str, &'static str)] }

/// RFC 8032 section 7.1 (TEST 1, 2, 3, SHA(abc), 1024); RFC 6979 A.2.5 (P-256 / SHA-256) and A.2.6 (P-384 / SHA-384), messages "sample", "test".
/// `public` = the library's public-bytes form: Ed25519 the 32 bytes; ECDSA the SEC1 compressed point (02|03 by parity of Uy, then Ux);
/// `jwk_extra` = Uy for the JWK.
const RFC_KEYS: &[RfcKey] = &[
    RfcKey { alg: "ed25519", secret: "9d61b19deffd5a60ba844af492ec2cc44449c5697b326919703bac031cae7f60",
        public: "d75a980182b10ab7d54bfed3c964073a0ee172f3daa62325af021a68f707511a", jwk_extra: "",
        sigs: &[("", "e5564300c360ac729086e2cc806e828a84877f1eb8e5d974d873e065224901555fb8821590a33bacc61e39701cf9b46bd25bf5f0595bbe24655141438e7a100b")] },
    RfcKey { alg: "ed25519", secret: "4ccd089b28ff96da9db6c346ec114e0f5b8a319f35aba624da8cf6ed4fb8a6fb",
        public: "3d4017c3e843895a92b70aa74d1b7ebc9c982ccf2ec4968cc0cd55f12af4660c", jwk_extra: "",
        sigs: &[("72", "92a009a9f0d4cab8720e820b5f642540a2b27b5416503f8fb3762223ebdb69da085ac1e43e15996e458f3613d0f11d8c387b2eaeb4302aeeb00d291612bb0c00")] },
    RfcKey { alg: "ed25519", secret: "c5aa8df43f9f837bedb7442f31dcb7b166d38535076f094b85ce3a2e0b4458f7",
        public: "fc51cd8e6218a1a38da47ed00230f0580816ed13ba3303ac5deb911548908025", jwk_extra: "",
        sigs: &[("af82", "6291d657deec24024827e69c3abe01a30ce548a284743a445e3680d7db5ac3ac18ff9b538d16f290ae67f760984dc6594a7c15e9716ed28dc027beceea1ec40a")] },
    RfcKey { alg: "ed25519", secret: "833fe62409237b9d62ec77587520911e9a759cec1d19755b7da901b96dca3d42",
        public: "ec172b93ad5e563bf4932c70e1245034c35467ef2efd4d64ebf819683467e2bf", jwk_extra: "",
        sigs: &[("ddaf35a193617abacc417349ae20413112e6fa4e89a97ea20a9eeee64b55d39a2192992a274fc1a836ba3c23a3feebbd454d4423643ce80e2a9ac94fa54ca49f",
                 "dc2a4459e7369633a52b1bf277839a00201009a3efbf3ecb69bea2186c26b58909351fc9ac90b3ecfdfbc7c66431e0303dca179c138ac17ad9bef1177331a704")] },
    RfcKey { alg: "ed25519", secret: "f5e5767cf153319517630f226876b86c8160cc583bc013744c6bf255f5cc0ee5",
        public: "278117fc144c72340f67d0f2316e8386ceffbf2b2428c9c51fef7c597f1d426e", jwk_extra: "",
        sigs: &[(MSG_1024, "0aab4c900501b3e24d7cdf4663326a3a87df5e4843b2cbdb67cbf6e460fec350aa5371b1508f9f4528ecea23c436d94b5e8fcd4f681e30a6ac00a9704a188a03")] },
    RfcKey { alg: "p256", secret: "c9afa9d845ba75166b5c215767b1d6934e50c3db36e89b127b8a622b120f6721",
        public: "0360fed4ba255a9d31c961eb74c6356d68c049b8923b61fa6ce669622e60f29fb6",
        jwk_extra: "7903fe1008b8bc99a41ae9e95628bc64f2f1b20c2d7e9f5177a3c294d4462299",
        sigs: &[("73616d706c65", "efd48b2aacb6a8fd1140dd9cd45e81d69d2c877b56aaf991c34d0ea84eaf3716f7cb1c942d657c41d436c7a1b6e29f65f3e900dbb9aff4064dc4ab2f843acda8"),
                ("74657374", "f1abb023518351cd71d881567b1ea663ed3efcf6c5132b354f28d3b0b7d38367019f4113742a2b14bd25926b49c649155f267e60d3814b4c0cc84250e46f0083")] },
    RfcKey { alg: "p384", secret: "6b9d3dad2e1b8c1c05b19875b6659f4de23c3b667bf297ba9aa47740787137d896d5724e4c70a825f872c9ea60d2edf5",
        public: "02ec3a4e415b4e19a4568618029f427fa5da9a8bc4ae92e02e06aae5286b300c64def8f0ea9055866064a254515480bc13",
        jwk_extra: "8015d9b72d7d57244ea8ef9ac0c621896708a59367f9dfb9f54ca84b3f1c9db1288b231c3ae0d4fe7344fd2533264720",
        sigs: &[("73616d706c65", "94edbb92a5ecb8aad4736e56c691916b3f88140666ce9fa73d64c4ea95ad133c81a648152e44acf96e36dd1e80fabe4699ef4aeb15f178cea1fe40db2603138f130e740a19624526203b6351d0a3a94fa329c145786e679e7b82c71a38628ac8"),
                ("74657374", "8203b63d3c853e8d77227fb377bcf7b7b772e97892a80f36ab775d509d7a5feb0542a7f0812998da8f1dd3ca3cf023dbddd0760448d42d8a43af45af836fce4de8be06b485e9b61b827c2f13173923e06a739f040649a667bf3b828246baa5a5")] },
];

fn rfc_jwk(k: &RfcKey, with_secret: bool) -> String {
    let x = if k.alg == "ed25519" { unhex(k.public) } else { unhex(k.public)[1..].to_vec() };
    let mut m = Map::new();
    if k.alg == "ed25519" {
        m.insert("kty".into(), json!("OKP"));
        m.insert("crv".into(), json!("Ed25519"));
        m.insert("x".into(), json!(b64url(&x)));
    } else {
        m.insert("kty".into(), json!("EC"));
        m.insert("crv".into(), json!(if k.alg == "p256" { "P-256" } else { "P-384" }));
        m.insert("x".into(), json!(b64url(&x)));
        m.insert("y".into(), json!(b64url(&unhex(k.jwk_extra))));
    }
    if with_secret { m.insert("d".into(), json!(b64url(&unhex(k.secret)))); }
    Value::Object(m).to_string()
}

fn gen_rfc(idx: usize) -> Value {
    let k = &RFC_KEYS[idx % RFC_KEYS.len()];
    let keys = vec![
        json!({"alg": k.alg, "src": "secret", "data": k.secret}),
        json!({"alg": k.alg, "src": "jwk", "data": rfc_jwk(k, true), "secret": true, "fam": 0}),
        json!({"alg": k.alg, "src": "jwk", "data": rfc_jwk(k, false), "secret": false, "fam": 0}),
        json!({"alg": k.alg, "src": "public", "data": k.public, "fam": 0}),
        json!({"src": "jwk_secret_of", "of": 0}),
        json!({"src": "public_of", "of": 1}),
    ];
    let mut ops = vec![];
    for (m, s) in k.sigs {
        let msg = unhex(m);
        for signer in [0usize, 1, 4] {
            for t in [None, Some(native(k.alg))] {
                let mut o = sign_op(signer, &msg, t);
                o["expect"] = json!(s);
                o["expect_pub"] = json!(k.public);
                ops.push(o);
            }
        }
        // (the RFC's literal signature is presented to the signing key by the executor, see "expect")
        for v in 0..6 { ops.push(verify_op(v, &msg, None, 4, &msg, Some(native(k.alg)), Value::Null)); }
        for v in 0..6 { ops.push(verify_op(v, &msg, Some(native(k.alg)), 0, &msg, None, Value::Null)); }
        // public-only imports cannot sign
        ops.push(sign_op(2, &msg, None));
        ops.push(sign_op(3, &msg, Some(native(k.alg))));
        ops.push(sign_op(5, &msg, None));
    }
    json!({"kind": "c13:rfc", "keys": keys, "ops": ops})
}

/// one key pair through every import route
fn family(r: &mut Rng, alg: &str, how: usize) -> Vec<Value> {
    vec![
        base_key(r, alg, how),
        json!({"src": "public_of", "of": 0}),
        json!({"src": "jwk_secret_of", "of": 0}),
        json!({"src": "jwk_public_of", "of": 0}),
        json!({"src": "secret_of", "of": 0}),
        json!({"src": "jwk_public_of", "of": 2}),
    ]
}

fn gen_round(r: &mut Rng, idx: usize, thorough: bool) -> Value {
    let alg = SIG_ALGS[idx % 4];
    let keys = family(r, alg, idx / 4);
    let signers = [0usize, 2, 4];
    let mut ops = vec![];
    let nmsg = if thorough { 10 } else { 5 };
    for mi in 0..nmsg {
        let msg = if mi == 0 { vec![] } else { rand_msg(r, thorough) };
        let s = signers[mi % 3];
        let t: Option<&str> = if r.chance(1, 2) { None } else { Some(native(alg)) };
        ops.push(sign_op(s, &msg, t));
        for v in 0..6 {
            let vt: Option<&str> = if r.chance(1, 2) { None } else { Some(native(alg)) };
            ops.push(verify_op(v, &msg, vt, s, &msg, t, Value::Null));
        }
        // public-only members refuse to sign
        ops.push(sign_op(*r.pick(&[1usize, 3, 5]), &msg, t));
        // a changed message, a changed signature
        let mut other = msg.clone();
        if other.is_empty() { other.push(0); } else { let p = r.below(other.len()); other[p] ^= 1 << r.below(8); }
        ops.push(verify_op(r.below(6), &other, None, s, &msg, t, Value::Null));
        let sl = sig_len_of(alg).unwrap();
        ops.push(verify_op(r.below(6), &msg, None, s, &msg, t, json!({"flip": r.below(sl * 8)})));
        ops.push(verify_op(r.below(6), &msg, None, s, &msg, t, json!({"trunc": r.below(sl)})));
        ops.push(verify_op(r.below(6), &msg, None, s, &msg, t, { let n = 1 + r.below(40); json!({"extend": hex::encode(r.bytes(n))}) }));
        ops.push(verify_op(r.below(6), &msg, None, s, &msg, t, json!("neg_s")));
        ops.push(verify_op(r.below(6), &msg, None, s, &msg, t, json!("s_plus_n")));
    }
    json!({"kind": "c13:round", "keys": keys, "ops": ops})
}

/// every single-bit mutation of a short message and of its signature.  One key pair and message, delivered as `parts` cases that
/// share keys and message and divide the signature bits between them (bit b goes to part b mod parts), so that the cases stay small;
/// a "generate" key is a fresh key pair in each part.
fn gen_flip(r: &mut Rng, idx: usize, thorough: bool, parts: usize) -> Vec<Value> {
    let alg = SIG_ALGS[idx % 4];
    let keys = vec![base_key(r, alg, idx / 4), json!({"src": "public_of", "of": 0})];
    let mlen = if thorough { 1 + (idx / 4) % 16 } else { 1 + (idx / 4) % 4 };
    let msg = r.bytes(mlen);
    let t: Option<&str> = if (idx / 4) % 2 == 0 { None } else { Some(native(alg)) };
    (0..parts).map(|part| {
        let mut ops = vec![sign_op(0, &msg, t), verify_op(1, &msg, t, 0, &msg, t, Value::Null)];
        if part == 0 {
            for b in 0..mlen * 8 {
                let mut m2 = msg.clone();
                m2[b / 8] ^= 1 << (b % 8);
                ops.push(verify_op(b % 2, &m2, t, 0, &msg, t, Value::Null));
            }
            // the empty message has no bit to flip: extend it instead
            ops.push(verify_op(1, &[], t, 0, &msg, t, Value::Null));
        }
        for b in (0..sig_len_of(alg).unwrap() * 8).filter(|b| b % parts == part) {
            ops.push(verify_op((b / parts) % 2, &msg, t, 0, &msg, t, json!({"flip": b})));
        }
        json!({"kind": "c13:flip", "keys": keys, "ops": ops})
    }).collect()
}

/// arbitrary byte strings of every length 0..=200 as signature, plus structured near-signatures
fn gen_garbage(r: &mut Rng, idx: usize, thorough: bool) -> Value {
    let alg = SIG_ALGS[idx % 4];
    let keys = vec![base_key(r, alg, idx / 4), json!({"src": "public_of", "of": 0})];
    let v = (idx / 4) % 2;
    let msg = if idx % 3 == 0 { vec![] } else { rand_msg(r, false) };
    let t: Option<&str> = if (idx / 8) % 2 == 0 { None } else { Some(native(alg)) };
    let mut ops = vec![];
    let top = if thorough { 300 } else { 200 };
    for n in 0..=top {
        let raw = match r.below(6) { 0 => vec![0u8; n], 1 => vec![0xffu8; n], _ => r.bytes(n) };
        ops.push(verify_raw(v, &msg, t, &raw));
    }
    let sl = sig_len_of(alg).unwrap();
    let n = order_of(alg);
    let half = sl / 2;
    let pad = |x: &[u8]| { let mut p = vec![0u8; half - x.len().min(half)]; p.extend_from_slice(&x[..x.len().min(half)]); p };
    let mut n_half = pad(&n);
    if alg == "ed25519" { n_half.reverse(); }
    let one = { let mut o = vec![0u8; half]; if alg == "ed25519" { o[0] = 1 } else { o[half - 1] = 1 }; o };
    let rnd = r.bytes(half);
    for (a, b) in [(vec![0u8; half], vec![0u8; half]), (one.clone(), one.clone()), (rnd.clone(), vec![0u8; half]), (vec![0u8; half], rnd.clone()),
                   (n_half.clone(), one.clone()), (one.clone(), n_half.clone()), (vec![0xffu8; half], vec![0xffu8; half]), (rnd.clone(), n_half.clone()),
                   (rnd.clone(), one.clone()), (one.clone(), rnd.clone())] {
        let mut raw = a.clone();
        raw.extend_from_slice(&b);
        ops.push(verify_raw(v, &msg, t, &raw));
    }
    // a valid signature cut, padded, doubled
    for m in [json!({"trunc": sl - 1}), json!({"trunc": half}), json!({"trunc": 0}), json!({"extend": "00"}), json!({"extend": hex::encode(vec![0u8; sl])}),
              json!("neg_s"), json!("s_plus_n")] {
        ops.push(verify_op(v, &msg, t, 0, &msg, t, m));
    }
    let mut keys = keys;
    if alg == "ed25519" {
        // small-order public keys (identity, order 2, order 4, order 8) are importable; a cofactorless non-strict verifier accepts
        // (R = identity, S = 0) under them for every / every second / fourth / eighth message; `verify_strict` must not
        // the last three are NON-CANONICAL encodings (identity with the sign bit set; y = p + 1 = 1; y = p = 0): RFC 8032 decoding
        // rejects them, `curve25519-dalek` decompression (hence `from_public_bytes`) accepts them; all are of small order
        const WEAK: [&str; 8] = [
            "0100000000000000000000000000000000000000000000000000000000000000",
            "ecffffffffffffffffffffffffffffffffffffffffffffffffffffffffffff7f",
            "0000000000000000000000000000000000000000000000000000000000000000",
            "0000000000000000000000000000000000000000000000000000000000000080",
            "26e8958fc2b227b045c3f489f2ef98f0d5dfac05d3c63339b13802886d53fc05",
            "0100000000000000000000000000000000000000000000000000000000000080",
            "eeffffffffffffffffffffffffffffffffffffffffffffffffffffffffffff7f",
            "edffffffffffffffffffffffffffffffffffffffffffffffffffffffffffff7f",
        ];
        for w in WEAK {
            let ki = keys.len();
            keys.push(json!({"alg": "ed25519", "src": "public", "data": w}));
            for mi in 0..(if thorough { 64 } else { 16 }) {
                let m = [mi as u8, (idx & 0xff) as u8];
                let mut raw = unhex(WEAK[0]);
                raw.extend_from_slice(&[0u8; 32]);
                ops.push(verify_raw(ki, &m, t, &raw));
                let mut raw2 = unhex(w);
                raw2.extend_from_slice(&[0u8; 32]);
                ops.push(verify_raw(ki, &m, t, &raw2));
            }
            ops.push(sign_op(ki, &msg, t));
        }
    }
    json!({"kind": "c13:garbage", "keys": keys, "ops": ops})
}

/// every spelling class of the type string against one key (all 16 algorithms; signing keys with and without the secret)
fn gen_type(r: &mut Rng, idx: usize, thorough: bool) -> Value {
    let n_sig = 8;
    let slot = idx % (n_sig + OTHER_ALGS.len());
    let (keys, k, signer) = if slot < n_sig {
        let alg = SIG_ALGS[slot % 4];
        let keys = vec![base_key(r, alg, idx), json!({"src": if idx % 2 == 0 { "public_of" } else { "jwk_public_of" }, "of": 0})];
        (keys, if slot < 4 { 0usize } else { 1usize }, Some(0usize))
    } else {
        (vec![json!({"alg": OTHER_ALGS[slot - n_sig], "src": "generate"})], 0usize, None)
    };
    let ml = r.below(40);
    let msg = r.bytes(ml);
    let raw = r.bytes(64);
    let mut ops = vec![];
    ops.push(sign_op(k, &msg, None));
    for t in type_strings(r, thorough) {
        ops.push(sign_op(k, &msg, Some(t.as_str())));
        match signer {
            Some(s) => ops.push(verify_op(k, &msg, Some(t.as_str()), s, &msg, None, Value::Null)),
            None => ops.push(verify_raw(k, &msg, Some(t.as_str()), &raw)),
        }
    }
    ops.push(verify_raw(k, &msg, None, &raw));
    json!({"kind": "c13:type", "keys": keys, "ops": ops})
}

/// several key pairs of all algorithms: every (signer, verifier) pair, default and explicit types of either side
fn gen_cross(r: &mut Rng, idx: usize, _thorough: bool) -> Value {
    let mut keys = vec![];
    let mut algs: Vec<&str> = vec![];
    for (i, a) in SIG_ALGS.iter().enumerate() {
        keys.push(base_key(r, a, idx + i));
        algs.push(a);
    }
    // a second key pair of two of the algorithms, one public-only re-import, one non-signing key
    let a2 = SIG_ALGS[idx % 4];
    keys.push(base_key(r, a2, idx + 1));
    algs.push(a2);
    let a3 = SIG_ALGS[(idx / 4 + 1) % 4];
    keys.push(base_key(r, a3, idx + 2));
    algs.push(a3);
    let p = r.below(4);
    keys.push(json!({"src": "public_of", "of": p}));
    algs.push(algs[p]);
    let other = OTHER_ALGS[idx % OTHER_ALGS.len()];
    keys.push(json!({"alg": other, "src": "generate"}));
    algs.push(other);
    let msg = rand_msg(r, false);
    let mut ops = vec![];
    let nk = keys.len();
    for s in 0..6 {
        for v in 0..nk {
            ops.push(verify_op(v, &msg, None, s, &msg, None, Value::Null));
            ops.push(verify_op(v, &msg, Some(native(algs[s])), s, &msg, None, Value::Null));
            if sig_len_of(algs[v]).is_some() && algs[v] != algs[s] {
                ops.push(verify_op(v, &msg, Some(native(algs[v])), s, &msg, None, Value::Null));
            }
        }
        // signing with the type of another algorithm
        for t in ["EdDSA", "ES256", "ES256K", "ES384"] { ops.push(sign_op(s, &msg, Some(t))); }
    }
    for t in [None, Some("EdDSA"), Some("ES256"), Some("ES256K"), Some("ES384"), Some("nope")] {
        ops.push(sign_op(nk - 1, &msg, t));
        ops.push(sign_op(nk - 2, &msg, t));
    }
    json!({"kind": "c13:cross", "keys": keys, "ops": ops})
}

/// messages whose digest, read as an integer, is >= the group order: RFC 6979 (bits2octets) reduces it before seeding the nonce generator.
/// Only P-256 has reachable instances (probability 2^-32 per message; found by search): SHA-256("c13:195160577") = ffffffffd2345e11...,
/// SHA-256("c13:16679787629") = ffffffff738513c1...
const DIGEST_GE_N_P256: &[&str] = &["c13:195160577", "c13:16679787629"];

fn gen_digest(r: &mut Rng) -> Value {
    let keys = vec![
        json!({"alg": "p256", "src": "secret", "data": RFC_KEYS.iter().find(|k| k.alg == "p256").map(|k| k.secret).unwrap_or("")}),
        json!({"alg": "p256", "src": "secret", "data": hex::encode(rand_secret(r, "p256"))}),
        json!({"alg": "k256", "src": "secret", "data": hex::encode(rand_secret(r, "k256"))}),
        json!({"src": "public_of", "of": 0}),
    ];
    let mut ops = vec![];
    for m in DIGEST_GE_N_P256 {
        for k in 0..3 {
            ops.push(sign_op(k, m.as_bytes(), None));
            ops.push(verify_op(if k == 0 { 3 } else { k }, m.as_bytes(), None, k, m.as_bytes(), None, Value::Null));
        }
    }
    json!({"kind": "c13:digest", "keys": keys, "ops": ops})
}

/// gap row 17: `create_signature` on `AnyKey` and on the concrete key types, `signature_length`, `Ed25519KeyPair::sign`
fn gen_create(r: &mut Rng, idx: usize, thorough: bool) -> Value {
    let alg = SIG_ALGS[idx % 4];
    let other = OTHER_ALGS[(idx / 4) % OTHER_ALGS.len()];
    let keys = vec![
        base_key(r, alg, idx / 4),
        json!({"src": "public_of", "of": 0}),
        json!({"src": "jwk_secret_of", "of": 0}),
        json!({"alg": other, "src": "generate"}),
    ];
    let spelled = match alg { "ed25519" => " Ed-DSA_", "p256" => "e s_2-5-6", "k256" => "es-256-K", _ => "ES 384" };
    let long = "a".repeat(65);
    let mut ops = vec![];
    let nmsg = if thorough { 6 } else { 3 };
    for mi in 0..nmsg {
        let msg = if mi == 0 { vec![] } else { rand_msg(r, thorough) };
        ops.push(sign_op(0, &msg, None));
        for via in ["any", "concrete"] {
            for t in [None, Some(native(alg)), Some(spelled)] {
                for k in [0usize, 2, 1] { ops.push(json!({"op": "create", "key": k, "via": via, "msg": hex::encode(&msg), "t": t})); }
            }
            if mi == 0 {
                for t in ["EdDSA", "ES256", "ES256K", "ES384", "nope", "", long.as_str(), "es256\u{212a}"] {
                    for k in [0usize, 1] { ops.push(json!({"op": "create", "key": k, "via": via, "msg": hex::encode(&msg), "t": t})); }
                }
            }
        }
        // a key of an algorithm that does not sign (through `AnyKey` only: it has no `KeySign` of its own)
        for t in [None, Some(native(alg)), Some("nope")] { ops.push(json!({"op": "create", "key": 3, "via": "any", "msg": hex::encode(&msg), "t": t})); }
        if alg == "ed25519" { for k in [0usize, 1, 2] { ops.push(json!({"op": "edsign", "key": k, "msg": hex::encode(&msg)})); } }
        // the signature made by create_signature is the one sign_message makes: it is rejected when altered
        ops.push(verify_op(1, &msg, None, 0, &msg, None, json!({"flip": r.below(sig_len_of(alg).unwrap() * 8)})));
        ops.push(verify_op(1, &msg, None, 2, &msg, Some(native(alg)), Value::Null));
    }
    if idx % 4 == 0 { for t in type_strings(r, thorough) { ops.push(json!({"op": "siglen", "t": t})); } }
    else { for t in ["EdDSA", "ES256", "ES256K", "ES384", "es-384", "x", ""] { ops.push(json!({"op": "siglen", "t": t})); } }
    json!({"kind": "c13:create", "keys": keys, "ops": ops})
}

const ALL_ALGS: [&str; 16] = ["ed25519", "p256", "k256", "p384", "a128gcm", "a256gcm", "a128cbchs256", "a256cbchs512", "a128kw", "a256kw",
    "bls12381g1", "bls12381g2", "bls12381g1g2", "c20p", "xc20p", "x25519"];

/// gap row 20: `LocalKey::from_seed` — every method class x seed lengths 0 / 1 / 31 / 32 / 33 / 64 x algorithm; seeds that share their
/// first 32 bytes, a seed and its zero-extension, the same seed twice, a neighbouring seed
fn gen_seed(r: &mut Rng, idx: usize, thorough: bool) -> Value {
    let mut ops = vec![];
    let per = if thorough { 4 } else { 2 };
    for a in 0..per {
        let alg = ALL_ALGS[(idx * per + a) % 16];
        let base = r.bytes(64);
        let ml = r.below(40); let msg = r.bytes(ml);
        let op = |seed: &[u8], method: Option<&str>| json!({"op": "seed", "alg": alg, "seed": hex::encode(seed), "method": method, "msg": hex::encode(&msg)});
        let mut z31 = base[..31].to_vec(); z31.push(0);
        let mut n32 = base[..32].to_vec(); n32[31] ^= 1;
        let mut z64 = base[..32].to_vec(); z64.extend_from_slice(&[0u8; 32]);
        let other = r.bytes(32);
        // RandomDet (method absent or empty)
        for s in [&base[..0], &base[..1], &base[..31], &z31[..], &base[..32], &base[..32], &base[..33], &base[..64], &z64[..], &n32[..], &other[..], &[0u8; 32][..], &[0u8; 5][..]] {
            ops.push(op(s, None));
        }
        ops.push(op(&base[..32], Some("")));
        ops.push(op(&base[..31], Some("")));
        // BlsKeyGen (any algorithm may be generated from it)
        for s in [&base[..0], &base[..31], &base[..32], &base[..32], &base[..33], &base[..64], &z64[..], &n32[..]] { ops.push(op(s, Some("bls_keygen"))); }
        // anything else is not a method
        for m in ["BLS_KEYGEN", "bls-keygen", "bls_keygen ", " bls_keygen", "random", "none", "\u{0}", "bls_keygen\u{0}", "blskeygen"] { ops.push(op(&base[..32], Some(m))); }
        ops.push(op(&base[..0], Some("bogus")));
        ops.push(op(&base[..64], Some(&"m".repeat(300))));
    }
    json!({"kind": "c13:seed", "keys": [], "ops": ops})
}

pub fn gen(r: &mut Rng, thorough: bool, count: Option<usize>) -> Vec<Value> {
    let mut out: Vec<Value> = vec![json!({"kind": "c13:selftest"})];
    { let mut rr = r.fork(); out.push(gen_digest(&mut rr)); }
    let plan: [(usize, usize); 6] = if thorough { [(7, 6), (240, 1), (128, 2), (64, 3), (40, 4), (80, 5)] } else { [(7, 6), (24, 1), (16, 2), (16, 3), (20, 4), (12, 5)] };
    for (n, what) in plan {
        for i in 0..n {
            let mut rr = r.fork();
            if what == 2 { out.extend(gen_flip(&mut rr, i, thorough, 2)); continue; }
            out.push(match what {
                6 => gen_rfc(i),
                1 => gen_round(&mut rr, i, thorough),
                3 => gen_garbage(&mut rr, i, thorough),
                4 => gen_type(&mut rr, i, thorough),
                _ => gen_cross(&mut rr, i, thorough),
            });
        }
    }
    // gap kinds last, so that the cases above keep their ids
    for i in 0..(if thorough { 48 } else { 8 }) { let mut rr = r.fork(); out.push(gen_create(&mut rr, i, thorough)); }
    for i in 0..(if thorough { 64 } else { 8 }) { let mut rr = r.fork(); out.push(gen_seed(&mut rr, i, thorough)); }
    if let Some(c) = count {
        // keep a spread over the kinds
        let step = (out.len() as f64 / c.max(1) as f64).max(1.0);
        out = (0..c.min(out.len())).map(|i| out[((i as f64) * step) as usize].clone()).collect();
    }
    for (i, c) in out.iter_mut().enumerate() { c["id"] = json!(i); }
    out
}
