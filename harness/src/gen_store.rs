//! Generators for `kind = "store"` cases (C01, C04, C07, C16, C17).
use crate::rng::Rng;
use serde_json::{json, Value};

pub const CATS: &[&str] = &["c1", "c2", "", "cat\u{0}nul", "ca\u{301}t-\u{1F600}", "~c", "%", "c1 "];
pub const NAMES: &[&str] = &["n1", "n2", "n3", "", "n\u{0}", "名前", "n'\"\\", "$n", "n1\u{200d}"];
pub const TAG_NAMES: &[&str] = &["a", "b", "n", "", "t:1", "~", "ü", "a\u{0}b", "$exist", "user:x"];
pub const TAG_VALUES: &[&str] = &["1", "2", "5", "10", "x", "y", "", "abc", "ABC", "a%c", "a_c", "ab", "ü", "a\u{0}z", "\u{10FFFF}", "0123456789abcdef0123456789"];
// incl. WILDCARD-FREE patterns that equal a stored value only up to ASCII case (SQLite's LIKE folds ASCII case also without
// wildcards; `=` does not) and a non-ASCII one (not folded)
pub const LIKE_PATTERNS: &[&str] = &["%", "a%", "%c", "a_c", "A%", "_", "", "%b%", "a\\%c", "ü", "__", "1%", "%\u{0}%", "abc", "ABC", "aBc", "X", "Ab", "Ü"];

pub fn value(r: &mut Rng) -> String {
    let n = match r.below(10) { 0 => 0, 1 => 1, 2 => 300, _ => r.below(24) };
    hex::encode(r.bytes(n))
}

/// a large value (tens of KiB), as a compact spec
pub fn big_value(r: &mut Rng) -> Value {
    json!({"fill": r.below(256), "salt": 1 + r.below(250), "len": 30_000 + r.below(40_000)})
}

pub fn tag(r: &mut Rng) -> Value {
    json!([if r.chance(1, 3) { 1 } else { 0 }, *r.pick(TAG_NAMES), *r.pick(TAG_VALUES)])
}

pub fn tags(r: &mut Rng) -> Value {
    if r.chance(1, 8) { return Value::Null; }
    let n = match r.below(6) { 0 => 0, 1 => 1, 2 => 2, 3 => 3, 4 => 5, _ => 8 };
    let mut v: Vec<Value> = (0..n).map(|_| tag(r)).collect();
    if n > 1 && r.chance(1, 3) { let d = v[0].clone(); v.push(d); } // exact duplicate tag
    Value::Array(v)
}

fn fname(r: &mut Rng, want_plain: Option<bool>) -> String {
    let plain = want_plain.unwrap_or_else(|| r.chance(1, 2));
    let n = *r.pick(TAG_NAMES);
    if plain { format!("~{}", n) } else { n.to_string() }
}

/// in-domain filter (C04): ordered comparison / LIKE only on plaintext names, no nested empty lists
pub fn filter(r: &mut Rng, depth: usize) -> Value {
    let leaf = depth == 0 || r.chance(2, 5);
    if leaf {
        match r.below(10) {
            0 | 1 => json!({"eq": [fname(r, None), *r.pick(TAG_VALUES)]}),
            2 => json!({"neq": [fname(r, None), *r.pick(TAG_VALUES)]}),
            3 => { let op = *r.pick(&["gt", "gte", "lt", "lte"]); json!({op: [fname(r, Some(true)), *r.pick(TAG_VALUES)]}) }
            4 => json!({"like": [fname(r, Some(true)), *r.pick(LIKE_PATTERNS)]}),
            5 | 6 => {
                let n = match r.below(5) { 0 => 0, 1 => 1, _ => 1 + r.below(4) };
                let vs: Vec<&str> = (0..n).map(|_| *r.pick(TAG_VALUES)).collect();
                json!({"in": [fname(r, None), vs]})
            }
            _ => {
                let n = match r.below(4) { 0 | 1 => 1, 2 => 2, _ => 3 };
                let ns: Vec<String> = (0..n).map(|_| fname(r, None)).collect();
                json!({"exist": ns})
            }
        }
    } else {
        // a connective whose members all speak about ONE tag (same name, same kind), mostly plain equalities: the shape an
        // encoder "optimisation" (merging equalities into IN, de-duplicating clauses) would single out — seed C04f
        if r.chance(1, 6) {
            let name = fname(r, None);
            let n = 2 + r.below(2);
            let all_eq = r.chance(2, 3);
            let qs: Vec<Value> = (0..n).map(|_| {
                if all_eq || r.chance(1, 2) { json!({"eq": [name.clone(), *r.pick(&TAG_VALUES[..6])]}) }
                else if r.chance(1, 2) { json!({"neq": [name.clone(), *r.pick(&TAG_VALUES[..6])]}) }
                else { json!({"in": [name.clone(), [*r.pick(&TAG_VALUES[..6]), *r.pick(&TAG_VALUES[..6])]]}) }
            }).collect();
            let conj = json!({ if r.chance(1, 2) { "and" } else { "or" }: qs });
            return if r.chance(1, 2) { json!({"not": conj}) } else { conj };
        }
        match r.below(3) {
            0 => json!({"not": filter(r, depth - 1)}),
            k => {
                let n = 1 + r.below(3);
                let qs: Vec<Value> = (0..n).map(|_| filter(r, depth - 1)).collect();
                json!({ if k == 1 { "and" } else { "or" }: qs })
            }
        }
    }
}

/// can the JSON form express this filter (C04: the empty `$or` and tag names equal to the reserved operator keys cannot)
pub fn json_expressible(f: &Value) -> bool {
    let obj = match f.as_object() { Some(o) => o, None => return true };
    let (k, x) = match obj.iter().next() { Some(p) => p, None => return true };
    let name_ok = |v: &Value| !matches!(v.as_str().unwrap_or(""), "$and" | "$or" | "$not" | "$exist");
    match k.as_str() {
        "and" => x.as_array().map_or(true, |a| a.iter().all(json_expressible)),
        "or" => x.as_array().map_or(true, |a| !a.is_empty() && a.iter().all(json_expressible)),
        "not" => json_expressible(x),
        "exist" => x.as_array().map_or(true, |a| a.iter().all(name_ok)),
        _ => name_ok(&x[0]),
    }
}

pub fn root_filter(r: &mut Rng, depth: usize) -> Value {
    match r.below(30) {
        0 => json!({"and": []}),
        1 => json!({"or": []}),
        2 => json!({"exist": []}),
        _ => filter(r, depth),
    }
}

fn ident(r: &mut Rng, exotic: bool) -> (i64, String, String) {
    let k = if r.chance(1, 3) { 1 } else { 2 };
    let (c, n) = if exotic { (*r.pick(CATS), *r.pick(NAMES)) } else { (*r.pick(&CATS[..2]), *r.pick(&NAMES[..3])) };
    (k, c.to_string(), n.to_string())
}

fn opt_kind(r: &mut Rng) -> Value { match r.below(4) { 0 => Value::Null, 1 => json!(1), _ => json!(2) } }
fn opt_cat(r: &mut Rng) -> Value { if r.chance(1, 3) { Value::Null } else { json!(*r.pick(&CATS[..3])) } }
fn opt_filter(r: &mut Rng, p: u32, depth: usize) -> Value { if r.chance(p, 10) { root_filter(r, depth) } else { Value::Null } }

/// C01: random call sequences on one profile over several sequential sessions
pub fn gen_c01(r: &mut Rng, id: u64, thorough: bool) -> Value {
    let len = if thorough { 10 + r.below(200) } else { 5 + r.below(56) };
    let exotic = r.chance(1, 2);
    let mut ops = vec![json!({"op": "session", "s": 0, "txn": false})];
    let mut sid = 0u64;
    for _ in 0..len {
        let ex = exotic && r.chance(1, 2);
        let (k, c, n) = ident(r, ex);
        let op = match r.below(20) {
            0..=4 => json!({"op": "insert", "s": sid, "k": k, "c": c, "n": n, "v": value(r), "t": tags(r), "e": null}),
            5..=7 => json!({"op": "replace", "s": sid, "k": k, "c": c, "n": n, "v": value(r), "t": tags(r), "e": null}),
            8 | 9 => json!({"op": "remove", "s": sid, "k": k, "c": c, "n": n}),
            10..=12 => json!({"op": "fetch", "s": sid, "k": k, "c": c, "n": n}),
            13 | 14 => json!({"op": "fetch_all", "s": sid, "k": opt_kind(r), "c": opt_cat(r), "f": opt_filter(r, 4, 2), "lim": null, "ord": r.chance(1, 2), "desc": r.chance(1, 3)}),
            15 | 16 => json!({"op": "count", "s": sid, "k": opt_kind(r), "c": opt_cat(r), "f": opt_filter(r, 4, 2)}),
            17 => json!({"op": "scan", "k": opt_kind(r), "c": opt_cat(r), "f": opt_filter(r, 3, 2), "off": null, "lim": null, "ord": r.chance(1, 2), "desc": false}),
            18 => if r.chance(1, 3) { json!({"op": "remove_all", "s": sid, "k": opt_kind(r), "c": opt_cat(r), "f": opt_filter(r, 5, 2)}) } else { json!({"op": "count", "s": sid, "k": null, "c": null, "f": null}) },
            _ => {
                // close this session and continue in a new one
                let old = sid; sid += 1;
                ops.push(json!({"op": if r.chance(1, 2) { "drop" } else { "rollback" }, "s": old}));
                json!({"op": "session", "s": sid, "txn": false})
            }
        };
        ops.push(op);
    }
    // more than a page of records in one category, then page-crossing reads
    if r.chance(1, 3) {
        let n = 33 + r.below(40);
        for i in 0..n { ops.push(json!({"op": "insert", "s": sid, "k": 2, "c": "bulk", "n": format!("r{}", i), "v": value(r), "t": tags(r), "e": null})); }
        ops.push(json!({"op": "fetch_all", "s": sid, "k": 2, "c": "bulk", "f": null, "lim": null, "ord": true, "desc": false}));
        ops.push(json!({"op": "scan", "k": 2, "c": "bulk", "f": null, "off": null, "lim": null, "ord": true, "desc": false}));
        ops.push(json!({"op": "count", "s": sid, "k": 2, "c": "bulk", "f": null}));
    }
    json!({"id": id, "kind": "store", "prop": "C01", "file": r.chance(1, 6), "profile": "default", "ops": ops})
}

/// C04: a populated profile, then many filters through count / fetch_all / scan / remove_all
pub fn gen_c04(r: &mut Rng, id: u64, thorough: bool) -> Value {
    let nrec = 4 + r.below(if thorough { 40 } else { 14 });
    let depth = if thorough { 1 + r.below(6) } else { 1 + r.below(4) };
    let mut ops = vec![json!({"op": "session", "s": 0, "txn": false})];
    for i in 0..nrec {
        let c = *r.pick(&CATS[..2]);
        ops.push(json!({"op": "insert", "s": 0, "k": 2, "c": c, "n": format!("r{}", i), "v": value(r), "t": tags(r), "e": null}));
    }
    let nf = if thorough { 16 } else { 8 };
    for _ in 0..nf {
        let f = root_filter(r, depth);
        let c = if r.chance(1, 2) { Value::Null } else { json!(*r.pick(&CATS[..2])) };
        // the same filter directly and through its JSON text (to_string -> from_str) must select the same records
        ops.push(json!({"op": "count", "s": 0, "k": 2, "c": c, "f": f}));
        if json_expressible(&f) { ops.push(json!({"op": "count", "s": 0, "k": 2, "c": c, "f": f, "fj": true})); }
        match r.below(3) {
            0 => ops.push(json!({"op": "fetch_all", "s": 0, "k": 2, "c": c, "f": f, "lim": null, "ord": true, "desc": r.chance(1, 4)})),
            1 => {
                let (off, lim) = (if r.chance(1, 2) { json!(r.below(4)) } else { Value::Null }, if r.chance(1, 2) { json!(r.below(6)) } else { Value::Null });
                ops.push(json!({"op": "scan", "k": 2, "c": c, "f": f, "off": off, "lim": lim, "ord": true, "desc": r.chance(1, 4)}))
            }
            _ => {
                // complement check: the negated filter
                ops.push(json!({"op": "count", "s": 0, "k": 2, "c": c, "f": {"not": f}}));
            }
        }
    }
    // finally remove by filter and look at the survivors
    let f = root_filter(r, depth);
    ops.push(json!({"op": "remove_all", "s": 0, "k": 2, "c": null, "f": f}));
    ops.push(json!({"op": "fetch_all", "s": 0, "k": 2, "c": null, "f": null, "lim": null, "ord": true, "desc": false}));
    json!({"id": id, "kind": "store", "prop": "C04", "file": false, "profile": "default", "ops": ops})
}

/// C16: record counts around page multiples, every window shape
pub fn gen_c16(r: &mut Rng, id: u64, page: usize, thorough: bool) -> Value {
    let p = page as i64;
    let counts: Vec<i64> = vec![0, 1, 2, p - 1, p, p + 1, 2 * p - 1, 2 * p, 2 * p + 1, 3 * p - 1, 3 * p, 3 * p + 1, 3 * p + 2];
    let n = if thorough || r.chance(2, 3) { *r.pick(&counts) } else { r.range(0, 3 * p + 2) };
    let mut ops = vec![json!({"op": "session", "s": 0, "txn": false})];
    let mut names = vec![];
    // 1 case in 8 carries large values (a page then holds megabytes)
    let big = r.chance(1, 8);
    for i in 0..n {
        let c = if r.chance(3, 4) { "c1" } else { "c2" };
        names.push((c, format!("r{}", i)));
        let t = if r.chance(1, 2) { json!([[0, "a", "1"]]) } else { json!([[1, "n", "5"]]) };
        let v = if big { big_value(r) } else { json!(value(r)) };
        ops.push(json!({"op": "insert", "s": 0, "k": 2, "c": c, "n": format!("r{}", i), "v": v, "t": t, "e": null}));
    }
    // history with deletions and re-insertions (row id reuse, replace keeps position)
    if n > 3 && r.chance(1, 2) {
        for _ in 0..(1 + r.below(4)) {
            let i = r.below(names.len());
            let (c, nm) = names[i].clone();
            match r.below(3) {
                0 => ops.push(json!({"op": "replace", "s": 0, "k": 2, "c": c, "n": nm, "v": value(r), "t": [[0, "a", "1"]], "e": null})),
                _ => {
                    ops.push(json!({"op": "remove", "s": 0, "k": 2, "c": c, "n": nm}));
                    if r.chance(1, 2) { ops.push(json!({"op": "insert", "s": 0, "k": 2, "c": c, "n": nm, "v": value(r), "t": [[0, "a", "1"]], "e": null})); }
                }
            }
        }
        // delete the newest row, then insert a new one (takes over the freed id)
        if r.chance(1, 2) {
            let (c, nm) = names[names.len() - 1].clone();
            ops.push(json!({"op": "remove", "s": 0, "k": 2, "c": c, "n": nm}));
            ops.push(json!({"op": "insert", "s": 0, "k": 2, "c": "c1", "n": "fresh", "v": "00", "t": [[0, "a", "1"]], "e": null}));
        }
    }
    let offs: Vec<Value> = vec![Value::Null, json!(-1), json!(0), json!(1), json!(p - 1), json!(p), json!(p + 1), json!(2 * p), json!(n), json!(n + 5), json!(i64::MAX)];
    let lims: Vec<Value> = vec![Value::Null, json!(-1), json!(0), json!(1), json!(p - 1), json!(p), json!(p + 1), json!(2 * p), json!(n), json!(i64::MAX)];
    let nq = if big { 3 } else if thorough { 24 } else { 10 };
    for _ in 0..nq {
        let c = match r.below(3) { 0 => Value::Null, _ => json!("c1") };
        let f = match r.below(4) { 0 => json!({"eq": ["a", "1"]}), 1 => json!({"not": {"eq": ["~n", "5"]}}), _ => Value::Null };
        let ord = r.chance(4, 5);
        ops.push(json!({"op": "scan", "k": 2, "c": c, "f": f, "off": r.pick(&offs).clone(), "lim": r.pick(&lims).clone(), "ord": ord, "desc": r.chance(1, 3)}));
        if r.chance(1, 3) {
            ops.push(json!({"op": "fetch_all", "s": 0, "k": 2, "c": c, "f": f, "lim": r.pick(&lims).clone(), "ord": ord, "desc": r.chance(1, 3)}));
        }
    }
    // consecutive windows partition the full result
    let w = if big { page + r.below(page) } else { 1 + r.below(2 * page) };
    let mut off = 0i64;
    while off <= n + w as i64 {
        ops.push(json!({"op": "scan", "k": 2, "c": null, "f": null, "off": off, "lim": w, "ord": true, "desc": false}));
        off += w as i64;
    }
    json!({"id": id, "kind": "store", "prop": "C16", "file": false, "profile": "default", "page": page, "ops": ops})
}

/// C17: expiry offsets x reads before / after (time moved by rewriting stored timestamps) x follow-ups
pub fn gen_c17(r: &mut Rng, id: u64, _thorough: bool) -> Value {
    let mut ops = vec![json!({"op": "session", "s": 0, "txn": false})];
    // offsets are ≡ 5 s (mod 10 s) and ticks multiples of 10 s, so no read falls within 5 s of an expiry
    // flavour B (1 case in 6): expiries beyond year 9999 (which SQLite's DATETIME cannot represent), kept apart
    // from expired records so that each finding has its own signature
    let beyond = r.chance(1, 6);
    let mut offsets: Vec<Value> = if beyond {
        vec![Value::Null, json!(86_405_000i64), json!(3 * 10i64.pow(14) + 5000), json!(8 * 10i64.pow(14) + 5000), json!(10i64.pow(15) + 5000)]
    } else {
        vec![Value::Null, Value::Null, json!(-3_600_005_000i64), json!(-5000), json!(5000), json!(15000), json!(25000), json!(86_405_000i64)]
    };
    // every order of magnitude below year 9999, both signs: ±(m·10^k s + 5 s) for k = 1..11
    if !beyond {
        for _ in 0..6 {
            let k = 1 + r.below(11) as u32;
            let m = *r.pick(&[1i64, 2, 3, 5, 8]);
            let sign = if r.chance(1, 2) { 1 } else { -1 };
            let v = sign * (m * 10i64.pow(k) * 1000 + 5000);
            if v < 250_000_000_000_000 { offsets.push(json!(v)); }
        }
        if r.chance(1, 10) { offsets.push(json!(if r.chance(1, 2) { i64::MAX } else { i64::MIN })); }
    }
    let nrec = 2 + r.below(5);
    for i in 0..nrec {
        ops.push(json!({"op": "insert", "s": 0, "k": 2, "c": "c1", "n": format!("n{}", i), "v": value(r), "t": [[0, "a", "1"]], "e": r.pick(&offsets).clone()}));
    }
    let steps = 4 + r.below(8);
    for _ in 0..steps {
        let nm = format!("n{}", r.below(nrec));
        let op = match r.below(12) {
            0 | 1 => if beyond { json!({"op": "count", "s": 0, "k": 2, "c": null, "f": null}) } else { json!({"op": "tick", "ms": 10000 * (1 + r.below(2)) as i64}) },
            2 | 3 => json!({"op": "fetch", "s": 0, "k": 2, "c": "c1", "n": nm}),
            4 => json!({"op": "count", "s": 0, "k": 2, "c": "c1", "f": null}),
            5 => json!({"op": "fetch_all", "s": 0, "k": 2, "c": null, "f": {"eq": ["a", "1"]}, "lim": null, "ord": true, "desc": false}),
            6 => json!({"op": "scan", "k": 2, "c": null, "f": null, "off": null, "lim": null, "ord": true, "desc": false}),
            7 => json!({"op": "insert", "s": 0, "k": 2, "c": "c1", "n": nm, "v": value(r), "t": [[0, "a", "1"]], "e": r.pick(&offsets).clone()}),
            8 => json!({"op": "replace", "s": 0, "k": 2, "c": "c1", "n": nm, "v": value(r), "t": [[0, "a", "1"]], "e": r.pick(&offsets).clone()}),
            9 => json!({"op": "remove", "s": 0, "k": 2, "c": "c1", "n": nm}),
            10 => json!({"op": "remove_all", "s": 0, "k": 2, "c": "c1", "f": if r.chance(1, 2) { json!({"eq": ["a", "1"]}) } else { Value::Null }}),
            _ => json!({"op": "count", "s": 0, "k": null, "c": null, "f": null}),
        };
        ops.push(op);
    }
    ops.push(json!({"op": "fetch_all", "s": 0, "k": 2, "c": null, "f": null, "lim": null, "ord": true, "desc": false}));
    json!({"id": id, "kind": "store", "prop": "C17", "file": true, "profile": "default", "ops": ops})
}

/// C07: interleaved histories over several profiles with colliding identities, create / remove / re-create
pub fn gen_c07(r: &mut Rng, id: u64, thorough: bool) -> Value {
    let pnames = ["default", "p1", "p2", "p\u{e9}", "", "P1"];
    let len = if thorough { 20 + r.below(120) } else { 10 + r.below(50) };
    let mut ops = vec![];
    let mut next_sid = 0u64;
    let mut open: Vec<(u64, String)> = vec![];
    let mut exists: Vec<String> = vec!["default".into()];
    for _ in 0..len {
        // profile creation / removal are frequent enough that most histories remove a profile and create another afterwards
        let choice = match r.below(30) { 0 | 1 => 0, 2..=4 => 2, 5 | 6 => 3, 7 => 4, x => x - 3 };
        if open.is_empty() || choice == 0 || choice == 1 {
            // open a session on some profile name (existing or not)
            let p = r.pick(&pnames).to_string();
            // the handle's own active profile ("default") is addressed by name or, every other time, as None
            let by_none = p == "default" && r.chance(1, 2);
            ops.push(json!({"op": "session", "s": next_sid, "profile": if by_none { Value::Null } else { json!(p) }, "txn": false}));
            ops.push(json!({"op": "ping", "s": next_sid}));
            if exists.contains(&p) {
                open.push((next_sid, p));
                // at most 6 sessions stay open (each holds a pool connection; beyond the pool size an acquire waits 30 s)
                if open.len() > 6 { let (old, _) = open.remove(0); ops.push(json!({"op": "drop", "s": old})); }
            } else {
                // a profile that does not exist (possibly removed earlier): nothing may be readable or writable through it
                if r.chance(1, 2) {
                    ops.push(json!({"op": "insert", "s": next_sid, "k": 2, "c": "c1", "n": "ghost", "v": "aa", "t": null, "e": null}));
                    ops.push(json!({"op": "count", "s": next_sid, "k": null, "c": null, "f": null}));
                }
                ops.push(json!({"op": "drop", "s": next_sid}));
            }
            next_sid += 1;
            continue;
        }
        let (sid, _p) = open[r.below(open.len())].clone();
        let (k, c, n) = ident(r, false);
        let op = match choice {
            2 => {
                // the active profile itself can be removed and re-created like any other
                let p = r.pick(&pnames).to_string();
                if !exists.contains(&p) { exists.push(p.clone()); }
                json!({"op": "create_profile", "name": p})
            }
            3 => {
                let p = r.pick(&pnames).to_string();
                // sessions of a removed profile are closed first (the property does not say what they do afterwards)
                let (gone, keep): (Vec<_>, Vec<_>) = open.iter().cloned().partition(|(_, q)| *q == p);
                for (s, _) in gone { ops.push(json!({"op": "drop", "s": s})); }
                open = keep;
                exists.retain(|q| *q != p);
                json!({"op": "remove_profile", "name": p})
            }
            4 => json!({"op": "list_profiles"}),
            // some records carry an expiry that is far from elapsing (they must stay inside their profile like any other)
            5..=9 => json!({"op": "insert", "s": sid, "k": k, "c": c, "n": n, "v": value(r), "t": tags(r), "e": if r.chance(1, 4) { json!(86_405_000i64) } else { Value::Null }}),
            10 | 11 => json!({"op": "replace", "s": sid, "k": k, "c": c, "n": n, "v": value(r), "t": tags(r), "e": if r.chance(1, 4) { json!(86_405_000i64) } else { Value::Null }}),
            12 | 13 => json!({"op": "remove", "s": sid, "k": k, "c": c, "n": n}),
            14..=16 => json!({"op": "fetch", "s": sid, "k": k, "c": c, "n": n}),
            17 | 18 => json!({"op": "fetch_all", "s": sid, "k": opt_kind(r), "c": opt_cat(r), "f": opt_filter(r, 3, 2), "lim": null, "ord": true, "desc": false}),
            19 | 20 => json!({"op": "count", "s": sid, "k": opt_kind(r), "c": opt_cat(r), "f": opt_filter(r, 3, 2)}),
            21 => json!({"op": "scan", "profile": r.pick(&pnames).to_string(), "k": opt_kind(r), "c": opt_cat(r), "f": null, "off": null, "lim": null, "ord": true, "desc": false}),
            22 => json!({"op": "remove_all", "s": sid, "k": opt_kind(r), "c": opt_cat(r), "f": opt_filter(r, 3, 2)}),
            _ => json!({"op": "count", "s": sid, "k": null, "c": null, "f": null}),
        };
        ops.push(op);
    }
    // final per-profile dumps
    for p in pnames { ops.push(json!({"op": "scan", "profile": p, "k": null, "c": null, "f": null, "off": null, "lim": null, "ord": true, "desc": false})); }
    json!({"id": id, "kind": "store", "prop": "C07", "file": r.chance(1, 5), "profile": "default", "ops": ops})
}

/// C05: one writing transaction interleaved with plain sessions and a competing transaction; every ending
pub fn gen_c05(r: &mut Rng, id: u64, thorough: bool) -> Value {
    let mut ops = vec![];
    let small = |r: &mut Rng| -> (String, String) { (r.pick(&["c1", "c2"]).to_string(), r.pick(&["n1", "n2", "n3", "n4"]).to_string()) };
    // a REFUSED opening first (half of the cases): a transaction / plain session on a profile that does not exist must leave
    // nothing behind on the pooled connection it used (seed C05g: the refused transaction's BEGIN stayed open on it)
    if r.chance(1, 2) {
        ops.push(json!({"op": "session", "s": 19, "profile": "ghost", "txn": r.chance(3, 4)}));
        // sessions are lazy: the first call on it resolves the profile (and is refused)
        ops.push(json!({"op": "fetch", "s": 19, "k": 2, "c": "c1", "n": "n1"}));
        ops.push(json!({"op": "drop", "s": 19}));
    }
    // pre-populate through a plain session
    ops.push(json!({"op": "session", "s": 1, "txn": false}));
    for _ in 0..r.below(5) {
        let (c, n) = small(r);
        ops.push(json!({"op": "insert", "s": 1, "k": 2, "c": c, "n": n, "v": value(r), "t": tags(r), "e": null}));
    }
    ops.push(json!({"op": "session", "s": 0, "txn": true}));
    ops.push(json!({"op": "session", "s": 2, "txn": false}));
    let competing = r.chance(1, 2);
    if competing { ops.push(json!({"op": "session", "s": 3, "txn": true})); }
    let len = if thorough { 6 + r.below(30) } else { 4 + r.below(14) };
    let read = |r: &mut Rng, s: u64| -> Value {
        let (c, n) = (r.pick(&["c1", "c2"]).to_string(), r.pick(&["n1", "n2", "n3", "n4"]).to_string());
        match r.below(4) {
            0 | 1 => json!({"op": "fetch", "s": s, "k": 2, "c": c, "n": n}),
            2 => json!({"op": "count", "s": s, "k": 2, "c": null, "f": null}),
            _ => json!({"op": "fetch_all", "s": s, "k": 2, "c": null, "f": null, "lim": null, "ord": true, "desc": false}),
        }
    };
    let write = |r: &mut Rng, s: u64| -> Value {
        let (c, n) = (r.pick(&["c1", "c2"]).to_string(), r.pick(&["n1", "n2", "n3", "n4"]).to_string());
        match r.below(8) {
            0..=3 => json!({"op": "insert", "s": s, "k": 2, "c": c, "n": n, "v": value(r), "t": tags(r), "e": null}),
            4 | 5 => json!({"op": "replace", "s": s, "k": 2, "c": c, "n": n, "v": value(r), "t": tags(r), "e": null}),
            6 => json!({"op": "remove", "s": s, "k": 2, "c": c, "n": n}),
            _ => json!({"op": "remove_all", "s": s, "k": 2, "c": c, "f": null}),
        }
    };
    for _ in 0..len {
        let other: u64 = if r.chance(1, 2) { 1 } else { 2 };
        let op = match r.below(12) {
            0..=4 => write(r, 0),
            5 | 6 => read(r, 0),
            7 | 8 => read(r, other),
            9 => write(r, other), // blocked while the transaction holds the lock
            10 => if competing { read(r, 3) } else { json!({"op": "scan", "k": 2, "c": null, "f": null, "off": null, "lim": null, "ord": true, "desc": false}) },
            _ => json!({"op": "scan", "k": 2, "c": null, "f": null, "off": null, "lim": null, "ord": true, "desc": false}),
        };
        ops.push(op);
    }
    ops.push(json!({"op": *r.pick(&["commit", "commit", "rollback", "drop"]), "s": 0}));
    // afterwards: what everyone sees, plain writes apply at once, the competing transaction can run now
    for _ in 0..(2 + r.below(5)) {
        let other: u64 = if r.chance(1, 2) { 1 } else { 2 };
        let op = match r.below(6) {
            0 | 1 => read(r, other),
            2 | 3 => write(r, other),
            4 => if competing { write(r, 3) } else { read(r, 1) },
            _ => json!({"op": "scan", "k": 2, "c": null, "f": null, "off": null, "lim": null, "ord": true, "desc": false}),
        };
        ops.push(op);
    }
    if competing { ops.push(json!({"op": *r.pick(&["commit", "rollback", "drop"]), "s": 3})); }
    ops.push(json!({"op": "drop", "s": 1}));
    ops.push(json!({"op": *r.pick(&["drop", "rollback", "commit"]), "s": 2}));
    // a fresh session and a scan: what survived
    ops.push(json!({"op": "session", "s": 9, "txn": false}));
    ops.push(json!({"op": "fetch_all", "s": 9, "k": 2, "c": null, "f": null, "lim": null, "ord": true, "desc": false}));
    ops.push(json!({"op": "scan", "k": null, "c": null, "f": null, "off": null, "lim": null, "ord": true, "desc": false}));
    json!({"id": id, "kind": "store", "prop": "C05", "file": true, "params": "busy_timeout=100&max_connections=6", "profile": "default", "ops": ops})
}

/// C06 (statement faults): every mutating call x every fault point, each followed by a full dump
pub fn gen_c06(r: &mut Rng, id: u64, thorough: bool) -> Value {
    let mut ops = vec![json!({"op": "session", "s": 0, "txn": false})];
    let maxtags = if thorough { 8 } else { 4 };
    let mk_tags = |r: &mut Rng, n: usize| -> Value { Value::Array((0..n).map(|_| tag(r)).collect()) };
    let names = ["n1", "n2", "n3", "n4"];
    for n in names.iter().take(2 + r.below(3)) {
        let nt = r.below(maxtags + 1);
        ops.push(json!({"op": "insert", "s": 0, "k": 2, "c": "c1", "n": n, "v": value(r), "t": mk_tags(r, nt), "e": null}));
    }
    let dump = json!({"op": "fetch_all", "s": 0, "k": null, "c": null, "f": null, "lim": null, "ord": true, "desc": false});
    // every other case: BEFORE the fault rounds one or two calls of the session fail because they cannot even start (another
    // session's open transaction holds the write lock past the busy timeout); the session object is kept — whatever bookkeeping
    // such a failed start leaves behind must not weaken the all-or-nothing of the later calls
    let contended = id % 2 == 1;
    if contended {
        ops.push(json!({"op": "session", "s": 9, "txn": true}));
        ops.push(json!({"op": "insert", "s": 9, "k": 2, "c": "c9", "n": "lock", "v": value(r), "t": null, "e": null}));
        let blocked = 1 + r.below(2);
        for j in 0..blocked {
            let nt = r.below(maxtags + 1);
            let op = match r.below(3) {
                0 => json!({"op": "insert", "s": 0, "k": 2, "c": "c1", "n": format!("blocked{}", j), "v": value(r), "t": mk_tags(r, nt), "e": null}),
                1 => json!({"op": "replace", "s": 0, "k": 2, "c": "c1", "n": "n1", "v": value(r), "t": mk_tags(r, nt), "e": null}),
                _ => json!({"op": "remove", "s": 0, "k": 2, "c": "c1", "n": "n1"}),
            };
            ops.push(op);
        }
        ops.push(json!({"op": "rollback", "s": 9}));
        ops.push(dump.clone());
    }
    let rounds = if thorough { 24 } else { 10 };
    for _ in 0..rounds {
        let n = *r.pick(&names);
        let nt = r.below(maxtags + 1);
        let fault = match r.below(7) {
            0 | 1 | 2 => json!({"at": "tag", "k": r.below(maxtags + 1)}),
            3 => json!({"at": "tagdel"}),
            4 => json!({"at": "item"}),
            5 => json!({"at": "itemupd"}),
            _ => json!({"at": "itemdel"}),
        };
        let fault = if r.chance(1, 6) { Value::Null } else { fault };
        let op = match r.below(8) {
            0..=2 => json!({"op": "insert", "s": 0, "k": 2, "c": "c1", "n": n, "v": value(r), "t": mk_tags(r, nt), "e": null, "fault": fault}),
            3..=5 => json!({"op": "replace", "s": 0, "k": 2, "c": "c1", "n": n, "v": value(r), "t": mk_tags(r, nt), "e": null, "fault": fault}),
            6 => json!({"op": "remove", "s": 0, "k": 2, "c": "c1", "n": n, "fault": fault}),
            _ => json!({"op": "remove_all", "s": 0, "k": 2, "c": "c1", "f": if r.chance(1, 2) { root_filter(r, 1) } else { Value::Null }, "fault": fault}),
        };
        ops.push(op);
        ops.push(dump.clone());
        // the session and the store stay fully usable after a failed call
        if r.chance(1, 3) { ops.push(json!({"op": "count", "s": 0, "k": 2, "c": "c1", "f": null})); }
    }
    // reopen-equivalent: a fresh session sees the same
    ops.push(json!({"op": "drop", "s": 0}));
    ops.push(json!({"op": "session", "s": 1, "txn": false}));
    ops.push(json!({"op": "fetch_all", "s": 1, "k": null, "c": null, "f": null, "lim": null, "ord": true, "desc": false}));
    json!({"id": id, "kind": "store", "prop": "C06", "file": true, "params": if contended { "busy_timeout=100&max_connections=4" } else { "" }, "profile": "default", "ops": ops})
}

// ---------------------------------------------------------------------------------------------
// C04, JSON side: the malformed / legacy filter-TEXT stream (executor and value encoding `jv`: c04j.rs, a
// submodule of this one so that the crate builds whether or not main.rs dispatches `kind = "c04j"` yet)
#[path = "c04j.rs"]
pub mod c04j;

fn jo(ms: Vec<(&str, Value)>) -> Value { json!({"obj": ms.into_iter().map(|(k, v)| json!([k, v])).collect::<Vec<_>>()}) }
fn jn(lit: &str) -> Value { json!({"num": lit}) }
fn jdeep(shape: &str, n: usize, v: Value) -> Value { json!({"deep": [shape, n, v]}) }

/// a filter AST of the line protocol as its WQL JSON value (object form); `$and` of leaves is sometimes written as
/// one object with several members (which may then repeat a key)
fn c04j_ast_to_jv(r: &mut Rng, f: &Value) -> Value {
    let (k, x) = match f.as_object().and_then(|o| o.iter().next()) { Some(p) => p, None => return jo(vec![]) };
    let sv = |v: &Value| v.as_str().unwrap_or("").to_string();
    match k.as_str() {
        "and" | "or" => {
            let subs: Vec<Value> = x.as_array().cloned().unwrap_or_default().iter().map(|q| c04j_ast_to_jv(r, q)).collect();
            if k == "and" && r.chance(1, 3) {
                let mut ms = vec![];
                for s in &subs { ms.extend(s["obj"].as_array().cloned().unwrap_or_default()); }
                json!({"obj": ms})
            } else { jo(vec![(if k == "and" { "$and" } else { "$or" }, Value::Array(subs))]) }
        }
        "not" => { let q = c04j_ast_to_jv(r, x); jo(vec![("$not", q)]) }
        "eq" => jo(vec![(&sv(&x[0]), x[1].clone())]),
        "in" => jo(vec![(&sv(&x[0]), jo(vec![("$in", x[1].clone())]))]),
        "exist" => {
            let ns = x.as_array().cloned().unwrap_or_default();
            if ns.len() == 1 && r.chance(1, 2) { jo(vec![("$exist", ns[0].clone())]) } else { jo(vec![("$exist", Value::Array(ns))]) }
        }
        op => jo(vec![(&sv(&x[0]), jo(vec![(&format!("${}", op), x[1].clone())]))]),
    }
}

fn c04j_scalar(r: &mut Rng) -> Value {
    match r.below(9) {
        0 => Value::Null, 1 => json!(true), 2 => json!(false), 3 => jn("1"), 4 => jn("-0.5"), 5 => jn("1e3"),
        6 => jn("18446744073709551616"), 7 => json!(""), _ => json!(*r.pick(TAG_VALUES)),
    }
}

const C04J_KEYS: &[&str] = &["$and", "$or", "$not", "$exist", "$neq", "$gt", "$gte", "$lt", "$lte", "$like", "$in", "$regex", "$", "a", "~a", "~n", "b", ""];

fn c04j_count(v: &Value) -> usize {
    1 + match v {
        Value::Array(a) => a.iter().map(c04j_count).sum(),
        Value::Object(o) => o.get("obj").and_then(|m| m.as_array()).map_or(0, |ms| ms.iter().map(|m| c04j_count(&m[1])).sum()),
        _ => 0,
    }
}

/// type swap / structural mutation of the `target`-th node (pre-order) of a jv
fn c04j_mutate(r: &mut Rng, v: &Value, next: &mut usize, target: usize) -> Value {
    let me = *next;
    *next += 1;
    if me == target {
        let is_obj = v.get("obj").is_some();
        return match r.below(if is_obj { 14 } else { 9 }) {
            0..=3 => c04j_scalar(r),
            4 => json!([]),
            5 => json!([v]),
            6 => jo(vec![]),
            7 => jo(vec![(*r.pick(C04J_KEYS), v.clone())]),
            8 => json!([v, c04j_scalar(r)]),
            // object-only: rename a key / repeat a key with another value / add a member / reverse the members / null a member
            9 => { let mut ms = v["obj"].as_array().cloned().unwrap_or_default(); if !ms.is_empty() { let i = r.below(ms.len()); ms[i][0] = json!(*r.pick(C04J_KEYS)); } json!({"obj": ms}) }
            10 => { let mut ms = v["obj"].as_array().cloned().unwrap_or_default(); if !ms.is_empty() { let i = r.below(ms.len()); let k = ms[i][0].clone(); let at = r.below(ms.len() + 1); ms.insert(at, json!([k, c04j_scalar(r)])); } json!({"obj": ms}) }
            11 => { let mut ms = v["obj"].as_array().cloned().unwrap_or_default(); let at = r.below(ms.len() + 1); ms.insert(at, json!([*r.pick(C04J_KEYS), c04j_scalar(r)])); json!({"obj": ms}) }
            12 => { let mut ms = v["obj"].as_array().cloned().unwrap_or_default(); ms.reverse(); json!({"obj": ms}) }
            _ => { let mut ms = v["obj"].as_array().cloned().unwrap_or_default(); if !ms.is_empty() { let i = r.below(ms.len()); ms[i][1] = Value::Null; } json!({"obj": ms}) }
        };
    }
    match v {
        Value::Array(a) => Value::Array(a.iter().map(|x| c04j_mutate(r, x, next, target)).collect()),
        Value::Object(o) => match o.get("obj").and_then(|m| m.as_array()) {
            Some(ms) => json!({"obj": ms.iter().map(|m| json!([m[0], c04j_mutate(r, &m[1], next, target)])).collect::<Vec<_>>()}),
            None => v.clone(),
        },
        _ => v.clone(),
    }
}

/// one member of a legacy restriction list
fn c04j_restriction(r: &mut Rng) -> Value {
    match r.below(12) {
        0 => jo(vec![]),
        1 => match r.below(5) { 0 => Value::Null, 1 => jn("1"), 2 => json!("a"), 3 => json!([]), _ => json!(true) },
        2 => { let f = filter(r, 1); c04j_ast_to_jv(r, &f) }
        _ => {
            let n = 1 + r.below(3);
            let ms: Vec<Value> = (0..n).map(|_| {
                let k = fname(r, None);
                let v = match r.below(8) {
                    0 | 1 => Value::Null,
                    2 => jo(vec![("$neq", json!(*r.pick(TAG_VALUES)))]),
                    3 => jo(vec![("$in", json!([*r.pick(TAG_VALUES), *r.pick(TAG_VALUES)]))]),
                    4 => if r.chance(1, 2) { jo(vec![("$neq", Value::Null)]) } else { jn("5") },
                    _ => json!(*r.pick(TAG_VALUES)),
                };
                json!([k, v])
            }).collect();
            json!({"obj": ms})
        }
    }
}

/// a serde_json value as jv (the map's own order)
fn c04j_value_to_jv(v: &Value) -> Value {
    match v {
        Value::Number(n) => jn(&n.to_string()),
        Value::Array(a) => Value::Array(a.iter().map(c04j_value_to_jv).collect()),
        Value::Object(o) => json!({"obj": o.iter().map(|(k, x)| json!([k, c04j_value_to_jv(x)])).collect::<Vec<_>>()}),
        x => x.clone(),
    }
}

/// a text as given, with what serde_json's text layer makes of it (the part of the library that is a parameter of the
/// model): the first JSON value of the text, if it starts with one, and whether anything but white space follows it
fn c04j_raw(text: String) -> Value {
    let mut de = serde_json::Deserializer::from_str(&text);
    match <Value as serde::Deserialize>::deserialize(&mut de) {
        Ok(v) => { let trail = de.end().is_err(); json!({"raw": text, "v": c04j_value_to_jv(&v), "trail": trail}) }
        Err(_) => json!({"raw": text}),
    }
}

/// the named examples: the legacy array form, `null`, every parse-error arm, duplicate keys, nesting at the limit
fn c04j_corpus() -> Vec<Value> {
    let s = |x: &str| json!(x);
    let v = |jv: Value| json!({"v": jv});
    let mut c = vec![
        // legacy array form
        v(json!([jo(vec![("a", s("1"))]), jo(vec![("b", Value::Null)]), jo(vec![])])),
        v(json!([])), v(json!([jn("1")])), v(json!([jo(vec![])])), v(json!([jo(vec![("a", Value::Null)])])),
        v(json!([jo(vec![("a", s("1"))])])), v(json!([jo(vec![("a", s("1")), ("~n", Value::Null)]), jo(vec![("~n", s("5"))])])),
        v(json!([jo(vec![("a", s("1"))]), Value::Null])), v(json!([[jo(vec![("a", s("1"))])]])), v(json!([jo(vec![("a", jn("1"))])])),
        v(json!([jo(vec![("a", jo(vec![("$neq", Value::Null)]))])])), v(json!([jo(vec![("$or", Value::Null), ("a", s("1"))])])),
        v(json!([jo(vec![("$not", jo(vec![("a", s("1"))]))]), jo(vec![("~n", jo(vec![("$gte", s("5"))]))])])),
        v(json!([jo(vec![("a", s("1")), ("a", Value::Null)])])), v(json!([jo(vec![("a", Value::Null), ("a", s("1"))])])),
        // not an object or array
        v(Value::Null), v(json!(true)), v(jn("1")), v(s("a")), v(s("{\"a\":\"1\"}")),
        // object form: null, unsupported values
        v(jo(vec![("a", Value::Null)])), v(jo(vec![("a", jn("5"))])), v(jo(vec![("a", json!(true))])), v(jo(vec![("a", json!([]))])),
        v(jo(vec![("a", json!(["1"]))])), v(jo(vec![("a", s("1")), ("b", Value::Null)])), v(jo(vec![("$or", json!([jo(vec![("a", Value::Null)])]))])),
        // operators with the wrong operand type
        v(jo(vec![("a", jo(vec![("$neq", jn("1"))]))])), v(jo(vec![("a", jo(vec![("$gt", Value::Null)]))])), v(jo(vec![("~a", jo(vec![("$gte", json!([]))]))])),
        v(jo(vec![("~a", jo(vec![("$lt", jo(vec![]))]))])), v(jo(vec![("~a", jo(vec![("$lte", json!(false))]))])), v(jo(vec![("~a", jo(vec![("$like", jn("1"))]))])),
        v(jo(vec![("a", jo(vec![("$in", s("x"))]))])), v(jo(vec![("a", jo(vec![("$in", json!(["x", jn("1")]))]))])), v(jo(vec![("a", jo(vec![("$in", jo(vec![]))]))])),
        v(jo(vec![("a", jo(vec![("$in", json!([]))]))])), v(jo(vec![("a", jo(vec![("$in", json!([Value::Null]))]))])),
        v(jo(vec![("a", jo(vec![("$regex", s("x"))]))])), v(jo(vec![("a", jo(vec![("", s("x"))]))])), v(jo(vec![("a", jo(vec![("$NEQ", s("x"))]))])),
        v(jo(vec![("a", jo(vec![]))])), v(jo(vec![("a", jo(vec![("$neq", s("1")), ("$gt", s("0"))]))])),
        v(jo(vec![("$or", jo(vec![]))])), v(jo(vec![("$or", s("x"))])), v(jo(vec![("$or", Value::Null)])), v(jo(vec![("$or", json!([jn("1")]))])), v(jo(vec![("$or", json!([[]]))])),
        v(jo(vec![("$and", jo(vec![]))])), v(jo(vec![("$and", jn("1"))])), v(jo(vec![("$and", json!([s("a")]))])), v(jo(vec![("$and", json!([Value::Null]))])),
        v(jo(vec![("$not", json!([]))])), v(jo(vec![("$not", s("a"))])), v(jo(vec![("$not", Value::Null)])), v(jo(vec![("$not", json!([jo(vec![("a", s("1"))])]))])),
        v(jo(vec![("$exist", jn("5"))])), v(jo(vec![("$exist", Value::Null)])), v(jo(vec![("$exist", jo(vec![]))])), v(jo(vec![("$exist", json!(["a", jn("1")]))])),
        v(jo(vec![("$exist", json!([["a"]]))])), v(jo(vec![("$exist", json!([]))])), v(jo(vec![("$exist", s("a"))])),
        // empty connectives, error after a good member, key order decides which error is reported
        v(jo(vec![])), v(jo(vec![("$and", json!([]))])), v(jo(vec![("$or", json!([]))])), v(jo(vec![("$not", jo(vec![]))])),
        v(jo(vec![("b", jn("1")), ("a", jo(vec![("$in", s("x"))]))])), v(jo(vec![("a", s("1")), ("$not", json!([]))])),
        // duplicate keys: the last one wins, also inside the one-operator object and against the length check
        v(jo(vec![("a", s("1")), ("a", s("2"))])), v(jo(vec![("a", jn("1")), ("a", s("2"))])), v(jo(vec![("a", s("2")), ("a", jn("1"))])),
        v(jo(vec![("a", jo(vec![("$neq", s("1")), ("$neq", s("2"))]))])), v(jo(vec![("b", s("1")), ("a", s("2")), ("b", s("3"))])),
        v(jo(vec![("$or", json!([jo(vec![("a", s("1"))])])), ("$or", json!([]))])), v(jo(vec![("~n", s("5")), ("a", s("1")), ("$exist", s("b"))])),
    ];
    // nesting: 127 containers are read, 128 are refused; far beyond (stack?)
    for (shape, per) in [("arr", 1usize), ("not", 1), ("or", 2), ("and", 2), ("a", 1)] {
        for total in [125usize, 126, 127, 128, 129, 1000, 5000] {
            let inner = jo(vec![("a", s("1"))]);
            let n = (total - 1) / per;
            c.push(v(jdeep(shape, n, inner.clone())));
            if per == 2 && total <= 129 { c.push(v(jdeep(shape, n, jo(vec![("a", json!([]))])))); }
        }
    }
    c.push(v(jdeep("arr", 127, s("x"))));
    c.push(v(jdeep("arr", 128, s("x"))));
    c.push(v(jo(vec![("a", jdeep("arr", 127, jn("1"))), ("a", s("1"))])));   // too deep, although the deep member is overridden
    c.push(v(json!([jo(vec![("a", jdeep("arr", 126, Value::Null))])])));
    // not JSON at all / JSON with a twist
    for t in ["", " ", "{", "}", "[", "]", "{\"a\":}", "{\"a\":\"1\"", "{\"a\":\"1\"}}", "{\"a\":\"1\"} x", "{'a':'1'}", "{a:\"1\"}", "NaN", "{\"a\":NaN}",
              "{\"a\":1e999}", "[1e999]", "{\"a\":\"\\ud800\"}", "{\"a\":\"\\u0000\"}", "\u{feff}{}", " \n\t{ \"a\" :\r\"1\" } \n", "{\"a\":\"1\",}", "[{\"a\":\"1\"},]",
              "{\"a\" \"1\"}", "{\"a\":\"1\"}{\"b\":\"2\"}", "nul", "tru", "{\"a\":\"\t\"}", "{\"a\":01}", "{\"a\":-}", "{\"a\":\"\\x\"}", "/*c*/{}", "{\"a\":\"1\"}\u{0}",
              "{\"\\u0061\":\"1\",\"a\":\"2\"}", "{\"a\":\"\\ud83d\\ude00\"}", "{\"a\":1.0E+2}", "[{\"a\":null,}]", "{\"$or\":[{\"a\":\"1\"}", "\"", "{\"a\":\"1\"}\n\n", "{\"a\":\"1\"}//"] {
        c.push(c04j_raw(t.to_string()));
    }
    c
}

/// C04 (JSON side): a populated profile, then malformed / legacy / mutated filter texts through `TagFilter::from_str`,
/// `count` and `fetch_all`.  Deterministic from the seed; case i also carries its share of the named examples.
pub fn gen_c04_json_malformed(r: &mut Rng, id: u64, thorough: bool) -> Value {
    let nrec = 3 + r.below(if thorough { 12 } else { 6 });
    let mut ops = vec![json!({"op": "session", "s": 0, "txn": false})];
    for i in 0..nrec {
        let t = match tags(r) { Value::Null => json!([]), t => t };
        ops.push(json!({"op": "insert", "s": 0, "k": 2, "c": "c1", "n": format!("r{}", i), "v": value(r), "t": t, "e": null}));
    }
    let corpus = c04j_corpus();
    let mut fs: Vec<Value> = vec![];
    for j in 0..5 { fs.push(corpus[((id as usize) * 5 + j) % corpus.len()].clone()); }
    let nf = if thorough { 14 } else { 8 };
    for _ in 0..nf {
        let depth = 1 + r.below(3);
        let base = { let f = root_filter(r, depth); c04j_ast_to_jv(r, &f) };
        let f = match r.below(12) {
            // a valid filter text as is (object form)
            0 | 1 => json!({"v": base}),
            // type swaps / structural mutations of a valid filter (1-2 of them)
            2..=5 => {
                let mut m = base;
                for _ in 0..(1 + r.below(2)) { let n = c04j_count(&m); let t = r.below(n); m = c04j_mutate(r, &m, &mut 0, t); }
                json!({"v": m})
            }
            // legacy restriction lists
            6..=8 => { let n = r.below(5); json!({"v": (0..n).map(|_| c04j_restriction(r)).collect::<Vec<_>>()}) }
            // a valid filter wrapped close to the nesting limit
            9 => {
                let (shape, per) = *r.pick(&[("not", 1usize), ("or", 2), ("and", 2), ("arr", 1)]);
                let d = c04j::depth(&base);
                let total = *r.pick(&[100usize, 126, 127, 128, 200]);
                json!({"v": jdeep(shape, total.saturating_sub(d) / per, base)})
            }
            // character-level damage to a rendered text
            _ => {
                let mut t = String::new();
                c04j::render(&base, &mut t);
                let mut cs: Vec<char> = t.chars().collect();
                let at = r.below(cs.len() + 1);
                match r.below(4) {
                    0 => cs.truncate(at),
                    1 => { if at < cs.len() { cs.remove(at); } }
                    2 => cs.insert(at, *r.pick(&['{', '}', '[', ']', '"', ',', ':', '\\', 'a', '1', ' ', '\u{0}', 'é'])),
                    _ => { if at < cs.len() { let c = cs[at]; cs.insert(at, c); } }
                }
                c04j_raw(cs.into_iter().collect())
            }
        };
        fs.push(f);
    }
    for f in fs {
        ops.push(json!({"op": "parse", "fjv": f}));
        // through the store unless the reference reads a filter whose outcome depends on ciphertext order
        let through = c04j::ref_text(&f).map_or(true, |a| c04j::store_safe(&a));
        if through {
            ops.push(json!({"op": "count", "s": 0, "k": 2, "c": null, "fjv": f}));
            if r.chance(1, 2) { ops.push(json!({"op": "fetch_all", "s": 0, "k": 2, "c": null, "fjv": f, "lim": null, "ord": true, "desc": false})); }
        }
    }
    json!({"id": format!("j{}", id), "kind": "c04j", "prop": "C04", "file": false, "profile": "default", "ops": ops})
}
