/-
Helper lemmas and proofs for Props/SqlSem.lean: the executable statement semantics of Model/SqlExec.lean agrees
with the hand-written statement functions of Model/Store.lean for every statement whose shape passes `shapeOk`
(proof by reflection: `shapeOk` is a Bool-valued check, the theorems turn `shapeOk s e = true` into an equation
between `exec… s` and the Store function).
-/
import AskarModel.Model.SqlExec

namespace Askar.Sql
open Askar.Store (Item Db Sess Kind Err Entry)
open Askar.Wql (Tag)
namespace Lemmas

/-! ### `sameSet` and conjunctions -/

theorem sameSet_mem {a b : List Atom} (h : sameSet a b = true) (x : Atom) : x ∈ a ↔ x ∈ b := by
  simp only [sameSet, Bool.and_eq_true, List.all_eq_true, List.contains_iff_mem] at h
  exact ⟨h.1 x, h.2 x⟩

theorem sameSet_symm {a b : List Atom} (h : sameSet a b = true) : sameSet b a = true := by
  simp only [sameSet, Bool.and_eq_true] at h ⊢
  exact ⟨h.2, h.1⟩

theorem sameSet_trans {a b c : List Atom} (h1 : sameSet a b = true) (h2 : sameSet b c = true) : sameSet a c = true := by
  have m1 := sameSet_mem h1
  have m2 := sameSet_mem h2
  simp only [sameSet, Bool.and_eq_true, List.all_eq_true, List.contains_iff_mem]
  exact ⟨fun x hx => (m2 x).1 ((m1 x).1 hx), fun x hx => (m1 x).2 ((m2 x).2 hx)⟩

theorem all_congr_of_sameSet {a b : List Atom} (h : sameSet a b = true) (f : Atom → Bool) : a.all f = b.all f := by
  rw [Bool.eq_iff_iff]
  simp only [List.all_eq_true]
  constructor
  · intro ha x hx; exact ha x ((sameSet_mem h x).2 hx)
  · intro hb x hx; exact hb x ((sameSet_mem h x).1 hx)

theorem matches_congr (other) (now : Int) (p : Params) (a b : Stmt) (h : sameSet a.whereAtoms b.whereAtoms = true) :
    Stmt.matches other now p a = Stmt.matches other now p b := by
  funext it
  exact all_congr_of_sameSet h _

/-! ### values, columns, atoms -/

theorem Val.int_beq (a b : Int) : (Val.int a == Val.int b) = (a == b) := by
  rw [Bool.eq_iff_iff]; simp
theorem Val.enc_beq (k k' : Nat) (s s' : String) : (Val.enc k s == Val.enc k' s') = (k == k' && s == s') := by
  rw [Bool.eq_iff_iff]; simp

theorem Val.int_bne_null (b : Int) : (Val.int b != Val.null) = true := by rw [bne_iff_ne]; exact fun h => Val.noConfusion h
theorem Val.enc_bne_null (k : Nat) (s : String) : (Val.enc k s != Val.null) = true := by rw [bne_iff_ne]; exact fun h => Val.noConfusion h
theorem Val.int_beq_null (b : Int) : (Val.int b == Val.null) = false := by rw [beq_eq_false_iff_ne]; exact fun h => Val.noConfusion h
theorem Val.enc_beq_null (k : Nat) (s : String) : (Val.enc k s == Val.null) = false := by rw [beq_eq_false_iff_ne]; exact fun h => Val.noConfusion h

theorem col_pid (it : Item) : col "profile_id" it = some (.int it.pid) := by simp [col]
theorem col_kind (it : Item) : col "kind" it = some (.int it.kind) := by simp [col]
theorem col_cat (it : Item) : col "category" it = some (.enc it.key it.cat) := by simp [col]
theorem col_name (it : Item) : col "name" it = some (.enc it.key it.name) := by simp [col]

theorem eval_eq_int (other) (now : Int) (p : Params) (it : Item) (c : String) (n : Nat) (a b : Int)
    (hc : col c it = some (.int a)) (hp : p n = .int b) :
    Atom.eval other now p it (.eqParam c n) = (a == b) := by
  simp only [Atom.eval, hc, hp, Val.int_beq, Val.int_bne_null, Bool.true_and, Bool.and_true]

theorem eval_eq_enc (other) (now : Int) (p : Params) (it : Item) (c : String) (n : Nat) (k k' : Nat) (s s' : String)
    (hc : col c it = some (.enc k s)) (hp : p n = .enc k' s') :
    Atom.eval other now p it (.eqParam c n) = (k == k' && s == s') := by
  simp only [Atom.eval, hc, hp, Val.enc_beq, Val.enc_bne_null, Bool.true_and]

theorem eval_orNull_null (other) (now : Int) (p : Params) (it : Item) (c : String) (n : Nat) (hp : p n = .null) :
    Atom.eval other now p it (.eqParamOrNull c n) = true := by
  simp [Atom.eval, hp]

theorem eval_orNull_int (other) (now : Int) (p : Params) (it : Item) (c : String) (n : Nat) (a b : Int)
    (hc : col c it = some (.int a)) (hp : p n = .int b) :
    Atom.eval other now p it (.eqParamOrNull c n) = (a == b) := by
  simp only [Atom.eval, hc, hp, Val.int_beq, Val.int_bne_null, Val.int_beq_null, Bool.true_and, Bool.or_false, Bool.and_true]

theorem eval_orNull_enc (other) (now : Int) (p : Params) (it : Item) (c : String) (n : Nat) (k k' : Nat) (s s' : String)
    (hc : col c it = some (.enc k s)) (hp : p n = .enc k' s') :
    Atom.eval other now p it (.eqParamOrNull c n) = (k == k' && s == s') := by
  simp only [Atom.eval, hc, hp, Val.enc_beq, Val.enc_bne_null, Val.enc_beq_null, Bool.true_and, Bool.or_false]

theorem natCast_beq (a b : Nat) : ((a : Int) == (b : Int)) = (a == b) := by
  rw [Bool.eq_iff_iff]; simp only [beq_iff_eq]; omega

/-- the identity atoms under the identity binding are `Item.sameIdent` -/
theorem ident_eval (other) (now : Int) (p : Params) (it : Item) (pid key : Nat) (kind : Kind) (cat name : String)
    (h1 : p 1 = .int pid) (h2 : p 2 = .int kind) (h3 : p 3 = .enc key cat) (h4 : p 4 = .enc key name) :
    Expected.ident.all (Atom.eval other now p it) = it.sameIdent pid key kind cat name := by
  simp only [Expected.ident, List.all_cons, List.all_nil, Bool.and_true,
    eval_eq_int other now p it _ _ _ _ (col_pid it) h1, eval_eq_int other now p it _ _ _ _ (col_kind it) h2,
    eval_eq_enc other now p it _ _ _ _ _ _ (col_cat it) h3, eval_eq_enc other now p it _ _ _ _ _ _ (col_name it) h4,
    natCast_beq, Item.sameIdent]
  rw [Bool.eq_iff_iff]
  simp only [Bool.and_eq_true]
  grind

theorem scope_eval (other) (now : Int) (p : Params) (it : Item) (pid key : Nat) (kind : Option Kind) (cat : Option String)
    (h1 : p 1 = .int pid) (h2 : p 2 = (match kind with | none => .null | some k => .int k))
    (h3 : p 3 = (match cat with | none => .null | some c => .enc key c)) :
    Expected.scope.all (Atom.eval other now p it) = it.inScope pid key kind cat := by
  simp only [Expected.scope, List.all_cons, List.all_nil, Bool.and_true,
    eval_eq_int other now p it _ _ _ _ (col_pid it) h1, natCast_beq, Item.inScope]
  cases kind <;> cases cat <;> simp only [] at h2 h3
  · rw [eval_orNull_null _ _ _ _ _ _ h2, eval_orNull_null _ _ _ _ _ _ h3]; simp
  · rw [eval_orNull_null _ _ _ _ _ _ h2, eval_orNull_enc _ _ _ _ _ _ _ _ _ _ (col_cat it) h3]; simp
  · rw [eval_orNull_int _ _ _ _ _ _ _ _ (col_kind it) h2, eval_orNull_null _ _ _ _ _ _ h3, natCast_beq]; simp
  · rw [eval_orNull_int _ _ _ _ _ _ _ _ (col_kind it) h2, eval_orNull_enc _ _ _ _ _ _ _ _ _ _ (col_cat it) h3, natCast_beq]; simp [Bool.and_assoc]


/-! ### what `shapeOk` gives -/

theorem shapeOk_where {s e : Stmt} (h : shapeOk s e = true) : sameSet s.whereAtoms e.whereAtoms = true := by
  simp only [shapeOk, Bool.and_eq_true] at h
  exact h.1.1.2

theorem shapeOk_cols {s e : Stmt} (h : shapeOk s e = true) : s.cols = e.cols := by
  simp only [shapeOk, Bool.and_eq_true, beq_iff_eq] at h
  exact h.1.1.1.2

theorem shapeOk_policy {s e : Stmt} (h : shapeOk s e = true) : s.policy = e.policy := by
  simp only [shapeOk, Bool.and_eq_true, beq_iff_eq] at h
  exact h.1.1.1.1.2

theorem liveAtom_eval (b : Backend) (other) (now : Int) (p : Params) (it : Item) :
    Atom.eval other now p it b.liveAtom = b.live now it := by
  cases b <;> rfl

theorem hits_of_sameSet (other) (now : Int) (p : Params) (s : Stmt) (extra : Item → Bool) (L : List Atom)
    (h : sameSet s.whereAtoms L = true) (it : Item) :
    s.hits other now p extra it = (L.all (Atom.eval other now p it) && extra it) := by
  unfold Stmt.hits Stmt.matches
  rw [all_congr_of_sameSet h]

/-- WHERE = identity atoms (+ the backend's expiry atom): the predicate is `sameIdent` (`&& live`) -/
theorem hits_ident (other) (now : Int) (p : Params) (s : Stmt) (pid key : Nat) (kind : Kind) (cat name : String)
    (h1 : p 1 = .int pid) (h2 : p 2 = .int kind) (h3 : p 3 = .enc key cat) (h4 : p 4 = .enc key name)
    (h : sameSet s.whereAtoms Expected.ident = true) (it : Item) :
    s.hits other now p noExtra it = it.sameIdent pid key kind cat name := by
  rw [hits_of_sameSet other now p s noExtra _ h, ident_eval other now p it pid key kind cat name h1 h2 h3 h4]
  simp [noExtra]

theorem hits_ident_live (b : Backend) (other) (now : Int) (p : Params) (s : Stmt) (pid key : Nat) (kind : Kind) (cat name : String)
    (h1 : p 1 = .int pid) (h2 : p 2 = .int kind) (h3 : p 3 = .enc key cat) (h4 : p 4 = .enc key name)
    (h : sameSet s.whereAtoms (Expected.ident ++ [b.liveAtom]) = true) (it : Item) :
    s.hits other now p noExtra it = (it.sameIdent pid key kind cat name && b.live now it) := by
  rw [hits_of_sameSet other now p s noExtra _ h, List.all_append,
    ident_eval other now p it pid key kind cat name h1 h2 h3 h4]
  simp [noExtra, liveAtom_eval]

theorem hits_scope (other) (now : Int) (p : Params) (s : Stmt) (extra : Item → Bool) (pid key : Nat) (kind : Option Kind) (cat : Option String)
    (h1 : p 1 = .int pid) (h2 : p 2 = (match kind with | none => .null | some k => .int k))
    (h3 : p 3 = (match cat with | none => .null | some c => .enc key c))
    (h : sameSet s.whereAtoms Expected.scope = true) (it : Item) :
    s.hits other now p extra it = (it.inScope pid key kind cat && extra it) := by
  rw [hits_of_sameSet other now p s extra _ h, scope_eval other now p it pid key kind cat h1 h2 h3]

theorem hits_scope_live (b : Backend) (other) (now : Int) (p : Params) (s : Stmt) (extra : Item → Bool) (pid key : Nat) (kind : Option Kind) (cat : Option String)
    (h1 : p 1 = .int pid) (h2 : p 2 = (match kind with | none => .null | some k => .int k))
    (h3 : p 3 = (match cat with | none => .null | some c => .enc key c))
    (h : sameSet s.whereAtoms (Expected.scope ++ [b.liveAtom]) = true) (it : Item) :
    s.hits other now p extra it = (it.inScope pid key kind cat && b.live now it && extra it) := by
  rw [hits_of_sameSet other now p s extra _ h, List.all_append, scope_eval other now p it pid key kind cat h1 h2 h3]
  simp [liveAtom_eval]

/-! ### SELECT -/

theorem select_ident (b : Backend) (other) (now : Int) (p : Params) (s : Stmt) (pid key : Nat) (kind : Kind) (cat name : String)
    (h1 : p 1 = .int pid) (h2 : p 2 = .int kind) (h3 : p 3 = .enc key cat) (h4 : p 4 = .enc key name)
    (h : sameSet s.whereAtoms (Expected.ident ++ [b.liveAtom]) = true) (db : Db) :
    execSelect other now s p noExtra db = db.items.filter fun it => it.sameIdent pid key kind cat name && b.live now it := by
  unfold execSelect
  exact List.filter_congr fun it _ => hits_ident_live b other now p s pid key kind cat name h1 h2 h3 h4 h it

theorem select_scope (b : Backend) (other) (now : Int) (p : Params) (s : Stmt) (extra : Item → Bool) (pid key : Nat)
    (kind : Option Kind) (cat : Option String)
    (h1 : p 1 = .int pid) (h2 : p 2 = (match kind with | none => .null | some k => .int k))
    (h3 : p 3 = (match cat with | none => .null | some c => .enc key c))
    (h : sameSet s.whereAtoms (Expected.scope ++ [b.liveAtom]) = true) (db : Db) :
    execSelect other now s p extra db = db.items.filter fun it => it.inScope pid key kind cat && b.live now it && extra it := by
  unfold execSelect
  exact List.filter_congr fun it _ => hits_scope_live b other now p s extra pid key kind cat h1 h2 h3 h it

theorem doFetchB_sqlite : doFetchB .sqlite = Store.doFetch := rfl
theorem doCountB_sqlite : doCountB .sqlite = Store.doCount := rfl
theorem selectRowsB_sqlite : selectRowsB .sqlite = Store.selectRows := rfl

/-- the first row of the fetch statement's result, as an entry, is the Store model's fetch -/
theorem fetch_reflect (b : Backend) (other) (now : Int) (s : Stmt)
    (h : sameSet s.whereAtoms (Expected.ident ++ [b.liveAtom]) = true)
    (db : Db) (sess : Sess) (kind : Kind) (cat name : String) (value : Bytes) (expiry : Option Int) :
    (execSelect other now s (identParams sess kind cat name value expiry) noExtra db).head?.map toEntry
      = doFetchB b db now sess kind cat name := by
  rw [select_ident b other now _ s sess.pid sess.key kind cat name rfl rfl rfl rfl h, List.head?_filter]
  unfold doFetchB
  cases db.items.find? _ <;> rfl

theorem count_reflect (b : Backend) (other) (now : Int) (s : Stmt)
    (h : sameSet s.whereAtoms (Expected.scope ++ [b.liveAtom]) = true)
    (like : Bytes → Bytes → Bool) (db : Db) (sess : Sess) (kind : Option Kind) (cat : Option String) (f : Option (Wql.Query String)) :
    (execSelect other now s (scopeParams sess kind cat) (Store.matchFilter like f) db).length
      = doCountB b like db now sess kind cat f := by
  rw [select_scope b other now _ s _ sess.pid sess.key kind cat rfl rfl rfl h]
  rfl

theorem scan_reflect (b : Backend) (other) (now : Int) (s : Stmt)
    (h : sameSet s.whereAtoms (Expected.scope ++ [b.liveAtom]) = true)
    (like : Bytes → Bytes → Bool) (db : Db) (sess : Sess) (kind : Option Kind) (cat : Option String) (f : Option (Wql.Query String))
    (off lim : Option Int) (desc : Bool) :
    (let rows := Store.sortById (execSelect other now s (scopeParams sess kind cat) (Store.matchFilter like f) db)
     Store.window off lim (if desc then rows.reverse else rows))
      = selectRowsB b like db now sess.pid sess.key kind cat f off lim desc := by
  rw [select_scope b other now _ s _ sess.pid sess.key kind cat rfl rfl rfl h]
  rfl

/-! ### DELETE -/

theorem any_eq_filter_length {α} (p : α → Bool) (l : List α) : l.any p = decide ((l.filter p).length ≠ 0) := by
  induction l with
  | nil => rfl
  | cons x l ih =>
    simp only [List.any_cons, List.filter_cons, ih]
    cases p x <;> simp

theorem delete_reflect (other) (now : Int) (s : Stmt) (h : sameSet s.whereAtoms Expected.ident = true)
    (db : Db) (sess : Sess) (kind : Kind) (cat name : String) (value : Bytes) (expiry : Option Int) :
    removeOutcome (execDelete other now s (identParams sess kind cat name value expiry) noExtra db)
      = Store.doRemove db sess kind cat name := by
  have hh := hits_ident other now (identParams sess kind cat name value expiry) s sess.pid sess.key kind cat name rfl rfl rfl rfl h
  unfold execDelete Store.doRemove
  rw [List.filter_congr (fun it _ => hh it), List.filter_congr (q := fun it => !it.sameIdent sess.pid sess.key kind cat name) (fun it _ => by rw [hh it]),
    any_eq_filter_length]
  cases hl : (db.items.filter fun it => it.sameIdent sess.pid sess.key kind cat name).length <;> simp [removeOutcome]

theorem delete_all_reflect (other) (now : Int) (s : Stmt) (h : sameSet s.whereAtoms Expected.scope = true)
    (like : Bytes → Bytes → Bool) (db : Db) (sess : Sess) (kind : Option Kind) (cat : Option String) (f : Option (Wql.Query String)) :
    execDelete other now s (scopeParams sess kind cat) (Store.matchFilter like f) db
      = Store.doRemoveAll like db sess kind cat f := by
  have hh := hits_scope other now (scopeParams sess kind cat) s (Store.matchFilter like f) sess.pid sess.key kind cat rfl rfl rfl h
  unfold execDelete Store.doRemoveAll
  simp only []
  rw [List.filter_congr (fun it _ => hh it),
    List.filter_congr (q := fun it => !(it.inScope sess.pid sess.key kind cat && Store.matchFilter like f it)) (fun it _ => by rw [hh it])]


/-! ### UPDATE -/

theorem assignAll_update (sess : Sess) (kind : Kind) (cat name : String) (value : Bytes) (exp : Option Int) :
    assignAll (identParams sess kind cat name value exp) Expected.updateQuery.cols
      = some fun it => { it with value := value, expiry := exp } := by
  cases exp <;> simp [assignAll, assign, Expected.updateQuery, identParams] <;> rfl

theorem update_exec (other) (now : Int) (s : Stmt) (hc : s.cols = Expected.updateQuery.cols)
    (h : sameSet s.whereAtoms Expected.ident = true)
    (db : Db) (sess : Sess) (kind : Kind) (cat name : String) (value : Bytes) (exp : Option Int) (tags : List Tag) :
    execUpdate other now s (identParams sess kind cat name value exp) noExtra tags db
      = some ({ db with items := db.items.map fun it =>
                  if it.sameIdent sess.pid sess.key kind cat name then { it with value := value, tags := tags, expiry := exp } else it },
              (db.items.filter fun it => it.sameIdent sess.pid sess.key kind cat name).map (·.id)) := by
  have hh : Stmt.hits other now (identParams sess kind cat name value exp) s noExtra = fun it => it.sameIdent sess.pid sess.key kind cat name :=
    funext (hits_ident other now (identParams sess kind cat name value exp) s sess.pid sess.key kind cat name rfl rfl rfl rfl h)
  unfold execUpdate
  rw [hc, assignAll_update]
  simp only [hh]

theorem update_core (other) (now : Int) (s : Stmt) (hc : s.cols = Expected.updateQuery.cols)
    (h : sameSet s.whereAtoms Expected.ident = true)
    (db : Db) (sess : Sess) (kind : Kind) (cat name : String) (value : Bytes) (exp : Option Int) (tags : List Tag) :
    updateOutcome (execUpdate other now s (identParams sess kind cat name value exp) noExtra tags db)
      = if db.items.any (·.sameIdent sess.pid sess.key kind cat name) then
          .ok { db with items := db.items.map fun it =>
                  if it.sameIdent sess.pid sess.key kind cat name then { it with value := value, tags := tags, expiry := exp } else it }
        else .error .notFound := by
  rw [update_exec other now s hc h, any_eq_filter_length]
  cases hl : (db.items.filter fun it => it.sameIdent sess.pid sess.key kind cat name) <;> simp [updateOutcome]

theorem update_reflect (other) (now : Int) (s : Stmt) (hc : s.cols = Expected.updateQuery.cols)
    (h : sameSet s.whereAtoms Expected.ident = true)
    (db : Db) (sess : Sess) (kind : Kind) (cat name : String) (value : Bytes) (tags : Option (List Tag)) (expiryMs : Option Int) :
    (match expiryBind now expiryMs with
     | .error e => .error e
     | .ok exp => updateOutcome (execUpdate other now s (identParams sess kind cat name value exp) noExtra (tags.getD []) db))
      = Store.doReplace db now sess kind cat name value tags expiryMs := by
  simp only [update_core other now s hc h]
  rfl


/-! ### INSERT -/

/-- a conflict on the unique index (stored columns) is `Item.sameIdent` with the other row's identity -/
theorem indexKey_beq (it row : Item) :
    (indexKey it == indexKey row) = it.sameIdent row.pid row.key row.kind row.cat row.name := by
  rw [Bool.eq_iff_iff]
  simp only [indexKey, uniqueIndex, List.map_cons, List.map_nil, col_pid, col_kind, col_cat, col_name, beq_iff_eq,
    List.cons.injEq, Option.some.injEq, Val.int.injEq, Val.enc.injEq, and_true, Item.sameIdent, Bool.and_eq_true]
  simp only [Int.natCast_inj]
  grind

theorem buildRow_insert (sess : Sess) (kind : Kind) (cat name : String) (value : Bytes) (exp : Option Int) (id : Nat) (tags : List Tag) :
    buildRow Expected.insertQuery.cols (identParams sess kind cat name value exp) id tags
      = some { id := id, pid := sess.pid, key := sess.key, kind := kind, cat := cat, name := name, value := value,
               tags := tags, expiry := exp } := by
  cases exp <;> simp [buildRow, Expected.insertQuery, identParams, List.lookup, Val.toNat?, Val.toEnc?, Val.toBytes?, expiryOfVal]

theorem insert_exec (s : Stmt) (hc : s.cols = Expected.insertQuery.cols) (hp : s.policy = "ignore")
    (db : Db) (sess : Sess) (kind : Kind) (cat name : String) (value : Bytes) (exp : Option Int) (tags : List Tag) :
    execInsert s (identParams sess kind cat name value exp) tags db
      = some (if db.items.any (·.sameIdent sess.pid sess.key kind cat name) then (db, 0)
              else ({ db with items := db.items ++
                        [{ id := Store.nextId (db.items.map (·.id)), pid := sess.pid, key := sess.key, kind := kind, cat := cat,
                           name := name, value := value, tags := tags, expiry := exp }] }, 1)) := by
  unfold execInsert
  rw [hc, buildRow_insert]
  simp only [indexKey_beq, hp, if_true]
  split <;> rfl

theorem insert_core (s : Stmt) (hc : s.cols = Expected.insertQuery.cols) (hp : s.policy = "ignore")
    (db : Db) (sess : Sess) (kind : Kind) (cat name : String) (value : Bytes) (exp : Option Int) (tags : List Tag) :
    insertOutcome (execInsert s (identParams sess kind cat name value exp) tags db)
      = if db.items.any (·.sameIdent sess.pid sess.key kind cat name) then .error .duplicate
        else .ok { db with items := db.items ++
                        [{ id := Store.nextId (db.items.map (·.id)), pid := sess.pid, key := sess.key, kind := kind, cat := cat,
                           name := name, value := value, tags := tags, expiry := exp }] } := by
  rw [insert_exec s hc hp]
  split <;> rfl

theorem insert_reflect (s : Stmt) (hc : s.cols = Expected.insertQuery.cols) (hp : s.policy = "ignore")
    (db : Db) (now : Int) (sess : Sess) (kind : Kind) (cat name : String) (value : Bytes) (tags : Option (List Tag)) (expiryMs : Option Int) :
    (match expiryBind now expiryMs with
     | .error e => .error e
     | .ok exp => insertOutcome (execInsert s (identParams sess kind cat name value exp) (tags.getD []) db))
      = Store.doInsert db now sess kind cat name value tags expiryMs := by
  simp only [insert_core s hc hp]
  rfl

/-! ### "up to the tags field": the tag-list argument of the INSERT / UPDATE executors reaches nothing but `Item.tags` -/

theorem buildRow_tags_only (cols : List (String × Nat)) (p : Params) (id : Nat) (t1 t2 : List Tag) :
    (buildRow cols p id t1).map clearTags = (buildRow cols p id t2).map clearTags := by
  unfold buildRow
  split
  · split <;> rfl
  · rfl

theorem indexKey_clearTags (it : Item) : indexKey (clearTags it) = indexKey it := rfl

theorem execInsert_tags_only (s : Stmt) (p : Params) (t1 t2 : List Tag) (db : Db) :
    (execInsert s p t1 db).map (fun r => (r.1.items.map clearTags, r.1.profiles, r.2))
      = (execInsert s p t2 db).map (fun r => (r.1.items.map clearTags, r.1.profiles, r.2)) := by
  have hb := buildRow_tags_only s.cols p (Store.nextId (db.items.map (·.id))) t1 t2
  unfold execInsert
  cases h1 : buildRow s.cols p (Store.nextId (db.items.map (·.id))) t1 <;>
    cases h2 : buildRow s.cols p (Store.nextId (db.items.map (·.id))) t2 <;> rw [h1, h2] at hb <;> simp at hb
  rename_i r1 r2
  have hk : indexKey r1 = indexKey r2 := by rw [← indexKey_clearTags r1, ← indexKey_clearTags r2, hb]
  simp only [hk]
  split
  · rfl
  · simp [hb]

theorem execUpdate_tags_only (other) (now : Int) (s : Stmt) (p : Params) (extra : Item → Bool) (t1 t2 : List Tag) (db : Db) :
    (execUpdate other now s p extra t1 db).map (fun r => (r.1.items.map clearTags, r.1.profiles, r.2))
      = (execUpdate other now s p extra t2 db).map (fun r => (r.1.items.map clearTags, r.1.profiles, r.2)) := by
  unfold execUpdate
  cases assignAll p s.cols
  · rfl
  · simp only [Option.map_some, List.map_map]
    congr 3
    funext it
    simp only [Function.comp]
    split <;> rfl


/-! ### Generic isolation (C07): any statement with the conjunct `profile_id = ?1`, whatever else it says -/

theorem hits_atom (other) (now : Int) (p : Params) (s : Stmt) (extra : Item → Bool) (it : Item) (a : Atom)
    (ha : s.whereAtoms.contains a = true) (h : s.hits other now p extra it = true) : Atom.eval other now p it a = true := by
  simp only [Stmt.hits, Stmt.matches, Bool.and_eq_true, List.all_eq_true] at h
  exact h.1 a (List.contains_iff_mem.1 ha)

theorem hits_pid (other) (now : Int) (p : Params) (s : Stmt) (extra : Item → Bool) (pid : Nat)
    (hs : s.profileScoped = true) (hp : p 1 = .int pid) (it : Item) (h : s.hits other now p extra it = true) : it.pid = pid := by
  have := hits_atom other now p s extra it _ hs h
  rw [eval_eq_int other now p it _ _ _ _ (col_pid it) hp, natCast_beq] at this
  exact beq_iff_eq.1 this

theorem hits_false_of_pid_ne (other) (now : Int) (p : Params) (s : Stmt) (extra : Item → Bool) (pid : Nat)
    (hs : s.profileScoped = true) (hp : p 1 = .int pid) (it : Item) (h : it.pid ≠ pid) : s.hits other now p extra it = false := by
  cases hh : s.hits other now p extra it
  · rfl
  · exact absurd (hits_pid other now p s extra pid hs hp it hh) h

theorem select_isolated (other) (now : Int) (p : Params) (s : Stmt) (extra : Item → Bool) (pid : Nat)
    (hs : s.profileScoped = true) (hp : p 1 = .int pid) (db : Db) :
    ∀ it ∈ execSelect other now s p extra db, it.pid = pid := by
  intro it hit
  exact hits_pid other now p s extra pid hs hp it (List.mem_filter.1 hit).2

theorem filter_filter_of_imp {α} (q r : α → Bool) (l : List α) (h : ∀ x, r x = true → q x = true) :
    (l.filter q).filter r = l.filter r := by
  rw [List.filter_filter]
  apply List.filter_congr
  intro x _
  cases hr : r x
  · rfl
  · simp [h x hr]

theorem delete_isolated (other) (now : Int) (p : Params) (s : Stmt) (extra : Item → Bool) (pid : Nat)
    (hs : s.profileScoped = true) (hp : p 1 = .int pid) (db : Db) :
    (∀ it ∈ db.items, it ∉ (execDelete other now s p extra db).1.items → it.pid = pid) ∧
    (execDelete other now s p extra db).1.items.filter (·.pid != pid) = db.items.filter (·.pid != pid) ∧
    (execDelete other now s p extra db).1.profiles = db.profiles ∧
    (execDelete other now s p extra db).2 ≤ (db.items.filter (·.pid == pid)).length := by
  refine ⟨?_, ?_, rfl, ?_⟩
  · intro it hit hnot
    cases hh : s.hits other now p extra it
    · exact absurd (List.mem_filter.2 ⟨hit, by simp [hh]⟩) hnot
    · exact hits_pid other now p s extra pid hs hp it hh
  · apply filter_filter_of_imp
    intro x hx
    rw [hits_false_of_pid_ne other now p s extra pid hs hp x (by simpa using hx)]
    rfl
  · show (db.items.filter _).length ≤ _
    rw [← filter_filter_of_imp (·.pid == pid) (s.hits other now p extra) db.items
      (fun x hx => by simp [hits_pid other now p s extra pid hs hp x hx])]
    exact List.length_filter_le _ _

theorem assign_keeps (p : Params) (a : String × Nat) (f : Item → Item) (h : assign p a = some f) (it : Item) :
    (f it).id = it.id ∧ (f it).pid = it.pid ∧ (f it).key = it.key ∧ (f it).kind = it.kind ∧ (f it).cat = it.cat ∧
    (f it).name = it.name ∧ (f it).tags = it.tags := by
  obtain ⟨c, n⟩ := a
  unfold assign at h
  simp only [] at h
  split at h
  · split at h
    · cases h; simp
    · cases h
  · split at h
    · split at h
      · cases h; simp
      · cases h; simp
      · cases h
    · cases h

theorem assignAll_keeps (p : Params) (cols : List (String × Nat)) (f : Item → Item) (h : assignAll p cols = some f) (it : Item) :
    (f it).id = it.id ∧ (f it).pid = it.pid ∧ (f it).key = it.key ∧ (f it).kind = it.kind ∧ (f it).cat = it.cat ∧
    (f it).name = it.name ∧ (f it).tags = it.tags := by
  induction cols generalizing f it with
  | nil => cases h; simp
  | cons a rest ih =>
    unfold assignAll at h
    split at h
    · rename_i f1 g h1 h2
      cases h
      have k1 := assign_keeps p a f1 h1 it
      have k2 := ih g h2 (f1 it)
      simp only [Function.comp]
      grind
    · cases h

/-- UPDATE touches only rows of the bound profile; a row never changes its id, profile, key or identity -/
theorem update_isolated (other) (now : Int) (p : Params) (s : Stmt) (extra : Item → Bool) (pid : Nat)
    (hs : s.profileScoped = true) (hp : p 1 = .int pid) (tags : List Tag) (db db' : Db) (ids : List Nat)
    (h : execUpdate other now s p extra tags db = some (db', ids)) :
    (∃ g : Item → Item, db'.items = db.items.map g ∧ (∀ it, it.pid ≠ pid → g it = it) ∧
        (∀ it, (g it).id = it.id ∧ (g it).pid = it.pid)) ∧
    db'.items.filter (·.pid != pid) = db.items.filter (·.pid != pid) ∧
    db'.profiles = db.profiles ∧
    (∀ id ∈ ids, ∃ it ∈ db.items, it.id = id ∧ it.pid = pid) := by
  unfold execUpdate at h
  split at h
  · cases h
  · rename_i f hf
    simp only [Option.some.injEq, Prod.mk.injEq] at h
    obtain ⟨hdb, hids⟩ := h
    subst hdb hids
    have hg1 : ∀ it : Item, it.pid ≠ pid →
        (if s.hits other now p extra it = true then { f it with tags := tags } else it) = it := by
      intro it hne
      rw [hits_false_of_pid_ne other now p s extra pid hs hp it hne]; rfl
    have hg2 : ∀ it : Item, (if s.hits other now p extra it = true then { f it with tags := tags } else it).id = it.id ∧
        (if s.hits other now p extra it = true then { f it with tags := tags } else it).pid = it.pid := by
      intro it
      have k := assignAll_keeps p s.cols f hf it
      split
      · exact ⟨k.1, k.2.1⟩
      · exact ⟨rfl, rfl⟩
    refine ⟨⟨_, rfl, hg1, hg2⟩, ?_, rfl, ?_⟩
    · simp only [List.filter_map]
      have : ((fun x : Item => x.pid != pid) ∘ fun it => if s.hits other now p extra it = true then { f it with tags := tags } else it)
          = fun x : Item => x.pid != pid := by
        funext it; simp only [Function.comp, (hg2 it).2]
      rw [this]
      conv => rhs; rw [← List.map_id (db.items.filter fun x => x.pid != pid)]
      apply List.map_congr_left
      intro it hit
      have := (List.mem_filter.1 hit).2
      rw [hg1 it (by simpa using this)]; rfl
    · intro id hid
      obtain ⟨it, hit, rfl⟩ := List.mem_map.1 hid
      have := List.mem_filter.1 hit
      exact ⟨it, this.1, rfl, hits_pid other now p s extra pid hs hp it this.2⟩

/-- INSERT writes only into the bound profile and touches no existing row -/
theorem insert_isolated (s : Stmt) (p : Params) (pid : Nat) (hs : s.cols.lookup "profile_id" = some 1) (hp : p 1 = .int pid)
    (tags : List Tag) (db db' : Db) (n : Nat) (h : execInsert s p tags db = some (db', n)) :
    db'.profiles = db.profiles ∧ ∃ rows, db'.items = db.items ++ rows ∧ rows.length = n ∧ ∀ r ∈ rows, r.pid = pid := by
  unfold execInsert at h
  split at h
  · cases h
  · rename_i row hrow
    have hpid : row.pid = pid := by
      unfold buildRow at hrow
      rw [hs] at hrow
      simp only [Option.bind_some, hp, Val.toNat?] at hrow
      split at hrow
      · split at hrow
        · rename_i pid' _ _ _ _ _ _ _ _ hpid' _ _ _ _ _ _
          cases hrow
          simp only [Int.natCast_nonneg, if_true, Option.some.injEq, Int.toNat_natCast] at hpid'
          exact hpid'.symm
        · cases hrow
      · cases hrow
    split at h
    · split at h
      · cases h; exact ⟨rfl, [], by simp, rfl, by simp⟩
      · cases h
    · cases h; exact ⟨rfl, [row], rfl, rfl, by simp [hpid]⟩

/-! ### Generic expiry hiding (C17) -/

theorem select_live (other) (now : Int) (p : Params) (s : Stmt) (extra : Item → Bool) (hs : s.hidesExpired = true) (db : Db) :
    ∀ it ∈ execSelect other now s p extra db, Store.live now it = true := by
  intro it hit
  exact hits_atom other now p s extra it _ hs (List.mem_filter.1 hit).2

theorem select_livePg (other) (now : Int) (p : Params) (s : Stmt) (extra : Item → Bool) (hs : s.hidesExpiredPg = true) (db : Db) :
    ∀ it ∈ execSelect other now s p extra db, livePg now it = true := by
  intro it hit
  exact hits_atom other now p s extra it _ hs (List.mem_filter.1 hit).2

/-! ### The two backends' expiry conjuncts -/

/-- exactly when the two conjuncts agree on a row -/
theorem livePg_eq_live_iff (now : Int) (it : Item) :
    livePg now it = Store.live now it ↔
      match it.expiry with
      | none => True
      | some e => e ≤ now ∨ (e / 1000 > now / 1000 ∧ e / 1000 ≤ Store.maxDatetimeSec ∧ -62167219200 ≤ e / 1000) := by
  unfold livePg Store.live Store.maxDatetimeSec
  cases it.expiry with
  | none => simp
  | some e =>
    rw [Bool.eq_iff_iff]
    simp only [decide_eq_true_eq, Bool.and_eq_true]
    omega

/-- SQLite hides at least what Postgres hides -/
theorem live_imp_livePg (now : Int) (it : Item) (h : Store.live now it = true) : livePg now it = true := by
  unfold livePg; unfold Store.live at h
  cases hE : it.expiry with
  | none => rfl
  | some e =>
    simp only [hE, Bool.and_eq_true, decide_eq_true_eq] at h ⊢
    omega

theorem pg_and_sqlite_agree_within_range (now : Int) (it : Item)
    (h : ∀ e, it.expiry = some e → e % 1000 = 0 ∧ -62167219200 ≤ e / 1000 ∧ e / 1000 ≤ Store.maxDatetimeSec) :
    livePg now it = Store.live now it := by
  rw [livePg_eq_live_iff]
  cases hE : it.expiry with
  | none => trivial
  | some e =>
    have := h e hE
    simp only [Store.maxDatetimeSec] at this ⊢
    omega


/-! ### from `shapeOk` against the expected shape of either backend -/

theorem where_of_fetch {b : Backend} {s : Stmt} (h : shapeOk s b.fetchQuery = true) :
    sameSet s.whereAtoms (Expected.ident ++ [b.liveAtom]) = true := by
  cases b <;> exact shapeOk_where h

theorem where_of_count {b : Backend} {s : Stmt} (h : shapeOk s b.countQuery = true) :
    sameSet s.whereAtoms (Expected.scope ++ [b.liveAtom]) = true := by
  cases b <;> exact shapeOk_where h

theorem where_of_scan {b : Backend} {s : Stmt} (h : shapeOk s b.scanQuery = true) :
    sameSet s.whereAtoms (Expected.scope ++ [b.liveAtom]) = true := by
  cases b <;> exact shapeOk_where h

theorem cols_of_insert {b : Backend} {s : Stmt} (h : shapeOk s b.insertQuery = true) :
    s.cols = Expected.insertQuery.cols ∧ s.policy = "ignore" := by
  cases b
  · exact ⟨shapeOk_cols h, shapeOk_policy h⟩
  · exact ⟨shapeOk_cols (e := ExpectedPg.insertQuery) h, shapeOk_policy (e := ExpectedPg.insertQuery) h⟩

/-- the row-locking fetch (`FOR NO KEY UPDATE`) has the WHERE clause of the plain fetch: `lock` is no part of the meaning -/
theorem where_of_fetchUpdate {s : Stmt} (h : shapeOk s ExpectedPg.fetchQueryUpdate = true) :
    sameSet s.whereAtoms (Expected.ident ++ [Backend.postgres.liveAtom]) = true :=
  shapeOk_where h

theorem execSelect_congr (other) (now : Int) (s s' : Stmt) (h : sameSet s.whereAtoms s'.whereAtoms = true)
    (p : Params) (extra : Item → Bool) (db : Db) :
    execSelect other now s p extra db = execSelect other now s' p extra db := by
  unfold execSelect Stmt.hits
  rw [matches_congr other now p s s' h]

theorem fetch_for_update_same_rows (other) (now : Int) (s s' : Stmt)
    (h : shapeOk s ExpectedPg.fetchQueryUpdate = true) (h' : shapeOk s' ExpectedPg.fetchQuery = true)
    (p : Params) (extra : Item → Bool) (db : Db) :
    execSelect other now s p extra db = execSelect other now s' p extra db := by
  have h1 : sameSet s.whereAtoms (Expected.ident ++ [.expiryLivePg]) = true := shapeOk_where h
  have h2 : sameSet s'.whereAtoms (Expected.ident ++ [.expiryLivePg]) = true := shapeOk_where h'
  exact execSelect_congr other now s s' (sameSet_trans h1 (sameSet_symm h2)) p extra db

end Lemmas
end Askar.Sql
