/-
C15 — ECDH, ECDH-ES / ECDH-1PU and crypto_box agree on both sides and with the specs.
ONLY property theorems, one refutation with its witness, and non-vacuity examples.  Model: `Model/Ecdh.lean` (follows the
current /repo); proofs: `Lemmas/Ecdh.lean`.  Curve arithmetic, SHA-256 and the secret box are parameters (`DhOps`/`DhLaws`,
`hash` with `hlen`, `BoxOps`/`BoxLaws`); `BoxIdeal` is an idealisation and is used by `box_open_only_sealed` alone.

One full-strength statement is FALSE on the current tree and is kept visible as `TagGuardComplete : Prop`:
the explicit guard of `Ecdh1PU::derive_key_bytes` lets tags of up to 128 bytes through, but the `pub_info` stack buffer has 132 bytes
for `be32 keybits ‖ be32 |tag| ‖ tag`, i.e. room for 124 — tags of 125…128 bytes fail with `ExceededBuffer`
(→ `tag_guard_complete_refuted`, `tag_guard_partial`, `pu_tag_125_128_rejected`).  Never a panic, never an overrun (`guards_*`).

"Changing any input changes the derived key" = `kdfInput_injective_*` + collision resistance of SHA-256 (assumed, not stated);
"fails for any other key / nonce / altered ciphertext" = `box_open_only_sealed` + unforgeability (assumed); both are exercised by
the correspondence run.
-/
import AskarModel.Model.Ecdh
import AskarModel.Lemmas.Ecdh

namespace Askar.C15
open Askar.Ecdh
open Askar.Bytes (be32)

/-! ### sender and recipient derive the same key -/

/-- ECDH-ES through `derive_key_ecdh_es`: sender (ephemeral key pair, recipient's public key, `receive = false`) and recipient
    (ephemeral public key, own key pair, `receive = true`) get the same result — key or error — for every target algorithm,
    curve, key pair and identifier strings -/
theorem es_agree (D : DhOps) (L : DhLaws D) (hash : Bytes → Bytes) (t : Target) (c : Curve) (e r : Bytes)
    (he : L.valid c e) (hr : L.valid c r) (alg apu apv : Bytes) :
    deriveKeyEcdhEs D hash t (Key.full D c e) (Key.public D c r) alg apu apv false =
      deriveKeyEcdhEs D hash t (Key.public D c e) (Key.full D c r) alg apu apv true :=
  Ecdh.es_agree D L hash t c e r he hr alg apu apv

/-- ECDH-1PU through `derive_key_ecdh_1pu` -/
theorem pu_agree (D : DhOps) (L : DhLaws D) (hash : Bytes → Bytes) (t : Target) (c : Curve) (e s r : Bytes)
    (he : L.valid c e) (hs : L.valid c s) (hr : L.valid c r) (alg apu apv tag : Bytes) :
    deriveKeyEcdh1pu D hash t (Key.full D c e) (Key.full D c s) (Key.public D c r) alg apu apv tag false =
      deriveKeyEcdh1pu D hash t (Key.public D c e) (Key.public D c s) (Key.full D c r) alg apu apv tag true :=
  Ecdh.pu_agree D L hash t c e s r he hs hr alg apu apv tag

/-! ### every input matters: the hashed string determines all of them -/

/-- ECDH-ES: for shared secrets of one length and fields shorter than 2³² bytes, the string fed to SHA-256 determines
    (Z, alg, apu, apv, key length) -/
theorem kdfInput_injective_es {z z' alg alg' apu apu' apv apv' : Bytes} {n n' : Nat}
    (hz : z.length = z'.length)
    (h1 : alg.length < 2 ^ 32) (h1' : alg'.length < 2 ^ 32) (h2 : apu.length < 2 ^ 32) (h2' : apu'.length < 2 ^ 32)
    (h3 : apv.length < 2 ^ 32) (h3' : apv'.length < 2 ^ 32) (hn : n * 8 < 2 ^ 32) (hn' : n' * 8 < 2 ^ 32)
    (h : esInput z alg apu apv n = esInput z' alg' apu' apv' n') :
    z = z' ∧ alg = alg' ∧ apu = apu' ∧ apv = apv' ∧ n = n' :=
  Ecdh.esInput_injective hz h1 h1' h2 h2' h3 h3' hn hn' h

/-- ECDH-1PU: likewise (Ze, Zs, alg, apu, apv, key length, tag); the tag field is absent for the empty tag -/
theorem kdfInput_injective_1pu {ze ze' zs zs' alg alg' apu apu' apv apv' tag tag' : Bytes} {n n' : Nat}
    (hze : ze.length = ze'.length) (hzs : zs.length = zs'.length)
    (h1 : alg.length < 2 ^ 32) (h1' : alg'.length < 2 ^ 32) (h2 : apu.length < 2 ^ 32) (h2' : apu'.length < 2 ^ 32)
    (h3 : apv.length < 2 ^ 32) (h3' : apv'.length < 2 ^ 32) (h4 : tag.length < 2 ^ 32) (h4' : tag'.length < 2 ^ 32)
    (hn : n * 8 < 2 ^ 32) (hn' : n' * 8 < 2 ^ 32)
    (h : puInput ze zs alg apu apv (be32 (n * 8) ++ tagPart tag) = puInput ze' zs' alg' apu' apv' (be32 (n' * 8) ++ tagPart tag')) :
    ze = ze' ∧ zs = zs' ∧ alg = alg' ∧ apu = apu' ∧ apv = apv' ∧ n = n' ∧ tag = tag' :=
  Ecdh.puInput_injective hze hzs h1 h1' h2 h2' h3 h3' h4 h4' hn hn' h

/-- the length prefixes are what makes it so: without them `("ab","c")` and `("a","bc")` would collide; with them they do not -/
example : esInput [1] [97, 98] [99] [] 16 ≠ esInput [1] [97] [98, 99] [] 16 := by decide

/-! ### the derived key is the one the standards define -/

/-- whenever the key exchange succeeds with shared secret `z`, `EcdhEs::derive_key_bytes` returns the RFC 7518 §4.6.2 Concat-KDF
    output: leftmost `n` bytes of H(be32 1 ‖ Z ‖ AlgorithmID ‖ PartyUInfo ‖ PartyVInfo ‖ SuppPubInfo = be32 (8n) ‖ SuppPrivInfo = ∅) -/
theorem es_matches_rfc7518 (D : DhOps) (hash : Bytes → Bytes) (hlen : ∀ x, (hash x).length = 32) (eph rcp : Key)
    (alg apu apv : Bytes) (receive : Bool) (n : Nat) (hn : n ≤ 32) (z : Bytes) (hz : exchange D eph rcp receive = .ok z) :
    deriveEsBytes D hash eph rcp alg apu apv receive n = .ok (Spec.esKey hash z alg apu apv n) :=
  Ecdh.esBytes_matches D hash hlen eph rcp alg apu apv receive n hn z hz

/-- ECDH-1PU draft §2.3 (Z = Ze ‖ Zs, the non-empty tag appended to SuppPubInfo as Datalen ‖ Data), for tags of at most 124 bytes -/
theorem pu_matches_draft (D : DhOps) (hash : Bytes → Bytes) (hlen : ∀ x, (hash x).length = 32) (eph snd rcp : Key)
    (alg apu apv tag : Bytes) (receive : Bool) (n : Nat) (hn : n ≤ 32) (ht : tag.length ≤ 124) (ze zs : Bytes)
    (hze : exchange D eph rcp receive = .ok ze) (hzs : exchange D snd rcp receive = .ok zs) :
    derive1puBytes D hash eph snd rcp alg apu apv tag receive n = .ok (Spec.puKey hash ze zs alg apu apv tag n) :=
  Ecdh.puBytes_matches D hash hlen eph snd rcp alg apu apv tag receive n hn ht ze zs hze hzs

/-- on the sender's side the secret that enters is the sender's view of the exchange (the flag picks the right pair) -/
theorem es_sender_secret (D : DhOps) (c : Curve) (e r : Bytes) :
    exchange D (Key.full D c e) (Key.public D c r) false = .ok (D.dh c e (D.pub c r)) := Ecdh.exchange_full_public D c e r
theorem es_recipient_secret (D : DhOps) (c : Curve) (e r : Bytes) :
    exchange D (Key.public D c e) (Key.full D c r) true = .ok (D.dh c r (D.pub c e)) := Ecdh.exchange_public_full D c e r

/-! ### guards: which lengths are rejected, and never a panic -/

theorem guards_es_output_length (D : DhOps) (hash : Bytes → Bytes) (eph rcp : Key) (alg apu apv : Bytes) (receive : Bool) (n : Nat)
    (hn : n > 32) : deriveEsBytes D hash eph rcp alg apu apv receive n = .err .unsupported :=
  Ecdh.es_len_guard D hash eph rcp alg apu apv receive n hn

theorem guards_1pu_output_length (D : DhOps) (hash : Bytes → Bytes) (eph snd rcp : Key) (alg apu apv tag : Bytes) (receive : Bool)
    (n : Nat) (hn : n > 32) : derive1puBytes D hash eph snd rcp alg apu apv tag receive n = .err .unsupported :=
  Ecdh.pu_len_guard D hash eph snd rcp alg apu apv tag receive n hn

theorem guards_1pu_tag_length (D : DhOps) (hash : Bytes → Bytes) (eph snd rcp : Key) (alg apu apv tag : Bytes) (receive : Bool)
    (n : Nat) (ht : tag.length > 128) : derive1puBytes D hash eph snd rcp alg apu apv tag receive n = .err .unsupported :=
  Ecdh.pu_tag_guard D hash eph snd rcp alg apu apv tag receive n ht

/-- no input whatsoever — keys of any kind, identifiers and tags of any length, any requested length — reaches a slice-bounds
    panic (digest slice, `Writer` slice, `as_ref`) -/
theorem guards_es_no_panic (D : DhOps) (hash : Bytes → Bytes) (hlen : ∀ x, (hash x).length = 32) (eph rcp : Key)
    (alg apu apv : Bytes) (receive : Bool) (n : Nat) : deriveEsBytes D hash eph rcp alg apu apv receive n ≠ .panic :=
  Ecdh.deriveEsBytes_ne_panic D hash hlen eph rcp alg apu apv receive n

theorem guards_1pu_no_panic (D : DhOps) (hash : Bytes → Bytes) (hlen : ∀ x, (hash x).length = 32) (eph snd rcp : Key)
    (alg apu apv tag : Bytes) (receive : Bool) (n : Nat) :
    derive1puBytes D hash eph snd rcp alg apu apv tag receive n ≠ .panic :=
  Ecdh.derive1puBytes_ne_panic D hash hlen eph snd rcp alg apu apv tag receive n

/-- the 132-byte `pub_info` buffer is never overrun: whatever `as_ref` hands to the hash has at most 132 bytes -/
theorem guards_pub_info_bounded {n : Nat} {tag b : Bytes} (h : pubInfo1pu n tag = .ok b) : b.length ≤ 132 :=
  Ecdh.pubInfo1pu_bounded h

/-- Full strength (what the guard `cc_tag.len() > 128` announces): every tag of at most 128 bytes is accepted. -/
def TagGuardComplete : Prop :=
  ∀ (D : DhOps) (hash : Bytes → Bytes), (∀ x, (hash x).length = 32) → ∀ (c : Curve) (e s r alg apu apv tag : Bytes) (n : Nat),
    n ≤ 32 → tag.length ≤ 128 →
    ∃ k, derive1puBytes D hash (Key.full D c e) (Key.full D c s) (Key.public D c r) alg apu apv tag false n = .ok k

/-- what actually happens for 125 … 128 bytes -/
theorem pu_tag_125_128_rejected (D : DhOps) (hash : Bytes → Bytes) (hlen : ∀ x, (hash x).length = 32) (c : Curve)
    (e s r alg apu apv tag : Bytes) (n : Nat) (hn : n ≤ 32) (ht : 124 < tag.length) (ht' : tag.length ≤ 128) :
    derive1puBytes D hash (Key.full D c e) (Key.full D c s) (Key.public D c r) alg apu apv tag false n = .err .exceededBuffer :=
  Ecdh.puBytes_tag_125_128 D hash hlen _ _ _ alg apu apv tag false n hn ht ht' _ _
    (Ecdh.exchange_full_public D c e r) (Ecdh.exchange_full_public D c s r)

/-- FALSE on the current tree (witness: a 125-byte tag) -/
theorem tag_guard_complete_refuted : ¬ TagGuardComplete := by
  intro h
  obtain ⟨k, hk⟩ := h toyDh toyHash pad32_length .x25519 [1] [2] [3] [] [] [] (List.replicate 125 0) 16 (by omega) (by simp)
  rw [pu_tag_125_128_rejected toyDh toyHash pad32_length .x25519 [1] [2] [3] [] [] [] (List.replicate 125 0) 16
    (by omega) (by simp) (by simp)] at hk
  cases hk

/-- the part that holds: every tag of at most 124 bytes is accepted (and gives the draft's key, `pu_matches_draft`) -/
theorem tag_guard_partial (D : DhOps) (hash : Bytes → Bytes) (hlen : ∀ x, (hash x).length = 32) (c : Curve)
    (e s r alg apu apv tag : Bytes) (n : Nat) (hn : n ≤ 32) (ht : tag.length ≤ 124) :
    ∃ k, derive1puBytes D hash (Key.full D c e) (Key.full D c s) (Key.public D c r) alg apu apv tag false n = .ok k :=
  ⟨_, Ecdh.puBytes_matches D hash hlen _ _ _ alg apu apv tag false n hn ht _ _
    (Ecdh.exchange_full_public D c e r) (Ecdh.exchange_full_public D c s r)⟩

/-! ### crypto_box -/

/-- a box opens to the message with the right keys; it is `tag ‖ ciphertext` (tag in front), 16 bytes longer than the message -/
theorem box_roundtrip (B : BoxOps) (L : BoxLaws B) (r s m nonce : Bytes) (hn : nonce.length = 24) :
    ∃ b, envCryptoBox B (xpub B r) (xfull B s) m nonce = .ok b ∧ b.length = m.length + 16 ∧
      b = (B.sealBox (B.beforenm s (B.pub r)) nonce m).2 ++ (B.sealBox (B.beforenm s (B.pub r)) nonce m).1 ∧
      envCryptoBoxOpen B (xfull B r) (xpub B s) b nonce = .ok m :=
  Ecdh.box_roundtrip B L r s m nonce hn

/-- the layout for any sender key pair and recipient key -/
theorem box_layout (B : BoxOps) (rp ss : Key) (sk : Bytes) (hs : ss.secret = some sk) (m nonce : Bytes) (hn : nonce.length = 24) :
    cryptoBox B rp ss m nonce =
      .ok ((B.sealBox (B.beforenm sk rp.pub) nonce m).2 ++ (B.sealBox (B.beforenm sk rp.pub) nonce m).1) :=
  Ecdh.cryptoBox_eq B rp ss sk hs m nonce hn

/-- a sealed box is `epk ‖ tag ‖ ciphertext` with nonce = BLAKE2b-24(epk ‖ rpk), 48 bytes longer than the message, and opens -/
theorem seal_roundtrip (B : BoxOps) (L : BoxLaws B) (e r m : Bytes) :
    ∃ s, envCryptoBoxSeal B e (xpub B r) m = .ok s ∧ s.length = m.length + 48 ∧
      s = B.pub e ++ ((B.sealBox (B.beforenm e (B.pub r)) (sealNonce B (B.pub e) (B.pub r)) m).2 ++
                      (B.sealBox (B.beforenm e (B.pub r)) (sealNonce B (B.pub e) (B.pub r)) m).1) ∧
      envCryptoBoxSealOpen B (xfull B r) s = .ok m :=
  Ecdh.seal_roundtrip B L e r m

/-- inputs shorter than a tag / than key + tag are errors, and NO input of any length, with any keys and nonce, panics -/
theorem short_input_errors_box (B : BoxOps) (rs sp : Key) (b nonce : Bytes) (hb : b.length < 16) :
    ∃ e, cryptoBoxOpen B rs sp b nonce = .err e := Ecdh.cryptoBoxOpen_short B rs sp b nonce hb
theorem short_input_errors_seal (B : BoxOps) (rs : Key) (c : Bytes) (hc : c.length < 48) :
    cryptoBoxSealOpen B rs c = .err .encryption := Ecdh.cryptoBoxSealOpen_short B rs c hc
theorem box_open_no_panic (B : BoxOps) (rs sp : Key) (b nonce : Bytes) : cryptoBoxOpen B rs sp b nonce ≠ .panic :=
  Ecdh.cryptoBoxOpen_ne_panic B rs sp b nonce
theorem seal_open_no_panic (B : BoxOps) (rs : Key) (c : Bytes) : cryptoBoxSealOpen B rs c ≠ .panic :=
  Ecdh.cryptoBoxSealOpen_ne_panic B rs c

/-- under the idealised secret box: whatever opens is exactly `tag ‖ ciphertext` of a sealing of the result under the SAME shared
    key and nonce — so nothing else (other key, other nonce, altered bytes) opens unless it is itself such a sealing -/
theorem box_open_only_sealed (B : BoxOps) (I : BoxIdeal B) (rs sp : Key) (sk : Bytes) (hs : rs.secret = some sk)
    (b nonce m : Bytes) (h : cryptoBoxOpen B rs sp b nonce = .ok m) :
    16 ≤ b.length ∧ nonce.length = 24 ∧ B.sealBox (B.beforenm sk sp.pub) nonce m = (b.drop 16, b.take 16) :=
  Ecdh.box_open_only_sealed B I rs sp sk hs b nonce m h

/-! ### the hypotheses are satisfiable -/

example : DhLaws toyDh := toyDhLaws
example : ∀ x, (toyHash x).length = 32 := pad32_length
example : BoxLaws toyBox := toyBoxLaws
example : BoxIdeal toyBox := toyBoxIdeal
example : deriveEsBytes toyDh toyHash (Key.full toyDh .p256 [1]) (Key.public toyDh .p256 [2]) [65] [] [] false 16 =
    .ok (Spec.esKey toyHash (toyDh.dh .p256 [1] [2]) [65] [] [] 16) :=
  es_matches_rfc7518 toyDh toyHash pad32_length _ _ _ _ _ false 16 (by omega) _ (es_sender_secret toyDh .p256 [1] [2])

end Askar.C15
