//! C06S — second engine for C06: the STORE-LEVEL mutating calls of the SQLite backend under statement faults and SIGKILL.
//!
//! Calls and their internal SQL statements, in order (askar-storage/src/backend/sqlite/mod.rs, backend/mod.rs, provision.rs):
//!   create_profile       BEGIN; DELETE FROM config WHERE 0 (write lock); [0] INSERT OR IGNORE INTO profiles; COMMIT     (execute_locked)
//!   remove_profile       BEGIN; lock; [0] DELETE FROM profiles WHERE name=? (items / items_tags go by FK cascade); COMMIT   (execute_locked)
//!   set_default_profile  BEGIN; lock; [0] INSERT OR REPLACE INTO config ('default_profile', ?); COMMIT                     (execute_locked)
//!   rekey                BEGIN (sqlx Transaction guard); SELECT id, profile_key FROM profiles;
//!                        [0..n-1] UPDATE profiles SET profile_key=?1 WHERE id=?2   (ascending id: BTreeMap order)
//!                        [n] UPDATE config SET value=?1 WHERE name='key'; COMMIT; then the in-memory key cache is replaced
//!   copy_profile         source scan opened; create_profile(to) = its own transaction, [0] INSERT OR IGNORE INTO profiles (Duplicate
//!                        ignored); then ONE transaction on the target: SELECT COUNT (must be 0), per source record
//!                        INSERT OR IGNORE INTO items followed by one INSERT INTO items_tags per tag; COMMIT
//!   import_scan          the same record loop inside the caller's transaction (here: ping, import_scan, close(commit))
//!   provision(recreate)  remove_file(path); new pool (create_if_missing); ONE multi-statement text: BEGIN EXCLUSIVE; CREATE TABLE
//!                        config; INSERT config rows; CREATE TABLE profiles/items/items_tags + indexes; INSERT profiles; COMMIT
//!
//! kind "c06s": a file-backed store (WAL / journal_mode=delete, pool 1..4, key raw / kdf:argon2i:int / none) with 1–4 profiles, an
//! optional second store, and a sequence of store-level calls; one call runs under an injected fault "statement k fails" (a
//! `RAISE(ABORT)` / `RAISE(IGNORE)` trigger installed through a second raw connection), followed by ordinary use.  After EVERY call
//! the whole store is dumped through the live handle and a second OS-level connection takes the write lock; `reopen` closes and
//! reopens with the current key (the previous key and the key of a failed re-key must not open); a final reopen ends every case.
//! kind "c06s:kill": a child process performs the sequence, acknowledging each call, and is SIGKILLed at an arbitrary instant.
use crate::canon::{jerr, jvalue, sorted_tags, tags_from_json, value_from_json, Tag};
use crate::rawsql::RawDb;
use crate::rng::Rng;
use crate::store_case::scratch_dir;
use askar_storage::any::AnyBackend;
use askar_storage::backend::{copy_profile, Backend, BackendSession, ManageBackend};
use askar_storage::entry::{Entry, EntryKind, EntryOperation, EntryTag};
use askar_storage::future::block_on;
use askar_storage::{PassKey, StoreKeyMethod};
use serde_json::{json, Value};
use std::collections::BTreeMap;
use std::io::{BufRead, BufReader, Read, Write};
use std::process::{Command, Stdio};

const P0: &str = "p0";

// =============================================================================================
// keys, handles

fn method_of(k: &Value) -> StoreKeyMethod {
    let t = match k["method"].as_str().unwrap_or("raw") { "kdf" => "kdf:argon2i:int", "none" => "none", _ => "raw" };
    StoreKeyMethod::parse_uri(t).expect("key method")
}

fn passkey(k: &Value) -> PassKey<'static> {
    if k["method"] == "none" { PassKey::empty() } else { PassKey::from(k["pass"].as_str().unwrap_or("").to_string()) }
}

fn same_key(a: &Value, b: &Value) -> bool {
    a["method"] == b["method"] && (a["method"] == "none" || a["pass"] == b["pass"])
}

/// SQLITE_BUSY out of the connection-pool set-up (before any key is looked at): set-up noise, retried
fn pool_busy(e: &askar_storage::Error) -> bool {
    let t = format!("{:?}", e);
    t.contains("database is locked") && t.contains("database pool")
}

struct Sh {
    b: Option<AnyBackend>,
    path: String,
    params: String,
    pool: usize,
    key: Value,
    key_id: usize,
    exists: bool,
    /// keys that must NOT open the store at the next reopen: the key before the last successful re-key, keys of failed re-keys
    stale: Vec<(String, Value)>,
}

impl Sh {
    fn uri(&self) -> String { format!("sqlite://{}?{}", self.path, self.params) }
}

fn open_store(uri: &str, key: &Value) -> Result<AnyBackend, askar_storage::Error> {
    let mut attempt = 0u64;
    loop {
        let r = block_on(async { uri.open_backend(Some(method_of(key)), passkey(key), Some(P0.to_string())).await });
        match &r {
            Err(e) if attempt < 20 && pool_busy(e) => { attempt += 1; std::thread::sleep(std::time::Duration::from_millis(20 * attempt)); }
            _ => return r,
        }
    }
}

fn close(b: AnyBackend) { block_on(async move { b.close().await.ok(); drop(b); }); }

fn remove_files(path: &str) {
    for suffix in ["", "-wal", "-shm", "-journal"] { std::fs::remove_file(format!("{}{}", path, suffix)).ok(); }
}

fn params_of(spec: &Value) -> String {
    format!("max_connections={}&busy_timeout={}{}", spec["pool"].as_u64().unwrap_or(2), spec["busy_ms"].as_u64().unwrap_or(500),
            if spec["journal"] == "delete" { "&journal_mode=delete" } else { "" })
}

fn entry_tags(v: &Value) -> Vec<EntryTag> {
    tags_from_json(v).unwrap_or_default().iter().map(Tag::to_entry_tag).collect()
}

/// provision a fresh file store with profile p0, create the other profiles, insert the records (set-up, not under test)
fn setup_store(spec: &Value, path: String) -> Sh {
    remove_files(&path);
    let params = params_of(spec);
    let key = spec["key"].clone();
    let uri = format!("sqlite://{}?{}", path, params);
    let mut last = None;
    let mut b = None;
    for attempt in 0..20u64 {
        match block_on(async { uri.as_str().provision_backend(method_of(&key), passkey(&key), Some(P0.to_string()), true).await }) {
            Ok(x) => { b = Some(x); break; }
            Err(e) => { last = Some(e); std::thread::sleep(std::time::Duration::from_millis(20 * (attempt + 1))); }
        }
    }
    let b = b.unwrap_or_else(|| panic!("set-up: provision: {:?}", last));
    block_on(async {
        for p in spec["profiles"].as_array().cloned().unwrap_or_default() {
            let name = p["name"].as_str().unwrap_or("").to_string();
            if name != P0 { b.create_profile(Some(name.clone())).await.expect("set-up: create_profile"); }
            let recs = p["recs"].as_array().cloned().unwrap_or_default();
            if recs.is_empty() { continue; }
            let mut s = b.session(Some(name.clone()), true).expect("set-up: session");
            for x in &recs {
                let tags = entry_tags(&x["t"]);
                s.update(EntryKind::Item, EntryOperation::Insert, x["c"].as_str().unwrap_or(""), x["n"].as_str().unwrap_or(""),
                         Some(&value_from_json(&x["v"])), Some(&tags), None).await.expect("set-up: insert");
            }
            s.close(true).await.expect("set-up: commit");
        }
    });
    Sh { b: Some(b), path, params, pool: spec["pool"].as_u64().unwrap_or(2) as usize, key, key_id: 0, exists: true, stale: vec![] }
}

// =============================================================================================
// dumps

fn rec_json(e: &Entry) -> Value {
    let tags: Vec<Tag> = e.tags.iter().map(Tag::from_entry_tag).collect();
    json!({"c": e.category, "n": e.name, "v": jvalue(e.value.as_ref()), "t": sorted_tags(&tags).iter().map(Tag::to_json).collect::<Vec<_>>()})
}

fn sort_recs(mut a: Vec<Value>) -> Vec<Value> {
    a.sort_by_key(|x| (x["c"].as_str().unwrap_or("").as_bytes().to_vec(), x["n"].as_str().unwrap_or("").as_bytes().to_vec()));
    a
}

/// {"default": name, "profiles": [{"name", "recs": [..sorted by (category, name)] | {"err"}} sorted by name]}
fn dump_live(b: &AnyBackend) -> Value {
    block_on(async {
        let default = match b.get_default_profile().await { Ok(d) => json!(d), Err(e) => jerr(&e) };
        let mut names = match b.list_profiles().await { Ok(v) => v, Err(e) => return json!({"default": default, "profiles": jerr(&e)}) };
        names.sort_by(|a, b| a.as_bytes().cmp(b.as_bytes()));
        let mut profiles = vec![];
        for n in names {
            let recs: Result<Vec<Value>, askar_storage::Error> = async {
                let mut scan = b.scan(Some(n.clone()), None, None, None, None, None, None, false).await?;
                let mut all = vec![];
                while let Some(rows) = scan.fetch_next().await? { all.extend(rows.iter().map(rec_json)); }
                Ok(all)
            }.await;
            profiles.push(json!({"name": n, "recs": match recs { Ok(v) => Value::Array(sort_recs(v)), Err(e) => jerr(&e) }}));
        }
        json!({"default": default, "profiles": profiles})
    })
}

// =============================================================================================
// the reference: what each call does when it takes complete effect (the property's reading; no statements, no keys' internals)

#[derive(Clone, Debug, PartialEq)]
struct RefSt {
    exists: bool,
    default: String,
    key_id: usize,
    profiles: BTreeMap<String, BTreeMap<(String, String), Value>>,
}

fn spec_rec(x: &Value) -> Value {
    let tags = tags_from_json(&x["t"]).unwrap_or_default();
    json!({"c": x["c"], "n": x["n"], "v": jvalue(&value_from_json(&x["v"])), "t": sorted_tags(&tags).iter().map(Tag::to_json).collect::<Vec<_>>()})
}

fn rec_key(x: &Value) -> (String, String) { (x["c"].as_str().unwrap_or("").to_string(), x["n"].as_str().unwrap_or("").to_string()) }

impl RefSt {
    fn from_spec(spec: &Value) -> RefSt {
        let mut profiles = BTreeMap::new();
        profiles.insert(P0.to_string(), BTreeMap::new());
        for p in spec["profiles"].as_array().cloned().unwrap_or_default() {
            let m: BTreeMap<(String, String), Value> = p["recs"].as_array().cloned().unwrap_or_default().iter().map(|x| (rec_key(x), spec_rec(x))).collect();
            profiles.insert(p["name"].as_str().unwrap_or("").to_string(), m);
        }
        RefSt { exists: true, default: P0.to_string(), key_id: 0, profiles }
    }
    fn dump(&self) -> Value {
        if !self.exists { return Value::Null; }
        let mut names: Vec<&String> = self.profiles.keys().collect();
        names.sort_by(|a, b| a.as_bytes().cmp(b.as_bytes()));
        let ps: Vec<Value> = names.iter().map(|n| json!({"name": n, "recs": sort_recs(self.profiles[*n].values().cloned().collect())})).collect();
        json!({"default": self.default, "profiles": ps})
    }
}

fn probe_recs(pool: usize, tag: &str) -> Vec<Value> {
    let mut v: Vec<Value> = (0..=pool).map(|i| json!({"c": "probe", "n": format!("{}-s{}", tag, i), "v": "01", "t": [[0, "i", i.to_string()]]})).collect();
    for i in 0..2 { v.push(json!({"c": "probe", "n": format!("{}-t{}", tag, i), "v": "02", "t": []})); }
    v
}

fn st_of(op: &Value) -> usize { op["st"].as_u64().unwrap_or(0) as usize }
fn from_st_of(op: &Value) -> usize { op["from_st"].as_u64().unwrap_or(0) as usize }
fn sname(op: &Value, k: &str) -> String { op[k].as_str().unwrap_or("").to_string() }
fn bad_key(k: &Value) -> bool { k["method"] == "raw" && bs58::decode(k["pass"].as_str().unwrap_or("")).into_vec().map_or(true, |v| v.len() != 32) }

/// complete effect of a fault-free call: (result, states after the call's intermediate commit points — the last one is the final state)
fn ref_step(refs: &[RefSt], pools: &[usize], i: usize, op: &Value) -> (Value, Vec<Vec<RefSt>>) {
    let st = st_of(op);
    let mut out = refs.to_vec();
    let name = sname(op, "op");
    if st >= refs.len() { return (json!({"err": "NoStore"}), vec![out]); }
    if !refs[st].exists && name != "provision_recreate" { return (json!({"err": "NoStore"}), vec![out]); }
    let r = &mut out[st];
    match name.as_str() {
        "create_profile" => {
            let n = sname(op, "name");
            if r.profiles.contains_key(&n) { return (json!({"err": "Duplicate"}), vec![refs.to_vec()]); }
            r.profiles.insert(n.clone(), BTreeMap::new());
            (json!({"name": n}), vec![out])
        }
        "remove_profile" => { let ex = r.profiles.remove(&sname(op, "name")).is_some(); (json!({"removed": ex}), vec![out]) }
        "set_default" => { r.default = sname(op, "name"); (json!("ok"), vec![out]) }
        "rekey" => {
            if op["method"] == "raw" && op["pass"].as_str().unwrap_or("").is_empty() { return (json!({"err": "Input"}), vec![refs.to_vec()]); }
            if bad_key(op) { return (json!({"err": "Input"}), vec![refs.to_vec()]); }
            r.key_id = i + 1;
            (json!("ok"), vec![out])
        }
        "copy_profile" | "import" => {
            let fs = from_st_of(op);
            let (from, to) = (sname(op, "from"), sname(op, "to"));
            let src = match refs.get(fs).filter(|s| s.exists).and_then(|s| s.profiles.get(&from)) { Some(m) => m.clone(), None => return (json!({"err": "NotFound"}), vec![refs.to_vec()]) };
            if name == "copy_profile" {
                let mut mids = vec![];
                if !r.profiles.contains_key(&to) { r.profiles.insert(to.clone(), BTreeMap::new()); mids.push(out.clone()); }
                let r = &mut out[st];
                if !r.profiles[&to].is_empty() { return (json!({"err": "Input"}), vec![refs.to_vec()]); }
                r.profiles.insert(to, src);
                mids.push(out);
                (json!("ok"), mids)
            } else {
                let dst = match r.profiles.get_mut(&to) { Some(m) => m, None => return (json!({"err": "NotFound"}), vec![refs.to_vec()]) };
                if src.keys().any(|k| dst.contains_key(k)) { return (json!({"err": "Duplicate"}), vec![refs.to_vec()]); }
                dst.extend(src);
                (json!("ok"), vec![out])
            }
        }
        "probe" => {
            let tag = sname(op, "tag");
            match r.profiles.get_mut(P0) {
                None => (json!({"err": "NotFound"}), vec![refs.to_vec()]),
                Some(m) => {
                    let recs = probe_recs(pools[st], &tag);
                    if recs.iter().any(|x| m.contains_key(&rec_key(x))) { return (json!({"err": "Duplicate"}), vec![refs.to_vec()]); }
                    // pool_size + 1 single writes, each its own transaction, then one transaction with the last two records
                    let mut mids = vec![];
                    for (j, x) in recs.iter().enumerate() {
                        out[st].profiles.get_mut(P0).unwrap().insert(rec_key(x), spec_rec(x));
                        if j <= pools[st] { mids.push(out.clone()); }
                    }
                    if mids.last() != Some(&out) { mids.push(out); }
                    (json!("ok"), mids)
                }
            }
        }
        "reopen" => (json!("ok"), vec![out]),
        "provision_recreate" => {
            // the file is removed first; then the new store is created in one transaction
            let mut gone = refs.to_vec();
            gone[st] = RefSt { exists: false, default: String::new(), key_id: refs[st].key_id, profiles: BTreeMap::new() };
            if bad_key(op) || (op["method"] == "kdf" && op["pass"].is_null()) { return (json!({"err": "Input"}), vec![gone]); }
            let mut profiles = BTreeMap::new();
            profiles.insert(P0.to_string(), BTreeMap::new());
            out[st] = RefSt { exists: true, default: P0.to_string(), key_id: i + 1, profiles };
            (json!("ok"), vec![gone, out])
        }
        _ => (json!({"err": "BadOp"}), vec![refs.to_vec()]),
    }
}

/// does the injected fault reach a statement of this call (judged from the reference state before the call)?
fn fault_fires(refs: &[RefSt], op: &Value) -> bool {
    let st = st_of(op);
    let f = &op["fault"];
    let r = match refs.get(st).filter(|r| r.exists) { Some(r) => r, None => return false };
    let k = f["k"].as_u64().unwrap_or(0) as usize;
    let name = sname(op, "op");
    let src = || refs.get(from_st_of(op)).filter(|s| s.exists).and_then(|s| s.profiles.get(&sname(op, "from")));
    let ntags = |m: &BTreeMap<(String, String), Value>| m.values().map(|x| x["t"].as_array().map_or(0, |a| a.len())).sum::<usize>();
    match (name.as_str(), f["at"].as_str().unwrap_or("")) {
        ("create_profile", "profile_insert") => true,
        ("remove_profile", "profile_delete") => r.profiles.contains_key(&sname(op, "name")),
        ("remove_profile", "cascade") => r.profiles.get(&sname(op, "name")).map_or(false, |m| !m.is_empty()),
        ("set_default", "config") => true,
        ("rekey", "upd") => !bad_key(op) && k < r.profiles.len(),
        ("rekey", "config") => !bad_key(op),
        ("copy_profile", "profile_insert") => src().is_some(),
        ("copy_profile", at @ ("item" | "tag")) => match src() {
            None => false,
            Some(m) => r.profiles.get(&sname(op, "to")).map_or(true, |t| t.is_empty()) && k < if at == "item" { m.len() } else { ntags(m) },
        },
        ("import", at @ ("item" | "tag")) => match (src(), r.profiles.get(&sname(op, "to"))) {
            (Some(m), Some(t)) => !m.keys().any(|x| t.contains_key(x)) && k < if at == "item" { m.len() } else { ntags(m) },
            _ => false,
        },
        _ => false,
    }
}

fn fault_desc(f: &Value) -> String {
    let at = f["at"].as_str().unwrap_or("?");
    let how = if f["how"] == "ignore" { "~ignore" } else { "" };
    match f["k"].as_u64() { Some(k) => format!("{}{}{}", at, k, how), None => format!("{}{}", at, how) }
}

fn fault_sql(f: &Value, base_items: i64, base_tags: i64) -> Vec<String> {
    let raise = if f["how"] == "ignore" { "RAISE(IGNORE)" } else { "RAISE(ABORT, 'verif fault')" };
    let body = format!("BEGIN SELECT {}; END", raise);
    let k = f["k"].as_i64().unwrap_or(0);
    match f["at"].as_str().unwrap_or("") {
        "profile_insert" => vec![format!("CREATE TRIGGER verif_fault BEFORE INSERT ON profiles {}", body)],
        "profile_delete" => vec![format!("CREATE TRIGGER verif_fault BEFORE DELETE ON profiles {}", body)],
        "cascade" => vec![format!("CREATE TRIGGER verif_fault BEFORE DELETE ON items {}", body)],
        "config" => vec![format!("CREATE TRIGGER verif_fault BEFORE INSERT ON config {}", body),
                         format!("CREATE TRIGGER verif_fault2 BEFORE UPDATE ON config {}", body)],
        // the k-th UPDATE of a re-key: the code updates in ascending profile id
        "upd" => vec![format!("CREATE TRIGGER verif_fault BEFORE UPDATE ON profiles WHEN (SELECT COUNT(*) FROM profiles WHERE id < NEW.id) = {} {}", k, body)],
        "item" => vec![format!("CREATE TRIGGER verif_fault BEFORE INSERT ON items WHEN (SELECT COUNT(*) FROM items) = {} {}", base_items + k, body)],
        "tag" => vec![format!("CREATE TRIGGER verif_fault BEFORE INSERT ON items_tags WHEN (SELECT COUNT(*) FROM items_tags) = {} {}", base_tags + k, body)],
        _ => vec![],
    }
}

// =============================================================================================
// execution of one call on the real code

struct Run {
    stores: Vec<Sh>,
    oracle: Vec<Value>,
    feat: BTreeMap<String, u64>,
    /// the last faulted call that failed, e.g. "rekey:fault@upd1": context of every later usability failure
    ctx: String,
    diag: Vec<String>,
}

fn bump(f: &mut BTreeMap<String, u64>, k: &str) { *f.entry(k.to_string()).or_insert(0) += 1; }

impl Run {
    fn fail(&mut self, sig: String, detail: Value) {
        let mut o = json!({"sig": sig});
        if let (Some(m), Some(d)) = (o.as_object_mut(), detail.as_object()) { for (k, v) in d { m.insert(k.clone(), v.clone()); } }
        self.oracle.push(o);
    }

    fn jerr(&mut self, e: &askar_storage::Error) -> Value {
        self.diag.push(format!("{:?}", e).chars().take(300).collect());
        jerr(e)
    }

    /// pool_size + 1 writes on different sessions (pool_size of them held open together), then a committed transaction
    fn probe(&mut self, st: usize, tag: &str) -> Result<(), (String, askar_storage::Error)> {
        let pool = self.stores[st].pool;
        let b = self.stores[st].b.clone().expect("handle");
        let recs = probe_recs(pool, tag);
        let r = block_on(async {
            let mut held: Vec<askar_storage::any::AnyBackendSession> = vec![];
            let mut res = Ok(());
            for i in 0..=pool {
                if i == pool { for mut s in held.drain(..) { s.close(false).await.ok(); } }
                let x = &recs[i];
                match b.session(Some(P0.to_string()), false) {
                    Err(e) => { res = Err((format!("session-{}", i), e)); break; }
                    Ok(mut s) => {
                        let tags = entry_tags(&x["t"]);
                        let r = s.update(EntryKind::Item, EntryOperation::Insert, "probe", x["n"].as_str().unwrap(), Some(&value_from_json(&x["v"])), Some(&tags), None).await;
                        held.push(s);
                        if let Err(e) = r { res = Err((format!("write-on-session-{}", i), e)); break; }
                    }
                }
            }
            for mut s in held.drain(..) { s.close(false).await.ok(); }
            if res.is_ok() {
                res = async {
                    let mut t = b.session(Some(P0.to_string()), true).map_err(|e| ("txn-session".to_string(), e))?;
                    for x in &recs[pool + 1..] {
                        if let Err(e) = t.update(EntryKind::Item, EntryOperation::Insert, "probe", x["n"].as_str().unwrap(), Some(&value_from_json(&x["v"])), None, None).await {
                            t.close(false).await.ok();
                            return Err(("txn-write".to_string(), e));
                        }
                    }
                    t.close(true).await.map_err(|e| ("txn-commit".to_string(), e))
                }.await;
            }
            res
        });
        drop(b);
        r
    }

    fn reopen(&mut self, st: usize) -> Value {
        if let Some(b) = self.stores[st].b.take() { close(b); }
        let uri = self.stores[st].uri();
        let key = self.stores[st].key.clone();
        let stale: Vec<(String, Value)> = self.stores[st].stale.drain(..).collect();
        for (what, k) in stale {
            if same_key(&k, &key) { continue; }
            bump(&mut self.feat, &format!("reopen:stale-key-tried:{}", what));
            if let Ok(b) = open_store(&uri, &k) {
                close(b);
                self.fail(format!("reopen:{}-opens", what), json!({"key_method": k["method"]}));
            }
        }
        match open_store(&uri, &key) {
            Ok(b) => { self.stores[st].b = Some(b); json!("ok") }
            Err(e) => {
                let ctx = if self.ctx.is_empty() { "nofault".to_string() } else { self.ctx.clone() };
                self.fail(format!("{}:reopen:current-key-rejected", ctx), json!({"err": format!("{:?}", e)}));
                self.jerr(&e)
            }
        }
    }

    fn exec_op(&mut self, i: usize, op: &Value) -> Value {
        let st = st_of(op);
        let name = sname(op, "op");
        if st >= self.stores.len() { return json!({"err": "NoStore"}); }
        if name == "provision_recreate" {
            if let Some(b) = self.stores[st].b.take() { close(b); }
            let uri = self.stores[st].uri();
            let key = json!({"method": op["method"], "pass": op["pass"]});
            let mut attempt = 0u64;
            let r = loop {
                let r = block_on(async { uri.as_str().provision_backend(method_of(&key), if key["pass"].is_null() { PassKey::empty() } else { passkey(&key) }, Some(P0.to_string()), true).await });
                match &r {
                    // set-up noise of the fresh pool, as in C08 / C18: SQLITE_BUSY while its first connections switch the journal mode,
                    // or SQLITE_IOERR_DELETE_NOENT while they race to delete the previous store's `-wal` file (provisioning removes
                    // the main file only) — "Error creating database pool"; a recreating provision is simply repeated
                    Err(e) if attempt < 20 && format!("{:?}", e).contains("database pool") => {
                        attempt += 1;
                        bump(&mut self.feat, "provision:pool-setup-retry");
                        self.diag.push(format!("retry after {:?}", e).chars().take(300).collect());
                        std::thread::sleep(std::time::Duration::from_millis(20 * attempt));
                    }
                    _ => break r,
                }
            };
            return match r {
                Ok(b) => {
                    let old = std::mem::replace(&mut self.stores[st].key, key);
                    self.stores[st].stale = vec![("old-key".to_string(), old)];
                    self.stores[st].key_id = i + 1;
                    self.stores[st].exists = true;
                    self.stores[st].b = Some(b);
                    json!("ok")
                }
                Err(e) => { self.stores[st].exists = false; self.jerr(&e) }
            };
        }
        if !self.stores[st].exists || self.stores[st].b.is_none() { return json!({"err": "NoStore"}); }
        match name.as_str() {
            "create_profile" => {
                let b = self.stores[st].b.clone().unwrap();
                match block_on(async { b.create_profile(Some(sname(op, "name"))).await }) { Ok(n) => json!({"name": n}), Err(e) => self.jerr(&e) }
            }
            "remove_profile" => {
                let b = self.stores[st].b.clone().unwrap();
                match block_on(async { b.remove_profile(sname(op, "name")).await }) { Ok(r) => json!({"removed": r}), Err(e) => self.jerr(&e) }
            }
            "set_default" => {
                let b = self.stores[st].b.clone().unwrap();
                match block_on(async { b.set_default_profile(sname(op, "name")).await }) { Ok(()) => json!("ok"), Err(e) => self.jerr(&e) }
            }
            "rekey" => {
                let key = json!({"method": op["method"], "pass": op["pass"]});
                let (m, p) = (method_of(&key), passkey(&key));
                let r = { let bk = self.stores[st].b.as_mut().unwrap(); block_on(async { bk.rekey(m, p).await }) };
                match r {
                    Ok(()) => {
                        let old = std::mem::replace(&mut self.stores[st].key, key);
                        self.stores[st].stale.push(("old-key".to_string(), old));
                        self.stores[st].key_id = i + 1;
                        json!("ok")
                    }
                    Err(e) => { self.stores[st].stale.push(("failed-rekey-key".to_string(), key)); self.jerr(&e) }
                }
            }
            "copy_profile" | "import" => {
                let fs = from_st_of(op);
                let src = match self.stores.get(fs).and_then(|s| s.b.clone()) { Some(b) => b, None => return json!({"err": "NotFound"}) };
                let dst = self.stores[st].b.clone().unwrap();
                let (from, to) = (sname(op, "from"), sname(op, "to"));
                let r = if name == "copy_profile" {
                    block_on(async { copy_profile(&src, &dst, &from, &to).await })
                } else {
                    block_on(async {
                        let scan = src.scan(Some(from), None, None, None, None, None, None, false).await?;
                        let mut txn = dst.session(Some(to), true)?;
                        let r = async { txn.ping().await?; txn.import_scan(scan).await?; txn.close(true).await }.await;
                        if r.is_err() { txn.close(false).await.ok(); }
                        r
                    })
                };
                drop(src); drop(dst);
                match r { Ok(()) => json!("ok"), Err(e) => self.jerr(&e) }
            }
            "probe" => match self.probe(st, &sname(op, "tag")) {
                Ok(()) => json!("ok"),
                Err((what, e)) => {
                    let ctx = if self.ctx.is_empty() { "nofault".to_string() } else { self.ctx.clone() };
                    self.fail(format!("{}:store-not-usable:{}", ctx, what), json!({"err": format!("{:?}", e).chars().take(300).collect::<String>()}));
                    self.jerr(&e)
                }
            },
            "reopen" => self.reopen(st),
            _ => json!({"err": "BadOp"}),
        }
    }

    fn dump_all(&self) -> Value {
        Value::Array(self.stores.iter().map(|s| match (&s.b, s.exists) { (Some(b), true) => dump_live(b), _ => Value::Null }).collect())
    }

    /// a second OS-level connection must be able to take the write lock while the handle is idle
    fn lock_check(&mut self, st: usize) -> bool {
        if !self.stores[st].exists { return true; }
        let raw = match RawDb::open(&self.stores[st].path) { Ok(r) => r, Err(_) => return true };
        raw.exec("PRAGMA busy_timeout=1500").ok();
        match raw.exec("BEGIN IMMEDIATE") {
            Ok(()) => { raw.exec("ROLLBACK").ok(); true }
            Err(e) => {
                let ctx = if self.ctx.is_empty() { "nofault".to_string() } else { self.ctx.clone() };
                self.fail(format!("{}:store-not-usable:write-lock-held", ctx), json!({"err": e}));
                false
            }
        }
    }

    fn close_all(&mut self) {
        for s in self.stores.iter_mut() { if let Some(b) = s.b.take() { close(b); } }
    }
}

fn paths(tag: &str, n: usize) -> Vec<String> {
    (0..n).map(|i| format!("{}/c06s-{}-{}.db", scratch_dir(), i, tag)).collect()
}

fn setup(case: &Value, tag: &str) -> (Run, Vec<RefSt>) {
    let mut specs = vec![case.clone()];
    if !case["other"].is_null() { specs.push(case["other"].clone()); }
    let ps = paths(tag, specs.len());
    let stores: Vec<Sh> = specs.iter().zip(ps).map(|(s, p)| setup_store(s, p)).collect();
    let refs = specs.iter().map(RefSt::from_spec).collect();
    (Run { stores, oracle: vec![], feat: BTreeMap::new(), ctx: String::new(), diag: vec![] }, refs)
}

fn missing_from(want: &Value, got: &Value) -> bool {
    // some profile or record of `want` is absent from `got`
    let gp: BTreeMap<String, Vec<Value>> = got["profiles"].as_array().cloned().unwrap_or_default().iter()
        .map(|p| (p["name"].as_str().unwrap_or("").to_string(), p["recs"].as_array().cloned().unwrap_or_default())).collect();
    want["profiles"].as_array().cloned().unwrap_or_default().iter().any(|p| match gp.get(p["name"].as_str().unwrap_or("")) {
        None => true,
        Some(rs) => p["recs"].as_array().cloned().unwrap_or_default().iter().any(|x| !rs.contains(x)),
    })
}

pub fn exec(case: &Value, tag: &str) -> Value {
    if case["kind"] == "c06s:kill" { return exec_kill(case, tag); }
    let (mut run, mut refs) = setup(case, tag);
    let pools: Vec<usize> = run.stores.iter().map(|s| s.pool).collect();
    let ops = case["ops"].as_array().cloned().unwrap_or_default();
    bump(&mut run.feat, &format!("journal:{}", case["journal"].as_str().unwrap_or("wal")));
    bump(&mut run.feat, &format!("pool:{}", pools[0]));
    bump(&mut run.feat, &format!("method:{}", case["key"]["method"].as_str().unwrap_or("?")));
    bump(&mut run.feat, &format!("profiles:{}", refs[0].profiles.len()));
    let mut steps = vec![];
    let mut last = run.dump_all();
    let want0 = Value::Array(refs.iter().map(RefSt::dump).collect());
    if last != want0 { run.fail("setup:dump-differs-from-spec".into(), json!({"got": last, "want": want0})); }
    let mut aborted = false;
    for (i, op) in ops.iter().enumerate() {
        let st = st_of(op);
        let name = sname(op, "op");
        bump(&mut run.feat, &format!("call:{}", name));
        let fault = op.get("fault").filter(|f| !f.is_null()).cloned();
        let mut installed = false;
        if let (Some(f), Some(sh)) = (&fault, run.stores.get(st)) {
            if sh.exists {
                let raw = RawDb::open(&sh.path).expect("raw open");
                let cnt = |sql: &str| raw.query(sql, &[]).map(|r| r[0][0].as_int()).unwrap_or(0);
                let (bi, bt) = (cnt("SELECT COUNT(*) FROM items"), cnt("SELECT COUNT(*) FROM items_tags"));
                for sql in fault_sql(f, bi, bt) { raw.exec(&sql).expect("install fault trigger"); }
                installed = true;
            }
        }
        let mut res = run.exec_op(i, op);
        // A re-key takes its write lock by upgrading a deferred read transaction: SQLite answers SQLITE_BUSY at once (no busy
        // wait) when any other connection holds the write lock — e.g. the pool's own background connection set-up, whose
        // `PRAGMA auto_vacuum` runs in a write transaction.  The call fails cleanly; ordinary use retries it.  (Recorded, and
        // the failed attempt must have changed nothing.)
        let mut tries = 0;
        while name == "rekey" && fault.is_none() && tries < 5 && res.get("err").is_some() && run.diag.last().map_or(false, |d| d.contains("database is locked")) {
            tries += 1;
            bump(&mut run.feat, "rekey:lost-write-lock-race:retried");
            let d = run.dump_all();
            if d != last { run.fail("rekey:busy:state-differs".into(), json!({"i": i, "dump": d, "before": last})); }
            std::thread::sleep(std::time::Duration::from_millis(20));
            res = run.exec_op(i, op);
        }
        if let (Some(f), true) = (&fault, res.get("err").is_some()) { if installed { run.ctx = format!("{}:fault@{}", name, fault_desc(f)); } }
        let mut lock_ok = true;
        if st < run.stores.len() { lock_ok = run.lock_check(st); }
        if installed && lock_ok {
            let raw = RawDb::open(&run.stores[st].path).expect("raw open");
            raw.exec("DROP TRIGGER IF EXISTS verif_fault; DROP TRIGGER IF EXISTS verif_fault2").expect("remove fault trigger");
        }
        let dump = run.dump_all();

        // ---- the property, judged from the reference and from the dump before the call
        let is_err = res.get("err").is_some();
        let (exp_res, mids) = ref_step(&refs, &pools, i, op);
        let complete = mids.last().unwrap().clone();
        let complete_dump = Value::Array(complete.iter().map(RefSt::dump).collect());
        match &fault {
            Some(f) if fault_fires(&refs, op) => {
                let fd = fault_desc(f);
                bump(&mut run.feat, &format!("fault:{}@{}", name, f["at"].as_str().unwrap_or("?")));
                // (a) the call must report an error; (b) the store shows none of it.  For copy_profile the creation of the target
                // profile is a call of its own (complete or not); the import is the unit that must be all-or-nothing.
                let mut allowed = vec![last.clone()];
                if name == "copy_profile" && f["at"] != "profile_insert" { for m in &mids[..mids.len() - 1] { allowed.push(Value::Array(m.iter().map(RefSt::dump).collect())); } }
                if !is_err {
                    let sig = if dump == complete_dump { format!("{}:fault@{}:not-reached", name, fd) } else { format!("{}:fault@{}:partial:reported-ok", name, fd) };
                    run.fail(sig, json!({"i": i, "res": res, "dump": dump, "before": last}));
                    refs = complete;
                } else {
                    bump(&mut run.feat, "fault:fired");
                    if f["how"] == "ignore" { bump(&mut run.feat, "fault:fired:ignore"); }
                    run.ctx = format!("{}:fault@{}", name, fd);
                    match allowed.iter().position(|a| *a == dump) {
                        Some(0) => {}
                        Some(k) => { bump(&mut run.feat, "copy:profile-created-import-rolled-back"); refs = mids[k - 1].clone(); }
                        None => {
                            let sig = if dump == complete_dump { format!("{}:fault@{}:err-but-applied", name, fd) } else { format!("{}:fault@{}:state-differs", name, fd) };
                            run.fail(sig, json!({"i": i, "res": res, "dump": dump, "before": last}));
                        }
                    }
                }
            }
            _ => {
                if fault.is_some() { bump(&mut run.feat, "fault:beyond-last-statement"); }
                if exp_res != res {
                    let short = |v: &Value| v.get("err").map_or("ok".to_string(), |e| format!("err:{}", e.as_str().unwrap_or("?")));
                    let sig = if !run.ctx.is_empty() && exp_res.get("err").is_none() && is_err { format!("{}:store-not-usable:{}", run.ctx, name) }
                              else { format!("{}:result-differs:{}->{}", name, short(&exp_res), short(&res)) };
                    if name != "probe" && name != "reopen" || !is_err { run.fail(sig, json!({"i": i, "expected": exp_res, "res": res})); }
                }
                if is_err && exp_res.get("err").is_some() && name != "provision_recreate" {
                    // a refused call changes nothing
                    if dump != last { run.fail(format!("{}:refused-but-state-changed", name), json!({"i": i, "res": res, "dump": dump, "before": last})); }
                } else if dump != complete_dump {
                    let lost = (0..complete.len()).any(|s| missing_from(&complete[s].dump(), &dump[s]));
                    let ctx = if run.ctx.is_empty() { name.clone() } else { format!("{}:then:{}", run.ctx, name) };
                    run.fail(format!("{}:{}", ctx, if name == "reopen" && lost { "acknowledged-lost" } else { "state-differs" }), json!({"i": i, "res": res, "dump": dump, "want": complete_dump}));
                }
                if exp_res == res { refs = complete; } else if !is_err { refs = complete; }
            }
        }
        steps.push(json!({"r": res, "dump": dump}));
        last = dump;
        if !lock_ok || (name == "reopen" && is_err) { aborted = true; break; }
    }
    // durability of everything acknowledged: close, reopen with the current key, dump
    let mut fin = vec![];
    if !aborted {
        let before = last.clone();
        for st in 0..run.stores.len() {
            if run.stores[st].exists { run.reopen(st); }
        }
        let d = run.dump_all();
        if d != before {
            let lost = (0..run.stores.len()).any(|s| missing_from(&before[s], &d[s]));
            let ctx = if run.ctx.is_empty() { "final".to_string() } else { format!("{}:then:final-reopen", run.ctx) };
            run.fail(format!("{}:{}", ctx, if lost { "acknowledged-lost" } else { "state-differs" }), json!({"dump": d, "before": before}));
        }
        fin.push(d);
    }
    run.close_all();
    for s in &run.stores { remove_files(&s.path); }
    json!({"out": {"steps": steps, "final": fin}, "oracle": run.oracle, "feat": run.feat, "diag": run.diag})
}

// =============================================================================================
// SIGKILL variant

/// `askar_harness child-c06s <case file> <tag>`: opens the prepared stores, runs the calls, acknowledges each
pub fn child_main(args: &[String]) {
    let case: Value = serde_json::from_str(&std::fs::read_to_string(&args[0]).expect("case file")).expect("case json");
    let mut specs = vec![case.clone()];
    if !case["other"].is_null() { specs.push(case["other"].clone()); }
    let ps: Vec<String> = args[1..].to_vec();
    let stores: Vec<Sh> = specs.iter().zip(ps).map(|(s, p)| {
        let params = params_of(s);
        let key = s["key"].clone();
        let b = open_store(&format!("sqlite://{}?{}", p, params), &key).expect("child open");
        Sh { b: Some(b), path: p, params, pool: s["pool"].as_u64().unwrap_or(2) as usize, key, key_id: 0, exists: true, stale: vec![] }
    }).collect();
    let mut run = Run { stores, oracle: vec![], feat: BTreeMap::new(), ctx: String::new(), diag: vec![] };
    let out = std::io::stdout();
    { let mut w = out.lock(); writeln!(w, "ready").ok(); w.flush().ok(); }
    for (i, op) in case["ops"].as_array().cloned().unwrap_or_default().iter().enumerate() {
        let res = run.exec_op(i, op);
        let mut w = out.lock();
        for d in run.diag.drain(..) { writeln!(w, "diag {} {}", i, d.replace('\n', " ")).ok(); }
        writeln!(w, "ack {} {}", i, res).ok();
        w.flush().ok();
    }
    // keep running so that the kill always hits a live process
    std::thread::sleep(std::time::Duration::from_secs(30));
}

fn exec_kill(case: &Value, tag: &str) -> Value {
    let (mut run, refs0) = setup(case, tag);
    let pools: Vec<usize> = run.stores.iter().map(|s| s.pool).collect();
    run.close_all();
    let ops = case["ops"].as_array().cloned().unwrap_or_default();
    let case_file = format!("{}.case.json", run.stores[0].path);
    std::fs::write(&case_file, serde_json::to_string(case).unwrap()).unwrap();
    let mut args = vec!["child-c06s".to_string(), case_file.clone()];
    args.extend(run.stores.iter().map(|s| s.path.clone()));
    let mut child = Command::new(std::env::current_exe().unwrap()).args(&args).stdout(Stdio::piped()).stderr(Stdio::null()).spawn().expect("spawn child");
    let mut reader = BufReader::new(child.stdout.take().unwrap());
    let want = case["kill_after_acks"].as_u64().unwrap_or(0) as usize;
    let mut acks: Vec<String> = vec![];
    let mut line = String::new();
    let mut ready = false;
    while !ready || acks.len() < want {
        line.clear();
        match reader.read_line(&mut line) {
            Ok(0) | Err(_) => break,
            Ok(_) => { if line.starts_with("ready") { ready = true; } else if line.starts_with("ack ") { acks.push(line.trim().to_string()); } else if line.starts_with("diag ") { run.diag.push(line.trim().to_string()); } }
        }
    }
    std::thread::sleep(std::time::Duration::from_micros(case["delay_us"].as_u64().unwrap_or(0)));
    child.kill().ok(); // SIGKILL
    child.wait().ok();
    let mut rest = String::new();
    reader.read_to_string(&mut rest).ok();
    acks.extend(rest.lines().filter(|l| l.starts_with("ack ")).map(|l| l.trim().to_string()));
    run.diag.extend(rest.lines().filter(|l| l.starts_with("diag ")).map(|l| l.trim().to_string()));
    std::fs::remove_file(&case_file).ok();
    let acked = acks.len().min(ops.len());

    // reference states after every prefix, with the intermediate commit points of each call; key table
    let mut keys: Vec<Vec<Value>> = run.stores.iter().map(|s| vec![s.key.clone()]).collect(); // per store: key by id (sparse ids: filled below)
    let mut states = vec![refs0.clone()];
    let mut mids_of: Vec<Vec<Vec<RefSt>>> = vec![];
    let mut exp: Vec<Value> = vec![];
    let ack_res: Vec<Value> = acks.iter().take(acked).map(|a| a.splitn(3, ' ').nth(2).and_then(|t| serde_json::from_str(t).ok()).unwrap_or(Value::Null)).collect();
    let mut failed: Vec<usize> = vec![];
    for (i, op) in ops.iter().enumerate() {
        let (r, mids) = ref_step(states.last().unwrap(), &pools, i, op);
        for k in keys.iter_mut() { while k.len() <= i + 1 { k.push(Value::Null); } }
        // an acknowledged re-key that lost the race for the write lock (SQLITE_BUSY on the upgrade of its deferred transaction,
        // see `exec`) is a failed call: nothing happened, and the dump below still has to show exactly that
        let busy = i < acked && r.get("err").is_none() && ack_res[i].get("err").is_some() && op["op"] == "rekey"
            && run.diag.iter().any(|d| d.starts_with(&format!("diag {} ", i)) && d.contains("database is locked"));
        if busy {
            bump(&mut run.feat, "kill:acked-rekey-lost-write-lock-race");
            failed.push(i);
            let prev = states.last().unwrap().clone();
            states.push(prev.clone());
            mids_of.push(vec![prev]);
            exp.push(ack_res[i].clone());
            continue;
        }
        if matches!(op["op"].as_str(), Some("rekey") | Some("provision_recreate")) && st_of(op) < keys.len() { keys[st_of(op)][i + 1] = json!({"method": op["method"], "pass": op["pass"]}); }
        states.push(mids.last().unwrap().clone());
        mids_of.push(mids);
        exp.push(r);
    }
    let inflight = ops.get(acked).map(|o| sname(o, "op")).unwrap_or_else(|| "end".to_string());
    bump(&mut run.feat, &format!("kill:inflight:{}", inflight));
    for i in 0..acked {
        let got = ack_res[i].clone();
        if got != exp[i] { run.fail(format!("kill:ack-result-differs:{}", sname(&ops[i], "op")), json!({"i": i, "expected": exp[i], "got": got})); }
    }
    // candidates: the state after the acknowledged prefix, then the commit points of the call in flight
    let mut cands: Vec<(String, Vec<RefSt>)> = vec![("n".to_string(), states[acked].clone())];
    if acked < ops.len() {
        let m = &mids_of[acked];
        for x in &m[..m.len() - 1] { cands.push(("mid".to_string(), x.clone())); }
        cands.push(("n+1".to_string(), m.last().unwrap().clone()));
    }
    // observe: which candidate key opens each store, and what it shows
    let mut observed = vec![];
    for st in 0..run.stores.len() {
        let mut ids: Vec<usize> = vec![];
        for (_, c) in &cands { if c[st].exists && !ids.contains(&c[st].key_id) { ids.push(c[st].key_id); } }
        let absent_ok = cands.iter().any(|(_, c)| !c[st].exists);
        let uri = run.stores[st].uri();
        let mut opened: Vec<(usize, AnyBackend)> = vec![];
        for id in &ids {
            let k = keys[st][*id].clone();
            if opened.iter().any(|(o, _)| same_key(&keys[st][*o], &k)) { continue; }
            if let Ok(b) = open_store(&uri, &k) { opened.push((*id, b)); }
        }
        if opened.len() > 1 { run.fail(format!("kill:{}:both-keys-open", inflight), json!({"st": st, "ids": opened.iter().map(|o| o.0).collect::<Vec<_>>()})); }
        if opened.is_empty() {
            if !absent_ok { run.fail(format!("kill:{}:no-key-opens", inflight), json!({"st": st, "tried": ids})); }
            run.stores[st].exists = false;
            observed.push(json!({"key": null, "dump": null}));
            continue;
        }
        let (id, b) = opened.remove(0);
        for (_, o) in opened { close(o); }
        let d = dump_live(&b);
        run.stores[st].key = keys[st][id].clone();
        run.stores[st].b = Some(b);
        observed.push(json!({"key": id, "dump": d}));
    }
    let matches = |c: &Vec<RefSt>| (0..c.len()).all(|st| if c[st].exists { observed[st]["key"] == json!(c[st].key_id) && observed[st]["dump"] == c[st].dump() } else { observed[st]["key"].is_null() });
    let label = cands.iter().find(|(_, c)| matches(c)).map(|(l, _)| l.clone()).unwrap_or_else(|| "none".to_string());
    if label == "none" {
        run.fail(format!("kill:{}:not-all-or-nothing", inflight), json!({"acked": acked, "observed": observed, "expected_n": cands[0].1.iter().map(RefSt::dump).collect::<Vec<_>>(),
                 "expected_n1": cands.last().unwrap().1.iter().map(RefSt::dump).collect::<Vec<_>>()}));
    }
    bump(&mut run.feat, &format!("kill:prefix:{}", label));
    bump(&mut run.feat, if acked < ops.len() { "kill:mid-sequence" } else { "kill:after-end" });
    // fully usable afterwards, and what is written now is still there after another reopen
    let mut usable = true;
    run.ctx = format!("kill:{}", inflight);
    for st in 0..run.stores.len() {
        if run.stores[st].b.is_none() { continue; }
        if !run.lock_check(st) { usable = false; continue; }
        let before = dump_live(run.stores[st].b.as_ref().unwrap());
        if before["profiles"].as_array().map_or(true, |a| !a.iter().any(|p| p["name"] == P0)) { continue; }
        if let Err((what, e)) = run.probe(st, "k") { usable = false; run.fail(format!("kill:{}:store-not-usable:{}", inflight, what), json!({"err": format!("{:?}", e)})); continue; }
        let live = dump_live(run.stores[st].b.as_ref().unwrap());
        run.stores[st].stale.clear();
        if run.reopen(st).get("err").is_some() { usable = false; continue; }
        let again = dump_live(run.stores[st].b.as_ref().unwrap());
        if again != live || live == before { usable = false; run.fail(format!("kill:{}:writes-after-recovery-lost", inflight), json!({"live": live, "reopened": again})); }
    }
    run.close_all();
    for s in &run.stores { remove_files(&s.path); }
    json!({"out": {"prefix": label, "usable": usable}, "oracle": run.oracle, "feat": run.feat, "diag": run.diag,
           "model_input": {"acked": acked, "observed": observed, "failed": failed}})
}

// =============================================================================================
// generators

fn gen_key(r: &mut Rng, method: &str) -> Value {
    match method {
        "raw" => json!({"method": "raw", "pass": bs58::encode(r.bytes(32)).into_string()}),
        "kdf" => json!({"method": "kdf", "pass": format!("pw-{}", r.below(1_000_000))}),
        _ => json!({"method": "none", "pass": null}),
    }
}

fn pick_method(r: &mut Rng) -> &'static str {
    match r.below(12) { 0 => "kdf", 1 | 2 => "none", _ => "raw" }
}

fn gen_recs(r: &mut Rng, n: usize, prefix: &str) -> Vec<Value> {
    (0..n).map(|i| {
        let nt = r.below(4);
        let tags: Vec<Value> = (0..nt).map(|t| json!([r.below(2), format!("t{}", t), format!("v{}", r.below(5))])).collect();
        let vl = 1 + r.below(6);
        json!({"c": *r.pick(&["c", "d"]), "n": format!("{}{}", prefix, i), "v": hex::encode(r.bytes(vl)), "t": tags})
    }).collect()
}

fn gen_store(r: &mut Rng, nprof: usize, pool: usize, max_recs: usize) -> Value {
    let profiles: Vec<Value> = (0..nprof).map(|i| { let n = r.below(max_recs + 1); json!({"name": format!("p{}", i), "recs": gen_recs(r, n, &format!("r{}-", i))}) }).collect();
    let m = pick_method(r);
    json!({"journal": if r.chance(1, 2) { "wal" } else { "delete" }, "pool": pool, "busy_ms": 500, "key": gen_key(r, m), "profiles": profiles})
}

fn distinct_key(r: &mut Rng, _cur: &Value) -> Value {
    let m = pick_method(r);
    let m = if m == "none" && r.chance(1, 2) { "raw" } else { m };
    gen_key(r, m)
}

/// the ordinary use that follows the faulted call: every pooled connection writes, a transaction commits, a profile is created,
/// the same call runs again without the fault; a reopen right after the failed call in half of the cases, else at the end
fn follow_up(r: &mut Rng, ops: &mut Vec<Value>, faulted: &Value, st: usize) {
    let mut again = faulted.clone();
    again.as_object_mut().unwrap().remove("fault");
    let early = r.chance(1, 2);
    if early { ops.push(json!({"op": "reopen", "st": st})); }
    ops.push(json!({"op": "probe", "tag": "u", "st": st}));
    ops.push(json!({"op": "create_profile", "name": "post", "st": st}));
    ops.push(again);
    if !early || r.chance(1, 2) { ops.push(json!({"op": "reopen", "st": st})); }
    if r.chance(1, 3) { ops.push(json!({"op": "probe", "tag": "w", "st": st})); }
}

fn random_call(r: &mut Rng, nprof: usize, fresh: &mut usize, has_other: bool, pool: usize) -> Value {
    let pn = |r: &mut Rng| format!("p{}", r.below(nprof + 1));
    match r.below(if has_other || pool >= 2 { 8 } else { 6 }) {
        0 => { *fresh += 1; json!({"op": "create_profile", "name": format!("x{}", fresh), "st": 0}) }
        1 => json!({"op": "create_profile", "name": pn(r), "st": 0}),
        2 => json!({"op": "remove_profile", "name": format!("p{}", 1 + r.below(nprof.max(1))), "st": 0}),
        3 => json!({"op": "set_default", "name": pn(r), "st": 0}),
        4 => { let k = distinct_key(r, &Value::Null); json!({"op": "rekey", "method": k["method"], "pass": k["pass"], "st": 0}) }
        5 => json!({"op": "probe", "tag": format!("q{}", { *fresh += 1; *fresh }), "st": 0}),
        _ => {
            *fresh += 1;
            let to_other = has_other && (pool < 2 || r.chance(1, 2));
            json!({"op": "copy_profile", "from": pn(r), "to": format!("y{}", fresh), "st": if to_other { 1 } else { 0 }, "from_st": 0})
        }
    }
}

pub fn gen(r: &mut Rng, thorough: bool, count: Option<usize>) -> Vec<Value> {
    let rounds = if thorough { 120 } else { 3 };
    let mut out: Vec<Value> = vec![];
    let mut id = 0usize;
    let mut push = |out: &mut Vec<Value>, mut c: Value| { c["id"] = json!(id); id += 1; out.push(c); };
    for round in 0..rounds {
        // ---- fault enumeration: every call, every statement index it has (and one beyond)
        for call in ["create_profile", "create_dup", "remove_profile", "set_default", "rekey", "copy_same", "copy_other", "copy_existing", "import", "import_dup", "recreate", "recreate_bad"] {
            let reps = match call { "rekey" => 3, "copy_same" | "copy_other" | "import" => 2, _ => 1 };
            for rep in 0..reps {
                let mut rr = r.fork();
                let r = &mut rr;
                let nprof = 1 + r.below(4);
                let same_store_copy = matches!(call, "copy_same" | "import" | "import_dup" | "copy_existing");
                let pool = if same_store_copy { 2 + r.below(3) } else { 1 + r.below(4) };
                let mut base = gen_store(r, nprof, pool, 3);
                if call.starts_with("copy") || call.starts_with("import") {
                    // the source profile has records and tags
                    let src = r.below(nprof);
                    let n = 1 + r.below(3);
                    base["profiles"][src]["recs"] = json!(gen_recs(r, n, &format!("r{}-", src)));
                    if r.chance(2, 3) { base["profiles"][src]["recs"][0]["t"] = json!([[0, "a", "1"], [1, "b", "2"]]); }
                    base["src"] = json!(src);
                }
                let other = if call == "copy_other" { let np = 1 + r.below(2); let pl = 1 + r.below(3); gen_store(r, np, pl, 2) } else { Value::Null };
                let src_name = format!("p{}", base["src"].as_u64().unwrap_or(0));
                let src_recs = base["profiles"][base["src"].as_u64().unwrap_or(0) as usize]["recs"].as_array().cloned().unwrap_or_default();
                let nrecs = src_recs.len();
                let ntags: usize = src_recs.iter().map(|x| x["t"].as_array().map_or(0, |a| a.len())).sum();
                base.as_object_mut().unwrap().remove("src");
                // (call, faults)
                let victim = format!("p{}", if nprof > 1 { 1 + r.below(nprof - 1) } else { 0 });
                let (the_call, faults): (Value, Vec<Value>) = match call {
                    "create_profile" => (json!({"op": "create_profile", "name": "new", "st": 0}), vec![json!({"at": "profile_insert"})]),
                    "create_dup" => (json!({"op": "create_profile", "name": victim, "st": 0}), vec![json!({"at": "profile_insert"}), Value::Null]),
                    "remove_profile" => (json!({"op": "remove_profile", "name": if nprof > 1 { victim.clone() } else { "absent".to_string() }, "st": 0}),
                                         vec![json!({"at": "profile_delete"}), json!({"at": "cascade"})]),
                    "set_default" => (json!({"op": "set_default", "name": if r.chance(1, 2) { victim.clone() } else { "nowhere".to_string() }, "st": 0}), vec![json!({"at": "config"})]),
                    "rekey" => {
                        let k = distinct_key(r, &base["key"]);
                        let mut fs: Vec<Value> = (0..=nprof).map(|k| json!({"at": "upd", "k": k})).collect();
                        fs.push(json!({"at": "config"}));
                        if rep == 1 { fs = (0..nprof).map(|k| json!({"at": "upd", "k": k, "how": "ignore"})).collect(); fs.push(json!({"at": "config", "how": "ignore"})); }
                        (json!({"op": "rekey", "method": k["method"], "pass": k["pass"], "st": 0}), fs)
                    }
                    "copy_same" | "copy_other" | "copy_existing" => {
                        let mut fs: Vec<Value> = vec![json!({"at": "profile_insert"})];
                        fs.extend((0..=nrecs).map(|k| json!({"at": "item", "k": k})));
                        fs.extend((0..=ntags).map(|k| json!({"at": "tag", "k": k})));
                        let to = if call == "copy_existing" { "empty" } else { "copied" };
                        (json!({"op": "copy_profile", "from": src_name, "to": to, "st": if call == "copy_other" { 1 } else { 0 }, "from_st": 0}), fs)
                    }
                    "import" | "import_dup" => {
                        let mut fs: Vec<Value> = (0..=nrecs).map(|k| json!({"at": "item", "k": k})).collect();
                        fs.extend((0..=ntags).map(|k| json!({"at": "tag", "k": k})));
                        if call == "import_dup" { fs = vec![Value::Null]; }
                        (json!({"op": "import", "from": src_name, "to": "into", "st": 0, "from_st": 0}), fs)
                    }
                    "recreate" => { let k = distinct_key(r, &base["key"]); (json!({"op": "provision_recreate", "method": k["method"], "pass": k["pass"], "st": 0}), vec![Value::Null]) }
                    _ => (json!({"op": "provision_recreate", "method": "raw", "pass": "not-a-key", "bad_key": true, "st": 0}), vec![Value::Null]),
                };
                for f in faults {
                    let mut rr2 = r.fork();
                    let r = &mut rr2;
                    let mut c = base.clone();
                    c["kind"] = json!("c06s");
                    c["other"] = other.clone();
                    let mut ops: Vec<Value> = vec![];
                    let mut fresh = 0usize;
                    // a few ordinary calls first, so that the faulted call meets different states (never touching the names it uses)
                    if !call.starts_with("recreate") { for _ in 0..r.below(3) {
                        let o = random_call(r, nprof, &mut fresh, !other.is_null(), pool);
                        let touches = |o: &Value| ["name", "from", "to"].iter().any(|k| o[*k] == the_call["name"] && !o[*k].is_null() || o[*k] == the_call["from"] && !o[*k].is_null());
                        if !touches(&o) { ops.push(o); }
                    } }
                    match call {
                        "copy_existing" => ops.push(json!({"op": "create_profile", "name": "empty", "st": 0})),
                        "import" => ops.push(json!({"op": "create_profile", "name": "into", "st": 0})),
                        "import_dup" => { ops.push(json!({"op": "copy_profile", "from": src_name, "to": "into", "st": 0, "from_st": 0})); }
                        _ => {}
                    }
                    let mut fc = the_call.clone();
                    if !f.is_null() { fc["fault"] = f.clone(); }
                    ops.push(fc.clone());
                    if call == "recreate_bad" {
                        // the store is gone; provisioning again must work
                        let k = gen_key(r, "raw");
                        ops.push(json!({"op": "probe", "tag": "u", "st": 0}));
                        ops.push(json!({"op": "provision_recreate", "method": k["method"], "pass": k["pass"], "st": 0}));
                        ops.push(json!({"op": "probe", "tag": "w", "st": 0}));
                    } else {
                        follow_up(r, &mut ops, &fc, st_of(&fc));
                    }
                    if call == "copy_other" && r.chance(1, 2) { ops.push(json!({"op": "probe", "tag": "z", "st": 0})); }
                    c["ops"] = json!(ops);
                    c["call"] = json!(call);
                    let _ = (round, rep);
                    push(&mut out, c);
                }
            }
        }
        // ---- random sequences with one fault somewhere
        for _ in 0..(if thorough { 60 } else { 40 }) {
            let mut rr = r.fork();
            let r = &mut rr;
            let nprof = 1 + r.below(4);
            let pool = 1 + r.below(4);
            let mut c = gen_store(r, nprof, pool, 3);
            let other = if r.chance(1, 3) { let np = 1 + r.below(2); let pl = 1 + r.below(3); gen_store(r, np, pl, 2) } else { Value::Null };
            c["kind"] = json!("c06s");
            c["other"] = other.clone();
            let mut ops = vec![];
            let mut fresh = 0usize;
            let n = 3 + r.below(6);
            let at = r.below(n);
            for i in 0..n {
                let mut o = random_call(r, nprof, &mut fresh, !other.is_null(), pool);
                if i == at {
                    let f = match o["op"].as_str().unwrap() {
                        "create_profile" => json!({"at": "profile_insert"}),
                        "remove_profile" => json!({"at": *r.pick(&["profile_delete", "cascade"])}),
                        "set_default" => json!({"at": "config"}),
                        "rekey" => if r.chance(1, 3) { json!({"at": "config"}) } else { json!({"at": "upd", "k": r.below(nprof + 2), "how": if r.chance(1, 4) { "ignore" } else { "abort" }}) },
                        "copy_profile" => json!({"at": *r.pick(&["profile_insert", "item", "tag"]), "k": r.below(3)}),
                        _ => Value::Null,
                    };
                    if !f.is_null() { o["fault"] = f; }
                    let st = st_of(&o);
                    ops.push(o.clone());
                    if o.get("fault").is_some() { follow_up(r, &mut ops, &o, st); }
                } else { ops.push(o); }
            }
            c["ops"] = json!(ops);
            c["call"] = json!("random");
            push(&mut out, c);
        }
        // ---- SIGKILL
        for _ in 0..(if thorough { 60 } else { 48 }) {
            let mut rr = r.fork();
            let r = &mut rr;
            // many profiles and tagged records widen the windows inside rekey and copy_profile
            let nprof = 2 + r.below(7);
            let pool = 2 + r.below(3);
            let mut c = gen_store(r, nprof, pool, 4);
            if c["key"]["method"] == "kdf" { c["key"] = gen_key(r, "raw"); }
            let big = r.below(nprof);
            let nbig = 20 + r.below(40);
            let mut recs = gen_recs(r, nbig, "big");
            for x in recs.iter_mut() { x["t"] = json!((0..6).map(|t| json!([t % 2, format!("t{}", t), "v"])).collect::<Vec<_>>()); }
            c["profiles"][big]["recs"] = json!(recs);
            let other = if r.chance(1, 3) { let pl = 1 + r.below(3); gen_store(r, 1, pl, 2) } else { Value::Null };
            let mut other = other;
            if !other.is_null() && other["key"]["method"] == "kdf" { other["key"] = gen_key(r, "raw"); }
            c["kind"] = json!("c06s:kill");
            c["other"] = other.clone();
            let mut ops = vec![];
            let mut fresh = 0usize;
            let n = 4 + r.below(6);
            let mut heavy = vec![];
            for i in 0..n {
                let o = match r.below(10) {
                    0..=2 => { let m = if r.chance(1, 5) { "none" } else { "raw" }; let k = gen_key(r, m); json!({"op": "rekey", "method": k["method"], "pass": k["pass"], "st": 0}) }
                    3..=5 => { fresh += 1; json!({"op": "copy_profile", "from": format!("p{}", big), "to": format!("y{}", fresh), "st": if !other.is_null() && r.chance(1, 2) { 1 } else { 0 }, "from_st": 0}) }
                    6 if i > 1 && r.chance(1, 2) => { let k = gen_key(r, "raw"); json!({"op": "provision_recreate", "method": k["method"], "pass": k["pass"], "st": 0}) }
                    _ => random_call(r, nprof, &mut fresh, !other.is_null(), pool),
                };
                if matches!(o["op"].as_str(), Some("rekey") | Some("copy_profile") | Some("provision_recreate")) { heavy.push(i); }
                let recreated = o["op"] == "provision_recreate";
                ops.push(o);
                if recreated { break; }   // the big source profile is gone afterwards
            }
            let n = ops.len();
            // kill inside a heavy call (two thirds), else anywhere
            let after = if !heavy.is_empty() && r.chance(2, 3) { *r.pick(&heavy) } else { r.below(n + 1) };
            c["ops"] = json!(ops);
            c["kill_after_acks"] = json!(after);
            c["delay_us"] = json!(match r.below(4) { 0 => r.below(300), 1 => r.below(1500), 2 => r.below(5000), _ => r.below(20000) });
            c["call"] = json!("kill");
            push(&mut out, c);
        }
    }
    if let Some(n) = count { out.truncate(n); }
    out
}
