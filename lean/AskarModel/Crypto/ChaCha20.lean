/-
ChaCha20 block function and stream cipher (RFC 8439 §2.1–2.4) and HChaCha20 / XChaCha20
(draft-irtf-cfrg-xchacha-03 §2.2, §2.3) — executable SPECIFICATION written from the RFCs, not from
the Rust.  ORACLE for differential runs; validated against RFC 8439 §2.3.2, §2.4.2 and the XChaCha
draft §2.2.1 in `selfTest` (THESE ARE TESTS).
-/
import AskarModel.Crypto.Aes

namespace Askar.Crypto.ChaCha20

@[inline] def rotl32 (x : UInt32) (n : UInt32) : UInt32 := (x <<< n) ||| (x >>> (32 - n))

@[inline] def le32At (b : ByteArray) (i : Nat) : UInt32 :=
  (b.get! i).toUInt32 ||| ((b.get! (i + 1)).toUInt32 <<< 8) |||
  ((b.get! (i + 2)).toUInt32 <<< 16) ||| ((b.get! (i + 3)).toUInt32 <<< 24)

def pushLe32 (b : ByteArray) (x : UInt32) : ByteArray :=
  (((b.push x.toUInt8).push (x >>> 8).toUInt8).push (x >>> 16).toUInt8).push (x >>> 24).toUInt8

/-- §2.1 quarter round on the state words a, b, c, d -/
def quarterRound (s : Array UInt32) (a b c d : Nat) : Array UInt32 :=
  let sa := s[a]!; let sb := s[b]!; let sc := s[c]!; let sd := s[d]!
  let sa := sa + sb; let sd := rotl32 (sd ^^^ sa) 16
  let sc := sc + sd; let sb := rotl32 (sb ^^^ sc) 12
  let sa := sa + sb; let sd := rotl32 (sd ^^^ sa) 8
  let sc := sc + sd; let sb := rotl32 (sb ^^^ sc) 7
  (((s.set! a sa).set! b sb).set! c sc).set! d sd

/-- §2.3: 10 × (column round, diagonal round) -/
def rounds20 (s : Array UInt32) : Array UInt32 := Id.run do
  let mut x := s
  for _ in [0:10] do
    x := quarterRound x 0 4 8 12
    x := quarterRound x 1 5 9 13
    x := quarterRound x 2 6 10 14
    x := quarterRound x 3 7 11 15
    x := quarterRound x 0 5 10 15
    x := quarterRound x 1 6 11 12
    x := quarterRound x 2 7 8 13
    x := quarterRound x 3 4 9 14
  return x

def sigma : Array UInt32 := #[0x61707865, 0x3320646e, 0x79622d32, 0x6b206574]

def keyWords (key : ByteArray) : Array UInt32 := (Array.range 8).map fun i => le32At key (4 * i)

/-- §2.3 chacha20_block(key, counter, nonce): 64 bytes -/
def block (key : ByteArray) (counter : UInt32) (nonce : ByteArray) : ByteArray := Id.run do
  let s := sigma ++ keyWords key ++ #[counter, le32At nonce 0, le32At nonce 4, le32At nonce 8]
  let x := rounds20 s
  let mut o := ByteArray.emptyWithCapacity 64
  for i in [0:16] do
    o := pushLe32 o (x[i]! + s[i]!)
  return o

/-- §2.4 chacha20_encrypt(key, counter, nonce, plaintext) -/
def xorStream (key : ByteArray) (counter : Nat) (nonce : ByteArray) (data : ByteArray) : ByteArray := Id.run do
  let mut out := ByteArray.emptyWithCapacity data.size
  for j in [0:(data.size + 63) / 64] do
    let ks := block key (UInt32.ofNat (counter + j)) nonce
    for i in [0:64] do
      if 64 * j + i < data.size then out := out.push (data.get! (64 * j + i) ^^^ ks.get! i)
  return out

/-- XChaCha draft §2.2: HChaCha20(key, 16-byte nonce): words 0–3 and 12–15 after the 20 rounds, no feed-forward -/
def hchacha20 (key nonce16 : ByteArray) : ByteArray := Id.run do
  let s := sigma ++ keyWords key ++ #[le32At nonce16 0, le32At nonce16 4, le32At nonce16 8, le32At nonce16 12]
  let x := rounds20 s
  let mut o := ByteArray.emptyWithCapacity 32
  for i in [0:4] do
    o := pushLe32 o x[i]!
  for i in [12:16] do
    o := pushLe32 o x[i]!
  return o

/-- XChaCha draft §2.3: sub-key = HChaCha20(key, nonce[0..16]), ChaCha20 nonce = 0⁴ ‖ nonce[16..24] -/
def xSubkey (key nonce24 : ByteArray) : ByteArray × ByteArray :=
  (hchacha20 key (nonce24.extract 0 16), (List.replicate 4 (0 : UInt8)).toByteArray ++ nonce24.extract 16 24)

/-- TEST: RFC 8439 §2.3.2 (block), §2.4.2 (encryption), XChaCha draft §2.2.1 (HChaCha20) -/
def selfTest : Bool :=
  let h := Sha2.toHex
  let x := Aes.ofHexL
  let sunscreen := "Ladies and Gentlemen of the class of '99: If I could offer you only one tip for the future, sunscreen would be it.".toUTF8
  h (block (Aes.seq 32) 1 (x "000000090000004a00000000")) ==
    "10f1e7e4d13b5915500fdd1fa32071c4c7d1f4c733c068030422aa9ac3d46c4ed2826446079faa0914c2d705d98b02a2b5129cd1de164eb9cbd083e8a2503c4e" &&
  h (xorStream (Aes.seq 32) 1 (x "000000000000004a00000000") sunscreen) ==
    "6e2e359a2568f98041ba0728dd0d6981e97e7aec1d4360c20a27afccfd9fae0bf91b65c5524733ab8f593dabcd62b3571639d624e65152ab8f530c359f0861d807ca0dbf500d6a6156a38e088a22b65e52bc514d16ccf806818ce91ab77937365af90bbf74a35be6b40b8eedf2785e42874d" &&
  h (hchacha20 (Aes.seq 32) (x "000000090000004a0000000031415927")) ==
    "82413b4227b27bfed30e42508a877d73a0f9e4d58a74a853c12ec41326d3ecdc"

end Askar.Crypto.ChaCha20
