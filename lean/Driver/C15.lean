/- Driver for `kind = "c15:kdf" | "c15:box" | "c15:seal"` cases: runs `Askar.Ecdh` (Model/Ecdh.lean) with the executable
   specifications of the third-party primitives as instance: X25519 (RFC 7748), short-Weierstrass scalar multiplication
   (SEC 1), SHA-256 (FIPS 180-4), HSalsa20 / XSalsa20-Poly1305 (NaCl), BLAKE2b (RFC 7693). -/
import Driver.Common
import AskarModel.Model.Ecdh
import AskarModel.Crypto.Sha2
import AskarModel.Crypto.Ec
import AskarModel.Crypto.X25519
import AskarModel.Crypto.NaclBox

open Lean

namespace Driver.C15
open Askar Askar.Ecdh

def ecCurve : Curve → Option Ec.Curve
  | .p256 => some Ec.p256
  | .p384 => some Ec.p384
  | .k256 => some Ec.k256
  | .x25519 => none

/-- x-coordinate of `sk · P`, `P = x ‖ y` affine -/
def ecDh (c : Ec.Curve) (sk pk : Bytes) : Bytes :=
  let x := Ec.beNat (pk.take c.len)
  let y := Ec.beNat (pk.drop c.len)
  match c.toAffine (c.mulAux x y 800 (Ec.beNat sk)) with
  | some (zx, _) => Ec.natBE c.len zx
  | none => []

def realDh : DhOps where
  pub c sk := match ecCurve c with
    | none => Crypto.X25519.pubOf sk
    | some ec => (ec.pubOf sk).getD []
  dh c sk pk := match ecCurve c with
    | none => Crypto.X25519.x25519 sk pk
    | some ec => ecDh ec sk pk

/-- order of the prime-order subgroup of Curve25519 -/
def ell : Nat := 2 ^ 252 + 27742317777372353535851937790883648493

/-- `SalsaBox::new` of crypto_box 0.9.1: the clamped scalar is REDUCED MOD ℓ (`Scalar::from_bytes_mod_order(clamp_integer(bytes))`)
    before the Montgomery ladder.  For public keys in the prime-order subgroup (every honestly generated key) this is X25519
    (= libsodium `crypto_box_beforenm`, `Crypto.NaclBox.boxKey`); for points with a torsion component or on the twist it is not. -/
def crateBoxKey (sk pk : Bytes) : Bytes :=
  Crypto.NaclBox.hsalsa20
    (Crypto.X25519.natLE 32 (Crypto.X25519.ladder (Crypto.X25519.decodeScalar sk % ell) (Crypto.X25519.decodeU pk)))
    (List.replicate 16 0)

def realBox : BoxOps where
  pub := Crypto.X25519.pubOf
  beforenm := crateBoxKey
  sealBox := Crypto.NaclBox.secretboxSeal
  openBox := Crypto.NaclBox.secretboxOpen
  nonceHash := Crypto.NaclBox.blake2b 24

def sha256 : Bytes → Bytes := Crypto.Sha2.sha256L

/-- the same operations with a table of already computed shared secrets (speed only) -/
def memoDh (tbl : List ((Curve × Bytes × Bytes) × Bytes)) : DhOps where
  pub := realDh.pub
  dh c sk pk := match tbl.lookup (c, sk, pk) with
    | some z => z
    | none => realDh.dh c sk pk

def memoBox (tbl : List ((Bytes × Bytes) × Bytes)) : BoxOps :=
  { realBox with beforenm := fun sk pk => match tbl.lookup (sk, pk) with
      | some k => k
      | none => realBox.beforenm sk pk }

/-- table entry for the exchange `self → other`, if it can be computed -/
def dhEntry (self other : Key) : List ((Curve × Bytes × Bytes) × Bytes) :=
  match self.ty, self.secret with
  | .dh c, some sk => if self.ty = other.ty then [((c, sk, other.pub), realDh.dh c sk other.pub)] else []
  | _, _ => []

def boxEntry (self other : Key) : List ((Bytes × Bytes) × Bytes) :=
  match self.secret with
  | some sk => [((sk, other.pub), realBox.beforenm sk other.pub)]
  | none => []

def curveOf : String → Option Curve
  | "x25519" => some .x25519 | "p256" => some .p256 | "p384" => some .p384 | "k256" => some .k256
  | _ => none

def targetOf : String → Target
  | "a128gcm" => .a128gcm | "a256gcm" => .a256gcm | "a128cbchs256" => .a128cbcHs256 | "a256cbchs512" => .a256cbcHs512
  | "a128kw" => .a128kw | "a256kw" => .a256kw | "c20p" => .c20p | "xc20p" => .xc20p
  | _ => .notSymmetric

/-- (key as its owner holds it, key as everybody else sees it) -/
def keyOf (j : Json) : Key × Key :=
  match curveOf (str! j "c") with
  | none => (⟨.other, [], some (value! j "sk")⟩, ⟨.other, [], none⟩)
  | some c =>
    match getD? j "sk" with
    | some _ =>
      let sk := value! j "sk"
      (Key.full realDh c sk, Key.public realDh c sk)
    | none =>
      let raw := value! j "pk"
      let pk := match ecCurve c with
        | none => raw
        | some ec => (ec.fromSec1 raw).getD []
      (⟨.dh c, pk, none⟩, ⟨.dh c, pk, none⟩)

def jres (r : Res Bytes) (f : Bytes → Json := jhex) : Json :=
  match r with
  | .ok b => f b
  | .err e => jerr e.toPublic.name
  | .panic => Json.mkObj [("panic", .str "model")]

structure KdfArgs where
  mode : String
  target : Target
  eph : Key × Key
  snd : Key × Key
  rcp : Key × Key
  alg : Bytes
  apu : Bytes
  apv : Bytes
  tag : Bytes

def keyAt (j : Json) (k : String) : Key × Key := keyOf ((getD? j k).getD .null)

def KdfArgs.of (j : Json) : KdfArgs :=
  { mode := str! j "mode", target := targetOf (str! j "target"),
    eph := keyAt j "eph", snd := keyAt j "snd", rcp := keyAt j "rcp",
    alg := value! j "alg", apu := value! j "apu", apv := value! j "apv", tag := value! j "tag" }

def KdfArgs.perturb (a : KdfArgs) (p : Json) : KdfArgs :=
  match str! p "f" with
  | "alg" => { a with alg := value! p "v" }
  | "apu" => { a with apu := value! p "v" }
  | "apv" => { a with apv := value! p "v" }
  | "tag" => { a with tag := value! p "v" }
  | "eph" => { a with eph := keyAt p "v" }
  | "snd" => { a with snd := keyAt p "v" }
  | "rcp" => { a with rcp := keyAt p "v" }
  | "target" => { a with target := targetOf (str! p "v") }
  | _ => a

def KdfArgs.derive (D : DhOps) (a : KdfArgs) (receive : Bool) : Res Bytes :=
  let (eph, rcp) := if receive then (a.eph.2, a.rcp.1) else (a.eph.1, a.rcp.2)
  if a.mode == "1pu" then
    let snd := if receive then a.snd.2 else a.snd.1
    -- current tree: `pub_info` capacity = `Askar.Generated.ecdh1puPubInfoCap` (extracted from ecdh_1pu.rs)
    deriveKeyEcdh1puCap Askar.Generated.ecdh1puPubInfoCap D sha256 a.target eph snd rcp a.alg a.apu a.apv a.tag receive
  else
    deriveKeyEcdhEs D sha256 a.target eph rcp a.alg a.apu a.apv receive

def KdfArgs.dh (D : DhOps) (a : KdfArgs) (receive : Bool) : Res (List Bytes) := do
  let ze ← if receive then keyExchange D a.rcp.1 a.eph.2 else keyExchange D a.eph.1 a.rcp.2
  if a.mode == "1pu" then
    let zs ← if receive then keyExchange D a.rcp.1 a.snd.2 else keyExchange D a.snd.1 a.rcp.2
    pure [ze, zs]
  else pure [ze]

def jz (r : Res (List Bytes)) : Json :=
  match r with
  | .ok zs => .arr (zs.map jhex).toArray
  | .err e => jerr e.toPublic.name
  | .panic => Json.mkObj [("panic", .str "model")]

def runKdf (j : Json) : Json :=
  let a := KdfArgs.of j
  let D := memoDh (dhEntry a.eph.1 a.rcp.2 ++ dhEntry a.snd.1 a.rcp.2 ++ dhEntry a.rcp.1 a.eph.2 ++ dhEntry a.rcp.1 a.snd.2)
  let kx := toKeyExchange D a.target a.eph.1 a.rcp.2
  Json.mkObj [
    ("send", jres (a.derive D false)), ("recv", jres (a.derive D true)),
    ("z_send", jz (a.dh D false)), ("z_recv", jz (a.dh D true)), ("kx", jres kx),
    ("perturbed", .arr ((arr! j "perturb").map fun p => jres ((a.perturb p).derive D false)).toArray)]
def flipBit (b : Bytes) (bit : Nat) : Bytes :=
  if b.isEmpty then b
  else
    let i := bit % (b.length * 8)
    b.set (i / 8) (b.getD (i / 8) 0 ^^^ UInt8.ofNat (2 ^ (i % 8)))

/-- the harness's `apply_mut`: flip, take, append, raw on the ciphertext; nflip, nonce on the nonce -/
def applyMut (m : Json) (ct nonce : Bytes) : Bytes × Bytes :=
  let c := match natOpt m "flip" with | some b => flipBit ct b | none => ct
  let c := match natOpt m "take" with | some k => c.take k | none => c
  let c := match getD? m "append" with | some _ => c ++ value! m "append" | none => c
  let c := match getD? m "raw" with | some _ => value! m "raw" | none => c
  let n := match natOpt m "nflip" with | some b => flipBit nonce b | none => nonce
  let n := match getD? m "nonce" with | some _ => value! m "nonce" | none => n
  (c, n)

def isOk : Res Bytes → Bool
  | .ok _ => true
  | _ => false

def okBytes : Res Bytes → Bytes
  | .ok b => b
  | _ => []

def runBox (j : Json) : Json :=
  let msg := value! j "msg"
  let nonce := value! j "nonce"
  let snd := keyAt j "snd"
  let rcp := keyAt j "rcp"
  let B := memoBox (boxEntry snd.1 rcp.2 ++ boxEntry rcp.1 snd.2)
  let boxed := envCryptoBox B rcp.2 snd.1 msg nonce
  let ct := okBytes boxed
  let openWith (rcp snd : Key × Key) (c n : Bytes) : Res Bytes := envCryptoBoxOpen B rcp.1 snd.2 c n
  let muts := (arr! j "muts").map fun m =>
    let (c, n) := applyMut m ct nonce
    let r := match getD? m "rcp" with | some k => keyOf k | none => rcp
    let s := match getD? m "snd" with | some k => keyOf k | none => snd
    jres (openWith r s c n) jvalue
  let allbits : Json :=
    if bool! j "allbits" && isOk boxed then
      .arr (((List.range (ct.length * 8)).filter fun bit => isOk (openWith rcp snd (flipBit ct bit) nonce)).map jnat).toArray
    else .null
  Json.mkObj [("box", jres boxed jvalue), ("open", jres (openWith rcp snd ct nonce) jvalue), ("muts", .arr muts.toArray),
    ("allbits", allbits)]

def runSeal (j : Json) : Json :=
  let msg := value! j "msg"
  let ephJ := (getD? j "eph").getD .null
  let rcp := keyAt j "rcp"
  let ephSk : Bytes := match getD? j "eph" with | some _ => value! ephJ "sk" | none => List.replicate 32 1
  let ephPk := realBox.pub ephSk
  let B0 := memoBox (boxEntry ⟨.dh .x25519, ephPk, some ephSk⟩ rcp.2)
  let sealed : Res Bytes :=
    match getD? j "ct" with
    | some _ => .ok (value! j "ct")
    | none => envCryptoBoxSeal B0 ephSk rcp.2 msg
  let ct := okBytes sealed
  let B := memoBox (boxEntry ⟨.dh .x25519, ephPk, some ephSk⟩ rcp.2 ++ boxEntry rcp.1 ⟨.dh .x25519, ct.take 32, none⟩ ++
    boxEntry rcp.1 ⟨.dh .x25519, ephPk, none⟩)
  let openWith (rcp : Key × Key) (c : Bytes) : Res Bytes := envCryptoBoxSealOpen B rcp.1 c
  let random : Json :=
    match envCryptoBoxSeal B ephSk rcp.2 msg with
    | .ok s =>
      match envCryptoBoxSealOpen B rcp.1 s with
      | .ok o =>
        let epk := s.take 32
        match envCryptoBoxOpen B rcp.1 ⟨.dh .x25519, epk, none⟩ (s.drop 32) (Ecdh.sealNonce B epk rcp.1.pub) with
        | .ok p => Json.mkObj [("len", jnat s.length), ("open", jvalue o), ("parts", jvalue p)]
        | r => jres r
      | r => jres r
    | r => jres r
  let muts := (arr! j "muts").map fun m =>
    let (c, _) := applyMut m ct []
    let r := match getD? m "rcp" with | some k => keyOf k | none => rcp
    jres (openWith r c) jvalue
  let allbits : Json :=
    if bool! j "allbits" && isOk sealed then
      .arr (((List.range (ct.length * 8)).filter fun bit => isOk (openWith rcp (flipBit ct bit))).map jnat).toArray
    else .null
  Json.mkObj [("sealed", jres sealed jvalue), ("open", jres (openWith rcp ct) jvalue), ("random", random),
    ("muts", .arr muts.toArray), ("allbits", allbits)]

def runCase (j : Json) : Json :=
  match str! j "kind" with
  | "c15:kdf" => runKdf j
  | "c15:box" => runBox j
  | "c15:seal" => runSeal j
  | k => jerr ("unknown kind " ++ k)

end Driver.C15
