/- Helper lemmas for C06S (store-level calls under statement faults and process kill). -/
import AskarModel.Model.StoreFault

namespace Askar.StoreFault.Lemmas
open Askar.StoreFault

/-! ### one transaction under a fault -/

theorem runTxn_fault_cases (k : Nat) (ss : List Stmt) : ∀ (base : Nat) (st : St),
    (∃ e, runTxn (some k) base ss st = .error e) ∨
    ((k < base ∨ base + ss.length ≤ k) ∧ runTxn (some k) base ss st = runTxn none base ss st) := by
  induction ss with
  | nil =>
    intro base st
    refine Or.inr ⟨?_, rfl⟩
    simp only [List.length_nil]; omega
  | cons s rest ih =>
    intro base st
    by_cases hk : k = base
    · subst hk
      exact Or.inl ⟨.backend, by simp [runTxn]⟩
    · have h1 : ¬ (some k = some base) := by intro h; exact hk (Option.some.inj h)
      cases hs : s.run st with
      | error e => exact Or.inl ⟨e, by simp [runTxn, h1, hs]⟩
      | ok st' =>
        rcases ih (base + 1) st' with ⟨e, he⟩ | ⟨hr, he⟩
        · exact Or.inl ⟨e, by simp [runTxn, h1, hs, he]⟩
        · refine Or.inr ⟨?_, by simp [runTxn, h1, hs, he]⟩
          simp only [List.length_cons]; omega

theorem runTxn_append (f : Option Nat) (a b : List Stmt) : ∀ (base : Nat) (st : St),
    runTxn f base (a ++ b) st =
      match runTxn f base a st with
      | .error e => .error e
      | .ok st' => runTxn f (base + a.length) b st' := by
  induction a with
  | nil => intro base st; simp [runTxn]
  | cons s rest ih =>
    intro base st
    simp only [List.cons_append, runTxn]
    by_cases hf : f = some base
    · simp [hf]
    · simp only [hf, if_false]
      cases hs : s.run st with
      | error e => simp
      | ok st' =>
        simp only [ih (base + 1) st', List.length_cons]
        have : base + 1 + rest.length = base + (rest.length + 1) := by omega
        rw [this]

/-- a property of (before, after) that every statement of a list respects is respected by the transaction -/
theorem runTxn_preserves (P : St → St → Prop) (hrefl : ∀ s, P s s) (htrans : ∀ a b c, P a b → P b c → P a c)
    (f : Option Nat) (ss : List Stmt) (hss : ∀ s ∈ ss, ∀ x y, s.run x = .ok y → P x y) :
    ∀ (base : Nat) (st st' : St), runTxn f base ss st = .ok st' → P st st' := by
  induction ss with
  | nil => intro base st st' h; simp [runTxn] at h; subst h; exact hrefl _
  | cons s rest ih =>
    intro base st st' h
    simp only [runTxn] at h
    by_cases hf : f = some base
    · simp [hf] at h
    · simp only [hf, if_false] at h
      cases hs : s.run st with
      | error e => simp [hs] at h
      | ok st1 =>
        simp only [hs] at h
        exact htrans _ _ _ (hss s (List.mem_cons_self) _ _ hs)
          (ih (fun s' hs' => hss s' (List.mem_cons_of_mem _ hs')) (base + 1) st1 st' h)

/-! ### one call -/

theorem runCall_all_or_nothing (k : Nat) (h : Handle) (c : Call) (st : St) :
    (∃ e, runCall (some k) h c st = (st, h, .err e)) ∨
    ((stmts h c st).length ≤ k ∧ runCall (some k) h c st = runCall none h c st) := by
  rcases runTxn_fault_cases k (stmts h c st) 0 st with ⟨e, he⟩ | ⟨hr, he⟩
  · exact Or.inl ⟨e, by simp [runCall, he]⟩
  · refine Or.inr ⟨by omega, by simp [runCall, he]⟩

theorem insertProfile_noop (n : String) (w : KeyId) (st : St) (hn : st.has n = true) :
    (insertProfile n w).run st = .ok st := by
  simp [insertProfile, hn]

/-- a call that reports an error — through a fault, a failing statement, or Duplicate — leaves database and handle as they were -/
theorem runCall_err_unchanged (f : Option Nat) (h : Handle) (c : Call) (st : St)
    (herr : (runCall f h c st).2.2.isErr = true) :
    (runCall f h c st).1 = st ∧ (runCall f h c st).2.1 = h := by
  unfold runCall at herr ⊢
  cases hr : runTxn f 0 (stmts h c st) st with
  | error e => simp
  | ok st' =>
    simp only [hr] at herr ⊢
    cases c with
    | createProfile n =>
      simp only [success] at herr
      by_cases hn : st.has n = true
      · simp only [stmts, runTxn] at hr
        by_cases hf : f = some 0
        · simp [hf] at hr
        · simp only [hf, if_false, insertProfile_noop n h.cacheKey st hn] at hr
          simp at hr
          exact ⟨hr.symm, rfl⟩
      · simp [hn, Out.isErr] at herr
    | removeProfile n => simp [success, Out.isErr] at herr
    | setDefault n => simp [success, Out.isErr] at herr
    | rekey new => simp [success, Out.isErr] at herr
    | importRecs to recs e => simp [success, Out.isErr] at herr
    | refused e => simp [success, Out.isErr] at herr

theorem failed_call_then_usable (f : Option Nat) (h : Handle) (c : Call) (st : St) (rest : List (Call × Option Nat))
    (herr : (runCall f h c st).2.2.isErr = true) :
    runSeq h st ((c, f) :: rest) =
      ((runSeq h st rest).1, (runSeq h st rest).2.1, (runCall f h c st).2.2 :: (runSeq h st rest).2.2) := by
  obtain ⟨h1, h2⟩ := runCall_err_unchanged f h c st herr
  simp only [runSeq]
  rw [h1, h2]

/-! ### create_profile -/

theorem createProfile_out (h : Handle) (to : String) (st : St) :
    (runCall none h (.createProfile to) st).2.2 = .name to ∨ (runCall none h (.createProfile to) st).2.2 = .err .duplicate := by
  simp only [runCall, stmts, runTxn, insertProfile]
  by_cases hn : st.has to = true <;> simp [hn, success]

theorem createProfile_state (h : Handle) (to : String) (st : St) :
    (runCall none h (.createProfile to) st).1 = st ∨
    (runCall none h (.createProfile to) st).1 = { st with profiles := st.profiles ++ [⟨to, h.cacheKey, []⟩] } := by
  simp only [runCall, stmts, runTxn, insertProfile]
  by_cases hn : st.has to = true <;> simp [hn]

theorem createProfile_fault0 (h : Handle) (to : String) (st : St) :
    runCall (some 0) h (.createProfile to) st = (st, h, .err .backend) := by
  simp [runCall, stmts, runTxn]

/-! ### copy_profile -/

theorem runCopy_none_eq (h : Handle) (to : String) (recs : List Rec) (st : St) :
    runCopy none h to recs st =
      ((runCall none h (.importRecs to recs true) (runCall none h (.createProfile to) st).1).1,
       (runCall none h (.importRecs to recs true) (runCall none h (.createProfile to) st).1).2.2) := by
  unfold runCopy
  have h0 : ¬ ((none : Option Nat) = some 0) := by simp
  simp only [h0, if_false, shift]
  rcases createProfile_out h to st with ho | ho
  · cases hc : runCall none h (.createProfile to) st with
    | mk st1 r => cases r with
      | mk h1 o => simp only [hc] at ho ⊢; subst ho; rfl
  · cases hc : runCall none h (.createProfile to) st with
    | mk st1 r => cases r with
      | mk h1 o => simp only [hc] at ho ⊢; subst ho; simp

theorem copy_import_all_or_nothing (fault : Option Nat) (h : Handle) (to : String) (recs : List Rec) (st : St) :
    (∃ e, (runCopy fault h to recs st).2 = .err e ∧
        ((runCopy fault h to recs st).1 = st ∨ (runCopy fault h to recs st).1 = (runCall none h (.createProfile to) st).1)) ∨
    runCopy fault h to recs st = runCopy none h to recs st := by
  cases fault with
  | none => exact Or.inr rfl
  | some k =>
    cases k with
    | zero =>
      refine Or.inl ⟨.backend, ?_⟩
      simp [runCopy, createProfile_fault0]
    | succ k =>
      have h0 : ¬ (some (k + 1) = some 0) := by simp
      have hs : shift (some (k + 1)) = some k := rfl
      have hcopy : runCopy (some (k + 1)) h to recs st =
          ((runCall (some k) h (.importRecs to recs true) (runCall none h (.createProfile to) st).1).1,
           (runCall (some k) h (.importRecs to recs true) (runCall none h (.createProfile to) st).1).2.2) := by
        unfold runCopy
        simp only [h0, if_false, hs]
        rcases createProfile_out h to st with ho | ho
        · cases hc : runCall none h (.createProfile to) st with
          | mk st1 r => cases r with
            | mk h1 o => simp only [hc] at ho ⊢; subst ho; rfl
        · cases hc : runCall none h (.createProfile to) st with
          | mk st1 r => cases r with
            | mk h1 o => simp only [hc] at ho ⊢; subst ho; simp
      rcases runCall_all_or_nothing k h (.importRecs to recs true) (runCall none h (.createProfile to) st).1 with ⟨e, he⟩ | ⟨_, he⟩
      · refine Or.inl ⟨e, ?_⟩
        rw [hcopy, he]
        exact ⟨rfl, Or.inr rfl⟩
      · refine Or.inr ?_
        rw [hcopy, runCopy_none_eq, he]

/-! ### re-key -/

def rewrap (new : KeyId) (names : List String) (p : Profile) : Profile :=
  if names.contains p.name then { p with wrap := new } else p

theorem has_mapProfile (st : St) (n m : String) (f : Profile → Profile) (hf : ∀ p, (f p).name = p.name) :
    (st.mapProfile n f).has m = st.has m := by
  simp only [St.has, St.mapProfile, List.any_map]
  congr 1
  funext p
  simp only [Function.comp]
  by_cases hp : (p.name == n) = true <;> simp [hp, hf]

/-- running the per-profile UPDATEs for `names`: every profile with one of these names is re-wrapped, nothing else changes -/
theorem runTxn_updates (new : KeyId) : ∀ (names : List String) (base : Nat) (st st' : St),
    runTxn none base (names.map fun n => updateProfileKey n new) st = .ok st' →
    st' = { st with profiles := st.profiles.map (rewrap new names) } := by
  intro names
  induction names with
  | nil =>
    intro base st st' h
    simp [runTxn] at h
    subst h
    have : (fun p => rewrap new [] p) = id := by funext p; simp [rewrap]
    simp [this]
  | cons n ns ih =>
    intro base st st' h
    simp only [List.map_cons, runTxn, updateProfileKey] at h
    have h0 : ¬ ((none : Option Nat) = some base) := by simp
    simp only [h0, if_false] at h
    by_cases hn : st.has n = true
    · simp only [hn, if_true] at h
      have := ih (base + 1) _ st' h
      rw [this]
      simp only [St.mapProfile, List.map_map]
      congr 1
      apply List.map_congr_left
      intro p _
      simp only [Function.comp, rewrap]
      by_cases hp : (p.name == n) = true
      · have hpn : p.name = n := by simpa using hp
        simp [hpn]
      · have hpn : ¬ p.name = n := by simpa using hp
        simp [hp, hpn]
    · simp [hn] at h

theorem runTxn_updates' (new : KeyId) (qs : List Profile) (base : Nat) (st st' : St)
    (h : runTxn none base (qs.map fun p => updateProfileKey p.name new) st = .ok st') :
    st' = { st with profiles := st.profiles.map (rewrap new (qs.map (·.name))) } := by
  apply runTxn_updates new (qs.map (·.name)) base st st'
  rw [List.map_map]
  exact h

theorem rewrap_all (new : KeyId) (ps : List Profile) :
    ps.map (rewrap new (ps.map (·.name))) = ps.map fun p => { p with wrap := new } := by
  apply List.map_congr_left
  intro p hp
  have : (ps.map (·.name)).contains p.name = true := by
    simp only [List.contains_iff_mem]
    exact List.mem_map_of_mem hp
  simp only [rewrap, this, ↓reduceIte]

/-- the complete effect of a re-key, and when it is reached -/
theorem rekey_run (f : Option Nat) (h : Handle) (new : KeyId) (st st' : St)
    (hr : runTxn f 0 (stmts h (.rekey new) st) st = .ok st') :
    st' = { st with profiles := st.profiles.map (fun p => { p with wrap := new }), storeKey := new } := by
  -- a successful faulted run equals the fault-free run
  have hnone : runTxn none 0 (stmts h (.rekey new) st) st = .ok st' := by
    cases f with
    | none => exact hr
    | some k =>
      rcases runTxn_fault_cases k (stmts h (.rekey new) st) 0 st with ⟨e, he⟩ | ⟨_, he⟩
      · rw [he] at hr; cases hr
      · rw [← he]; exact hr
  simp only [stmts, List.cons_append] at hnone
  have h0 : ¬ ((none : Option Nat) = some 0) := by simp
  simp only [runTxn, h0, if_false, loadKeys] at hnone
  by_cases hl : (st.profiles.all fun p => p.wrap == h.cacheKey) = true
  · simp only [hl, if_true] at hnone
    rw [runTxn_append] at hnone
    split at hnone
    · cases hnone
    · rename_i st1 hu
      have h1 := runTxn_updates' new _ _ _ _ hu
      simp [runTxn, setConfigKey] at hnone
      rw [← hnone, h1, rewrap_all]
  · simp [hl] at hnone

theorem content_rewrap (new : KeyId) (st : St) :
    content { st with profiles := st.profiles.map (fun p => { p with wrap := new }), storeKey := new } = content st := by
  simp [content, List.map_map, Function.comp]

theorem find?_rewrap (new : KeyId) (ps : List Profile) (n : String) :
    (ps.map fun p => { p with wrap := new }).find? (·.name == n) = (ps.find? (·.name == n)).map fun p => { p with wrap := new } := by
  induction ps with
  | nil => rfl
  | cons p ps ih =>
    simp only [List.map_cons, List.find?_cons]
    by_cases hp : (p.name == n) = true
    · simp [hp]
    · simp [hp, ih]

/-- in a consistent store with the opened profile present, a key opens iff it is the store key -/
theorem opens_iff (k : KeyId) (active : String) (st : St) (hc : Consistent st) (ha : st.has active = true) :
    opens k active st = true ↔ k = st.storeKey := by
  unfold opens
  have : ∃ p, st.find? active = some p ∧ p ∈ st.profiles := by
    simp only [St.has, List.any_eq_true] at ha
    obtain ⟨p, hp, hpn⟩ := ha
    cases hf : st.profiles.find? (·.name == active) with
    | none =>
      have := List.find?_eq_none.mp hf p hp
      simp [hpn] at this
    | some q => exact ⟨q, by simp [St.find?, hf], List.mem_of_find?_eq_some hf⟩
  obtain ⟨p, hp, hmem⟩ := this
  simp only [hp, Bool.and_eq_true, beq_iff_eq]
  constructor
  · intro h; exact h.1
  · intro h; exact ⟨h, by rw [hc p hmem, h]⟩

/-- the database after a complete re-key -/
def rekeyed (new : KeyId) (st : St) : St :=
  { st with profiles := st.profiles.map (fun p => { p with wrap := new }), storeKey := new }

/-- a re-key under any fault: refused / failed with nothing changed, or complete with the handle's cache swapped -/
theorem rekey_result (f : Option Nat) (h : Handle) (new : KeyId) (st : St) :
    (∃ e, runCall f h (.rekey new) st = (st, h, .err e)) ∨ runCall f h (.rekey new) st = (rekeyed new st, ⟨new⟩, .ok) := by
  unfold runCall
  cases hr : runTxn f 0 (stmts h (.rekey new) st) st with
  | error e => exact Or.inl ⟨e, rfl⟩
  | ok st' =>
    right
    have := rekey_run f h new st st' hr
    simp only [this, handleAfter, success, rekeyed]

theorem has_rekeyed (new : KeyId) (st : St) (n : String) : (rekeyed new st).has n = st.has n := by
  simp only [rekeyed, St.has, List.any_map]
  rfl

theorem consistent_rekeyed (new : KeyId) (st : St) : Consistent (rekeyed new st) := by
  intro p hp
  simp only [rekeyed, List.mem_map] at hp
  obtain ⟨q, _, rfl⟩ := hp
  rfl

theorem content_rekeyed (new : KeyId) (st : St) : content (rekeyed new st) = content st := content_rewrap new st

/-- exactly one of the two keys opens a consistent store whose key is one of them -/
theorem opens_xor (old new : KeyId) (active : String) (s : St) (hc : Consistent s) (ha : s.has active = true)
    (hne : new ≠ old) (hk : s.storeKey = old ∨ s.storeKey = new) :
    (opens old active s = true ↔ ¬ opens new active s = true) := by
  rw [opens_iff old active s hc ha, opens_iff new active s hc ha]
  rcases hk with hk | hk <;> rw [hk]
  · constructor
    · intro _ h; exact hne h
    · intro _; rfl
  · constructor
    · intro h1 _; exact hne h1.symm
    · intro h; exact absurd rfl h

/-! ### the handle stays usable: every profile key is wrapped with the key the handle holds -/

/-- `b` keeps the config key of `a`, and every profile of `b` is wrapped with `K` or as some profile of `a` was -/
def Keeps (K : KeyId) (a b : St) : Prop :=
  b.storeKey = a.storeKey ∧ ∀ p ∈ b.profiles, p.wrap = K ∨ ∃ q ∈ a.profiles, q.wrap = p.wrap

theorem keeps_refl (K : KeyId) (s : St) : Keeps K s s := ⟨rfl, fun p hp => Or.inr ⟨p, hp, rfl⟩⟩

theorem keeps_trans (K : KeyId) (a b c : St) (h1 : Keeps K a b) (h2 : Keeps K b c) : Keeps K a c := by
  refine ⟨h2.1.trans h1.1, fun p hp => ?_⟩
  rcases h2.2 p hp with hK | ⟨q, hq, hw⟩
  · exact Or.inl hK
  · rcases h1.2 q hq with hK | ⟨r, hr, hw'⟩
    · exact Or.inl (hw ▸ hK)
    · exact Or.inr ⟨r, hr, hw'.trans hw⟩

theorem keeps_mapProfile (K : KeyId) (st : St) (n : String) (f : Profile → Profile) (hf : ∀ p, (f p).wrap = p.wrap) :
    Keeps K st (st.mapProfile n f) := by
  refine ⟨rfl, fun p hp => ?_⟩
  simp only [St.mapProfile, List.mem_map] at hp
  obtain ⟨q, hq, rfl⟩ := hp
  refine Or.inr ⟨q, hq, ?_⟩
  by_cases hn : (q.name == n) = true <;> simp [hn, hf]

theorem keeps_import (K : KeyId) (to : String) : ∀ (recs : List Rec), ∀ s ∈ importStmts to recs, ∀ x y, s.run x = .ok y → Keeps K x y := by
  intro recs
  induction recs with
  | nil => intro s hs; simp [importStmts] at hs
  | cons r rs ih =>
    intro s hs x y hrun
    simp only [importStmts, List.cons_append, List.mem_cons, List.mem_append, List.mem_map] at hs
    rcases hs with rfl | ⟨t, _, rfl⟩ | hs
    · simp only [insertItem] at hrun
      split at hrun
      · cases hrun
      · split at hrun
        · cases hrun
        · cases hrun; exact keeps_mapProfile K x to _ (fun _ => rfl)
    · simp only [insertTag] at hrun
      cases hrun; exact keeps_mapProfile K x to _ (fun _ => rfl)
    · exact ih s hs x y hrun

/-- any call under any fault, on a handle whose key is the store key of a consistent store: still so afterwards -/
theorem usable_invariant (f : Option Nat) (h : Handle) (c : Call) (st : St)
    (hc : Consistent st) (hh : h.cacheKey = st.storeKey) :
    Consistent (runCall f h c st).1 ∧ (runCall f h c st).2.1.cacheKey = (runCall f h c st).1.storeKey := by
  cases c with
  | rekey new =>
    rcases rekey_result f h new st with ⟨e, he⟩ | he
    · rw [he]; exact ⟨hc, hh⟩
    · rw [he]; exact ⟨consistent_rekeyed new st, rfl⟩
  | _ =>
    all_goals
      unfold runCall
      cases hr : runTxn f 0 (stmts h _ st) st with
      | error e => exact ⟨hc, hh⟩
      | ok st' =>
        have hk : Keeps h.cacheKey st st' := by
          refine runTxn_preserves (Keeps h.cacheKey) (keeps_refl _) (keeps_trans _) f _ ?_ 0 st st' hr
          intro s hs x y hrun
          simp only [stmts, List.mem_cons, List.mem_nil_iff, or_false] at hs
          first
            | (subst hs; simp only [insertProfile] at hrun; cases hrun
               refine ⟨by split <;> rfl, fun p hp => ?_⟩
               split at hp
               · exact Or.inr ⟨p, hp, rfl⟩
               · simp only [List.mem_append, List.mem_singleton] at hp
                 rcases hp with hp | rfl
                 · exact Or.inr ⟨p, hp, rfl⟩
                 · exact Or.inl rfl)
            | (subst hs; simp only [deleteProfile] at hrun; cases hrun
               exact ⟨rfl, fun p hp => Or.inr ⟨p, (List.mem_filter.mp hp).1, rfl⟩⟩)
            | (subst hs; simp only [setDefaultStmt] at hrun; cases hrun
               exact ⟨rfl, fun p hp => Or.inr ⟨p, hp, rfl⟩⟩)
            | (rcases hs with rfl | hs
               · simp only [targetCheck] at hrun
                 split at hrun
                 · cases hrun
                 · split at hrun
                   · cases hrun
                   · split at hrun
                     · cases hrun
                     · cases hrun; exact keeps_refl _ _
               · exact keeps_import _ _ _ s hs x y hrun)
            | (subst hs; cases hrun)
        refine ⟨fun p hp => ?_, ?_⟩
        · rcases hk.2 p hp with hK | ⟨q, hq, hw⟩
          · rw [hK, hh, hk.1]
          · rw [← hw, hc q hq, hk.1]
        · simp only [handleAfter]; rw [hh, hk.1]

/-! ### process kill -/

theorem killCall_cases (j : Nat) (h : Handle) (c : Call) (st : St) :
    killCall j h c st = st ∨ killCall j h c st = (runCall none h c st).1 := by
  unfold killCall
  by_cases hj : j ≤ (stmts h c st).length <;> simp [hj]

theorem afterN_zero (h : Handle) (st : St) (cs : List Call) : afterN h st cs 0 = st := by
  simp [afterN, runSeq]

theorem afterN_nil (h : Handle) (st : St) (n : Nat) : afterN h st [] n = st := by
  simp [afterN, runSeq]

theorem afterN_succ (h : Handle) (st : St) (c : Call) (cs : List Call) (n : Nat) :
    afterN h st (c :: cs) (n + 1) = afterN (runCall none h c st).2.1 (runCall none h c st).1 cs n := by
  simp [afterN, runSeq]

theorem crash_cases : ∀ (cs : List Call) (h : Handle) (st : St) (n j : Nat),
    crash h st cs n j = afterN h st cs n ∨ crash h st cs n j = afterN h st cs (n + 1) := by
  intro cs
  induction cs with
  | nil => intro h st n j; left; simp [crash, afterN_nil]
  | cons c cs ih =>
    intro h st n j
    cases n with
    | zero =>
      simp only [crash, afterN_zero]
      rcases killCall_cases j h c st with hk | hk
      · left; exact hk
      · right; rw [hk, afterN_succ, afterN_zero]
    | succ n =>
      simp only [crash, afterN_succ]
      exact ih _ _ n j

theorem killCopy_cases (j : Nat) (h : Handle) (to : String) (recs : List Rec) (st : St) :
    killCopy j h to recs st = st ∨ killCopy j h to recs st = (runCall none h (.createProfile to) st).1 ∨
    killCopy j h to recs st = (runCopy none h to recs st).1 := by
  unfold killCopy
  by_cases hj : j ≤ 2
  · simp only [hj, if_true]
    rcases killCall_cases j h (.createProfile to) st with hk | hk
    · exact Or.inl hk
    · exact Or.inr (Or.inl hk)
  · simp only [hj, if_false]
    rcases killCall_cases (j - 2) h (.importRecs to recs true) (runCall none h (.createProfile to) st).1 with hk | hk
    · exact Or.inr (Or.inl hk)
    · refine Or.inr (Or.inr ?_)
      rw [hk, runCopy_none_eq]

end Askar.StoreFault.Lemmas
