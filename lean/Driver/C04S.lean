/- Driver for `kind = "c04s"` (and `"c04s:…"`) cases: the structure channel of C04 and direct totality campaigns. -/
import Driver.Common

open Lean

namespace Driver.C04S

def runCase (_j : Json) : Json := jerr "not implemented"

end Driver.C04S
