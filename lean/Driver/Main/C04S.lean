import Driver.C04S
def main : IO Unit := Driver.mainLoop fun _ j => Driver.C04S.runCase j
