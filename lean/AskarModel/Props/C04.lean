/-
C04 — WQL filters select exactly the records their reference semantics define.
ONLY property theorems and non-vacuity examples live here; helper lemmas are in Lemmas/Wql.lean.
-/
import AskarModel.Model.Wql
import AskarModel.Lemmas.Wql

namespace Askar.Wql

/-- The main theorem: for every filter in the property's domain, every tag crypto satisfying the
    stated idealisation, every LIKE relation and every record (tag list, any length), the SQL that
    the encoder emits, evaluated as SQLite evaluates it on the stored (encrypted) tag rows, selects
    the record iff the reference semantics says so. -/
theorem encode_correct (like : Bytes → Bytes → Bool) (E : TagCrypto) (hE : E.Inj)
    (q : Query TagName) (hq : q.InDomain) (tags : List Tag)
    (hP : E.NoPrefixCollision (q.values ++ tags.map (·.value))) :
    evalFilter like (encodeQuery E q) (tags.map E.encTag) = holds like tags q :=
  Lemmas.encode_correct like E hE q hq tags hP

/-- The same, for a whole store scan: over any number of records, the records the emitted SQL
    selects are exactly those the reference semantics selects — so count / fetch-all / remove-all
    operate on exactly the reference set. -/
theorem filter_selects_ref (like : Bytes → Bytes → Bool) (E : TagCrypto) (hE : E.Inj)
    (q : Query TagName) (hq : q.InDomain) (recs : List (List Tag))
    (hP : E.NoPrefixCollision (q.values ++ recs.flatten.map (·.value))) :
    (recs.filter fun tags => evalFilter like (encodeQuery E q) (tags.map E.encTag))
      = recs.filter (holds like · q) :=
  Lemmas.filter_selects_ref like E hE q hq recs hP

/-- Every placeholder index used by the emitted clause denotes an argument that was pushed. -/
theorem encode_args_bound (E : TagCrypto) (q : Query TagName) (c : Clause)
    (h : (encodeQuery E q).1 = some c) : c.Bounded (encodeQuery E q).2.length :=
  Lemmas.encode_args_bound E q c h

/-- Placeholder numbering: after `replace_arg_placeholders` with offset `start`, the k-th
    placeholder of the rendered clause is `?(start + k)`, i.e. it is bound to the k-th filter
    argument appended after the fixed parameters — and that is the argument the clause tree means. -/
theorem placeholders_numbered (E : TagCrypto) (q : Query TagName) (c : Clause) (start : Nat) (hs : 1 ≤ start)
    (h : (encodeQuery E q).1 = some c) :
    (replaceToks start 0 (render c)).filterMap (fun | .inr n => some n | .inl _ => none)
      = (c.argRefs).map (· + start)
    ∧ c.argRefs = List.range (encodeQuery E q).2.length :=
  Lemmas.placeholders_numbered E q c start hs h

/-- `$not` is exact complement whenever no multi-name `$exist` occurs (the one pinned deviation). -/
theorem negate_is_complement (like : Bytes → Bytes → Bool) (q : Query TagName) (h1 : q.SingleNameExist)
    (tags : List Tag) : holds like tags (.not q) = !holds like tags q :=
  Lemmas.negate_is_complement like q h1 tags

/-- Outside the pinned deviation the polarity-passing reference semantics *is* the plain Boolean one. -/
theorem holds_eq_std (like : Bytes → Bytes → Bool) (q : Query TagName) (h1 : q.SingleNameExist)
    (tags : List Tag) : holds like tags q = std like tags q :=
  Lemmas.holds_eq_std like q h1 tags

/-- The multi-name `$exist` under `$not`: the per-name reading, stated outright. -/
theorem not_exist_per_name (like : Bytes → Bytes → Bool) (ns : List TagName) (tags : List Tag) :
    holds like tags (.not (.exist ns)) = ns.all fun n => !atomExist n tags :=
  Lemmas.not_exist_per_name like ns tags

/-- What the code does with nested empty connectives (outside the domain; stated, not alarmed):
    a child without a clause is dropped from its parent. -/
theorem encode_nested_empty (E : TagCrypto) (neg : Bool) (args : List Bytes) (qs : List (Query TagName)) :
    encodeList E neg args (.and [] :: qs) = encodeList E neg args qs ∨ neg = true :=
  Lemmas.encode_nested_empty E neg args qs

/-! Non-vacuity: the toy crypto satisfies the hypotheses on a concrete value set; a concrete filter
    with negation, a multi-valued `$in`, both tag kinds and an ordered comparison is in the domain;
    and the theorem's two sides are `true` on a concrete record (so neither side is constant). -/
example : TagCrypto.toy.Inj := Lemmas.toy_inj
example : TagCrypto.toy.NoPrefixCollision ["1", "x", "y", "5", "7"] := by
  -- `utf8` goes through `ByteArray.toList` (well-founded recursion), which `decide` cannot unfold;
  -- `Lemmas.utf8_eq : utf8 s = s.toByteArray.data.toList` puts it in a reducible form first.
  unfold TagCrypto.NoPrefixCollision TagCrypto.toy; simp only [Lemmas.utf8_eq]; decide

def exQ : Query TagName := .and [.not (.or [.cmp .eq (.enc "a") "1", .isIn (.plain "b") ["x", "y"]]),
    .cmp .gte (.plain "n") "5", .exist [.enc "a"]]
example : exQ.InDomain := by decide
example : holds (fun _ _ => false) [⟨false, "a", "7"⟩, ⟨true, "n", "5"⟩] exQ = true := by
  simp only [exQ, holds, holdsP, holdsAll, holdsAny, atomCmp, atomIn, atomExist, Lemmas.utf8_eq]
  decide
example : holds (fun _ _ => false) [⟨false, "a", "1"⟩, ⟨true, "n", "5"⟩] exQ = false := by
  simp only [exQ, holds, holdsP, holdsAll, holdsAny, atomCmp, atomIn, atomExist, Lemmas.utf8_eq]
  decide

end Askar.Wql
