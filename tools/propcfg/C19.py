"""C19 — the C API is equivalent to the Rust API and robust to bad arguments."""

CFG = {
    "feature": "c19",
    "gens": ["C19"],
    "feature": "c19",
    "rule": (
        "one case = a call sequence (12..50 ops quick, 20..140 thorough) through the real extern \"C\" entry points, over up to three "
        "in-memory stores: provision (valid; URI absent; unknown key method; callback absent), store_close, session_start (plain / "
        "transaction, missing profile), session_close (commit / rollback, with and without callback), update (insert / replace / remove / "
        "operation codes 3, -1, 127; category and name from an exotic NUL-free alphabet or NULL; values of length 0,1,15,16,17,31,32,33,300,"
        "4095..65536 with NUL bytes; expiry -1, -5, +1h, i64::MIN), fetch, fetch_all, count, remove_all, scan_start / scan_next / scan_free "
        "(offset, limit incl. negative and i64 extremes, order_by NULL / id / ID / unsupported), entry-list accessors (count, category, name, "
        "value, tags; indices 0,1,2,3,5,31,32,33,-1,-2,65536,1000000,i32::MAX,i32::MIN; NULL list; NULL out-pointer; free), create_profile, "
        "list_profiles + string-list accessors, get_profile_name, key_generate / key_get_algorithm (NULL key, NULL out, unknown algorithm), "
        "insert_key with a NULL key handle.  Handle arguments are the handle issued by an earlier op of the case (live, closed, or 0 when "
        "that op failed) or one of 0 / usize::MAX / never-issued; about 6 % (22 % in handle-focused cases) of the handle arguments are bad.  "
        "Tag sets are given as JSON text generated from a tag list: grouped or repeated keys, scalar or one-element array, empty arrays, "
        "random whitespace, keys and values spelled raw or with short / \\uXXXX / surrogate-pair escapes; names include quote, backslash, "
        "control characters, NUL, `~`-prefixed and empty plaintext names, astral and combining characters; plus a malformed stream (24 "
        "texts: wrong types, truncation, trailing characters, lone surrogates, raw control characters, empty key).  Tag filters are WQL JSON "
        "rendered from an AST (depth <= 3, all operators, escaped and raw spellings, $exist scalar or array) plus 14 malformed texts.  "
        "Every 75th case passes a non-UTF-8 C string as an optional argument; one case per run calls askar_store_generate_raw_key with a "
        "NULL out-pointer in a child process.  Generator rules that keep the expected result determined: at most 4 open sessions+scans per "
        "store; while a transaction is open only that session is used; no writes on a store that has had a scan; after a close without "
        "callback the harness waits for the handle to disappear.  "
        "Follow-up ops: rekey through askar_store_rekey (valid raw keys, kdf:argon2i:int passwords incl. empty, none, default method, malformed raw "
        "keys: blank / short / 31 and 33 bytes / non-base58, NULL pass key, unknown or malformed method strings, method with trailing detail, "
        "non-UTF-8 method, bad and closed handles, no callback); every eighth case is a re-key life cycle on a database FILE: each attempt is "
        "followed by continued use of the same store handle (session start, insert, fetch, commit, fetch through a session opened before the "
        "re-key, profile name) and, through askar_store_open, by opening the file with the current key and with the key it replaced; the twin "
        "runs the same sequence through Store::rekey / Store::open.  Also: remove_profile, get/set_default_profile, stored keys "
        "(insert_key / fetch_key / fetch_all_keys / update_key / remove_key with key-entry-list accessors, load_local, bad indices, NULL out), "
        "key_from_seed round trips against LocalKey::from_seed (public / secret bytes, JWK, thumbprint, cross sign / verify), a NULL-handle and "
        "NULL-out sweep over 33 synchronous key / list accessors, string-list count, askar_version, askar_set_max_log_level, and "
        "askar_get_current_error after every kind of failure (the slot must hold the last reported error) and with a NULL out-pointer (child process).  "
        "non-trivial: >= 8 ops, >= 1 callback that delivered data or a handle, and >= 1 op that ended in an error code (bad handle, "
        "malformed argument or library error).  distinct = hash of the case"
    ),
    "assumptions": [
        "the store behind the C API is the logical store model of C01/C07/C16 (Model/Store.lean): sessions ping (resolve the profile, begin "
        "the transaction) when they are started; a scan is evaluated when it is started (no writes while it is open)",
        "WQL JSON text -> filter AST is not modelled here (C04's domain): the case carries the AST the text was rendered from; the oracle "
        "checks the text against the Rust builder API on the twin store; a text without AST is treated as undecodable",
        "without ORDER BY the rows of a limited fetch_all and the page membership of a scan are not determined: only their counts are compared",
        "close / free of a session or scan handle that is not in the registry is a documented no-op (Success); every *use* of such a handle "
        "must report an error",
        "the counter does not wrap: fewer than 2^64 handles are issued in the life of a process (hypothesis of handles_never_reused)",
        "Busy on removal while a handle is borrowed, and tokio scheduling, are runtime behaviour outside the sequential model (partial)",
        "freed list / key pointers and negative ByteBuffer lengths are outside the header contract and never generated",
        "three repaired sites are modelled in both variants and selected by flags that tools/extract.py reads from the source "
        "(Generated/Flags.lean passKeyAsRefKeepsNone, ffiOrderByErrorRecorded, ffiCurrentErrorChecksOut; like ffiTagKeysOwned, ffiRawKeyChecksOut): "
        "the driver runs the variant of the tree under test, the theorems cover both",
        "ErrorCode numbering and the key type of EntryTagSet's deserialiser (Model/Ffi.lean `keysBorrowedOnly`) are transcribed by hand, not "
        "regenerated by tools/extract.py",
        "raw-key validity (base58, 32 bytes) is decided in the model by membership in the generator's table of three valid keys; key material, "
        "JWK and signatures are not modelled here (C11/C13/C14): key ops are compared with the Rust API by the oracle, the model gives the status",
        "entry points NOT called by this check: askar_key_aead_encrypt, askar_key_aead_decrypt, askar_key_aead_get_padding, askar_key_aead_get_params, "
        "askar_key_convert, askar_key_crypto_box, askar_key_crypto_box_open, askar_key_crypto_box_seal, askar_key_crypto_box_seal_open, "
        "askar_key_derive_ecdh_1pu, askar_key_derive_ecdh_es, askar_key_from_jwk, askar_key_from_key_exchange, askar_key_from_public_bytes, "
        "askar_key_from_secret_bytes, askar_key_unwrap_key, askar_key_wrap_key (crypto arguments: C12-C15 test the Rust side), askar_store_copy, "
        "askar_store_remove, askar_migrate_indy_sdk (C18), askar_set_custom_logger, askar_set_default_logger, askar_clear_custom_logger "
        "(process-global, one-shot), askar_terminate (shuts the runtime down for the rest of the process)",
    ],
    "trusted_base": [
        "harness/src/c19/ffi.rs: extern \"C\" declarations (transcribed from src/ffi/*.rs / include/libaries_askar.h) and the callback recorder",
        "harness/src/c19/exec.rs: the twin store driven through aries_askar::Store, the oracle's own bookkeeping of live handles, the "
        "classification of arguments as valid / malformed; harness/src/c19/json.rs: the order-preserving JSON reader for tag-set texts",
        "lean/Driver/C19.lean: JSON protocol, the world (stores, sessions, scans, lists) on top of Model/Store.lean",
    ],
}


def nontrivial(rec):
    case = rec["case"]
    ops = case.get("ops") or []
    out = rec["impl"].get("out")
    if not isinstance(out, list) or len(ops) < 8:
        return False
    delivered = False
    errored = False
    for o in out:
        if not isinstance(o, dict):
            continue
        if o.get("r") not in (None, "Success"):
            errored = True
        cb = o.get("cb")
        if isinstance(cb, dict):
            if "err" in cb:
                errored = True
            elif cb.get("list") or "h" in cb or "n" in cb:
                delivered = True
    return delivered and errored
