/-
  Several store handles on ONE SQLite database (second engine "C07H" of property C07).

  What is modelled (askar-storage/src/backend/sqlite/mod.rs, protect/mod.rs `KeyCache`, backend/db_utils.rs `DbSession::make_active`,
  src/store.rs `Store::session` / `Store::transaction` / `Store::scan`, sqlite/provision.rs `open_db`):

  * the SHARED database: table `profiles` (id, name UNIQUE, wrapped profile key), table `items` (profile_id REFERENCES profiles
    ON DELETE CASCADE, category / name / value encrypted under a profile key, UNIQUE (profile_id, kind, category, name) on the
    CIPHERTEXTS), the `default_profile` config row.  `profiles.id` is a rowid alias WITHOUT AUTOINCREMENT: a new row gets
    `max(id) + 1` — the id of a removed profile is handed out again when it was the largest;
  * per HANDLE: the active profile name and the `KeyCache` `name ↦ (profile id, profile key)`; `remove_profile` evicts the name
    from the cache of the handle that performs it — and of no other handle;
  * `resolve_profile_key` AS IT IS: a cache hit is final (no look at the database), a miss reads the row by name and caches it;
  * `ping` (run by `Store::session` / `Store::transaction`, NOT by `Store::scan`): `SELECT COUNT(*) FROM profiles WHERE id = ?`
    with the RESOLVED id — it tells "no row has this id any more", not "the row of this name is gone";
  * a session keeps the resolved `(id, key)` pair for its whole life; every statement carries `profile_id = id`, category and
    name are compared as ciphertexts under `key`, values are decrypted with `key`.

  Profile keys are abstract identifiers (`Key := Nat`); `create_profile` draws `db.nextKey` — the idealisation "a fresh random
  256-bit key never equals an earlier one".  Encryption is abstracted by provenance: an `items` row remembers the key it was
  written under; a ciphertext comparison under key `k` can only match a row written under `k` (deterministic, key-separated
  encryption), and decrypting a row written under another key fails (`Encryption`).  Both are the assumptions already listed for
  C07 ("a row encrypted under one key neither matches nor decrypts under another").

  `validate = false` is today's `resolve_profile_key`; `validate = true` is the repaired variant of
  proposals/C07H-validate-cached-profile.diff (the row is always read by name; the cache only saves the unwrapping when id and
  wrapped key still agree).  `Askar.TwoHandles.validateCurrent` is the switch for the current tree.
-/

namespace Askar.TwoHandles

abbrev Pid := Nat
abbrev Key := Nat

inductive Err where
  | notFound | duplicate | backend | encryption
  deriving DecidableEq, Repr, Inhabited

def Err.name : Err → String
  | .notFound => "NotFound" | .duplicate => "Duplicate" | .backend => "Backend" | .encryption => "Encryption"

structure Rec where
  cat : String
  name : String
  value : String
  tags : List (Nat × String × String)
  deriving DecidableEq, Repr, Inhabited

/-- a row of `profiles` -/
structure ProfRow where
  id : Pid
  name : String
  key : Key
  deriving DecidableEq, Repr, Inhabited

/-- a row of `items`: the owner id, the key its ciphertexts were produced under, the plaintext -/
structure Item where
  pid : Pid
  key : Key
  data : Rec
  deriving DecidableEq, Repr, Inhabited

structure Db where
  profiles : List ProfRow
  items : List Item
  default : String
  nextKey : Key
  deriving DecidableEq, Repr, Inhabited

structure CacheEntry where
  name : String
  pid : Pid
  key : Key
  deriving DecidableEq, Repr, Inhabited

structure Handle where
  active : String
  cache : List CacheEntry
  deriving DecidableEq, Repr, Inhabited

/-- what a `DbSession` holds once it is active -/
structure Sess where
  pid : Pid
  key : Key
  deriving DecidableEq, Repr, Inhabited

/-- does the source validate a cached entry against the database?  (today: no) -/
def validateCurrent : Bool := false

/-! ## the database -/

def Db.rowByName (db : Db) (n : String) : Option ProfRow := db.profiles.find? (fun r => decide (r.name = n))

def Db.hasId (db : Db) (p : Pid) : Bool := db.profiles.any (fun r => decide (r.id = p))

def maxId : List ProfRow → Pid
  | [] => 0
  | r :: rs => max r.id (maxId rs)

/-- SQLite rowid allocation without AUTOINCREMENT -/
def Db.newRowId (db : Db) : Pid := maxId db.profiles + 1

/-- a freshly provisioned store: profile `p` with row id 1 -/
def Db.provisioned (p : String) : Db := { profiles := [⟨1, p, 0⟩], items := [], default := p, nextKey := 1 }

/-! ## the key cache -/

def cacheGet (c : List CacheEntry) (n : String) : Option CacheEntry := c.find? (fun e => decide (e.name = n))

def cacheDel (c : List CacheEntry) (n : String) : List CacheEntry := c.filter (fun e => decide (e.name ≠ n))

def cachePut (c : List CacheEntry) (n : String) (pid : Pid) (k : Key) : List CacheEntry := ⟨n, pid, k⟩ :: cacheDel c n

/-! ## store-level calls through a handle -/

/-- `open_db`: the active profile is the requested one or the store's default; its row is read and cached
    (`fetch_one`: a missing row is a Backend error) -/
def openHandle (db : Db) (profile : Option String) : Except Err Handle :=
  let n := profile.getD db.default
  match db.rowByName n with
  | some row => .ok { active := n, cache := [⟨n, row.id, row.key⟩] }
  | none => .error .backend

/-- `create_profile`: `INSERT OR IGNORE` (0 rows: Duplicate), the new row is cached by the creating handle -/
def createProfile (h : Handle) (db : Db) (n : String) : Handle × Db × Except Err Unit :=
  match db.rowByName n with
  | some _ => (h, db, .error .duplicate)
  | none =>
    let id := db.newRowId
    ({ h with cache := cachePut h.cache n id db.nextKey },
     { db with profiles := db.profiles ++ [⟨id, n, db.nextKey⟩], nextKey := db.nextKey + 1 }, .ok ())

/-- `remove_profile`: `DELETE FROM profiles WHERE name = ?` + cascade on `items`; the performing handle evicts the name -/
def removeProfile (h : Handle) (db : Db) (n : String) : Handle × Db × Bool :=
  let h' := { h with cache := cacheDel h.cache n }
  match db.rowByName n with
  | none => (h', db, false)
  | some row =>
    (h', { db with profiles := db.profiles.filter (fun r => decide (r.name ≠ n)),
                   items := db.items.filter (fun it => decide (it.pid ≠ row.id)) }, true)

def setDefault (db : Db) (n : String) : Db := { db with default := n }

/-- `resolve_profile_key` -/
def resolve (validate : Bool) (h : Handle) (db : Db) (n : String) : Handle × Except Err Sess :=
  if validate then
    match db.rowByName n with
    | none => ({ h with cache := cacheDel h.cache n }, .error .notFound)
    | some row => ({ h with cache := cachePut h.cache n row.id row.key }, .ok ⟨row.id, row.key⟩)
  else
    match cacheGet h.cache n with
    | some e => (h, .ok ⟨e.pid, e.key⟩)
    | none =>
      match db.rowByName n with
      | some row => ({ h with cache := cachePut h.cache n row.id row.key }, .ok ⟨row.id, row.key⟩)
      | none => (h, .error .notFound)

/-- `ping` -/
def ping (db : Db) (s : Sess) : Bool := db.hasId s.pid

/-- `Store::session` / `Store::transaction`: resolve, then ping ("Session profile has been removed") -/
def openSession (validate : Bool) (h : Handle) (db : Db) (profile : Option String) : Handle × Except Err Sess :=
  match resolve validate h db (profile.getD h.active) with
  | (h', .error e) => (h', .error e)
  | (h', .ok s) => if ping db s then (h', .ok s) else (h', .error .notFound)

/-! ## calls of a session (`profile_id = s.pid`, ciphertexts under `s.key`) -/

/-- `WHERE profile_id = ?1 AND category = ?3 AND name = ?4` with ciphertext parameters -/
def hits (s : Sess) (c n : String) (it : Item) : Bool :=
  decide (it.pid = s.pid) && decide (it.key = s.key) && decide (it.data.cat = c) && decide (it.data.name = n)

/-- `WHERE profile_id = ?1 AND (category = ?3 OR ?3 IS NULL)` -/
def inScope (s : Sess) (cat : Option String) (it : Item) : Bool :=
  decide (it.pid = s.pid) &&
    (match cat with
     | none => true
     | some c => decide (it.key = s.key) && decide (it.data.cat = c))

/-- `INSERT OR IGNORE INTO items` (0 rows: Duplicate; no parent row: FOREIGN KEY constraint failed) -/
def insert (s : Sess) (db : Db) (r : Rec) : Except Err Db :=
  if db.items.any (hits s r.cat r.name) then .error .duplicate
  else if db.hasId s.pid then .ok { db with items := db.items ++ [⟨s.pid, s.key, r⟩] }
  else .error .backend

/-- `UPDATE items … RETURNING id` (no row: NotFound), tags rewritten -/
def replace (s : Sess) (db : Db) (r : Rec) : Except Err Db :=
  if db.items.any (hits s r.cat r.name) then
    .ok { db with items := db.items.map fun it => if hits s r.cat r.name it then { it with data := r } else it }
  else .error .notFound

/-- `DELETE FROM items WHERE …` (0 rows: NotFound) -/
def remove (s : Sess) (db : Db) (c n : String) : Except Err Db :=
  if db.items.any (hits s c n) then .ok { db with items := db.items.filter fun it => !hits s c n it }
  else .error .notFound

def fetch (s : Sess) (db : Db) (c n : String) : Option Rec := (db.items.find? (hits s c n)).map (·.data)

/-- `fetch_all` / the body of a scan: the rows in scope, then `decrypt_scan_batch` under the session's key -/
def fetchAll (s : Sess) (db : Db) (cat : Option String) : Except Err (List Rec) :=
  let rows := db.items.filter (inScope s cat)
  if rows.all (fun it => decide (it.key = s.key)) then .ok (rows.map (·.data)) else .error .encryption

def count (s : Sess) (db : Db) (cat : Option String) : Nat := (db.items.filter (inScope s cat)).length

def removeAll (s : Sess) (db : Db) (cat : Option String) : Db × Nat :=
  ({ db with items := db.items.filter fun it => !inScope s cat it }, count s db cat)

/-- `Store::scan`: resolve WITHOUT ping, then the scan -/
def scan (validate : Bool) (h : Handle) (db : Db) (profile : Option String) (cat : Option String) :
    Handle × Except Err (List Rec) :=
  match resolve validate h db (profile.getD h.active) with
  | (h', .error e) => (h', .error e)
  | (h', .ok s) => (h', fetchAll s db cat)

/-! ## what the database holds under a NAME (the property's point of view; also the observer of the engine) -/

/-- the rows owned by the profile row `row` -/
def rowsOf (db : Db) (row : ProfRow) : List Item := db.items.filter (fun it => decide (it.pid = row.id))

/-- the logical content of the profile named `n`, read with the row's own key -/
def contentOf (db : Db) (n : String) : Option (Except Err (List Rec)) :=
  (db.rowByName n).map fun row => fetchAll ⟨row.id, row.key⟩ db none

/-- rows whose owner id no longer exists (the cascade keeps this empty) -/
def orphans (db : Db) : List Item := db.items.filter (fun it => !db.hasId it.pid)

/-! ## invariants used by the theorems -/

/-- every key in the database is older than the next key `create_profile` will draw -/
def Db.KeysBelow (db : Db) : Prop := (∀ r ∈ db.profiles, r.key < db.nextKey) ∧ (∀ it ∈ db.items, it.key < db.nextKey)

def Handle.KeysBelow (h : Handle) (k : Key) : Prop := ∀ e ∈ h.cache, e.key < k

/-- the handle's cache agrees with the database: every entry is the row the database holds under that name -/
def CacheFresh (h : Handle) (db : Db) : Prop := ∀ e ∈ h.cache, db.rowByName e.name = some ⟨e.pid, e.name, e.key⟩

end Askar.TwoHandles
