//! Executes `kind = "store"` cases against the real backend and evaluates the reference oracle.
use crate::canon::{err_name, filter_from_json, kind_of, kind_num, recs_json, ref_holds, sorted_tags, tags_from_json, value_from_json, Rec, Tag};
use crate::rawsql::{RawDb, Val};
use askar_storage::any::{AnyBackend, AnyBackendSession};
use askar_storage::backend::{Backend, BackendSession, ManageBackend, OrderBy};
use askar_storage::entry::{EntryOperation, EntryTag};
use askar_storage::future::block_on;
use askar_storage::{PassKey, StoreKeyMethod};
use serde_json::{json, Value};
use std::collections::{BTreeMap, HashMap};

pub const RAW_KEY: &str = "7Z8ftDAzMvoyXnGEJye8DurzgFQXLAbYCaeeesM7UKHa";

pub fn scratch_dir() -> String {
    let d = std::env::var("VERIF_SCRATCH").unwrap_or_else(|_| format!("{}/askar-verif-{}", std::env::temp_dir().display(), std::process::id()));
    std::fs::create_dir_all(&d).ok();
    d
}

pub fn now_ms() -> i64 {
    std::time::SystemTime::now().duration_since(std::time::UNIX_EPOCH).unwrap().as_millis() as i64
}

fn s(v: &Value, k: &str) -> String { v[k].as_str().unwrap_or("").to_string() }
fn so(v: &Value, k: &str) -> Option<String> { v[k].as_str().map(|x| x.to_string()) }
fn io(v: &Value, k: &str) -> Option<i64> { v[k].as_i64() }
fn b(v: &Value, k: &str) -> bool { v[k].as_bool().unwrap_or(false) }

// ---------------------------------------------------------------------------------------------
// Reference oracle: the in-memory map of the property text (C01/C07/C16/C17), per profile.

#[derive(Clone, Debug)]
struct RefRec {
    rec: Rec,
    expiry: Option<i128>, // absolute ms
    seq: u64,             // creation order
}

#[derive(Default, Clone, Debug)]
struct RefProfile {
    recs: Vec<RefRec>,
}

#[derive(Clone, Debug)]
struct RefSess {
    profile: Option<String>, // None: resolution failed / not yet resolved
    want: String,
    resolved: bool,
}

pub struct Oracle {
    profiles: BTreeMap<String, RefProfile>,
    sessions: HashMap<u64, RefSess>,
    txn: Option<(u64, BTreeMap<String, RefProfile>)>,
    txn_sessions: HashMap<u64, bool>,
    now: i128,
    seq: u64,
    active: String,
    page: usize,
}

const MAX_DATETIME_S: i128 = 253402300799;

fn live(now: i128, r: &RefRec) -> bool {
    match r.expiry {
        None => true,
        // visible until the expiry instant, to within the backend's one-second resolution
        Some(e) => e.div_euclid(1000) > now.div_euclid(1000),
    }
}

impl Oracle {
    fn new(active: &str, now: i64, page: usize) -> Self {
        let mut profiles = BTreeMap::new();
        profiles.insert(active.to_string(), RefProfile::default());
        Oracle { profiles, sessions: HashMap::new(), txn: None, txn_sessions: HashMap::new(), now: now as i128, seq: 0, active: active.to_string(), page }
    }

    fn view(&mut self, sid: u64) -> &mut BTreeMap<String, RefProfile> {
        match &mut self.txn {
            Some((t, copy)) if *t == sid => copy,
            _ => &mut self.profiles,
        }
    }

    fn locked_by_other(&self, sid: u64) -> bool {
        matches!(&self.txn, Some((t, _)) if *t != sid)
    }

    /// expected output of one operation, or None when the property does not determine it
    fn step(&mut self, op: &Value) -> Option<Value> {
        let name = s(op, "op");
        let sid = op["s"].as_u64().unwrap_or(0);
        match name.as_str() {
            "session" => {
                self.sessions.insert(sid, RefSess { profile: None, want: so(op, "profile").unwrap_or(self.active.clone()), resolved: false });
                self.txn_sessions.insert(sid, b(op, "txn"));
                return Some(json!("ok"));
            }
            "tick" => { self.now += io(op, "ms").unwrap_or(0) as i128; return Some(json!("ok")); }
            "create_profile" => {
                if self.txn.is_some() { return None; }
                let n = s(op, "name");
                if self.profiles.contains_key(&n) { return Some(json!({"err": "Duplicate"})); }
                self.profiles.insert(n.clone(), RefProfile::default());
                return Some(json!({"name": n}));
            }
            "remove_profile" => {
                if self.txn.is_some() { return None; }
                let n = s(op, "name");
                let r = self.profiles.remove(&n).is_some();
                // sessions bound to the removed profile lose their binding
                for ss in self.sessions.values_mut() { if ss.profile.as_deref() == Some(&n) { ss.profile = None; } }
                return Some(json!({"removed": r}));
            }
            "list_profiles" => return Some(json!(self.profiles.keys().cloned().collect::<Vec<_>>().tap_sort())),
            "scan" => {
                let pname = so(op, "profile").unwrap_or(self.active.clone());
                let now = self.now;
                let p = match self.profiles.get(&pname) { Some(p) => p, None => return Some(json!({"err": "NotFound"})) };
                let rows = select(p, now, io(op, "k"), so(op, "c"), op.get("f").filter(|f| !f.is_null()));
                let ord = b(op, "ord");
                let windowed = io(op, "off").is_some() || io(op, "lim").is_some();
                let rows = window(rows, io(op, "off"), io(op, "lim"), b(op, "desc"));
                let pages = paginate(self.page, &rows);
                let sizes: Vec<usize> = pages.iter().map(|p| p.len()).collect();
                return Some(if ord { json!({"pages": pages.iter().map(|p| recs_json(true, p)).collect::<Vec<_>>()}) }
                    else if windowed { json!({"sizes": sizes}) }
                    else { json!({"sizes": sizes, "rows": recs_json(false, &rows)}) });
            }
            "commit" => {
                if let Some((t, copy)) = self.txn.take() { if t == sid { self.profiles = copy; } else { self.txn = Some((t, copy)); } }
                self.sessions.remove(&sid);
                return Some(json!("ok"));
            }
            "rollback" | "drop" => {
                if let Some((t, copy)) = self.txn.take() { if t != sid { self.txn = Some((t, copy)); } }
                self.sessions.remove(&sid);
                return Some(json!("ok"));
            }
            _ => {}
        }
        // session operations
        let is_txn = *self.txn_sessions.get(&sid).unwrap_or(&false);
        let mut ss = self.sessions.get(&sid)?.clone();
        if !ss.resolved {
            if is_txn && self.locked_by_other(sid) { return None; }
            if is_txn && self.txn.is_none() { self.txn = Some((sid, self.profiles.clone())); }
            if self.view(sid).contains_key(&ss.want) {
                ss.profile = Some(ss.want.clone());
                ss.resolved = true;
                self.sessions.insert(sid, ss.clone());
            } else {
                return Some(json!({"err": "NotFound"}));
            }
        }
        let pname = match &ss.profile { Some(p) => p.clone(), None => return None };
        let now = self.now;
        let locked = self.locked_by_other(sid);
        let seq = { self.seq += 1; self.seq };
        let page_unused = self.page; let _ = page_unused;
        let view = self.view(sid);
        let p = match view.get_mut(&pname) { Some(p) => p, None => return None };
        let k = io(op, "k").unwrap_or(2);
        let find = |p: &RefProfile, c: &str, n: &str| p.recs.iter().position(|r| r.rec.kind == k && r.rec.cat == c && r.rec.name == n && live(now, r));
        let is_write = matches!(name.as_str(), "insert" | "replace" | "remove" | "remove_all");
        if is_write && locked { return None; }
        match name.as_str() {
            "ping" => Some(json!("ok")),
            "insert" | "replace" => {
                let (c, n) = (s(op, "c"), s(op, "n"));
                let expiry = match io(op, "e") { None => None, Some(ms) => Some(now + ms as i128) };
                if let Some(e) = expiry {
                    // outside chrono's range the call may fail (the property does not say how)
                    if e > 8_210_298_412_799_999 || e < -8_334_632_851_200_000 { return None; }
                }
                let rec = Rec { kind: k, cat: c.clone(), name: n.clone(), value: value_from_json(&op["v"]),
                                tags: tags_from_json(&op["t"]).unwrap_or_default() };
                let pos = find(p, &c, &n);
                if name == "insert" {
                    if pos.is_some() { return Some(json!({"err": "Duplicate"})); }
                    // an expired record under the same identity is absent: purge it
                    p.recs.retain(|r| !(r.rec.kind == k && r.rec.cat == c && r.rec.name == n));
                    p.recs.push(RefRec { rec, expiry, seq });
                    Some(json!("ok"))
                } else {
                    match pos {
                        None => Some(json!({"err": "NotFound"})),
                        Some(i) => { p.recs[i].rec = rec; p.recs[i].expiry = expiry; Some(json!("ok")) }
                    }
                }
            }
            "remove" => {
                let (c, n) = (s(op, "c"), s(op, "n"));
                match find(p, &c, &n) {
                    None => Some(json!({"err": "NotFound"})),
                    Some(i) => { p.recs.remove(i); Some(json!("ok")) }
                }
            }
            "remove_all" => {
                let hit = select(p, now, io(op, "k"), so(op, "c"), op.get("f").filter(|f| !f.is_null()));
                let n = hit.len();
                let kc = |r: &RefRec| hit.iter().any(|h| h.kind == r.rec.kind && h.cat == r.rec.cat && h.name == r.rec.name);
                p.recs.retain(|r| !(live(now, r) && kc(r)));
                Some(json!({"n": n}))
            }
            "fetch" => {
                let (c, n) = (s(op, "c"), s(op, "n"));
                Some(match find(p, &c, &n) { None => Value::Null, Some(i) => p.recs[i].rec.to_json() })
            }
            "count" => Some(json!({"n": select(p, now, io(op, "k"), so(op, "c"), op.get("f").filter(|f| !f.is_null())).len()})),
            "fetch_all" => {
                let rows = select(p, now, io(op, "k"), so(op, "c"), op.get("f").filter(|f| !f.is_null()));
                let ord = b(op, "ord");
                let lim = io(op, "lim");
                let rows = window(rows, None, lim, b(op, "desc"));
                Some(if ord { json!({"rows": recs_json(true, &rows)}) }
                     else if lim.is_some() { json!({"count": rows.len()}) }
                     else { json!({"rows": recs_json(false, &rows)}) })
            }
            _ => None,
        }
    }
}

trait TapSort { fn tap_sort(self) -> Self; }
impl TapSort for Vec<String> { fn tap_sort(mut self) -> Self { self.sort_by(|a, b| a.as_bytes().cmp(b.as_bytes())); self } }

/// live records in scope, in creation order
fn select(p: &RefProfile, now: i128, kind: Option<i64>, cat: Option<String>, f: Option<&Value>) -> Vec<Rec> {
    let mut rs: Vec<&RefRec> = p.recs.iter().filter(|r| live(now, r)
        && kind.map_or(true, |k| r.rec.kind == k)
        && cat.as_ref().map_or(true, |c| &r.rec.cat == c)
        && f.map_or(true, |f| ref_holds(f, &r.rec.tags, false))).collect();
    rs.sort_by_key(|r| r.seq);
    rs.into_iter().map(|r| r.rec.clone()).collect()
}

fn window(mut rows: Vec<Rec>, off: Option<i64>, lim: Option<i64>, desc: bool) -> Vec<Rec> {
    if desc { rows.reverse(); }
    if off.is_none() && lim.is_none() { return rows; }
    let o = off.unwrap_or(0).max(0) as usize;
    let rows: Vec<Rec> = rows.into_iter().skip(o).collect();
    match lim { Some(l) if l >= 0 => rows.into_iter().take(l as usize).collect(), _ => rows }
}

/// every record exactly once, in pages: full pages then a final non-empty partial page
fn paginate(page: usize, rows: &[Rec]) -> Vec<Vec<Rec>> {
    rows.chunks(page.max(1)).map(|c| c.to_vec()).collect()
}

// ---------------------------------------------------------------------------------------------
// Execution against the real backend

thread_local! { pub static DIAG: std::cell::RefCell<Vec<String>> = std::cell::RefCell::new(vec![]); }

/// error -> canonical JSON, remembering the full message on the diagnostic channel (never compared)
fn jerr(e: &askar_storage::Error) -> Value {
    DIAG.with(|d| d.borrow_mut().push(format!("{:?}", e)));
    crate::canon::jerr(e)
}

pub struct StoreRun {
    pub backend: AnyBackend,
    pub path: Option<String>,
    sessions: HashMap<u64, AnyBackendSession>,
}

pub fn provision(file: bool, profile: &str, params: &str, tag: &str) -> (AnyBackend, Option<String>) {
    let (uri, path) = if file {
        let p = format!("{}/store-{}.db", scratch_dir(), tag);
        for suffix in ["", "-wal", "-shm"] { std::fs::remove_file(format!("{}{}", p, suffix)).ok(); }
        (format!("sqlite://{}{}{}", p, if params.is_empty() { "" } else { "?" }, params), Some(p))
    } else {
        (format!("sqlite://:memory:{}{}", if params.is_empty() { "" } else { "?" }, params), None)
    };
    // Creating a fresh WAL-mode file can fail with SQLITE_BUSY while the pool's first connections
    // race on the journal-mode switch (seen ~1 in 1000 under 16 threads): retry, this is set-up, not the property.
    let mut last = None;
    for attempt in 0..20 {
        match block_on(async {
            uri.as_str().provision_backend(StoreKeyMethod::RawKey, PassKey::from(RAW_KEY), Some(profile.to_string()), true).await
        }) {
            Ok(b) => return (b, path),
            Err(e) => { last = Some(e); std::thread::sleep(std::time::Duration::from_millis(20 * (attempt + 1))); }
        }
    }
    panic!("provision: {:?}", last)
}

pub fn cleanup(path: &Option<String>) {
    if let Some(p) = path {
        for suffix in ["", "-wal", "-shm", "-journal"] { std::fs::remove_file(format!("{}{}", p, suffix)).ok(); }
    }
}

fn entry_tags(v: &Value) -> Option<Vec<EntryTag>> {
    tags_from_json(v).map(|ts| ts.iter().map(Tag::to_entry_tag).collect())
}

fn fault_sql(f: &Value) -> Option<String> {
    let body = "BEGIN SELECT RAISE(ABORT, 'verif fault'); END";
    Some(match f["at"].as_str()? {
        "tag" => format!("CREATE TRIGGER verif_fault BEFORE INSERT ON items_tags WHEN (SELECT COUNT(*) FROM items_tags WHERE item_id = NEW.item_id) = {} {}", f["k"].as_i64().unwrap_or(0), body),
        "tagdel" => format!("CREATE TRIGGER verif_fault BEFORE DELETE ON items_tags {}", body),
        "item" => format!("CREATE TRIGGER verif_fault BEFORE INSERT ON items {}", body),
        "itemupd" => format!("CREATE TRIGGER verif_fault BEFORE UPDATE ON items {}", body),
        "itemdel" => format!("CREATE TRIGGER verif_fault BEFORE DELETE ON items {}", body),
        _ => return None,
    })
}

impl StoreRun {
    /// one call, with an optional injected statement fault (a SQLite trigger installed out of band for its duration)
    async fn step(&mut self, op: &Value, page_note: &mut Vec<usize>) -> Value {
        let fault = op.get("fault").filter(|f| !f.is_null()).and_then(fault_sql);
        if let (Some(sql), Some(p)) = (&fault, &self.path) {
            let raw = RawDb::open(p).expect("raw open");
            raw.exec(sql).expect("install fault trigger");
        }
        let r = self.step_inner(op, page_note).await;
        if let (Some(_), Some(p)) = (&fault, &self.path) {
            let raw = RawDb::open(p).expect("raw open");
            raw.exec("DROP TRIGGER IF EXISTS verif_fault").expect("remove fault trigger");
        }
        r
    }

    async fn step_inner(&mut self, op: &Value, page_note: &mut Vec<usize>) -> Value {
        let name = s(op, "op");
        let sid = op["s"].as_u64().unwrap_or(0);
        let kind_opt = io(op, "k").map(kind_of);
        let mut filter = op.get("f").filter(|f| !f.is_null()).and_then(filter_from_json);
        // "fj": the filter takes the JSON route: serialised with TagFilter::to_string and parsed back with from_str
        if b(op, "fj") {
            if let Some(f) = filter.take() {
                let text = match f.to_string() { Ok(t) => t, Err(e) => return jerr(&e) };
                filter = match <askar_storage::entry::TagFilter as std::str::FromStr>::from_str(&text) { Ok(f2) => Some(f2), Err(e) => return jerr(&e) };
            }
        }
        match name.as_str() {
            "session" => {
                match self.backend.session(so(op, "profile"), b(op, "txn")) {
                    Ok(sess) => { self.sessions.insert(sid, sess); json!("ok") }
                    Err(e) => jerr(&e),
                }
            }
            "tick" => {
                let ms = io(op, "ms").unwrap_or(0);
                match &self.path {
                    Some(p) => {
                        let raw = RawDb::open(p).expect("raw open");
                        let sql = format!("UPDATE items SET expiry = strftime('%Y-%m-%dT%H:%M:%f+00:00', expiry, '{} seconds') WHERE expiry IS NOT NULL AND datetime(expiry) IS NOT NULL", -(ms as f64) / 1000.0);
                        match raw.exec(&sql) { Ok(()) => json!("ok"), Err(e) => json!({"err": format!("tick: {}", e)}) }
                    }
                    None => json!({"err": "tick needs a file store"}),
                }
            }
            "create_profile" => match self.backend.create_profile(Some(s(op, "name"))).await {
                Ok(n) => json!({"name": n}),
                Err(e) => jerr(&e),
            },
            "remove_profile" => match self.backend.remove_profile(s(op, "name")).await {
                Ok(r) => json!({"removed": r}),
                Err(e) => jerr(&e),
            },
            "list_profiles" => match self.backend.list_profiles().await {
                Ok(mut v) => { v.sort_by(|a, b| a.as_bytes().cmp(b.as_bytes())); json!(v) }
                Err(e) => jerr(&e),
            },
            "scan" => {
                let ord = b(op, "ord");
                let windowed = io(op, "off").is_some() || io(op, "lim").is_some();
                let scan = self.backend.scan(so(op, "profile"), kind_opt, so(op, "c"), filter, io(op, "off"), io(op, "lim"),
                    if ord { Some(OrderBy::Id) } else { None }, b(op, "desc")).await;
                let mut scan = match scan { Ok(s) => s, Err(e) => return jerr(&e) };
                let mut pages: Vec<Vec<Rec>> = vec![];
                loop {
                    match scan.fetch_next().await {
                        Ok(Some(rows)) => pages.push(rows.iter().map(Rec::from_entry).collect()),
                        Ok(None) => break,
                        Err(e) => return jerr(&e),
                    }
                    if pages.len() > 10_000 { return json!({"err": "scan does not terminate"}); }
                }
                // once exhausted it must stay exhausted
                if let Ok(Some(_)) = scan.fetch_next().await { return json!({"err": "scan yields after end"}); }
                let sizes: Vec<usize> = pages.iter().map(|p| p.len()).collect();
                page_note.extend(sizes.iter());
                let all: Vec<Rec> = pages.iter().flatten().cloned().collect();
                if ord { json!({"pages": pages.iter().map(|p| recs_json(true, p)).collect::<Vec<_>>()}) }
                else if windowed { json!({"sizes": sizes}) }
                else { json!({"sizes": sizes, "rows": recs_json(false, &all)}) }
            }
            "commit" | "rollback" => match self.sessions.remove(&sid) {
                Some(mut sess) => match sess.close(name == "commit").await { Ok(()) => json!("ok"), Err(e) => jerr(&e) },
                None => json!({"err": "no session"}),
            },
            "drop" => { self.sessions.remove(&sid); json!("ok") }
            _ => {
                let sess = match self.sessions.get_mut(&sid) { Some(s) => s, None => return json!({"err": "no session"}) };
                let k = kind_of(io(op, "k").unwrap_or(2));
                match name.as_str() {
                    "ping" => match sess.ping().await { Ok(()) => json!("ok"), Err(e) => jerr(&e) },
                    "insert" | "replace" => {
                        let v = value_from_json(&op["v"]);
                        let tags = entry_tags(&op["t"]);
                        let opn = if name == "insert" { EntryOperation::Insert } else { EntryOperation::Replace };
                        match sess.update(k, opn, &s(op, "c"), &s(op, "n"), Some(&v), tags.as_deref(), io(op, "e")).await {
                            Ok(()) => json!("ok"), Err(e) => jerr(&e),
                        }
                    }
                    "remove" => match sess.update(k, EntryOperation::Remove, &s(op, "c"), &s(op, "n"), None, None, None).await {
                        Ok(()) => json!("ok"), Err(e) => jerr(&e),
                    },
                    "remove_all" => match sess.remove_all(kind_opt, so(op, "c").as_deref(), filter).await {
                        Ok(n) => json!({"n": n}), Err(e) => jerr(&e),
                    },
                    "fetch" => match sess.fetch(k, &s(op, "c"), &s(op, "n"), false).await {
                        Ok(None) => Value::Null,
                        Ok(Some(e)) => Rec::from_entry(&e).to_json(),
                        Err(e) => jerr(&e),
                    },
                    "count" => match sess.count(kind_opt, so(op, "c").as_deref(), filter).await {
                        Ok(n) => json!({"n": n}), Err(e) => jerr(&e),
                    },
                    "fetch_all" => {
                        let ord = b(op, "ord");
                        let lim = io(op, "lim");
                        match sess.fetch_all(kind_opt, so(op, "c").as_deref(), filter, lim, if ord { Some(OrderBy::Id) } else { None }, b(op, "desc"), false).await {
                            Ok(rows) => {
                                let recs: Vec<Rec> = rows.iter().map(Rec::from_entry).collect();
                                if ord { json!({"rows": recs_json(true, &recs)}) }
                                else if lim.is_some() { json!({"count": recs.len()}) }
                                else { json!({"rows": recs_json(false, &recs)}) }
                            }
                            Err(e) => jerr(&e),
                        }
                    }
                    _ => json!({"err": "BadOp"}),
                }
            }
        }
    }
}

/// Open an existing file store (raw key of the harness).
pub fn open_existing(path: &str, params: &str) -> Result<AnyBackend, askar_storage::Error> {
    let uri = format!("sqlite://{}{}{}", path, if params.is_empty() { "" } else { "?" }, params);
    block_on(async { uri.as_str().open_backend(Some(StoreKeyMethod::RawKey), PassKey::from(RAW_KEY), None).await })
}

/// Run ops sequentially on a backend, calling `ack` after each completed call (used by the kill campaign's child).
pub fn run_ops_with_ack(backend: AnyBackend, path: Option<String>, ops: &[Value], ack: &mut dyn FnMut(usize, &Value)) {
    let mut run = StoreRun { backend, path, sessions: HashMap::new() };
    let mut pages = vec![];
    block_on(async {
        for (i, op) in ops.iter().enumerate() {
            let got = run.step(op, &mut pages).await;
            ack(i, &got);
        }
        run.sessions.clear(); // sessions must be dropped inside the runtime
    });
}

/// The reference map's ordered dump after each prefix of `ops` (index k = after k calls), for one profile.
pub fn reference_prefix_dumps(profile: &str, ops: &[Value], page: usize) -> Vec<Value> {
    let mut o = Oracle::new(profile, now_ms(), page);
    let dump_op = json!({"op": "scan", "profile": profile, "k": null, "c": null, "f": null, "off": null, "lim": null, "ord": true, "desc": false});
    let flat = |v: Option<Value>| -> Value {
        let v = v.unwrap_or(Value::Null);
        Value::Array(v["pages"].as_array().cloned().unwrap_or_default().into_iter().flat_map(|p| p.as_array().cloned().unwrap_or_default()).collect())
    };
    let mut out = vec![flat(o.step(&dump_op))];
    for op in ops {
        o.step(op);
        out.push(flat(o.step(&dump_op)));
    }
    out
}

/// Ordered dump of one profile of an open backend (all kinds).
pub fn dump_profile(backend: &AnyBackend, profile: &str) -> Result<Value, askar_storage::Error> {
    block_on(async {
        let mut scan = backend.scan(Some(profile.to_string()), None, None, None, None, None, Some(OrderBy::Id), false).await?;
        let mut all = vec![];
        while let Some(rows) = scan.fetch_next().await? { all.extend(rows.iter().map(|e| Rec::from_entry(e).to_json())); }
        Ok(Value::Array(all))
    })
}

/// Classify an oracle mismatch into a stable signature (used to match known findings precisely).
fn signature(op: &Value, expected: &Value, got: &Value, ctx: &str) -> String {
    let short = |v: &Value| -> String {
        if let Some(e) = v.get("err") { format!("err:{}", e.as_str().unwrap_or("?")) }
        else if v.is_null() { "none".into() }
        else if v == "ok" { "ok".into() }
        else if v.as_object().map_or(false, |o| o.len() == 1) && v.get("n").map_or(false, |n| n.is_number()) { "count".into() }
        else { "data".into() }
    };
    format!("{}:{}->{}{}", s(op, "op"), short(expected), short(got), if ctx.is_empty() { String::new() } else { format!(":{}", ctx) })
}

pub fn exec(case: &Value, tag: &str) -> Value {
    let profile = so(case, "profile").unwrap_or("default".into());
    let file = b(case, "file");
    let params = s(case, "params");
    let page = io(case, "page").unwrap_or(32) as usize;
    let (backend, path) = provision(file, &profile, &params, tag);
    let mut run = StoreRun { backend, path, sessions: HashMap::new() };
    let now = now_ms();
    let mut oracle = Oracle::new(&profile, now, page);
    let ops = case["ops"].as_array().cloned().unwrap_or_default();
    let mut outs = vec![];
    let mut oracle_fail: Vec<Value> = vec![];
    let mut feat: BTreeMap<String, u64> = BTreeMap::new();
    let mut page_sizes = vec![];
    block_on(async {
        for (i, op) in ops.iter().enumerate() {
            let got = run.step(op, &mut page_sizes).await;
            // context for signatures: is there an expired record under this identity?
            let ctx = oracle_ctx(&oracle, op);
            let faulted = op.get("fault").map_or(false, |f| !f.is_null());
            let snapshot = if faulted { Some((oracle.profiles.clone(), oracle.seq)) } else { None };
            let mut expected = oracle.step(op);
            if let Some((profiles, seq)) = snapshot {
                // all-or-nothing: under an injected fault the call either has its complete effect (and result) or fails with none
                *feat.entry(format!("fault:{}", op["fault"]["at"].as_str().unwrap_or("?"))).or_insert(0) += 1;
                if expected.as_ref() != Some(&got) && got.get("err").is_some() {
                    *feat.entry("fault:reached".into()).or_insert(0) += 1;
                    oracle.profiles = profiles;
                    oracle.seq = seq;
                    expected = None;
                }
            }
            *feat.entry(format!("op:{}", s(op, "op"))).or_insert(0) += 1;
            if let Some(e) = got.get("err") { *feat.entry(format!("err:{}", e.as_str().unwrap_or("?"))).or_insert(0) += 1; }
            if op.get("f").map_or(false, |f| !f.is_null()) { *feat.entry("filtered".into()).or_insert(0) += 1; }
            if let Some(exp) = expected {
                if exp != got {
                    oracle_fail.push(json!({"i": i, "op": op, "expected": exp, "got": got, "sig": signature(op, &exp, &got, &ctx)}));
                }
            } else {
                *feat.entry("oracle-undetermined".into()).or_insert(0) += 1;
            }
            outs.push(got);
        }
        run.sessions.clear();
        run.backend.close().await.ok();
    });
    cleanup(&run.path);
    for p in page_sizes { *feat.entry(if p == page { "page:full".to_string() } else { "page:partial".to_string() }).or_insert(0) += 1; }
    let diag: Vec<String> = DIAG.with(|d| d.borrow_mut().drain(..).collect());
    json!({"out": outs, "oracle": oracle_fail, "feat": feat, "now": now, "diag": diag})
}

fn oracle_ctx(o: &Oracle, op: &Value) -> String {
    let sid = op["s"].as_u64().unwrap_or(0);
    let mut ctx = vec![];
    if s(op, "op") == "scan" {
        let pname = so(op, "profile").unwrap_or(o.active.clone());
        if let Some(p) = o.profiles.get(&pname) {
            if p.recs.iter().any(|r| r.expiry.map_or(false, |e| e.div_euclid(1000) > MAX_DATETIME_S)) { ctx.push("beyond-y9999-present"); }
        }
    }
    if let Some(ss) = o.sessions.get(&sid) {
        let pname = ss.profile.clone().unwrap_or(ss.want.clone());
        if let Some(p) = o.profiles.get(&pname) {
            let k = io(op, "k").unwrap_or(2);
            let (c, n) = (s(op, "c"), s(op, "n"));
            if p.recs.iter().any(|r| r.rec.kind == k && r.rec.cat == c && r.rec.name == n && !live(o.now, r)) { ctx.push("expired-shadow"); }
            if s(op, "op") == "remove_all" && p.recs.iter().any(|r| !live(o.now, r)) { ctx.push("expired-present"); }
            let beyond = |r: &RefRec| r.expiry.map_or(false, |e| e.div_euclid(1000) > MAX_DATETIME_S);
            if p.recs.iter().any(|r| r.rec.kind == k && r.rec.cat == c && r.rec.name == n && beyond(r)) { ctx.push("beyond-y9999"); }
            if matches!(s(op, "op").as_str(), "count" | "fetch_all" | "remove_all") && p.recs.iter().any(|r| beyond(r)) { ctx.push("beyond-y9999-present"); }
        } else if ss.resolved || !o.profiles.contains_key(&pname) {
            ctx.push("profile-gone");
        }
    }
    ctx.join("+")
}
