/-
C18 — store copy, profile copy and Indy migration carry over every record.
ONLY property theorems, refutations with witnesses, and non-vacuity examples; helpers in Lemmas/Copy.lean,
models in Model/Copy.lean and Model/IndyMigration.lean.

What is FALSE on the current tree and kept visible as `def … : Prop` with its negation proved:
* `CopyStoreSameProfiles` — the target of `copy_to` gets a profile named after `config.default_profile` even when the
  source has no such profile (finding, replayed by the harness);
* `ImportIntoLogicallyEmptySucceeds` — a target profile holding only *expired* rows passes the emptiness test, but a
  source record under the identity of such a row makes the whole copy fail with Duplicate (finding D8 of C17 reaching C18).
The whole-store statement `copy_store_all_profiles` (names, default profile and every profile's content at the end
of the `copy_to` loop) is proved from the loop invariant of the target (`Lemmas.TargetInv`: key cache coherent with the
`profiles` table, unique names and ids, FK, no expiry), in the general form with the dangling default profile stated
explicitly (`copy_store_all_profiles_gen`) and in the exact form under "the default profile is one of the profiles".
-/
import AskarModel.Lemmas.Copy
import AskarModel.Lemmas.Wql

namespace Askar.Copy
open Askar.Store

/-- A successful `copy_profile` (any record count, any page size): the target profile — resolved through the target's
    own handle, i.e. under the target's own profile id and key — holds exactly the source profile's live records, in
    order; every live row of it is encrypted under the target's key; profiles with another id keep their content; the
    source tables and default profile are untouched.  (`Sorted`: row ids increase in creation order, an invariant of
    every reachable store — `run_sorted`; without it the equality holds up to the scan's id order.) -/
theorem copy_profile_exact (page : Nat) (now : Int) (n : Nat) (src dst : StoreSt) (P P' : String)
    (src' dst' : StoreSt) (n' : Nat) (hsorted : Sorted src.db)
    (h : copyProfile page now none n src dst P P' = (src', dst', n', .ok ())) :
    ∃ ss sd : Sess,
      resolve src.db src.h P = .ok (ss, src'.h) ∧ resolve dst'.db dst'.h P' = .ok (sd, dst'.h) ∧
      liveAbs now sd dst'.db = liveAbs now ss src.db ∧
      (∀ it ∈ dst'.db.items, it.pid = sd.pid → live now it = true → it.key = sd.key) ∧
      (∀ s : Sess, s.pid ≠ sd.pid → liveAbs now s dst'.db = liveAbs now s dst.db) ∧
      src'.db = src.db ∧ src'.default = src.default :=
  Lemmas.copy_profile_exact page now n src dst P P' src' dst' n' hsorted h

/-- The same for `copy_profile(b, b, P, P')` inside one store. -/
theorem copy_within_exact (page : Nat) (now : Int) (st st' : StoreSt) (P P' : String) (hsorted : Sorted st.db)
    (h : copyProfileWithin page now none st P P' = (st', .ok ())) :
    ∃ ss sd : Sess, (∃ hs, resolve st.db st.h P = .ok (ss, hs)) ∧ resolve st'.db st'.h P' = .ok (sd, st'.h) ∧
      liveAbs now sd st'.db = liveAbs now ss st.db ∧
      (∀ s : Sess, s.pid ≠ sd.pid → liveAbs now s st'.db = liveAbs now s st.db) ∧
      st'.default = st.default :=
  Lemmas.copy_within_exact page now st st' P P' hsorted h

/-- The source is never written, whatever the outcome and whatever fault is injected. -/
theorem copy_source_unchanged (page : Nat) (now : Int) (fault : Option Nat) (n : Nat) (src dst : StoreSt) (P P' : String) :
    (copyProfile page now fault n src dst P P').1.db = src.db ∧
    (copyProfile page now fault n src dst P P').1.default = src.default :=
  Lemmas.copy_source_unchanged page now fault n src dst P P'

/-- Copying into an existing profile that holds at least one live record is refused with an Input error, before
    anything is read or written. -/
theorem copy_refuses_nonempty (page : Nat) (now : Int) (fault : Option Nat) (n : Nat) (src dst : StoreSt) (P P' : String)
    (ss sd : Sess) (hs hd : Handle)
    (hsrc : resolve src.db src.h P = .ok (ss, hs))
    (hex : dst.db.profiles.any (·.name == P') = true)
    (hdst : resolve dst.db dst.h P' = .ok (sd, hd))
    (hne : liveAbs now sd dst.db ≠ []) :
    copyProfile page now fault n src dst P P' = ({ src with h := hs }, { dst with h := hd }, n, .error .input) :=
  Lemmas.copy_refuses_nonempty page now fault n src dst P P' ss sd hs hd hsrc hex hdst hne

/-- All-or-nothing per profile (C06 for the import): a `copy_profile` that fails — refused, undecryptable page,
    Duplicate, or a backend fault injected at *any* insert — leaves the target's rows exactly as they were. -/
theorem copy_all_or_nothing (page : Nat) (now : Int) (fault : Option Nat) (n : Nat) (src dst : StoreSt) (P P' : String)
    (src' dst' : StoreSt) (n' : Nat) (e : Err)
    (h : copyProfile page now fault n src dst P P' = (src', dst', n', .error e)) :
    dst'.db.items = dst.db.items ∧ dst'.default = dst.default ∧ src'.db = src.db :=
  Lemmas.copy_all_or_nothing page now fault n src dst P P' src' dst' n' e h

/-- The copy does succeed when the source profile exists, its live rows are under its key with pairwise distinct
    identities (the unique index), and the target profile holds no row. -/
theorem copy_into_fresh_succeeds (page : Nat) (now : Int) (n : Nat) (src dst : StoreSt) (P P' : String)
    (ss : Sess) (hs : Handle) (hsrc : resolve src.db src.h P = .ok (ss, hs))
    (hkey : ∀ it ∈ src.db.items, it.pid = ss.pid → live now it = true → it.key = ss.key)
    (huniq : Lemmas.DistinctIdents (liveAbs now ss src.db)) (hsorted : Sorted src.db)
    (hfresh : ∀ sd hd, resolve (Lemmas.afterCreate dst P').db (Lemmas.afterCreate dst P').h P' = .ok (sd, hd) →
      ∀ it ∈ dst.db.items, it.pid ≠ sd.pid) :
    ∃ dst' n', copyProfile page now none n src dst P P' = ({ src with h := hs }, dst', n', .ok ()) :=
  Lemmas.copy_into_fresh_succeeds page now n src dst P P' ss hs hsrc hkey huniq hsorted hfresh

/-- The logical content of the copy does not depend on the target: two successful copies of one source profile into
    any two targets (any key method, pass key, profile keys, ids, names) hold the same records. -/
theorem copy_independent_of_target_method (page : Nat) (now : Int) (n₁ n₂ : Nat) (src dst₁ dst₂ : StoreSt) (P P₁ P₂ : String)
    (s₁ d₁ s₂ d₂ : StoreSt) (m₁ m₂ : Nat) (hsorted : Sorted src.db)
    (h₁ : copyProfile page now none n₁ src dst₁ P P₁ = (s₁, d₁, m₁, .ok ()))
    (h₂ : copyProfile page now none n₂ src dst₂ P P₂ = (s₂, d₂, m₂, .ok ())) :
    ∃ sd₁ sd₂ : Sess, resolve d₁.db d₁.h P₁ = .ok (sd₁, d₁.h) ∧ resolve d₂.db d₂.h P₂ = .ok (sd₂, d₂.h) ∧
      liveAbs now sd₁ d₁.db = liveAbs now sd₂ d₂.db :=
  Lemmas.copy_independent_of_target_method page now n₁ n₂ src dst₁ dst₂ P P₁ P₂ s₁ d₁ s₂ d₂ m₁ m₂ hsorted h₁ h₂

/-- Whole-store copy (`copy_store` / `copy_to`), the part proved for the loop as a whole: source untouched, default
    profile carried.  (Per profile: `copy_profile_exact`; all profiles at the end of the loop: `copy_store_all_profiles`.) -/
theorem copy_store_default_carried (page : Nat) (now : Int) (keyBase : Nat) (src src' dst' : StoreSt) (existing : Option StoreSt)
    (h : copyStore page now none keyBase src existing true = (src', some dst', .ok ())) :
    src'.db = src.db ∧ src'.default = src.default ∧ dst'.default = src.default :=
  Lemmas.copy_store_default_carried page now keyBase src src' dst' existing h

/-- One successful iteration of the `copy_to` loop preserves the invariant of the *target* (`Lemmas.TargetInv`: the
    handle's key cache agrees with the `profiles` table, names and ids are unique, every row belongs to a profile, no
    row expires) and the coherence of the source's cache; it adds at most the name `P` to the target's table; the
    target profile `P` ends with the source profile's live records under its own key; every profile with another id
    keeps its rows.  This is the loop invariant the whole-store theorem rests on. -/
theorem copy_loop_step_invariant (page : Nat) (now : Int) (n : Nat) (src dst : StoreSt) (P : String)
    (src' dst' : StoreSt) (n' : Nat) (hsorted : Sorted src.db) (hcs : CacheCoherent src.db src.h) (hI : Lemmas.TargetInv dst)
    (h : copyProfile page now none n src dst P P = (src', dst', n', .ok ())) :
    src'.db = src.db ∧ CacheCoherent src.db src'.h ∧ Lemmas.TargetInv dst' ∧
    (∀ name, name ∈ dst'.db.profiles.map (·.name) ↔ name ∈ dst.db.profiles.map (·.name) ∨ name = P) ∧
    (∀ q ∈ dst.db.profiles, q ∈ dst'.db.profiles) ∧
    ∃ ss sd : Sess, (⟨ss.pid, P, ss.key⟩ : Profile) ∈ src.db.profiles ∧ (⟨sd.pid, P, sd.key⟩ : Profile) ∈ dst'.db.profiles ∧
      abs sd dst'.db = liveAbs now ss src.db ∧ KeyCoherent sd dst'.db ∧
      (∀ s : Sess, s.pid ≠ sd.pid → abs s dst'.db = abs s dst.db ∧ (KeyCoherent s dst.db → KeyCoherent s dst'.db)) :=
  Lemmas.copyProfile_step page now n src dst P src' dst' n' hsorted hcs hI h

/-- the freshly provisioned target satisfies the invariant -/
theorem provision_target_invariant (keyBase : Nat) (profile : String) : Lemmas.TargetInv (provision keyBase profile) :=
  Lemmas.provision_targetInv keyBase profile

/-- Whole-store copy, general form (nothing assumed about `config.default_profile`): after a successful `copy_store` /
    `copy_to` onto a freshly provisioned target (`existing = none`, or `recreate = true`), for any number of profiles,
    any record counts and any page size:
    * the source's tables and default profile are untouched, its key cache stays coherent;
    * the target has the source's default profile name;
    * the target's key cache is coherent with its `profiles` table, names and ids are unique, every row belongs to a
      profile of the table, no row carries an expiry;
    * the target's profile names are the source's profile names *plus the source's default profile name*;
    * every source profile `p` — which the source's own handle resolves to `(p.id, p.key)` — resolves through the
      target's own handle to a session whose whole content (`abs`) is exactly the live content of `p` in the source, in
      order, every row of it under the target session's key;
    * when the default profile name is dangling, the extra target profile is empty.
    Hypotheses: `Sorted` (row ids increase in creation order — `run_sorted`; the scan is `ORDER BY id`), `ProfilesWF`
    (UNIQUE(name), PRIMARY KEY(id) of `profiles`), `CacheCoherent` for the *source* handle (C07: what every reachable
    handle satisfies after the repair of D7; without it a stale cache entry makes `copy_profile` read another profile's
    rows, e.g. cache `[("a", 2, k₂)]` over profiles `[⟨1,"a",k₁⟩, ⟨2,"b",k₂⟩]`). -/
theorem copy_store_all_profiles_gen (page : Nat) (now : Int) (keyBase : Nat) (src src' dst' : StoreSt)
    (existing : Option StoreSt) (recreate : Bool) (hfresh : existing = none ∨ recreate = true)
    (hs : Sorted src.db) (hwf : ProfilesWF src.db) (hcc : CacheCoherent src.db src.h)
    (h : copyStore page now none keyBase src existing recreate = (src', some dst', .ok ())) :
    (src'.db = src.db ∧ src'.default = src.default ∧ CacheCoherent src.db src'.h) ∧ dst'.default = src.default ∧
    (CacheCoherent dst'.db dst'.h ∧ ProfilesWF dst'.db ∧ FkInv dst'.db ∧ ∀ it ∈ dst'.db.items, it.expiry = none) ∧
    (∀ name, name ∈ dst'.db.profiles.map (·.name) ↔ name ∈ src.db.profiles.map (·.name) ∨ name = src.default) ∧
    (∀ p ∈ src.db.profiles, ∃ (hs' : Handle) (sd : Sess) (hd : Handle),
      resolve src.db src.h p.name = .ok (⟨p.id, p.key⟩, hs') ∧
      resolve dst'.db dst'.h p.name = .ok (sd, hd) ∧
      abs sd dst'.db = liveAbs now ⟨p.id, p.key⟩ src.db ∧ KeyCoherent sd dst'.db) ∧
    (src.default ∉ src.db.profiles.map (·.name) → ∃ (sd : Sess) (hd : Handle),
      resolve dst'.db dst'.h src.default = .ok (sd, hd) ∧ abs sd dst'.db = []) :=
  Lemmas.copy_store_all_profiles_gen page now keyBase src src' dst' existing recreate hfresh hs hwf hcc h

/-- **copy_store_all_profiles**: the same when the source's default profile is one of its profiles (the hypothesis
    `CopyStoreSameProfiles` lacks, see `copy_store_same_profiles_refuted`): the target's profile names are *exactly* the
    source's (a permutation without duplicates), the default profile is the same, and every profile holds exactly the
    source profile's live records. -/
theorem copy_store_all_profiles (page : Nat) (now : Int) (keyBase : Nat) (src src' dst' : StoreSt)
    (existing : Option StoreSt) (recreate : Bool) (hfresh : existing = none ∨ recreate = true)
    (hs : Sorted src.db) (hwf : ProfilesWF src.db) (hcc : CacheCoherent src.db src.h)
    (hdef : src.default ∈ src.db.profiles.map (·.name))
    (h : copyStore page now none keyBase src existing recreate = (src', some dst', .ok ())) :
    (src'.db = src.db ∧ src'.default = src.default ∧ CacheCoherent src.db src'.h) ∧ dst'.default = src.default ∧
    (CacheCoherent dst'.db dst'.h ∧ ProfilesWF dst'.db ∧ FkInv dst'.db ∧ ∀ it ∈ dst'.db.items, it.expiry = none) ∧
    (∀ name, name ∈ dst'.db.profiles.map (·.name) ↔ name ∈ src.db.profiles.map (·.name)) ∧
    (dst'.db.profiles.map (·.name)).Perm (src.db.profiles.map (·.name)) ∧
    (∀ p ∈ src.db.profiles, ∃ (hs' : Handle) (sd : Sess) (hd : Handle),
      resolve src.db src.h p.name = .ok (⟨p.id, p.key⟩, hs') ∧
      resolve dst'.db dst'.h p.name = .ok (sd, hd) ∧
      abs sd dst'.db = liveAbs now ⟨p.id, p.key⟩ src.db ∧ KeyCoherent sd dst'.db) :=
  Lemmas.copy_store_all_profiles page now keyBase src src' dst' existing recreate hfresh hs hwf hcc hdef h

/-- FALSE on the current code: "the target has exactly the source's profiles". -/
def CopyStoreSameProfiles : Prop := Lemmas.CopyStoreSameProfiles

theorem copy_store_same_profiles_refuted : ¬ CopyStoreSameProfiles := Lemmas.copy_store_same_profiles_refuted

/-- FALSE on the current code: "an import into a profile without live records goes through". -/
def ImportIntoLogicallyEmptySucceeds : Prop := Lemmas.ImportIntoLogicallyEmptySucceeds

theorem import_into_logically_empty_refuted : ¬ ImportIntoLogicallyEmptySucceeds :=
  Lemmas.import_into_logically_empty_refuted

end Askar.Copy

namespace Askar.Indy
open Askar.Store Askar.Copy

/-- Migration of an Indy wallet, at the level of decrypted rows: for every correct AEAD, every key set, every choice of
    nonces and per-item keys (`RowEncodes`), any number of records with both kinds of tags — the migrated store has the
    single profile named after the wallet (id 1, the default profile, resolvable from the returned handle), and that
    profile's records are exactly the wallet's records (kind Item, type ↦ category, encrypted tags then plaintext
    tags), all readable under the new profile key and none expiring. -/
theorem migrate_rows_exact (A : Aead) (hA : A.Correct) (utf8dec : Bytes → Option String)
    (unwrapKeys : Bytes → Option Keys) (keys : Keys) (pkey : Nat)
    (w : Wallet) (walletName : String) (recs : List Lemmas.Rec)
    (hU : ∀ r ∈ recs, Lemmas.RecDecodes utf8dec r)
    (hfresh : w.migrated = false) (hkeys : unwrapKeys w.keysEnc = some keys)
    (henc : Lemmas.Forall2 (Lemmas.RowEncodes A keys) w.rows recs)
    (huniq : recs.Pairwise (fun a b => ¬(a.typ = b.typ ∧ a.name = b.name))) :
    ∃ st : StoreSt, migrate A utf8dec unwrapKeys pkey w walletName = .ok st ∧
      abs ⟨1, pkey⟩ st.db = recs.map Lemmas.Rec.toEntry ∧
      (∀ it ∈ st.db.items, it.key = pkey ∧ it.expiry = none) ∧
      st.db.profiles = [⟨1, walletName, pkey⟩] ∧ st.default = walletName ∧
      resolve st.db st.h walletName = .ok (⟨1, pkey⟩, st.h) :=
  Lemmas.migrate_rows_exact A hA utf8dec unwrapKeys keys pkey w walletName recs hU hfresh hkeys henc huniq

/-- `decrypt_merged` never panics on a value of at least 12 bytes, and does panic (`split_at`) below that. -/
theorem decrypt_merged_panics_iff_short (A : Aead) (key v : Bytes) :
    decryptMerged A key v = .error .panic ↔ v.length < nonceLen := by
  unfold decryptMerged
  split
  · simp [*]
  · split <;> simp [*]

end Askar.Indy

/-! ### Non-vacuity: the hypotheses are satisfiable -/

namespace Askar.Copy
open Askar.Store

/-- a source with one live record in profile "p", copied into a freshly provisioned target -/
def exSrc : StoreSt :=
  { db := { items := [{ id := 1, pid := 1, key := 5, kind := 2, cat := "c", name := "n", value := [1], tags := [], expiry := none }],
            profiles := [⟨1, "p", 5⟩] },
    h := { cache := [("p", 1, 5)], nextKey := 6 }, default := "p" }

example : Sorted exSrc.db := by simp [Sorted, exSrc]

/-- `copy_into_fresh_succeeds` applies to it (so the hypothesis of `copy_profile_exact` is met by a real run) -/
example : ∃ dst' n', copyProfile 32 0 none 0 exSrc (provision 9 "p") "p" "p" = ({ exSrc with h := exSrc.h }, dst', n', .ok ()) := by
  apply copy_into_fresh_succeeds 32 0 0 exSrc (provision 9 "p") "p" "p" ⟨1, 5⟩ exSrc.h
  · simp [resolve, cacheGet, exSrc]
  · intro it hit _ _; simp [exSrc] at hit; subst hit; rfl
  · simp [Lemmas.DistinctIdents, liveAbs, exSrc, live]
  · simp [Sorted, exSrc]
  · intro sd hd _ it hit; simp [provision] at hit

/-- `copy_refuses_nonempty`: hypotheses met by copying the store onto itself -/
example : copyProfile 32 0 none 0 exSrc exSrc "p" "p" = ({ exSrc with h := exSrc.h }, { exSrc with h := exSrc.h }, 0, .error .input) := by
  apply copy_refuses_nonempty 32 0 none 0 exSrc exSrc "p" "p" ⟨1, 5⟩ ⟨1, 5⟩
  · simp [resolve, cacheGet, exSrc]
  · simp [exSrc]
  · simp [resolve, cacheGet, exSrc]
  · simp [liveAbs, exSrc, live]

/-- `copy_store_all_profiles`: a source with two profiles and one record each (default profile "p"; the handle has
    only "p" cached, so "q" goes through the table), page size 1 -/
def exSrc2 : StoreSt :=
  { db := { items := [{ id := 1, pid := 1, key := 5, kind := 2, cat := "c", name := "n", value := [1], tags := [], expiry := none },
                      { id := 2, pid := 2, key := 6, kind := 2, cat := "c", name := "n", value := [2], tags := [], expiry := none }],
            profiles := [⟨1, "p", 5⟩, ⟨2, "q", 6⟩] },
    h := { cache := [("p", 1, 5)], nextKey := 7 }, default := "p" }

/-- what `copy_store` leaves at the target (keys from `keyBase = 9`) -/
def exDst2 : StoreSt :=
  { db := { items := [{ id := 1, pid := 1, key := 9, kind := 2, cat := "c", name := "n", value := [1], tags := [], expiry := none },
                      { id := 2, pid := 2, key := 10, kind := 2, cat := "c", name := "n", value := [2], tags := [], expiry := none }],
            profiles := [⟨1, "p", 9⟩, ⟨2, "q", 10⟩] },
    h := { cache := [("q", 2, 10), ("p", 1, 9)], nextKey := 11 }, default := "p" }

theorem exSrc2_list : listProfiles exSrc2.db = ["p", "q"] := by
  simp only [listProfiles, exSrc2, List.map_cons, List.map_nil, List.foldr_cons, List.foldr_nil, insertName,
    Askar.Wql.Lemmas.utf8_eq]
  decide

/-- the run succeeds: the success hypothesis of `copy_store_all_profiles` is met by a real run -/
theorem exSrc2_copy : copyStore 1 0 none 9 exSrc2 none true =
    ({ exSrc2 with h := { cache := [("q", 2, 6), ("p", 1, 5)], nextKey := 7 } }, some exDst2, .ok ()) := by
  simp only [copyStore, exSrc2_list]
  simp [copyLoop, copyProfile, copyInto, resolve, cacheGet, cachePut, createProfile, provision, exSrc2, exDst2, doCount,
    doScan, selectRows, decryptRows, decryptRow, sortById, insertById, window, batches, drainScan, importScan, importRows,
    doInsert, nextId, Item.inScope, Item.sameIdent, live, matchFilter, matchTags]

/-- … and so are the other hypotheses -/
example : Sorted exSrc2.db ∧ ProfilesWF exSrc2.db ∧ CacheCoherent exSrc2.db exSrc2.h ∧
    exSrc2.default ∈ exSrc2.db.profiles.map (·.name) := by
  refine ⟨by simp [Sorted, exSrc2], by simp [ProfilesWF, exSrc2], ?_, by simp [exSrc2]⟩
  intro name pid key hg
  simp only [exSrc2, cacheGet, List.find?_cons, List.find?_nil] at hg
  split at hg
  · rename_i hn
    simp only [beq_iff_eq] at hn
    simp only [Option.map_some, Option.some.injEq, Prod.mk.injEq] at hg
    obtain ⟨rfl, rfl⟩ := hg
    subst hn
    simp [exSrc2]
  · cases hg

/-- the conclusion is not trivially true: both target profiles are non-empty and different -/
example : abs ⟨1, 9⟩ exDst2.db = [⟨2, "c", "n", [1], []⟩] ∧ abs ⟨2, 10⟩ exDst2.db = [⟨2, "c", "n", [2], []⟩] := by
  simp [abs, exDst2, toEntry]

/-- the dangling-default case of `copy_store_all_profiles_gen` is met by a real run too (the witness of
    `copy_store_same_profiles_refuted`): no profile in the source, default profile "a" -/
example : copyStore 32 0 none 7 { db := {}, h := {}, default := "a" } none true =
    ({ db := {}, h := {}, default := "a" }, some (provision 7 "a"), .ok ()) := rfl

end Askar.Copy

namespace Askar.Indy
open Askar.Store Askar.Copy Lemmas

/-- a correct AEAD exists -/
example : toyAead.Correct := toyAead_correct

/-- a wallet with one record carrying one tag of each kind, encoded with the toy AEAD, a 32-byte item key and
    12-byte nonces; all strings empty so that the decoder fact is checkable (`utf8 "" = []`) -/
example : ∃ (w : Wallet) (keys : Keys) (recs : List Rec) (dec : Bytes → Option String),
    recs ≠ [] ∧ (∀ r ∈ recs, RecDecodes dec r) ∧ w.migrated = false ∧
    Forall2 (RowEncodes toyAead keys) w.rows recs ∧
    recs.Pairwise (fun a b => ¬(a.typ = b.typ ∧ a.name = b.name)) := by
  let n12 : Bytes := List.replicate 12 0
  let ik : Bytes := List.replicate 32 9
  let keys : Keys := ⟨[1], [2], [3], [4], [5]⟩
  let sealed (k m : Bytes) : Bytes := n12 ++ toyAead.enc k n12 m
  have hs : ∀ k m, Sealed toyAead k m (sealed k m) := fun k m => ⟨n12, by simp [n12, nonceLen], rfl⟩
  have hu : utf8 "" = [] := by simp [utf8]
  refine ⟨{ rows := [{ id := 1, typ := sealed [1] [], name := sealed [2] [], value := some (sealed ik [7, 7]), key := sealed [3] ik,
                        tagsEnc := [(sealed [4] [], sealed [5] [])], tagsPlain := [(sealed [4] [], [])] }] },
          keys, [⟨"", "", [7, 7], [("", "")], [("", "")]⟩], (fun b => if b = [] then some "" else none), by simp, ?_, rfl, ?_, by simp⟩
  · intro r hr
    simp only [List.mem_singleton] at hr
    subst hr
    simp [RecDecodes, TagsDecode, Decodes, hu]
  · refine .cons ⟨?_, ?_, ⟨ik, sealed ik [7, 7], by simp [ik, itemKeyLen], hs _ _, rfl, hs _ _⟩, ?_, ?_⟩ .nil
    · rw [hu]; exact hs _ _
    · rw [hu]; exact hs _ _
    · exact .cons ⟨by simp only [hu]; exact hs _ _, by simp only [if_true, hu]; exact hs _ _⟩ .nil
    · exact .cons ⟨by simp only [hu]; exact hs _ _, by simp [hu]⟩ .nil

end Askar.Indy
