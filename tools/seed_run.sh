#!/bin/bash
# seed_run.sh <patch.diff> <check id> [tier]  — run one check against a PRIVATE clone of /repo with the patch applied, bind-mounted
# over /repo in a private mount namespace: /repo itself is never touched, so other work that reads /repo is not disturbed.
# evidence/<id>.json is restored afterwards (a seeded run is not evidence).  Prints the check's VIOLATION / summary lines.
patch=$1; prop=$2; tier=${3:-quick}
clone=/tmp/seedrepo
[ -d $clone/.git ] || git clone -q /repo $clone
git -C $clone fetch -q /repo HEAD && git -C $clone checkout -q --detach FETCH_HEAD && git -C $clone checkout -q -- . && git -C $clone clean -fdq -e target
git -C $clone apply $patch || { echo "PATCH DOES NOT APPLY"; exit 2; }
cd /verif
ev=evidence/$prop.json; [ -f $ev ] && cp $ev /tmp/seed_ev_$prop.json
gen=$(mktemp -d /tmp/seedgen.XXXX); cp lean/AskarModel/Generated/*.lean $gen/
unshare -m bash -c "mount --bind $clone /repo && cd /verif && VERIF_NO_EVIDENCE=1 ./check $prop --tier $tier" > /tmp/seed_run_$prop.log 2>&1; rc=$?
cp $gen/*.lean lean/AskarModel/Generated/; rm -rf $gen
[ -f /tmp/seed_ev_$prop.json ] && mv /tmp/seed_ev_$prop.json $ev
git -C $clone checkout -q -- .
# cargo decides freshness by mtime: the real /repo's files are OLDER than the build just made from the clone, so the next
# build against the real tree would wrongly reuse the mutated objects — make the patched files' real twins newer
for f in $(grep '^+++ b/' $patch | sed 's#^+++ b/##'); do [ -f /repo/$f ] && touch /repo/$f; done
grep -E "^(DETAIL|VIOLATION)" /tmp/seed_run_$prop.log | cut -c1-400 | head -6; tail -1 /tmp/seed_run_$prop.log
exit $rc
