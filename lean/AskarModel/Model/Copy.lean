/-
Model of store copy and profile copy (C18):
  askar-storage/src/backend/mod.rs   `copy_profile`, `BackendSession::import_scan`, `copy_store`
  src/store.rs                       `Store::copy_to` (the same loop as `copy_store`)
  askar-storage/src/backend/sqlite   `provision` / `open_db` as far as the copy depends on them
on top of the logical store model (Model/Store.lean): rows at the level of decrypted content, encryption
abstracted to key identities (a target row is encrypted under the *target's* profile key).

What the code does, in order (and the model follows):
 1. `from_backend.scan(profile, kind = None, …)` — resolves the source profile (NotFound when it is missing);
    the statement itself is lazy: rows are read when `import_scan` pulls the first page;
 2. `to_backend.create_profile(to)` — a Duplicate error is ignored, the profile is *not* removed again on failure;
 3. a *transaction* session on the target profile; `count(None, None, None) > 0` ⇒ Input error.  COUNT_QUERY carries the
    expiry predicate, so a profile that only holds expired rows passes this test;
 4. `import_scan`: page by page (`batches` / `drainScan`), row by row `update(kind, Insert, category, name, value,
    Some(tags), expiry = None)` — the expiry of the source row is not carried over; INSERT OR IGNORE reports
    Duplicate for a row whose identity is taken, *also by an expired row* (C17, finding D8);
 5. `close(true)`: commit.  Any error before that drops the session: the transaction is rolled back, so the
    target's rows are exactly what they were (all-or-nothing per profile).
`copy_to`/`copy_store`: read `config.default_profile` and `SELECT name FROM profiles` of the source, provision the
target with the source's default profile name (or, with `recreate = false` on an existing store, *open* it under that
profile name), then `copy_profile(p, p)` for every listed profile; the first error ends the loop and is returned
(profiles copied before stay copied).
-/
import AskarModel.Model.Store
import AskarModel.Model.Spec

namespace Askar.Copy
open Askar.Store Askar.Wql

/-- One store as the copy code sees it: tables, the handle's key cache, `config.default_profile`. -/
structure StoreSt where
  db : Db := {}
  h : Handle := {}
  default : String := ""
  deriving Inhabited

/-- no tag filter is ever passed by the copy code, so the LIKE parameter of the store model is irrelevant -/
def noLike : Bytes → Bytes → Bool := fun _ _ => false

/-- live records of the session's profile, in creation order (the logical dump of a profile) -/
def liveAbs (now : Int) (s : Sess) (db : Db) : Spec.Map :=
  (db.items.filter fun it => it.pid == s.pid && live now it).map toEntry

/-! ### `import_scan`

`fault = some j`: the statement that would insert the row number `j` (0-based, counted over the whole action by the
number of rows the action has inserted so far) fails with a backend error — the fault the harness injects with a
`RAISE(ABORT)` trigger.  `none` in every theorem about the code's own behaviour. -/

def importRows (now : Int) (sd : Sess) (fault : Option Nat) : Db → Nat → List Entry → Except Err (Db × Nat)
  | db, n, [] => .ok (db, n)
  | db, n, e :: es =>
    if fault = some n then .error .backend
    else
      match doInsert db now sd e.kind e.cat e.name e.value (some e.tags) none with
      | .error err => .error err
      | .ok db' => importRows now sd fault db' (n + 1) es

def importScan (now : Int) (sd : Sess) (fault : Option Nat) : Db → Nat → List (List Entry) → Except Err (Db × Nat)
  | db, n, [] => .ok (db, n)
  | db, n, p :: ps =>
    match importRows now sd fault db n p with
    | .error e => .error e
    | .ok (db', n') => importScan now sd fault db' n' ps

/-! ### `copy_profile` -/

/-- Steps 2–5 against the target, with the source rows read from `srcDb` under session `ss`
    (`srcDb = none`: source and target are the same store — the scan runs on another connection and sees the
    committed state, which as far as `items` goes is the target's state before the import). -/
def copyInto (page : Nat) (now : Int) (fault : Option Nat) (n : Nat) (srcDb : Option Db) (ss : Sess)
    (dst : StoreSt) (toP : String) : StoreSt × Nat × Except Err Unit :=
  -- create_profile: Duplicate is ignored (no other error arises in the model)
  let dst := match createProfile dst.db dst.h toP with
    | .ok (db, h) => { dst with db := db, h := h }
    | .error _ => dst
  match resolve dst.db dst.h toP with
  | .error e => (dst, n, .error e)
  | .ok (sd, hd) =>
    let dst := { dst with h := hd }
    if doCount noLike dst.db now sd none none none > 0 then (dst, n, .error .input)
    else
      match doScan noLike page (srcDb.getD dst.db) now ss none none none none none false with
      | .error e => (dst, n, .error e)                       -- a page fails to decrypt: session dropped, rolled back
      | .ok pages =>
        match importScan now sd fault dst.db n pages with
        | .error e => (dst, n, .error e)                     -- session dropped: rolled back
        | .ok (db', n') => ({ dst with db := db' }, n', .ok ())

/-- `copy_profile(from_backend, to_backend, from_profile, to_profile)` between two stores.
    Returns the source (only its key cache can change), the target, the insert counter, the result. -/
def copyProfile (page : Nat) (now : Int) (fault : Option Nat) (n : Nat) (src dst : StoreSt) (fromP toP : String) :
    StoreSt × StoreSt × Nat × Except Err Unit :=
  match resolve src.db src.h fromP with
  | .error e => (src, dst, n, .error e)
  | .ok (ss, hs) =>
    let src := { src with h := hs }
    let (dst', n', r) := copyInto page now fault n (some src.db) ss dst toP
    (src, dst', n', r)

/-- `copy_profile(b, b, from, to)`: both ends are the same store -/
def copyProfileWithin (page : Nat) (now : Int) (fault : Option Nat) (st : StoreSt) (fromP toP : String) :
    StoreSt × Except Err Unit :=
  match resolve st.db st.h fromP with
  | .error e => (st, .error e)
  | .ok (ss, hs) =>
    let (st', _, r) := copyInto page now fault 0 none ss { st with h := hs } toP
    (st', r)

/-! ### `copy_store` / `Store::copy_to` -/

/-- `init_db`: a fresh store with one profile.  `keyBase` stands for everything the target's keys depend on
    (key method, pass key, the random profile keys): the target's key identities start there. -/
def provision (keyBase : Nat) (profile : String) : StoreSt :=
  { db := { profiles := [⟨1, profile, keyBase⟩] },
    h := { cache := [(profile, 1, keyBase)], nextKey := keyBase + 1 },
    default := profile }

/-- `open_db` on an existing store with an explicit profile name (`recreate = false` and a `config` table exists):
    `SELECT id, profile_key FROM profiles WHERE name = ?1` with `fetch_one` — a Backend error when the profile is
    missing; the stored default profile is left as it is.  (Key method and pass key are assumed to match.) -/
def openWith (st : StoreSt) (profile : String) : Except Err StoreSt :=
  match st.db.profiles.find? (·.name == profile) with
  | none => .error .backend
  | some p => .ok { st with h := { cache := [(profile, p.id, p.key)], nextKey := st.h.nextKey } }

def insertName (x : String) : List String → List String
  | [] => [x]
  | y :: ys => if Bytes.lt (utf8 y) (utf8 x) then y :: insertName x ys else x :: y :: ys

/-- `SELECT name FROM profiles`: SQLite answers this from the covering index `ix_profile_name`, i.e. in name order
    (BINARY collation = UTF-8 byte order).  The order only matters for *which* profiles have been copied when the
    loop ends early; the theorems hold for every order (`copyLoop` is stated over an arbitrary list). -/
def listProfiles (db : Db) : List String := (db.profiles.map (·.name)).foldr insertName []

def copyLoop (page : Nat) (now : Int) (fault : Option Nat) : Nat → StoreSt → StoreSt → List String →
    StoreSt × StoreSt × Except Err Unit
  | _, src, dst, [] => (src, dst, .ok ())
  | n, src, dst, p :: ps =>
    match copyProfile page now fault n src dst p p with
    | (src', dst', _, .error e) => (src', dst', .error e)
    | (src', dst', n', .ok ()) => copyLoop page now fault n' src' dst' ps

/-- `copy_store` / `copy_to`.  `existing`: what is at the target location before the call.  The result's second
    component is what is at the target location afterwards. -/
def copyStore (page : Nat) (now : Int) (fault : Option Nat) (keyBase : Nat) (src : StoreSt)
    (existing : Option StoreSt) (recreate : Bool) : StoreSt × Option StoreSt × Except Err Unit :=
  let names := listProfiles src.db
  let target : Except Err StoreSt :=
    match existing, recreate with
    | some t, false => openWith t src.default
    | _, _ => .ok (provision keyBase src.default)
  match target with
  | .error e => (src, existing, .error e)
  | .ok t =>
    let (s, d, r) := copyLoop page now fault 0 src t names
    (s, some d, r)

end Askar.Copy
