"""C14 — key export/import round-trips; JWK import tolerant, strict, panic-free."""

CFG = {
    "gens": ["C14"],
    "feature": "c14",
    "rule": (
        "nine case kinds: c14:b64 (OptAttr::decode_base64 into arrays of 21 sizes: valid text of every length around the bound, padded / "
        "non-url-safe / over-long / dangling-character / trailing-bit / foreign-character variants, random alphabet strings); "
        "c14:jwk and c14:parse (for each of the 16 algorithms a random key exported by the real code, then: both canonical forms, up to "
        "24 (thorough: all) member permutations, random whitespace, unknown members of 16 JSON value shapes in every position, known-but-ignored "
        "members (kid/alg/use/key_ops in both orders), 15 base64 corruptions of every key-material member, d/x/y taken from another key, "
        "off-curve points (random, y flipped, y of another key, unreduced x), zero / above-order scalars, missing members, wrong kty / crv, "
        "duplicate members, JSON escapes in names and values, 16 non-JSON texts, degenerate documents); c14:secret and c14:public (for every "
        "algorithm random bytes of EVERY length 0..130, the boundary scalars 0, 1, order-1, order, order+1, all-ff, valid keys in every accepted "
        "encoding — compressed, uncompressed, other parity, compact — and near misses: identity, bad tag, truncated, extended, bit-flipped). "
        "Second wave (coverage gaps): c14:enc (export through JwkBufferEncoder::new(..).alg(..).key_ops(S).kid(k) + finalize for EVERY subset S of "
        "the 8 operations, with and without a kid, key type and mode rotating over the 8 asymmetric algorithms; every key type x mode x "
        "{plain, ops+kid, kid, empty set}; public-only keys; the G1/G2 views of a G1G2 key; 14 kid texts incl. those that need JSON escaping; "
        "the text is judged by serde_json (well-formed object with exactly the members asked for), compared with the crate's serde encoder "
        "JwkSerialize, parsed back by JwkParts::from_slice and re-imported); key_ops / use members on import (every subset of names in quick: "
        "singletons, pairs, full set and a sample; unknown names, duplicates, non-array values, non-string elements, use = enc/sig/other/empty/"
        "wrong types, use and key_ops in both orders, use twice); c14:keypair (from_keypair_bytes / to_keypair_bytes of the five concrete key "
        "types: valid pairs built from the two single exports, EVERY length 0..n+m+2 with random bytes and with the valid pair cut / padded, "
        "secret||public-of-another-key, halves swapped, single-bit flips in either half, scalars 0 / 1 / all-ff / order-1 / order / order+1 "
        "with their own and with a foreign public half, other SEC1 tags, second encodings of a Curve25519 public key, public-only keys); "
        "c14:convert (convert_key for all 16x16 algorithm pairs from a key pair and from a public-only key; Ed25519->X25519 for random pairs, "
        "their public halves as bytes and as JWK, the 8 small-order points in canonical and non-canonical spellings, every non-canonical "
        "y = p..2^255-1 with both sign bits, small y, 40 random 32-byte strings; BLS G1G2->G1/G2 for keys made from seeds, their public halves, "
        "boundary scalars). "
        "Third wave (round-2 coverage row 5): for every algorithm each string-valued member (kty, crv, x, y, d, k, alg, an added kid) with a value "
        "of every other JSON type (number, bool, null, array of strings, object; plus 5 more shapes sampled) as c14:jwk + c14:parse (expected: "
        "Invalid, never another kind); c14:typed (each of the 8 concrete key types' own from_jwk given the secret and public JWK of a key of each "
        "of the 16 algorithms — own: same key, foreign: InvalidKeyData —, its own JWK with 6 other kty values, every other crv, kty / crv missing, "
        "non-string kty / crv, non-JSON text); every key summary carries public_bytes_length / secret_bytes_length, compared with the produced lengths. "
        "Every accepted key is exported in all forms and re-imported by the oracle. non-trivial = an import that reached the key-material "
        "checks (a key was accepted, or the error is InvalidKeyData, or the outcome is a panic) or a base64 / parse case with a non-empty "
        "input; distinct = hash of the case"
    ),
    "assumptions": [
        "JWK text reaches the parser as a Rust &str (valid UTF-8): the model works on the bytes and does not model from_utf8 failures of from_jwk_slice",
        "third-party base64 0.21 URL_SAFE_NO_PAD.decode_slice_unchecked is the strict RFC 4648 §5 decoder (no padding, zero trailing bits); its "
        "internal chunked writes stay inside a buffer that can hold floor(3*len/4) bytes (validated by the c14:b64 cases, which also check that no "
        "byte beyond the reported length is touched)",
        "serde-json-core 0.5.1 behaves as modelled byte by byte (MapAccess / SeqAccess / IgnoredAny, borrowed strings without escape processing); "
        "validated by every c14:parse case including the malformed ones",
        "ed25519-dalek 2.1 VerifyingKey::from_bytes is CompressedEdwardsY::decompress and keeps the 32 bytes as given (so a public-only "
        "Ed25519 key always holds bytes that decompress: the invariant behind decompress().unwrap() in to_x25519_keypair; Lean: ConvPrims.Agrees, "
        "convert_total_of_import); validated by every c14:convert case (small-order and non-canonical encodings included)",
        "KeyOpsSet values reachable through the public API are unions of the eight KeyOps constants (< 256)",
        "SHA-256 is outside the Lean model: the model produces the hashed text, the harness compares it with the text the real encoder hashes and "
        "checks the thumbprint against its own FIPS 180-4 implementation and an independent RFC 7638 canonicalisation",
    ],
    "trusted_base": [
        "curve arithmetic: for secp256r1 / secp384r1 / secp256k1 the driver uses its own Lean implementation (AskarModel/Crypto/Ec.lean, written from "
        "SEC 1/2: scalar multiplication, on-curve test, decompression, SEC1 tags 02/03/04/05) and so checks the p256/p384/k256 crates independently; for "
        "Ed25519, X25519 and BLS12-381 the public-key derivation and point validation are taken from the real crates through a per-case table "
        "('prim'), i.e. they are trusted, and only askar's own glue (length checks, d/x consistency check, encodings, dispatch, error kinds) is modelled",
        "for the c14:keypair and c14:convert cases Curve25519 is NOT taken from the table: the driver computes Ed25519 public keys, the validity "
        "of Ed25519 public-key bytes (lenient decompression), SHA-512, the clamped X25519 scalar, X25519 public keys and the RFC 7748 section 4.1 "
        "map u = (1+y)/(1-y) with the Lean specifications AskarModel/Crypto/{Ed25519,X25519,Sha2}.lean; the harness oracle checks the converted "
        "public key against its own GF(2^255-19) arithmetic (four 64-bit limbs) and against X25519's own derivation",
        "the harness's independent SHA-256, base64url, RFC 7638 and field-arithmetic code (harness/src/c14.rs); serde_json as the judge of the "
        "well-formedness of exported JWK text",
    ],
}


def nontrivial(rec):
    case, impl = rec.get("case", {}), rec.get("impl", {})
    out = impl.get("out")
    kind = case.get("kind", "")
    if kind in ("c14:b64", "c14:parse"):
        return len(case.get("hex", "")) > 0
    if kind == "c14:typed":    # the type's own from_jwk_parts ran (a key, or its InvalidKeyData), or a panic
        return isinstance(out, dict) and ("alg" in out or out.get("err") in ("InvalidKeyData", "Panic"))
    if kind == "c14:enc":      # the encoder ran to the end and the text was parsed back (or refused) by the library's parser
        return isinstance(out, dict) and "text" in out
    if kind == "c14:keypair":  # right total length (the halves were looked at), or the public-only export
        if not isinstance(out, dict):
            return False
        return "keypair" in out or (out.get("err") == "InvalidKeyData" and case.get("class", "").split(":")[1:2] not in (["len"],))
    if kind == "c14:convert":  # a conversion that was carried out, or a panic
        conv = out.get("conv") if isinstance(out, dict) else None
        return isinstance(conv, dict) and ("alg" in conv or conv.get("err") == "Panic")
    if not isinstance(out, dict):
        return False
    if "alg" in out:          # a key was accepted (and exported / re-imported)
        return True
    return out.get("err") in ("InvalidKeyData", "Panic")
