/-
C17 — expired records are absent for every operation.
ONLY property theorems, refutations with witnesses, and non-vacuity examples; helpers in Lemmas/Expiry.lean.
The full-strength statement `expired_is_absent` is FALSE on the current tree (known findings, D8):
it is kept visible below, its negation is proved with concrete witnesses, and the part that holds
is `expired_is_absent_partial`.
-/
import AskarModel.Model.Spec
import AskarModel.Lemmas.Expiry
import AskarModel.Model.SqlShape
import AskarModel.Generated.Stmts
import AskarModel.Generated.StmtsPg

namespace Askar.Store

def Op.isRead : Op → Bool
  | .fetch .. => true
  | .fetchAll .. => true
  | .count .. => true
  | .scan .. => true
  | _ => false

/-- Full strength (what the property demands): every operation behaves on a store holding expired
    rows exactly as on the store without them. -/
def ExpiredIsAbsent : Prop :=
  ∀ (like : Bytes → Bytes → Bool) (page : Nat) (now : Int) (s : Sess) (db : Db) (op : Op),
    (step like page now s db op).2 = (step like page now s (purge now db) op).2

/-- The part that holds: all four read operations ignore expired rows. -/
theorem expired_is_absent_partial (like : Bytes → Bytes → Bool) (page : Nat) (now : Int) (s : Sess) (db : Db) (op : Op)
    (hr : op.isRead = true) :
    (step like page now s db op).2 = (step like page now s (purge now db) op).2 :=
  Lemmas.expired_is_absent_partial like page now s db op hr

/-- The full statement is refuted on the model of the current code (four witnesses, each replayed
    on the real code by the correspondence run: known findings). -/
theorem expired_is_absent_refuted : ¬ ExpiredIsAbsent := Lemmas.expired_is_absent_refuted

theorem expired_insert_is_duplicate_witness :
    ∃ (db : Db) (now : Int) (s : Sess), (∀ it ∈ db.items, live now it = false) ∧
      (step (fun _ _ => false) 32 now s db (.insert 2 "c" "n" [] none none)).2 = .err .duplicate :=
  Lemmas.expired_insert_is_duplicate_witness

theorem expired_replace_resurrects_witness :
    ∃ (db : Db) (now : Int) (s : Sess), (∀ it ∈ db.items, live now it = false) ∧
      (step (fun _ _ => false) 32 now s db (.replace 2 "c" "n" [] none none)).2 = .ok :=
  Lemmas.expired_replace_resurrects_witness

theorem expired_remove_succeeds_witness :
    ∃ (db : Db) (now : Int) (s : Sess), (∀ it ∈ db.items, live now it = false) ∧
      (step (fun _ _ => false) 32 now s db (.remove 2 "c" "n")).2 = .ok :=
  Lemmas.expired_remove_succeeds_witness

theorem expired_remove_all_counts_witness :
    ∃ (db : Db) (now : Int) (s : Sess), (∀ it ∈ db.items, live now it = false) ∧
      (step (fun _ _ => false) 32 now s db (.removeAll none none none)).2 = .count 1 :=
  Lemmas.expired_remove_all_counts_witness

/-- No read ever returns or counts a row that has expired. -/
theorem reads_hide_expired (like : Bytes → Bytes → Bool) (db : Db) (now : Int) (s : Sess) (kind : Option Kind) (cat : Option String)
    (f : Option (Wql.Query String)) (off lim : Option Int) (desc : Bool) :
    (∀ it ∈ selectRows like db now s.pid s.key kind cat f off lim desc, live now it = true) ∧
    (∀ k c n e, doFetch db now s k c n = some e → ∃ it ∈ db.items, live now it = true ∧ toEntry it = e) ∧
    doCount like db now s kind cat f = (doCount like (purge now db) now s kind cat f) :=
  Lemmas.reads_hide_expired like db now s kind cat f off lim desc

/-- Visible before expiry, to within the one-second resolution, while the timestamp is representable
    (the year bound is forced by SQLite's DATETIME: D13). -/
theorem visible_before_expiry (now e : Int) (it : Item) (he : it.expiry = some e) (h1 : now + 1000 ≤ e)
    (h0 : 0 ≤ now) (h2 : e / 1000 ≤ maxDatetimeSec) : live now it = true :=
  Lemmas.visible_before_expiry now e it he h1 h0 h2

theorem gone_after_expiry (now e : Int) (it : Item) (he : it.expiry = some e) (h1 : e ≤ now) : live now it = false :=
  Lemmas.gone_after_expiry now e it he h1

theorem no_expiry_never_expires (now : Int) (it : Item) (he : it.expiry = none) : live now it = true :=
  Lemmas.no_expiry_never_expires now it he

/-- An expiry beyond year 9999 is stored but never visible (D13), stated outright. -/
theorem far_future_invisible (now e : Int) (it : Item) (he : it.expiry = some e) (h : maxDatetimeSec < e / 1000) :
    live now it = false :=
  Lemmas.far_future_invisible now e it he h

/-- Replacing a record resets its expiry to exactly what the call says (none, or now + ms). -/
theorem replace_resets_expiry (db db' : Db) (now : Int) (s : Sess) (k : Kind) (c n : String) (v : Bytes) (t : Option (List Wql.Tag))
    (ems : Option Int) (h : doReplace db now s k c n v t ems = .ok db') :
    ∀ it ∈ db'.items, it.sameIdent s.pid s.key k c n = true →
      it.expiry = ems.map (now + ·) ∧ it.value = v :=
  Lemmas.replace_resets_expiry db db' now s k c n v t ems h

/-- In the CURRENT source (re-extracted on every run) every read statement carries the expiry atom … -/
theorem read_stmts_hide_expired :
    ∀ s ∈ [Sql.Generated.countQuery, Sql.Generated.scanQuery, Sql.Generated.fetchQuery], s.hidesExpired = true := by decide

/-- … and no write statement does: that is defect D8 as a fact about the source text (when the source is
    repaired this obligation breaks and the model must follow). -/
theorem write_stmts_ignore_expiry :
    ∀ s ∈ [Sql.Generated.deleteQuery, Sql.Generated.deleteAllQuery, Sql.Generated.updateQuery, Sql.Generated.insertQuery],
      s.hidesExpired = false := by decide

/-- The POSTGRES backend: reads carry its expiry conjunct, writes do not (D8 holds there too). -/
theorem pg_read_stmts_hide_expired :
    ∀ s ∈ [Sql.GeneratedPg.countQuery, Sql.GeneratedPg.scanQuery, Sql.GeneratedPg.fetchQuery, Sql.GeneratedPg.fetchQueryUpdate],
      s.hidesExpiredPg = true := by decide

theorem pg_write_stmts_ignore_expiry :
    ∀ s ∈ [Sql.GeneratedPg.deleteQuery, Sql.GeneratedPg.deleteAllQuery, Sql.GeneratedPg.updateQuery, Sql.GeneratedPg.insertQuery],
      s.hidesExpiredPg = false ∧ s.hidesExpired = false := by decide

end Askar.Store
