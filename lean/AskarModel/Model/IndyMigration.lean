/-
Model of the Indy-SDK wallet migration (C18):
  askar-storage/src/migration/strategy.rs  `decrypt_merged`, `decrypt_tags`, `decrypt_item`, `update_item`, `update_items`
  askar-storage/src/migration/mod.rs       `migrate`, `is_migrated`, `fetch_indy_key`, `create_config`, `init_profile`,
                                           `update_items_in_db`, `finish_upgrade`
at the level of decrypted rows.  The AEAD (ChaCha20-Poly1305) is a parameter; Indy's layout of every encrypted
column is the *merged* form `nonce(12) ‖ ciphertext‖tag`.  An item's value is encrypted under a per-item key which
is itself stored, merged-encrypted under the wallet's value key, in `items.key`.  Tag names are encrypted in both tag
tables; tag values only in `tags_encrypted`.

Not modelled (trusted): the textual packing of the tag sub-selects (`GROUP_CONCAT(HEX(name) || ':' || HEX(value))`
undone by `split(',')`, `split(':')`, `hex::decode`) — `parseTagList` below is its executable form, used by the
driver, with the two `unwrap`s explicit; the derivation of the master key and the msgpack decoding of the key record
(`unwrapKeys` is a parameter).
-/
import AskarModel.Model.Copy

namespace Askar.Indy
open Askar.Store Askar.Wql Askar.Copy

structure Aead where
  /-- key, nonce, plaintext ↦ ciphertext ‖ tag -/
  enc : Bytes → Bytes → Bytes → Bytes
  dec : Bytes → Bytes → Bytes → Option Bytes

structure Aead.Correct (A : Aead) : Prop where
  dec_enc : ∀ k n m, A.dec k n (A.enc k n m) = some m

/-- `CHACHAPOLY_NONCE_LEN` -/
def nonceLen : Nat := 12

/-- `Strategy::decrypt_merged`: `enc_value.split_at(12)` panics on a shorter value -/
def decryptMerged (A : Aead) (key : Bytes) (v : Bytes) : Except Err Bytes :=
  if v.length < nonceLen then .error .panic
  else
    match A.dec key (v.take nonceLen) (v.drop nonceLen) with
    | some m => .ok m
    | none => .error .encryption

/-- the wallet keys the migration uses (`item_hmac_key`, `tag_hmac_key` are read and ignored) -/
structure Keys where
  typeKey : Bytes
  nameKey : Bytes
  valueKey : Bytes
  tagNameKey : Bytes
  tagValueKey : Bytes
  deriving Inhabited

/-- a row of `items_old` joined with its tags (`fetch_pending_items`), tag lists already unpacked -/
structure Row where
  id : Nat
  typ : Bytes
  name : Bytes
  value : Option Bytes
  key : Bytes
  tagsEnc : List (Bytes × Bytes)
  tagsPlain : List (Bytes × Bytes)
  deriving Inhabited

/-- `Strategy::decrypt_tags` after unpacking; `String::from_utf8` failures are Input errors -/
def decryptTags (A : Aead) (utf8dec : Bytes → Option String) (nameKey : Bytes) (valueKey : Option Bytes) :
    List (Bytes × Bytes) → Except Err (List (String × String))
  | [] => .ok []
  | (n, v) :: rest =>
    match decryptMerged A nameKey n with
    | .error e => .error e
    | .ok nb =>
      match utf8dec nb with
      | none => .error .input
      | some name =>
        let vb : Except Err Bytes := match valueKey with
          | none => .ok v
          | some k => decryptMerged A k v
        match vb with
        | .error e => .error e
        | .ok vb =>
          match utf8dec vb with
          | none => .error .input
          | some value =>
            match decryptTags A utf8dec nameKey valueKey rest with
            | .error e => .error e
            | .ok ts => .ok ((name, value) :: ts)

/-- `IndyItem` -/
structure PlainItem where
  id : Nat
  typ : Bytes
  name : Bytes
  value : Option Bytes
  tags : List Tag
  deriving Inhabited

/-- `EncryptionKey::from_secret_bytes` on the decrypted item key: 32 bytes or an (Input) error -/
def itemKeyLen : Nat := 32

/-- `Strategy::decrypt_item` (order of the fallible steps as in the code: item key, value, encrypted tags,
    plaintext tags, type, name) -/
def decryptItem (A : Aead) (utf8dec : Bytes → Option String) (keys : Keys) (row : Row) : Except Err PlainItem :=
  match decryptMerged A keys.valueKey row.key with
  | .error e => .error e
  | .ok ik =>
    if ik.length ≠ itemKeyLen then .error .input
    else
      let value : Except Err (Option Bytes) := match row.value with
        | none => .ok none
        | some v => (decryptMerged A ik v).map some
      match value with
      | .error e => .error e
      | .ok value =>
        match decryptTags A utf8dec keys.tagNameKey (some keys.tagValueKey) row.tagsEnc with
        | .error e => .error e
        | .ok te =>
          match decryptTags A utf8dec keys.tagNameKey none row.tagsPlain with
          | .error e => .error e
          | .ok tp =>
            match decryptMerged A keys.typeKey row.typ with
            | .error e => .error e
            | .ok typ =>
              match decryptMerged A keys.nameKey row.name with
              | .error e => .error e
              | .ok name =>
                .ok { id := row.id, typ := typ, name := name, value := value,
                      tags := te.map (fun t => ⟨false, t.1, t.2⟩) ++ tp.map (fun t => ⟨true, t.1, t.2⟩) }

/-- `update_item` + `update_items_in_db` for one row: re-encrypt under the new profile key (identity `pkey`) and
    `INSERT INTO items (profile_id, kind, …) VALUES (1, 2, …)` — a plain INSERT: a unique-index conflict is a
    Backend error.

    Outside the model (`Err.custom`): a type or name that is not UTF-8 (the code stores the row; every later read
    of it fails) — the store model keeps categories and names as strings.  A NULL value is stored as an empty,
    *unencrypted* value (`Default::default()`): the row is kept under key identity 0, which no session holds, so
    that a scan touching it fails, as in the code. -/
def insertMigrated (utf8dec : Bytes → Option String) (pkey : Nat) (db : Db) (it : PlainItem) : Except Err Db :=
  match utf8dec it.typ, utf8dec it.name with
  | some c, some n =>
    let key := if it.value.isSome then pkey else 0
    if db.items.any (·.sameIdent 1 key 2 c n) then .error .backend
    else .ok { db with items := db.items ++
      [{ id := nextId (db.items.map (·.id)), pid := 1, key := key, kind := 2, cat := c, name := n,
         value := it.value.getD [], tags := it.tags, expiry := none }] }
  | _, _ => .error .custom

/-- `Strategy::update_items`: take the first pending row (`LIMIT 1`), decrypt, re-encrypt, insert, delete it from
    `items_old` by id — `id` is the table's primary key, so exactly that row goes; until none is left. -/
def migrateRows (A : Aead) (utf8dec : Bytes → Option String) (keys : Keys) (pkey : Nat) : List Row → Db → Except Err Db
  | [], db => .ok db
  | r :: rest, db =>
    match decryptItem A utf8dec keys r with
    | .error e => .error e
    | .ok it =>
      match insertMigrated utf8dec pkey db it with
      | .error e => .error e
      | .ok db' => migrateRows A utf8dec keys pkey rest db'

structure Wallet where
  /-- the `metadata` table is gone: `is_migrated` -/
  migrated : Bool := false
  keysEnc : Bytes := []
  rows : List Row := []
  deriving Inhabited

/-- `migrate`: refuse a migrated database; new tables; `fetch_indy_key` (an Input error when the key record does not
    decrypt / decode under the master key — `unwrapKeys`); config (`default_profile` = wallet name); one profile,
    id 1, named after the wallet, with a fresh profile key (`pkey`); the rows; drop the old tables.
    The store the final re-open sees is returned. -/
def migrate (A : Aead) (utf8dec : Bytes → Option String) (unwrapKeys : Bytes → Option Keys) (pkey : Nat)
    (w : Wallet) (walletName : String) : Except Err StoreSt :=
  if w.migrated then .error .backend
  else
    match unwrapKeys w.keysEnc with
    | none => .error .input
    | some keys =>
      match migrateRows A utf8dec keys pkey w.rows { profiles := [⟨1, walletName, pkey⟩] } with
      | .error e => .error e
      | .ok db => .ok { db := db, h := { cache := [(walletName, 1, pkey)], nextKey := pkey + 1 }, default := walletName }

/-- an executable instance (used by the driver and by the non-vacuity examples): "ciphertext" = key ‖ nonce ‖ plaintext,
    decryption checks the prefix -/
def toyAead : Aead where
  enc k n m := k ++ n ++ m
  dec k n c := if c.take (k.length + n.length) == k ++ n then some (c.drop (k.length + n.length)) else none

/-! ### The packed tag list (executable only; see the header) -/

/-- `tags.split(',')`, then `t.split(':')`: `next().unwrap()` twice — the second one panics when a piece has no
    `:`; `hex::decode` failures are Input errors; pieces after the second are ignored. -/
def parseTagList (s : String) : Except Err (List (Bytes × Bytes)) :=
  (s.splitOn ",").foldr (fun piece rest =>
    -- left to right: this piece is examined before the pieces after it
    match piece.splitOn ":" with
    | n :: v :: _ =>
      match Bytes.ofHex n, Bytes.ofHex v with
      | some nb, some vb =>
        match rest with
        | .error e => .error e
        | .ok rest => .ok ((nb, vb) :: rest)
      | _, _ => .error .input
    | _ => .error .panic) (.ok [])

/-- `GROUP_CONCAT(HEX(name) || ':' || HEX(value))`: NULL for no rows -/
def packTagList (l : List (Bytes × Bytes)) : Option String :=
  if l.isEmpty then none
  else some (",".intercalate (l.map fun p => (Bytes.toHex p.1).toUpper ++ ":" ++ (Bytes.toHex p.2).toUpper))

end Askar.Indy
