#!/bin/bash
# confirm_seed.sh <name> <worktree> <seed_dir> <demo_dest_relpath> <demo test cmd...>
# Confirms a seeded change in a scratch worktree: existing suite passes with it, demo fails with it, demo passes without it.
name=$1; wt=$2; sd=$3; dest=$4; shift 4
log=$sd/confirm.log
export CARGO_NET_OFFLINE=true
cd $wt || exit 2
git checkout -q -- . ; rm -f $dest
{
echo "== $(date -u +%FT%TZ) confirm $name in $wt"
git apply $sd/patch.diff && echo "patch applied"
echo "-- existing suite WITH the change (demo absent)"
cargo test --workspace --no-fail-fast --offline 2>&1 | grep -E "^test result|FAILED|failed|panicked" | grep -v "^test result: ok" 
echo "suite rc (grep-filtered above; only non-ok lines shown)"
cp $sd/seed_demo.rs $dest
echo "-- demo WITH the change (expected: FAIL)"
"$@" 2>&1 | grep -E "^test result|^test .*(ok|FAILED)|panicked" | head -10
git checkout -q -- .
echo "-- demo WITHOUT the change (expected: pass)"
"$@" 2>&1 | grep -E "^test result|^test .*(ok|FAILED)|panicked" | head -10
rm -f $dest
} > $log 2>&1
echo done $name
