"""C12 — authenticated encryption is correct, standard-conformant and tamper-evident."""

CFG = {
    "gens": ["C12"],
    "feature": "c12",
    "rule": (
        "per algorithm (A128GCM, A256GCM, A128CBC-HS256, A256CBC-HS512, C20P, XC20P, A128KW, A256KW) through "
        "LocalKey::{from_secret_bytes, aead_params, aead_padding, aead_encrypt, aead_decrypt, wrap_key, unwrap_key}: "
        "message lengths 0..49 exhaustively and random up to 4 KiB around block boundaries with random keys / nonces / aad "
        "(ciphertext, tag, nonce, positions and buffer compared bit for bit with the Lean specification); every single-bit "
        "flip of ct||tag, nonce and aad for small messages; every truncation and extensions by 1..33 bytes; every nonce "
        "length 0..40; every key length 0..80; wrap/unwrap over all payload algorithms; a malformed stream (arbitrary "
        "ciphertext/tag/nonce lengths, wrong algorithm on unwrap, wrong-length keys, a non-AEAD key); the specifications' "
        "own standard test vectors (self test) and the standards' vectors through LocalKey.  THE BUFFER TYPE AS A DIMENSION "
        "(c12:buf): the crate-level AnyKey::{encrypt_in_place, decrypt_in_place} of every algorithm over Vec, SecretBytes (exact "
        "capacity) and Writer::from_slice_position(&mut [u8; n], len) with n = exact, exact-1 (clean ExceededBuffer), exact+k with two "
        "different stale fills — visible bytes, position, returned value and error must equal the Vec run; valid messages around "
        "the block boundaries, arbitrary bytes to decrypt, wrong nonce lengths, a non-AEAD key; c12:bufops: random sequences of raw "
        "ResizeBuffer calls (write / insert / remove / resize / extend, within and beyond the capacity, a violated precondition "
        "now and then) on Writer<[u8]>, Vec and SecretBytes against a list-with-capacity reference; key wrap with aad / nonce in "
        "every entry point, aead_random_nonce of every key type, the guards of LocalKey::from_seed (unknown method, BLS seeds of "
        "0 / 31 / 32 / 33 bytes) and Argon2::new (salts of 0..17 bytes) (c12:misc).  Non-trivial = the case ran at "
        "least one successful encryption whose output the model reproduced, or a sweep (flips / resize / nonce_lens / "
        "keylens) with at least two distinct outcomes, or a buffer case whose reference run succeeded / a bufops case with at least "
        "two successful steps; distinct = hash of the case"
    ),
    "assumptions": [
        "laws of the third-party primitives, hypotheses of the theorems (structures BlockCipher.Lawful, Mac.Lawful, AeadPrim.Lawful): "
        "AES maps 16-byte blocks to 16-byte blocks and decryption inverts encryption; HMAC output has the digest length; the detached "
        "AEADs (aes-gcm, chacha20poly1305) preserve length, emit a 16-byte tag and decrypt what they encrypted — a toy instance "
        "satisfies all of them (non-vacuity)",
        "unforgeability is NOT proved: 'any change to ciphertext, nonce, aad or key makes decryption fail' is reduced to "
        "macInput_injective + the primitive rejecting a wrong tag (collision freeness of truncated HMAC / GHASH / Poly1305 is cryptography's promise); "
        "it is exercised exhaustively over single-bit flips, truncations and extensions by the harness",
        "the executable specifications in lean/AskarModel/Crypto (SHA-2, HMAC, AES, CBC, KW, GCM, ChaCha20, Poly1305, XChaCha, Concat-KDF) "
        "are faithful to the standards: validated by the standards' own vectors at run time (case c12:selftest), tests not proofs",
        "'a changed key makes decryption fail' is judged per algorithm: for the composite CBC-HMAC key (RFC 7518 5.2.2, MAC_KEY || ENC_KEY) the tag "
        "is computed under MAC_KEY only, so by specification a changed ENC_KEY is answered by a padding error or (about 1 flip in 256) a different "
        "plaintext; the oracle requires rejection for every flip in the MAC half and only forbids the ORIGINAL plaintext for flips in the ENC half",
        "key sizes, nonce and tag lengths of the eight algorithms are copied into the model by hand (Alg.keyLen, Alg.params) and "
        "validated by the keylens / params / nonce_lens cases",
        "buffer dimension: the contract of ResizeBuffer is the list semantics with a capacity written down in Model/ResizeBuf.lean (LBuf); "
        "outside its preconditions (insert position > length, remove range outside the buffer — Vec panics there) nothing is required of "
        "an implementation; Writer::from_slice_position(slice, pos) with pos > slice.len() is outside the domain (caller error); the "
        "in-place operations are modelled a second time as programs over the trait (Prog) — their list runs are compared with the "
        "LocalKey-level model by execution on every c12:buf case (Vec column), not by a theorem",
        "the variant of Writer<[u8]> the driver runs is the constant ResizeBuf.writerFixed (false = today's source) until tools/extract.py "
        "provides the flag",
    ],
    "trusted_base": [
        "crates aes, cbc, cipher, block-padding, hmac, sha2, aes-gcm, chacha20poly1305, subtle (called, not modelled; their observable "
        "results are compared bit for bit with the Lean specifications on every generated case)",
    ],
}


def nontrivial(rec):
    case, impl, model = rec["case"], rec["impl"], rec["model"]
    out = impl.get("out")
    kind = case.get("kind")
    if kind == "c12:selftest":
        return isinstance(out, dict) and all(out.values())
    if kind == "c12:keylens":
        return isinstance(out, list) and len(out) >= 2
    if kind == "c12:buf":
        return isinstance(out, dict) and isinstance(out.get("enc"), dict) and (
            "buf" in (out["enc"].get("vec") or {}) or "buf" in ((out.get("dec") or {}).get("vec") or {}))
    if kind == "c12:bufops":
        return isinstance(out, dict) and sum(1 for x in out.get("vec", []) if isinstance(x, dict) and "buf" in x) >= 2
    if kind == "c12:misc":
        return isinstance(out, list) and "ok" in out and any(isinstance(x, dict) for x in out)
    if not isinstance(out, list) or out[:1] != ["ok"]:
        return False
    for op, o in zip(case.get("ops", []), out[1:]):
        if not isinstance(o, dict):
            continue
        name = op.get("op")
        if name in ("enc", "wrap") and "ct" in o:
            return True
        if name in ("flips", "resize", "nonce_lens"):
            codes = set()
            for v in o.values():
                if isinstance(v, list):
                    codes.update(x[0] for x in v if isinstance(x, list) and x)
                elif isinstance(v, str):
                    codes.add(v)
            if len(codes) >= 2:
                return True
    return False
