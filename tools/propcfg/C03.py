"""C03 — tampered or foreign ciphertext is rejected, never misread, never fatal."""

CFG = {
    "gens": ["C03"],
    "feature": "c03",
    "model_exe": "askar_model_c03",
    "rule": ("corruption campaign on file-backed stores (2 profiles, records with tags of both kinds, empty values / tag names / "
             "tag values, an Item/Kms pair with the same category and name): one ciphertext cell per experiment "
             "(items.category / name / value, items_tags.name / value of encrypted tags, profiles.profile_key) is changed out of band "
             "through a raw SQLite connection — truncation to EVERY length 0..len for three records and both profile keys, single- and "
             "multi-byte flips (200 random + both ends + around the nonce boundary), extension (front / back), emptying, same-profile "
             "cross-row substitution (category / name / value), cross-profile substitution (all columns, incl. the wrapped profile key), "
             "same-profile tag-row substitution (excluded by the property: agreement only) — then fetch (every kind x category x name "
             "combination in use, so phantom identities too), fetch_all / scan / count with and without category through a NEW store "
             "handle, bytes restored afterwards; plus opens with a wrong key / empty key / malformed key / wrong method; plus random "
             "stores over colliding and exotic alphabets with boundary value lengths. One case = one store + a list of experiments "
             "(`ops`); non-trivial = a case in which at least one read failed with an error AND at least one read still returned "
             "written records (so both the rejecting and the surviving paths were exercised); distinct = hash of the case"),
    "assumptions": [
        "AEAD: correctness, 16-byte tag, and `auth` (what decrypts is the encryption of the returned message — exact for a scheme that "
        "recomputes its tag); IDEALISATIONS: bytes obtained by corrupting a ciphertext are not an encryption under any key in play "
        "(unforgeability; `Tamper.Ct.garbage`), ciphertexts of one key are rejected under another key in play (`KeySeparatedOn`), "
        "HMAC-derived value keys of distinct (category, name) differ (`hcoll`)",
        "SQLite: BLOB equality is bytewise, the unique index (profile_id, kind, category, name), GROUP_CONCAT of `plaintext:HEX:HEX` "
        "(validated by this run)",
        "plaintexts that authenticate are valid UTF-8 (they were written from Rust Strings): UTF-8 checks are not modelled at the logical level",
    ],
    "trusted_base": [
        "the bridge from the byte level (Model/Decrypt.lean, proved: decrypt_rejects_garbage / decrypt_rejects_foreign_key / "
        "decrypt_roundtrip) to the logical level (Model/Tamper.lean: `dec`, `garbageKind`) is by these theorems plus the idealisations above; "
        "the logical level is what the correspondence run executes",
        "third-party: chacha20poly1305, hmac, sha2, serde_cbor (ProfileKey::from_slice), String::from_utf8, sqlx, tokio "
        "(a panic in spawn_blocking is re-raised by `unblock`'s expect)",
        "harness: out-of-band access through libsqlite3-sys (the library the backend links); panics are caught per read with catch_unwind "
        "(dev profile unwinds; the release profile of the crate has panic = abort, so every panic counted here is a process abort there)",
    ],
}


def nontrivial(rec):
    out = rec["impl"].get("out")
    if not isinstance(out, list):
        return False
    saw_err = saw_data = False
    for o in out:
        if not isinstance(o, dict):
            continue
        op = o.get("open")
        if isinstance(op, dict) or op == "panic":
            saw_err = True
        for r in o.get("res") or []:
            if r == "panic" or (isinstance(r, dict) and "err" in r):
                saw_err = True
            elif isinstance(r, dict) and "k" in r:
                saw_data = True
            elif isinstance(r, list) and r:
                saw_data = True
    return saw_err and saw_data
