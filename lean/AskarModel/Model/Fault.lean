/-
C06: the mutating calls as the sequences of SQL statements the Rust code issues inside one
transaction (`perform_insert`, `perform_remove`, `remove_all` in sqlite/mod.rs, each wrapped by
`as_transaction` … `commit`), with a fault parameter: the statement at which the backend fails.
A failing statement propagates through `?`, the `DbSessionTxn` guard is dropped, the transaction
rolls back: the database is what it was.

Fault classes are the ones the correspondence run can inject into the real SQLite through
triggers (`RAISE(ABORT)`), see DESIGN C06.
-/
import AskarModel.Model.Store

namespace Askar.Store

inductive FaultAt
  /-- the (k+1)-th `INSERT INTO items_tags` of one item fails -/
  | tag (k : Nat)
  /-- any `DELETE` of an `items_tags` row fails (directly, or through the cascade of an item delete) -/
  | tagdel
  /-- any `INSERT INTO items` fails -/
  | item
  /-- any `UPDATE items` that touches a row fails -/
  | itemupd
  /-- any `DELETE FROM items` that touches a row fails -/
  | itemdel
  deriving DecidableEq, Repr, Inhabited

/-- the tag-insert loop of `perform_insert`: statement `idx` fails under fault `tag idx` -/
def insertTagsF (f : Option FaultAt) : Nat → List Wql.Tag → List Wql.Tag → Except Err (List Wql.Tag)
  | _, acc, [] => .ok acc
  | idx, acc, t :: ts => if f = some (.tag idx) then .error .backend else insertTagsF f (idx + 1) (acc ++ [t]) ts

/-- `perform_insert` with `new_row = true`, statement by statement -/
def insertF (f : Option FaultAt) (db : Db) (now : Int) (s : Sess) (kind : Kind) (cat name : String) (value : Bytes)
    (tags : Option (List Wql.Tag)) (expiryMs : Option Int) : Except Err Db :=
  match (match expiryMs with | none => Except.ok none | some ms => (expiryTimestamp now ms).map some) with
  | .error e => .error e
  | .ok exp =>
    -- statement 1: INSERT OR IGNORE (a BEFORE INSERT trigger fires before the conflict check)
    if f = some .item then .error .backend
    else if db.items.any (·.sameIdent s.pid s.key kind cat name) then .error .duplicate
    else
      -- statements 2…: one INSERT per tag
      match insertTagsF f 0 [] (tags.getD []) with
      | .error e => .error e
      | .ok ts =>
        let row : Item := { id := nextId (db.items.map (·.id)), pid := s.pid, key := s.key, kind := kind,
                            cat := cat, name := name, value := value, tags := ts, expiry := exp }
        .ok { db with items := db.items ++ [row] }

/-- `perform_insert` with `new_row = false` -/
def replaceF (f : Option FaultAt) (db : Db) (now : Int) (s : Sess) (kind : Kind) (cat name : String) (value : Bytes)
    (tags : Option (List Wql.Tag)) (expiryMs : Option Int) : Except Err Db :=
  match (match expiryMs with | none => Except.ok none | some ms => (expiryTimestamp now ms).map some) with
  | .error e => .error e
  | .ok exp =>
    match db.items.find? (·.sameIdent s.pid s.key kind cat name) with
    | none => .error .notFound
    | some old =>
      -- statement 1: UPDATE … RETURNING id; *any* error of it is reported as NotFound by the code
      if f = some .itemupd then .error .notFound
      -- statement 2: DELETE FROM items_tags WHERE item_id = ?
      else if f = some .tagdel && !old.tags.isEmpty then .error .backend
      else
        match insertTagsF f 0 [] (tags.getD []) with
        | .error e => .error e
        | .ok ts =>
          .ok { db with items := db.items.map fun it =>
                  if it.sameIdent s.pid s.key kind cat name then { it with value := value, tags := ts, expiry := exp } else it }

/-- `perform_remove`: one DELETE (tags go by cascade) -/
def removeF (f : Option FaultAt) (db : Db) (s : Sess) (kind : Kind) (cat name : String) : Except Err Db :=
  match db.items.find? (·.sameIdent s.pid s.key kind cat name) with
  | none => .error .notFound
  | some old =>
    if f = some .itemdel || (f = some .tagdel && !old.tags.isEmpty) then .error .backend
    else .ok { db with items := db.items.filter fun it => !it.sameIdent s.pid s.key kind cat name }

/-- `remove_all`: one DELETE statement over all matching rows (statement-level atomicity is SQLite's) -/
def removeAllF (like : Bytes → Bytes → Bool) (f : Option FaultAt) (db : Db) (s : Sess) (kind : Option Kind) (cat : Option String)
    (q : Option (Wql.Query String)) : Except Err (Db × Nat) :=
  let hit := fun (it : Item) => it.inScope s.pid s.key kind cat && matchFilter like q it
  let rows := db.items.filter hit
  if (f = some .itemdel && !rows.isEmpty) || (f = some .tagdel && rows.any fun it => !it.tags.isEmpty) then .error .backend
  else .ok ({ db with items := db.items.filter fun it => !hit it }, rows.length)

/-- one call with a fault parameter; reads are unaffected by the write faults modelled here -/
def stepF (like : Bytes → Bytes → Bool) (page : Nat) (now : Int) (f : Option FaultAt) (s : Sess) (db : Db) : Op → Db × Out
  | .insert k c n v t e =>
    match insertF f db now s k c n v t e with
    | .ok db' => (db', .ok)
    | .error e => (db, .err e)           -- `?` → guard dropped → rollback
  | .replace k c n v t e =>
    match replaceF f db now s k c n v t e with
    | .ok db' => (db', .ok)
    | .error e => (db, .err e)
  | .remove k c n =>
    match removeF f db s k c n with
    | .ok db' => (db', .ok)
    | .error e => (db, .err e)
  | .removeAll k c q =>
    match removeAllF like f db s k c q with
    | .ok (db', n) => (db', .count n)
    | .error e => (db, .err e)
  | op => step like page now s db op

def Out.isErr : Out → Bool
  | .err _ => true
  | _ => false

/-- a crash (process kill) discards the open transaction: the store is the published state -/
def crashAfter (like : Bytes → Bytes → Bool) (page : Nat) (now : Int) (s : Sess) (db : Db) (ops : List Op) (n : Nat) : Db :=
  (run like page now s db (ops.take n)).1

end Askar.Store
