/-
AEAD_CHACHA20_POLY1305 (RFC 8439 §2.6, §2.8) and AEAD_XChaCha20_Poly1305 (draft-irtf-cfrg-xchacha-03
§2, A.3) — executable SPECIFICATION written from the RFCs, not from the Rust.  ORACLE for
differential runs; validated against RFC 8439 §2.8.2 and the XChaCha draft A.3.1 in `selfTest`
(THESE ARE TESTS).
-/
import AskarModel.Crypto.ChaCha20
import AskarModel.Crypto.Poly1305

namespace Askar.Crypto.ChaChaPoly

def le64 (n : Nat) : ByteArray := ((List.range 8).map fun i => UInt8.ofNat (n / 2 ^ (8 * i) % 256)).toByteArray
def pad16 (n : Nat) : ByteArray := (List.replicate ((16 - n % 16) % 16) (0 : UInt8)).toByteArray

/-- §2.6 poly1305_key_gen: first 32 bytes of block 0 -/
def polyKey (key nonce : ByteArray) : ByteArray := (ChaCha20.block key 0 nonce).extract 0 32

/-- §2.8: tag over aad ‖ pad16 ‖ ct ‖ pad16 ‖ le64 |aad| ‖ le64 |ct| -/
def tagOf (key nonce aad ct : ByteArray) : ByteArray :=
  Poly1305.mac (polyKey key nonce) (aad ++ pad16 aad.size ++ ct ++ pad16 ct.size ++ le64 aad.size ++ le64 ct.size)

/-- §2.8 chacha20_aead_encrypt; returns (ciphertext, tag) -/
def encrypt (key nonce aad pt : ByteArray) : ByteArray × ByteArray :=
  let ct := ChaCha20.xorStream key 1 nonce pt
  (ct, tagOf key nonce aad ct)

/-- §2.8 decryption: the tag is recomputed over the received ciphertext and compared first -/
def decrypt (key nonce aad ct tag : ByteArray) : Option ByteArray :=
  if (tagOf key nonce aad ct).toList == tag.toList then some (ChaCha20.xorStream key 1 nonce ct) else none

def xEncrypt (key nonce24 aad pt : ByteArray) : ByteArray × ByteArray :=
  let (sk, n) := ChaCha20.xSubkey key nonce24
  encrypt sk n aad pt

def xDecrypt (key nonce24 aad ct tag : ByteArray) : Option ByteArray :=
  let (sk, n) := ChaCha20.xSubkey key nonce24
  decrypt sk n aad ct tag

/-- §2.8: at most 2³² − 1 blocks of 64 bytes -/
def maxPlainBytes : Nat := (2 ^ 32 - 1) * 64

/-- TEST: RFC 8439 §2.8.2; XChaCha draft A.3.1 -/
def selfTest : Bool :=
  let h := Sha2.toHex
  let x := Aes.ofHexL
  let sunscreen := "Ladies and Gentlemen of the class of '99: If I could offer you only one tip for the future, sunscreen would be it.".toUTF8
  let key := x "808182838485868788898a8b8c8d8e8f909192939495969798999a9b9c9d9e9f"
  let aad := x "50515253c0c1c2c3c4c5c6c7"
  let n := x "070000004041424344454647"
  let r := encrypt key n aad sunscreen
  let xn := x "404142434445464748494a4b4c4d4e4f5051525354555657"
  let xr := xEncrypt key xn aad sunscreen
  h (polyKey key n) == "7bac2b252db447af09b67a55a4e955840ae1d6731075d9eb2a9375783ed553ff" &&
  h r.1 == "d31a8d34648e60db7b86afbc53ef7ec2a4aded51296e08fea9e2b5a736ee62d63dbea45e8ca9671282fafb69da92728b1a71de0a9e060b2905d6a5b67ecd3b3692ddbd7f2d778b8c9803aee328091b58fab324e4fad675945585808b4831d7bc3ff4def08e4b7a9de576d26586cec64b6116" &&
  h r.2 == "1ae10b594f09e26a7e902ecbd0600691" &&
  (decrypt key n aad r.1 r.2).map h == some (h sunscreen) &&
  (decrypt key n aad r.1 (r.2.set! 15 0)).isNone &&
  h xr.1 == "bd6d179d3e83d43b9576579493c0e939572a1700252bfaccbed2902c21396cbb731c7f1b0b4aa6440bf3a82f4eda7e39ae64c6708c54c216cb96b72e1213b4522f8c9ba40db5d945b11b69b982c1bb9e3f3fac2bc369488f76b2383565d3fff921f9664c97637da9768812f615c68b13b52e" &&
  h xr.2 == "c0875924c1c7987947deafd8780acf49" &&
  (xDecrypt key xn aad xr.1 xr.2).map h == some (h sunscreen)

end Askar.Crypto.ChaChaPoly
