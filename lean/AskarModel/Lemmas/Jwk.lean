/-
C14 — helper lemmas and proofs for the key export / import model (`AskarModel/Model/Jwk.lean`).
-/
import AskarModel.Model.Jwk

namespace Askar.Jwk

/-! ## base64url -/

theorem valN_symN : ∀ n, n < 64 → valN (symN n) = some n := by decide
theorem symN_lt : ∀ n, n < 64 → symN n < 256 := by decide
def chkVal (c : Nat) : Bool := match valN c with | some v => symN v == c && decide (v < 64) | none => true
set_option maxRecDepth 8192 in
theorem chkVal_all : ∀ c, c < 256 → chkVal c = true := by decide
theorem symN_valN {c v : Nat} (hc : c < 256) (h : valN c = some v) : symN v = c ∧ v < 64 := by
  have := chkVal_all c hc
  simp [chkVal, h] at this
  exact this

theorem val_sym {n : Nat} (h : n < 64) : val (sym n) = some n := by
  unfold val sym
  rw [UInt8.toNat_ofNat', Nat.mod_eq_of_lt (by simpa using symN_lt n h)]
  exact valN_symN n h

theorem sym_val {c : UInt8} {v : Nat} (h : val c = some v) : sym v = c ∧ v < 64 := by
  unfold val at h
  have := symN_valN (UInt8.toNat_lt_size c) h
  refine ⟨?_, this.2⟩
  unfold sym
  rw [this.1, UInt8.ofNat_toNat]

theorem ofNat_toNat_lt {n : Nat} (h : n < 256) : (UInt8.ofNat n).toNat = n := by
  rw [UInt8.toNat_ofNat', Nat.mod_eq_of_lt (by simpa using h)]

theorem b64_roundtrip (b : Bytes) : b64decode (b64encode b) = some b := by
  fun_induction b64encode b with
  | case1 a b c rest ih =>
    have ha := UInt8.toNat_lt_size a; have hb := UInt8.toNat_lt_size b; have hc := UInt8.toNat_lt_size c
    simp only [UInt8.size] at ha hb hc
    simp only [b64decode]
    rw [val_sym (by omega), val_sym (by omega), val_sym (by omega), val_sym (by omega), ih]
    simp only
    congr 2
    · rw [show a.toNat / 4 * 4 + (a.toNat % 4 * 16 + b.toNat / 16) / 16 = a.toNat by omega, UInt8.ofNat_toNat]
    · congr 1
      · rw [show (a.toNat % 4 * 16 + b.toNat / 16) % 16 * 16 + (b.toNat % 16 * 4 + c.toNat / 64) / 4 = b.toNat by omega, UInt8.ofNat_toNat]
      · congr 1
        rw [show (b.toNat % 16 * 4 + c.toNat / 64) % 4 * 64 + c.toNat % 64 = c.toNat by omega, UInt8.ofNat_toNat]
  | case2 a b =>
    have ha := UInt8.toNat_lt_size a; have hb := UInt8.toNat_lt_size b
    simp only [UInt8.size] at ha hb
    simp only [b64decode]
    rw [val_sym (by omega), val_sym (by omega), val_sym (by omega)]
    simp only
    rw [if_pos (by omega)]
    rw [show a.toNat / 4 * 4 + (a.toNat % 4 * 16 + b.toNat / 16) / 16 = a.toNat by omega, UInt8.ofNat_toNat,
      show (a.toNat % 4 * 16 + b.toNat / 16) % 16 * 16 + (b.toNat % 16 * 4) / 4 = b.toNat by omega, UInt8.ofNat_toNat]
  | case3 a =>
    have ha := UInt8.toNat_lt_size a
    simp only [UInt8.size] at ha
    simp only [b64decode]
    rw [val_sym (by omega), val_sym (by omega)]
    simp only
    rw [if_pos (by omega)]
    rw [show a.toNat / 4 * 4 + (a.toNat % 4 * 16) / 16 = a.toNat by omega, UInt8.ofNat_toNat]
  | case4 => rfl

end Askar.Jwk
