/- Driver for `kind = "c12"` (and `"c12:…"`) cases. -/
import Driver.Common

open Lean

namespace Driver.C12

def runCase (_j : Json) : Json := jerr "not implemented"

end Driver.C12
