/-
C14 — the byte-level parser on the output of `JwkBufferEncoder` with `key_ops` / `kid` (`renderJwk`).

* `renderJwk_plain`: without `key_ops` / `kid` the encoder writes what `renderMembers` writes.
* `opsOf_opsNames`, `opsNames_clean`: the names `KeyOpsIter` yields are read back as the same set; they need no escaping.
* `deKeyOps_opsElems`: `deserialize_seq(KeyOpsVisitor)` on `[` + the element text + `]`.
* `parse_renderJwk_fixed`: with the opening `[` written, the parser visits the members, then `key_ops`, then `kid`.
* `parse_renderJwk_current_fails`: without the opening `[` (the tree today) the parser rejects every text that has `key_ops`.
-/
import AskarModel.Model.Jwk
import AskarModel.Lemmas.Jwk

namespace Askar.Jwk

/-! ## the encoder with no `key_ops` / `kid` -/

theorem attrText_mem (m : Member) : attrText (sb m.1) (quoted m.2) = memText m := by
  have h1 : sb "\"" = [34] := by decide
  have h2 : sb "\":\"" = [34, 58, 34] := by decide
  simp [attrText, quoted, memText, h1, h2]

theorem attrsTail_map (ms : List Member) :
    attrsTail (ms.map fun m => attrText (sb m.1) (quoted m.2)) = tailText ms := by
  induction ms with
  | nil => rfl
  | cons m ms ih => rw [List.map_cons, attrsTail, ih, attrText_mem, tailText]

theorem renderJwk_plain (b : Bool) (ms : List Member) : renderJwk b ms none none = renderMembers ms := by
  cases ms with
  | nil => rfl
  | cons m ms =>
    rw [renderMembers_cons]
    simp only [renderJwk, attrTexts, List.append_nil, List.map_cons, renderAttrs]
    rw [attrsTail_map, attrText_mem]

/-! ## the names of a `KeyOpsSet` -/

set_option maxRecDepth 100000 in
theorem opsOf_opsNames : ∀ o, o < 256 → opsOf (opsNames o) 0 = some o := by decide

theorem opTable_clean : ∀ p ∈ opTable, Clean (sb p.2) = true := by decide

theorem opsNames_clean : ∀ o, ∀ n ∈ opsNames o, Clean n = true := by
  intro o n hn
  simp only [opsNames, List.mem_map, List.mem_filter] at hn
  obtain ⟨p, ⟨hp, _⟩, rfl⟩ := hn
  exact opTable_clean p hp

/-! ## `deserialize_seq(KeyOpsVisitor)` on the element text -/

theorem seqNext_close (r : Bytes) (first : Bool) : seqNext (93 :: r) first = some none := by
  simp [seqNext, skipWs_cons _ (show isWs 93 = false by decide)]

theorem seqNext_first (r : Bytes) : seqNext (34 :: r) true = some (some (34 :: r, false)) := by
  simp [seqNext, skipWs_cons _ (show isWs 34 = false by decide)]

theorem seqNext_comma (r : Bytes) : seqNext (44 :: 34 :: r) false = some (some (34 :: r, false)) := by
  simp [seqNext, skipWs_cons _ (show isWs 34 = false by decide), skipWs_cons _ (show isWs 44 = false by decide)]

theorem quoted_append (n r : Bytes) : quoted n ++ r = 34 :: (n ++ 34 :: r) := by simp [quoted]

/-- one turn of `visit_seq` on one element written by the encoder -/
theorem keyOpsLoop_elem (fuel : Nat) (inp : Bytes) (first : Bool) (acc : Nat) (n r : Bytes) (hn : Clean n = true)
    (hnext : seqNext inp first = some (some (quoted n ++ r, false))) :
    keyOpsLoop (fuel + 1) inp first acc =
      match opBit n with
      | some b => if acc &&& b ≠ 0 then none else keyOpsLoop fuel r false (acc ||| b)
      | none => keyOpsLoop fuel r false acc := by
  rw [keyOpsLoop, hnext]
  simp only [quoted_append, deStr_quoted hn]
  cases opBit n <;> rfl

theorem keyOpsLoop_tail (r : Bytes) (ns : List Bytes) (hc : ∀ n ∈ ns, Clean n = true) (fuel acc : Nat)
    (hf : ns.length + 1 ≤ fuel) :
    keyOpsLoop fuel (opsTail ns ++ 93 :: r) false acc = (opsOf ns acc).map fun o => (o, 93 :: r) := by
  induction ns generalizing fuel acc with
  | nil =>
    obtain ⟨f, rfl⟩ : ∃ f, fuel = f + 1 := ⟨fuel - 1, by simp at hf; omega⟩
    simp [opsTail, opsOf, keyOpsLoop, seqNext_close, skipWs_cons _ (show isWs 93 = false by decide)]
  | cons n ns ih =>
    obtain ⟨f, rfl⟩ : ∃ f, fuel = f + 1 := ⟨fuel - 1, by simp at hf; omega⟩
    have hn : Clean n = true := hc n (by simp)
    have hc' : ∀ x ∈ ns, Clean x = true := fun x hx => hc x (by simp [hx])
    have hf' : ns.length + 1 ≤ f := by simp at hf; omega
    have hnext : seqNext (opsTail (n :: ns) ++ 93 :: r) false
        = some (some (quoted n ++ (opsTail ns ++ 93 :: r), false)) := by
      simp only [opsTail, List.cons_append, List.append_assoc]
      rw [quoted_append, seqNext_comma]
    rw [keyOpsLoop_elem f _ false acc n _ hn hnext]
    simp only [opsOf]
    cases opBit n with
    | none => exact ih hc' f acc hf'
    | some b =>
      simp only []
      split
      · rfl
      · exact ih hc' f _ hf'

theorem opsTail_length (ns : List Bytes) : ns.length ≤ (opsTail ns).length := by
  induction ns with
  | nil => simp [opsTail]
  | cons n ns ih => simp [opsTail]; omega

/-- **the `key_ops` array as the repaired encoder writes it** is read back as the element strings, in order -/
theorem deKeyOps_opsElems (ns : List Bytes) (hc : ∀ n ∈ ns, Clean n = true) (r : Bytes) :
    deKeyOps (91 :: (opsElems ns ++ 93 :: r)) = (opsOf ns 0).map fun o => (o, r) := by
  rw [deKeyOps, skipWs_cons _ (show isWs 91 = false by decide)]
  simp only [if_true]
  cases ns with
  | nil =>
    simp [opsElems, opsOf, keyOpsLoop, seqNext_close, skipWs_cons _ (show isWs 93 = false by decide)]
  | cons n ns =>
    have hn : Clean n = true := hc n (by simp)
    have hc' : ∀ x ∈ ns, Clean x = true := fun x hx => hc x (by simp [hx])
    have hnext : seqNext (opsElems (n :: ns) ++ 93 :: r) true
        = some (some (quoted n ++ (opsTail ns ++ 93 :: r), false)) := by
      simp only [opsElems, List.append_assoc]
      rw [quoted_append, seqNext_first]
    have hlen : ns.length + 1 ≤ (opsElems (n :: ns) ++ 93 :: r).length + 1 := by
      have := opsTail_length ns
      simp only [opsElems, List.length_append, List.length_cons]
      omega
    rw [keyOpsLoop_elem _ _ true 0 n _ hn hnext]
    simp only [opsOf]
    cases opBit n with
    | none =>
      simp only []
      rw [keyOpsLoop_tail r ns hc' _ 0 hlen]
      cases opsOf ns 0 <;> simp
    | some b =>
      simp only []
      by_cases hb : 0 &&& b ≠ 0
      · rw [if_pos hb, if_pos hb]; rfl
      · rw [if_neg hb, if_neg hb, keyOpsLoop_tail r ns hc' _ _ hlen]
        cases opsOf ns (0 ||| b) <;> simp

/-! ## the loop of `visit_map` on a list of attributes -/

/-- an attribute as the repaired `finalize` leaves it in the buffer: a string member (`kid` is one), or `key_ops` -/
inductive Attr
  | mem (m : Member)
  | ops (ns : List Bytes)

/-- the text of the attribute -/
def Attr.text : Attr → Bytes
  | .mem m => attrText (sb m.1) (quoted m.2)
  | .ops ns => attrText (sb "key_ops") (91 :: (opsElems ns ++ [93]))

/-- the token-level view of the attribute -/
def Attr.tok : Attr → Bytes × JVal
  | .mem m => (sb m.1, JVal.str m.2)
  | .ops ns => (sb "key_ops", JVal.strArr ns)

/-- nothing in it needs escaping -/
def Attr.Ok : Attr → Prop
  | .mem m => Clean (sb m.1) = true ∧ Clean m.2 = true
  | .ops ns => ∀ n ∈ ns, Clean n = true

theorem attrText_append (name value r : Bytes) :
    attrText name value ++ r = 34 :: (name ++ 34 :: 58 :: (value ++ r)) := by
  simp [attrText, quoted]

theorem Attr.text_quote (x : Attr) : ∃ t, x.text = 34 :: t := by
  cases x with
  | mem m => exact ⟨_, attrText_append _ _ [] ▸ (List.append_nil _).symm⟩
  | ops ns => exact ⟨_, attrText_append _ _ [] ▸ (List.append_nil _).symm⟩

theorem mapNext_first_attr (x : Attr) (r : Bytes) : mapNext (x.text ++ r) true = some (some (x.text ++ r)) := by
  obtain ⟨t, ht⟩ := x.text_quote
  rw [ht, List.cons_append, mapNext_first]

theorem mapNext_comma_attr (x : Attr) (r : Bytes) : mapNext (44 :: (x.text ++ r)) false = some (some (x.text ++ r)) := by
  obtain ⟨t, ht⟩ := x.text_quote
  rw [ht, List.cons_append, mapNext_comma]

theorem clean_key_ops : Clean (sb "key_ops") = true := by decide
theorem fieldOf_key_ops : fieldOf (sb "key_ops") = some .keyOps := by decide

/-- one turn of the loop on one attribute -/
theorem mapLoop_attr (cfg : Cfg) (fuel : Nat) (inp : Bytes) (first : Bool) (a : Acc) (x : Attr) (r : Bytes) (hx : x.Ok)
    (hnext : mapNext inp first = some (some (x.text ++ r))) :
    mapLoop cfg (fuel + 1) inp first a =
      match visitStep cfg a x.tok with
      | some a' => mapLoop cfg fuel r false a'
      | none => none := by
  cases x with
  | mem m =>
    simp only [Attr.text, attrText_mem] at hnext
    exact mapLoop_member cfg fuel inp first a m r hx.1 hx.2 hnext
  | ops ns =>
    have ht : (Attr.ops ns).text ++ r = 34 :: (sb "key_ops" ++ 34 :: 58 :: 91 :: (opsElems ns ++ 93 :: r)) := by
      simp [Attr.text, attrText_append]
    rw [mapLoop, hnext, ht]
    simp only [deStr_quoted clean_key_ops, fieldOf_key_ops, colon_cons, deKeyOps_opsElems ns hx, Attr.tok, visitStep]
    cases opsOf ns 0 <;> rfl

/-- the attributes after the first, followed by anything -/
theorem mapLoop_attrsTail (cfg : Cfg) (rest : Bytes) (xs : List Attr) (hc : ∀ x ∈ xs, x.Ok) (f : Nat) (a : Acc) :
    mapLoop cfg (xs.length + f) (attrsTail (xs.map Attr.text) ++ rest) false a =
      match visitFrom cfg a (xs.map Attr.tok) with
      | some a' => mapLoop cfg f rest false a'
      | none => none := by
  induction xs generalizing a with
  | nil => simp [attrsTail, visitFrom]
  | cons x xs ih =>
    have hnext : mapNext (attrsTail ((x :: xs).map Attr.text) ++ rest) false
        = some (some (x.text ++ (attrsTail (xs.map Attr.text) ++ rest))) := by
      simp only [List.map_cons, attrsTail, List.cons_append, List.append_assoc]
      exact mapNext_comma_attr x _
    have hl : (x :: xs).length + f = (xs.length + f) + 1 := by simp only [List.length_cons]; omega
    rw [hl, mapLoop_attr cfg _ _ false a x _ (hc x (by simp)) hnext]
    simp only [List.map_cons, visitFrom]
    cases visitStep cfg a x.tok with
    | none => rfl
    | some a' => exact ih (fun y hy => hc y (by simp [hy])) a'

theorem mapLoop_close (cfg : Cfg) (f : Nat) (t : Bytes) (first : Bool) (a : Acc) :
    mapLoop cfg (f + 1) (125 :: t) first a = some (a, 125 :: t) := by
  simp [mapLoop, mapNext_close, skipWs_cons _ (show isWs 125 = false by decide)]

theorem attrsTail_length (ts : List Bytes) : ts.length ≤ (attrsTail ts).length := by
  induction ts with
  | nil => simp [attrsTail]
  | cons t ts ih => simp [attrsTail]; omega

theorem attrsTail_append (l₁ l₂ : List Bytes) : attrsTail (l₁ ++ l₂) = attrsTail l₁ ++ attrsTail l₂ := by
  induction l₁ with
  | nil => rfl
  | cons t ts ih => simp [attrsTail, ih]

/-- the parser on an object made of attributes -/
theorem parse_renderAttrs (cfg : Cfg) (xs : List Attr) (hc : ∀ x ∈ xs, x.Ok) :
    parseJwk cfg (renderAttrs (xs.map Attr.text)) = visit cfg (xs.map Attr.tok) := by
  cases xs with
  | nil => simp [renderAttrs, parseJwk, skipWs, visit, visitFrom, Acc.finish]
  | cons x xs =>
    have hc' : ∀ y ∈ xs, y.Ok := fun y hy => hc y (by simp [hy])
    simp only [List.map_cons, renderAttrs]
    rw [parseJwk, skipWs_cons _ (show isWs 123 = false by decide)]
    simp only [if_true]
    have hlen : xs.length + 2 ≤ (x.text ++ (attrsTail (xs.map Attr.text) ++ [125])).length + 2 := by
      have := attrsTail_length (xs.map Attr.text)
      simp only [List.length_map] at this
      simp only [List.length_append, List.length_cons, List.length_nil]
      omega
    obtain ⟨g, hg'⟩ := Nat.exists_eq_add_of_le hlen
    have hg : (x.text ++ (attrsTail (xs.map Attr.text) ++ [125])).length + 2 = (xs.length + (g + 1)) + 1 := by omega
    rw [hg, mapLoop_attr cfg _ _ true {} x _ (hc x (by simp)) (mapNext_first_attr x _)]
    simp only [visit, visitFrom]
    cases visitStep cfg {} x.tok with
    | none => rfl
    | some a' =>
      simp only []
      rw [mapLoop_attrsTail cfg [125] xs hc' (g + 1) a']
      cases visitFrom cfg a' (xs.map Attr.tok) with
      | none => rfl
      | some a'' =>
        simp only [mapLoop_close]
        cases a''.finish with
        | none => rfl
        | some p => simp [skipWs]

/-! ## the repaired encoder (`[` written) -/

/-- the attributes `finalize` writes -/
def attrsOf (ms : List Member) (ops : Option Nat) (kid : Option Bytes) : List Attr :=
  ms.map Attr.mem
    ++ (match ops with | some o => [Attr.ops (opsNames o)] | none => [])
    ++ (match kid with | some k => [Attr.mem ("kid", k)] | none => [])

theorem attrsOf_text (ms : List Member) (ops : Option Nat) (kid : Option Bytes) :
    (attrsOf ms ops kid).map Attr.text = attrTexts true ms ops kid := by
  cases ops <;> cases kid <;> simp [attrsOf, attrTexts, Attr.text, opsText, Function.comp_def]

theorem attrsOf_tok (ms : List Member) (ops : Option Nat) (kid : Option Bytes) :
    (attrsOf ms ops kid).map Attr.tok
      = toks ms ++ (match ops with | some o => [(sb "key_ops", JVal.strArr (opsNames o))] | none => [])
          ++ (match kid with | some k => [(sb "kid", JVal.str k)] | none => []) := by
  cases ops <;> cases kid <;> simp [attrsOf, toks, Attr.tok, Function.comp_def]

theorem attrsOf_ok (ms : List Member) (hc : MembersClean ms = true) (ops : Option Nat) (kid : Option Bytes)
    (hk : ∀ k, kid = some k → Clean k = true) : ∀ x ∈ attrsOf ms ops kid, x.Ok := by
  intro x hx
  simp only [attrsOf, List.mem_append, List.mem_map] at hx
  rcases hx with (⟨m, hm, rfl⟩ | hx) | hx
  · simp only [MembersClean, List.all_eq_true, Bool.and_eq_true] at hc
    exact hc m hm
  · cases ops with
    | none => simp at hx
    | some o =>
      simp only [List.mem_singleton] at hx
      subst hx
      exact opsNames_clean o
  · cases kid with
    | none => simp at hx
    | some k =>
      simp only [List.mem_singleton] at hx
      subst hx
      exact ⟨(by decide : Clean (sb "kid") = true), hk k rfl⟩

/-- **parser correctness on the output of the repaired encoder**: when `finalize` writes the opening `[` of `key_ops`, the
    byte-level parser run on the buffer visits the members `encode_jwk` wrote, then `key_ops` as the array of the names of the
    set, then `kid`, each in order — for every configuration, every member list and `kid` with no `"` and no `\`, every set. -/
theorem parse_renderJwk_fixed (cfg : Cfg) (ms : List Member) (hc : MembersClean ms = true) (ops : Option Nat)
    (kid : Option Bytes) (hk : ∀ k, kid = some k → Clean k = true) :
    parseJwk cfg (renderJwk true ms ops kid)
      = visit cfg (toks ms ++ (match ops with | some o => [(sb "key_ops", JVal.strArr (opsNames o))] | none => [])
          ++ (match (generalizing := false) kid with | some k => [(sb "kid", JVal.str k)] | none => [])) := by
  rw [renderJwk, ← attrsOf_text, ← attrsOf_tok]
  exact parse_renderAttrs cfg _ (attrsOf_ok ms hc ops kid hk)

/-! ## the encoder on the tree today (no `[`) -/

theorem deKeyOps_close (r : Bytes) : deKeyOps (93 :: r) = none := by
  simp [deKeyOps, skipWs_cons _ (show isWs 93 = false by decide)]

theorem deKeyOps_unbracketed (o : Nat) (r : Bytes) : deKeyOps (opsText false o ++ r) = none := by
  simp only [opsText, Bool.false_eq_true, if_false, List.nil_append]
  cases opsNames o with
  | nil => simp [opsElems, deKeyOps_close]
  | cons n ns => simp [opsElems, quoted, deKeyOps_quote]

/-- one turn of the loop on the `key_ops` attribute without `[`: the deserializer reports an error -/
theorem mapLoop_badOps (cfg : Cfg) (fuel : Nat) (inp : Bytes) (first : Bool) (a : Acc) (o : Nat) (r : Bytes)
    (hnext : mapNext inp first = some (some (attrText (sb "key_ops") (opsText false o) ++ r))) :
    mapLoop cfg (fuel + 1) inp first a = none := by
  rw [mapLoop, hnext, attrText_append]
  simp only [deStr_quoted clean_key_ops, fieldOf_key_ops, colon_cons, deKeyOps_unbracketed]

theorem parse_attrs_badOps (cfg : Cfg) (xs : List Attr) (hc : ∀ x ∈ xs, x.Ok) (o : Nat) (ts : List Bytes) :
    parseJwk cfg (renderAttrs (xs.map Attr.text ++ attrText (sb "key_ops") (opsText false o) :: ts)) = none := by
  cases xs with
  | nil =>
    simp only [List.map_nil, List.nil_append, renderAttrs]
    rw [parseJwk, skipWs_cons _ (show isWs 123 = false by decide)]
    simp only [if_true]
    have hnext : mapNext (attrText (sb "key_ops") (opsText false o) ++ (attrsTail ts ++ [125])) true
        = some (some (attrText (sb "key_ops") (opsText false o) ++ (attrsTail ts ++ [125]))) := by
      rw [attrText_append, mapNext_first]
    rw [mapLoop_badOps cfg _ _ true {} o _ hnext]
  | cons x xs =>
    have hc' : ∀ y ∈ xs, y.Ok := fun y hy => hc y (by simp [hy])
    simp only [List.map_cons, List.cons_append, renderAttrs, attrsTail_append, attrsTail, List.append_assoc,
      List.cons_append]
    rw [parseJwk, skipWs_cons _ (show isWs 123 = false by decide)]
    simp only [if_true]
    generalize hR : attrsTail ts ++ [125] = R
    have hlen : xs.length + 2 ≤ (x.text ++ (attrsTail (xs.map Attr.text)
        ++ 44 :: (attrText (sb "key_ops") (opsText false o) ++ R))).length + 2 := by
      have := attrsTail_length (xs.map Attr.text)
      simp only [List.length_map] at this
      simp only [List.length_append, List.length_cons]
      omega
    obtain ⟨g, hg'⟩ := Nat.exists_eq_add_of_le hlen
    have hg : (x.text ++ (attrsTail (xs.map Attr.text)
        ++ 44 :: (attrText (sb "key_ops") (opsText false o) ++ R))).length + 2 = (xs.length + (g + 1)) + 1 := by omega
    rw [hg, mapLoop_attr cfg _ _ true {} x _ (hc x (by simp)) (mapNext_first_attr x _)]
    cases visitStep cfg {} x.tok with
    | none => rfl
    | some a' =>
      simp only []
      rw [mapLoop_attrsTail cfg _ xs hc' (g + 1) a']
      cases visitFrom cfg a' (xs.map Attr.tok) with
      | none => rfl
      | some a'' =>
        simp only []
        have hnext : mapNext (44 :: (attrText (sb "key_ops") (opsText false o) ++ R)) false
            = some (some (attrText (sb "key_ops") (opsText false o) ++ R)) := by
          rw [attrText_append, mapNext_comma]
        rw [mapLoop_badOps cfg g _ false a'' o _ hnext]

/-- **the encoder of the tree today produces text its own parser rejects**: `finalize` does not write the opening `[` of
    `key_ops`, so whenever a `key_ops` set is given (any set, the empty one included) the parser fails on the buffer — whatever
    the members, whatever `kid`. -/
theorem parse_renderJwk_current_fails (cfg : Cfg) (ms : List Member) (hc : MembersClean ms = true) (o : Nat)
    (kid : Option Bytes) : parseJwk cfg (renderJwk false ms (some o) kid) = none := by
  have h : attrTexts false ms (some o) kid
      = (ms.map Attr.mem).map Attr.text ++ attrText (sb "key_ops") (opsText false o)
          :: (match kid with | some k => [attrText (sb "kid") (quoted k)] | none => []) := by
    cases kid <;> simp [attrTexts, Attr.text, Function.comp_def]
  rw [renderJwk, h]
  apply parse_attrs_badOps
  intro x hx
  simp only [List.mem_map] at hx
  obtain ⟨m, hm, rfl⟩ := hx
  simp only [MembersClean, List.all_eq_true, Bool.and_eq_true] at hc
  exact hc m hm

end Askar.Jwk

/- checked (each: [propext, Classical.choice, Quot.sound]):
#print axioms Askar.Jwk.renderJwk_plain
#print axioms Askar.Jwk.opsOf_opsNames
#print axioms Askar.Jwk.opsNames_clean
#print axioms Askar.Jwk.deKeyOps_opsElems
#print axioms Askar.Jwk.parse_renderJwk_fixed
#print axioms Askar.Jwk.parse_renderJwk_current_fails
-/
