"""C14 — key export/import round-trips; JWK import tolerant, strict, panic-free."""

CFG = {
    "gens": ["C14"],
    "feature": "c14",
    "rule": (
        "five case kinds: c14:b64 (OptAttr::decode_base64 into arrays of 21 sizes: valid text of every length around the bound, padded / "
        "non-url-safe / over-long / dangling-character / trailing-bit / foreign-character variants, random alphabet strings); "
        "c14:jwk and c14:parse (for each of the 16 algorithms a random key exported by the real code, then: both canonical forms, up to "
        "24 (thorough: all) member permutations, random whitespace, unknown members of 16 JSON value shapes in every position, known-but-ignored "
        "members (kid/alg/use/key_ops in both orders), 15 base64 corruptions of every key-material member, d/x/y taken from another key, "
        "off-curve points (random, y flipped, y of another key, unreduced x), zero / above-order scalars, missing members, wrong kty / crv, "
        "duplicate members, JSON escapes in names and values, 16 non-JSON texts, degenerate documents); c14:secret and c14:public (for every "
        "algorithm random bytes of EVERY length 0..130, the boundary scalars 0, 1, order-1, order, order+1, all-ff, valid keys in every accepted "
        "encoding — compressed, uncompressed, other parity, compact — and near misses: identity, bad tag, truncated, extended, bit-flipped). "
        "Every accepted key is exported in all forms and re-imported by the oracle. non-trivial = an import that reached the key-material "
        "checks (a key was accepted, or the error is InvalidKeyData, or the outcome is a panic) or a base64 / parse case with a non-empty "
        "input; distinct = hash of the case"
    ),
    "assumptions": [
        "JWK text reaches the parser as a Rust &str (valid UTF-8): the model works on the bytes and does not model from_utf8 failures of from_jwk_slice",
        "third-party base64 0.21 URL_SAFE_NO_PAD.decode_slice_unchecked is the strict RFC 4648 §5 decoder (no padding, zero trailing bits); its "
        "internal chunked writes stay inside a buffer that can hold floor(3*len/4) bytes (validated by the c14:b64 cases, which also check that no "
        "byte beyond the reported length is touched)",
        "serde-json-core 0.5.1 behaves as modelled byte by byte (MapAccess / SeqAccess / IgnoredAny, borrowed strings without escape processing); "
        "validated by every c14:parse case including the malformed ones",
        "SHA-256 is outside the Lean model: the model produces the hashed text, the harness compares it with the text the real encoder hashes and "
        "checks the thumbprint against its own FIPS 180-4 implementation and an independent RFC 7638 canonicalisation",
    ],
    "trusted_base": [
        "curve arithmetic: for secp256r1 / secp384r1 / secp256k1 the driver uses its own Lean implementation (AskarModel/Crypto/Ec.lean, written from "
        "SEC 1/2: scalar multiplication, on-curve test, decompression, SEC1 tags 02/03/04/05) and so checks the p256/p384/k256 crates independently; for "
        "Ed25519, X25519 and BLS12-381 the public-key derivation and point validation are taken from the real crates through a per-case table "
        "('prim'), i.e. they are trusted, and only askar's own glue (length checks, d/x consistency check, encodings, dispatch, error kinds) is modelled",
        "the harness's independent SHA-256, base64url and RFC 7638 code (harness/src/c14.rs)",
    ],
}


def nontrivial(rec):
    case, impl = rec.get("case", {}), rec.get("impl", {})
    out = impl.get("out")
    kind = case.get("kind", "")
    if kind in ("c14:b64", "c14:parse"):
        return len(case.get("hex", "")) > 0
    if not isinstance(out, dict):
        return False
    if "alg" in out:          # a key was accepted (and exported / re-imported)
        return True
    return out.get("err") in ("InvalidKeyData", "Panic")
