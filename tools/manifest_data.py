"""What MANIFEST.json claims.  Edited by hand as checks are built."""

HOOK_COMMITS = []

NOTES = ("Every check: regenerate Generated/*.lean from /repo, lake build + #print axioms audit of the property's theorems, "
         "cargo build of the harness against /repo's working tree, corpus + generated cases on implementation and Lean model, "
         "comparison, shrinking, known-findings matching (known-findings.json), evidence. See DESIGN.md.")

SQL = ("Assumes the SQLite statement semantics listed in DESIGN.md 3.2 (validated by the run itself against the bundled SQLite) and, "
       "for the model<->code tie, the generators' reach (distribution in the evidence). ")

CLAIMED = {
    "C04": {
        "text": "Theorem encode_correct (Lean, all filter trees in the property's domain, all tag lists, all tag cryptos satisfying injectivity + no 12-byte-prefix collision among the values in play, every LIKE relation): the SQL clause tree the encoder emits, evaluated as SQLite evaluates it on the stored tag rows, selects a record iff the reference semantics holds; plus placeholder numbering, argument bounds, negation = complement, per-name $exist reading. The encoder model is executed against the real encoder + real SQLite on random filters/record sets through count/fetch_all/scan/remove_all and compared with an independent reference evaluation in the harness.",
        "note": SQL + "Idealisation: distinct tag values have distinct 12-byte HMAC prefixes (hypothesis NoPrefixCollision). LIKE is a parameter in the theorem; the driver uses an executable instance of SQLite's patternCompare.",
        "technique": "Lean 4 proof (mutual structural induction over the nested query type) + differential correspondence run against the real code",
    },
    "C16": {
        "text": "Theorems (Lean, every page size p>0, every row list): the pages returned by driving fetch_next over perform_scan's batches concatenate to exactly the row list, each page non-empty and <= p, page count = ceil(n/p), no early end on a full page; LIMIT window = drop/take; consecutive windows of any widths partition the result; row ids increase in creation order in every reachable store (despite rowid reuse) so ORDER BY id is creation order. Model executed against real scans for record counts around page multiples and all window shapes.",
        "note": SQL,
        "technique": "Lean 4 proof (induction over lists / operation sequences) + differential correspondence run against the real code",
    },
}

CLAIMED["C17"] = {
    "text": "Theorems (Lean, every store state, clock reading and call): the four read operations behave on a store with expired rows exactly as on the store without them (expired_is_absent_partial), reads never return or count an expired row, visibility before expiry to within one second while the timestamp is representable, never-expiring records, replace resets expiry. The full-strength statement 'expired rows are absent for EVERY operation' is refuted on the model of the current code with four machine-checked witnesses (insert->Duplicate, replace resurrects, remove succeeds, remove_all counts) and the year-9999 limit is stated outright; each witness is replayed on the real code by the correspondence run and listed in known-findings.json (open). Time is moved deterministically by rewriting stored timestamps.",
    "note": SQL + "Known findings D8 (4 signatures) and D13 (4 signatures) are reported as KNOWN-FINDING; any other expiry failure is a VIOLATION. Real waiting across second boundaries is not part of the quick tier.",
    "technique": "Lean 4 proof + machine-checked refutation witnesses + differential correspondence run with out-of-band time travel",
}

CLAIMED["C01"] = {
    "text": "Refinement theorem (Lean): for every store state satisfying the invariant (id order, unique index, key coherence), every call (insert/replace/remove/remove_all/fetch/fetch_all/count/scan, any kind, strings, bytes, tag lists, filters, limits) the store model's output equals that of a short association-list specification keyed by (kind, category, name), the abstraction commutes and the invariant is kept; lifted by induction to every finite call sequence (run_refines); Item/Kms separation and bit-for-bit read-after-write are corollaries on the specification. The store model (the statement-level semantics of sqlite/mod.rs) is executed against the real backend on random call sequences (colliding + exotic alphabets, duplicated tags, empty and non-UTF-8 values, > 1 page, both kinds, several sessions, file and in-memory) and compared call by call together with an independent reference map in the harness.",
    "note": SQL + "Encryption is abstracted to key identities (a row matches and decrypts only under the key it was written with); the byte-level layer is C02/C03/C09. Expiry is C17's subject (calls without expiry here).",
    "technique": "Lean 4 refinement proof to an abstract map (induction over call sequences) + differential correspondence run",
}
CLAIMED["C07"] = {
    "text": "Theorems (Lean): frame (a call through one profile's session leaves every other profile's rows untouched), isolation over arbitrary interleaved histories (the outputs of profile P's calls equal those of P's own map run on P's calls alone, whatever other profiles do), remove_profile removes exactly that profile's rows, the removed profile can no longer be resolved, key-cache coherence under create/remove/resolve, a created profile is empty even when SQLite reuses a removed profile's row id; the D7 defect of the pinned tree is kept as a machine-checked witness for the un-repaired behaviour. Correspondence: interleaved histories over 6 profile names (incl. the empty name) with colliding identities, create/remove/re-create, sessions on missing profiles, per-profile scans.",
    "note": SQL + "Two genuine defects were found by this check and repaired (fix: commits 37007c6, c0b681f; known-findings.json). One store handle is modelled; a second handle's cache is outside the model (documented residue).",
    "technique": "Lean 4 proof (frame + refinement, induction over interleaved histories) + differential correspondence run",
}

CLAIMED["C05"] = {
    "text": "Theorems (Lean, arbitrary schedules = lists of calls of any length and interleaving over any number of sessions): while a transaction is open nothing but its own commit changes what other sessions read (its writes are private, foreign writes are refused with no effect); rollback/drop/close(false) after any schedule leaves the published state exactly as before; the transaction's own calls return what they would return run alone in sequence on its starting state (read-your-writes) and commit publishes exactly that sequential result at once; a plain session's call is applied to the published state immediately and survives any ending; a plain read never blocks and sees the published state; a blocked call has no effect. The session/transaction model is executed against the real code on call-level schedules (one writing transaction, two plain sessions, a competing transaction, every ending) on file-backed WAL stores. Two genuine defects found by this check were repaired (09f56cf, daff2ae).",
    "note": SQL + "SQLite's WAL isolation (single write lock taken at transaction start, readers see the last committed state) is the abstract store's assumption, validated by the run; real thread interleavings are C10's subject (here schedules are call-level and deterministic).",
    "technique": "Lean 4 proof (induction over schedules of a transactional store model) + differential correspondence run on deterministic call-level interleavings",
}

CLAIMED["C06"] = {
    "text": "Theorems (Lean, every store state, every call, any number of tags/rows, every fault point): the statement-level model of insert/replace/remove/remove_all (each call as its SQL statements inside one transaction) equals the one-shot semantics when no statement fails; a call that reports an error leaves the database exactly as it was; under any fault the call has its complete effect or none (all_or_nothing); the k-th tag-insert fault is reached exactly by inserts with more than k tags; a failed call is as if never made; after a crash the store is a prefix state containing every acknowledged call. Fault enumeration on the real code: SQLite RAISE(ABORT) triggers installed through a second connection at every statement class and every k, each followed by a full dump; SIGKILL campaign: a child process is killed at arbitrary instants inside multi-statement calls, the store is reopened with the previous key, the dump must be the acknowledged prefix state (or one call more) and the store must accept further calls.",
    "note": SQL + "Re-key, profile-creation and copy-import faults are exercised by C08 / C18's checks; OS crash / power loss is out of scope as the property says; SIGKILL instants are sampled (40 quick / 600 thorough), not enumerated.",
    "technique": "Lean 4 proof over a statement-level fault model + fault enumeration by SQLite triggers + SIGKILL campaign against the real code",
}

CLAIMED["C10"] = {
    "text": "Two layers. (1) Theorems about the lock-protocol model (Lean, every schedule of every length): the published state always equals the non-interleaved execution of the committed transactions in commit order with plain-session calls as singleton transactions (model_serializable), refused calls and rolled-back transactions contribute nothing, a call that fails under contention has no effect. (2) A verified history checker: accept => the observed final state is the outcome of a serial order in which every transaction read what its predecessors wrote (checker_sound), an accepted reader snapshot is exactly a prefix state (snapshot_sound), increments are never lost (no_lost_update) and a lost update is rejected in either order. The checker judges histories produced by real threads: counter increments, sum-preserving transfers over 40+ accounts with concurrent fetch_all and multi-page scans, racing unique-token inserts, concurrent profile operations, on file-backed WAL and in-memory stores, pool sizes 1-8, busy timeouts 50-3000 ms, with a deadlock watchdog and panic capture; the harness judges the same histories independently.",
    "note": "PARTIAL by nature: which interleavings real threads produce and SQLite's actual locking are outside any theorem here; they are sampled (150 runs quick, 3000 thorough), not enumerated. The serial order is fixed by a version record every transaction increments, so no wall-clock ordering of log entries is trusted.",
    "technique": "Lean 4 proof (serializability of the lock-protocol model; soundness of a history checker) + concurrency campaign on real threads judged by the verified checker",
}

CLAIMED["C14"] = {
    "text": "24 theorems (Lean) over a byte-level model of the JWK import/export glue: strict unpadded base64url (roundtrip, canonicity: decode s = some b -> encode b = s, output bound, over-long input), the member visitor and a byte-level model of serde-json-core's map protocol (order independence at import level, unknown members: refuted for the pinned visitor with a witness, proved for the repaired one, which is what the source-derived configuration now selects), public exports contain no private member and do not depend on the secret, RFC 7638 thumbprint member sets and order, import checks (d consistent with x/y, on-curve), byte imports: panic-free (the pinned tree's panic characterised exactly: EC algorithm and wrong length; refuted/partial/fixed variants), round trips, wrong length rejected, the missing oct import stated as a theorem. The model is executed against the real code on 7 789 quick cases (16 algorithms x member permutations, unknown members of 16 JSON shapes in every position, base64 corruptions, mismatched d/x/y, off-curve points, boundary scalars, every byte length 0..130 as secret/public input, non-JSON texts) and agrees on all; an independent Lean implementation of P-256/P-384/secp256k1 arithmetic checks the curve crates' results.",
    "note": "Ed25519/X25519/BLS public-key derivation and point validation are taken from the real crates through a per-case table (trusted); SHA-256 of the thumbprint is checked by the harness's own implementation, the Lean model produces the hashed text. jwk_roundtrip through the byte-level parser is exercised by the oracle on every generated key, not proved (OPEN in Lemmas/Jwk.lean). Defects D3, D4 found and repaired (9039570, b3542f9); D15 (no oct import) and D21 (JSON escapes in member names/values rejected) are open known findings.",
    "technique": "Lean 4 proof over a byte-level parser/codec model + differential correspondence run (7 789 cases quick)",
}

NOT_YET = {}
