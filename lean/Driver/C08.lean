/- Driver for `kind = "c08:…"` cases: URI codec (Model/Uri.lean) and key life cycle (Model/Keys.lean). -/
import Driver.Common
import AskarModel.Model.Uri
import AskarModel.Model.Keys
import AskarModel.Model.KeysDisk
import AskarModel.Model.SqliteOpts
import AskarModel.Model.PgOptions

open Lean

namespace Driver.C08
open Askar Askar.Uri Askar.Keys

def toStr (s : String) : Str := s.toUTF8.toList

def ofStr (b : Str) : String :=
  match String.fromUTF8? (ByteArray.mk b.toArray) with
  | some s => s
  | none => "hex:" ++ Askar.Bytes.toHex b

def jstr (b : Str) : Json := .str (ofStr b)

def strLt (a b : Str) : Bool := Askar.Bytes.lt a b

def sortBy {α : Type} (lt : α → α → Bool) (l : List α) : List α := (l.toArray.qsort lt).toList

def jopts (o : Uri.Options) : Json :=
  Json.mkObj [("scheme", jstr o.scheme), ("user", jstr o.user), ("password", jstr o.password),
    ("host", jstr o.host), ("path", jstr o.path), ("fragment", jstr o.fragment),
    ("query", .arr ((sortBy (fun a b => strLt a.1 b.1) o.query).map fun kv => Json.arr #[jstr kv.1, jstr kv.2]).toArray)]

def optsOf (j : Json) : Uri.Options × List (Str × Str) :=
  let qs := (arr! j "query").map fun p => match asArr p with
    | [k, v] => (toStr (asStr k), toStr (asStr v))
    | _ => ([], [])
  ({ scheme := toStr (str! j "scheme"), user := toStr (str! j "user"), password := toStr (str! j "password"),
     host := toStr (str! j "host"), path := toStr (str! j "path"), fragment := toStr (str! j "fragment"),
     query := qs.foldl mapInsert [] }, qs)

/-- equality of Options as Rust compares them (the query as a map) -/
def optsEq (a b : Uri.Options) : Bool :=
  a.scheme = b.scheme && a.user = b.user && a.password = b.password && a.host = b.host && a.path = b.path &&
  a.fragment = b.fragment &&
  sortBy (fun x y => strLt x.1 y.1) a.query = sortBy (fun x y => strLt x.1 y.1) b.query

def runUriOpts (j : Json) : Json :=
  match j.getObjVal? "o" with
  | .ok oj =>
    let (o, qs) := optsOf oj
    let uri := intoUriWith qs o
    let p := parseUri uri
    Json.mkObj [("uri", jstr uri), ("parsed", jopts p), ("rt", .bool (optsEq p o)), ("wf", .bool o.WF)]
  | _ => jerr "bad case"

def runUriParse (j : Json) : Json :=
  let p := parseUri (toStr (str! j "uri"))
  Json.mkObj [("parsed", jopts p), ("wf", .bool p.WF)]

def methodName : Method → String
  | .raw => "raw" | .unprotected => "none" | .kdf .interactive => "kdf:int" | .kdf .moderate => "kdf:mod"

def runMethod (j : Json) : Json :=
  match Method.parse (toStr (str! j "s")) with
  | .ok m => Json.mkObj [("ok", .str (methodName m))]
  | .error e => jerr e.name

/-! ### life cycle with a toy instance of the primitives -/

/-- what the model knows about a stored profile-key blob: sealed under `sk`; as written by the code (`good`), damaged so that the
    unwrap step fails (`broken`: a flipped / cut / NULL blob), or a CBOR document of the case sealed properly (`plain`) -/
inductive BlobState | good | broken | plain (cbor : Bytes)

structure TBlob where
  sk : Option Bytes
  pk : Nat
  st : BlobState := .good

def toy : Crypto where
  Key := Bytes
  PK := Nat
  Blob := TBlob
  kdf l p s := (match l with | .interactive => 1 | .moderate => 2) :: s ++ p
  rawKey s := (rawKeyBytes s).map (0 :: ·)
  wrapPk sk _ pk := { sk := sk, pk := pk }
  -- a blob sealed under another key: the AEAD refuses (`Encryption`); read WITHOUT a key (`none`) the ciphertext is taken for
  -- CBOR, which it is not (`Unsupported`); a plain CBOR read under a key does not decrypt
  loadPk sk b :=
    if sk ≠ b.sk then (if sk.isNone then .error .unsupported else .error .encryption)
    else match b.st with
      | .good => .ok b.pk
      | .broken => if sk.isNone then .error .unsupported else .error .encryption
      | .plain c => (pkDecodeCurrent c).map fun _ => b.pk

abbrev Items := List (Str × Str × Str × Bytes)      -- profile, category, name, value

structure St where
  fs : Fs toy Items := .absent
  h : Option (Handle toy) := none
  ctr : Nat := 0

def mkRnd (n : Nat) : Rnd toy where
  salt := (List.range 16).map fun i => UInt8.ofNat ((n * 16 + i) % 256)
  key := [0xFF, UInt8.ofNat (n % 256), UInt8.ofNat (n / 256 % 256)]
  pk := n
  nonce := fun _ => []
  profileName := toStr "<random>"

def passOf (j : Json) (k : String) : PassKey := (strOpt j k).map toStr

def jskip (r : String) : Json := Json.mkObj [("skip", .str r)]
def jok (j : Json) : Json := Json.mkObj [("ok", j)]

def maskKeyRef (s : Str) : Str :=
  let rec go : Str → Str
    | [] => []
    | l@(b :: rest) => if sSalt ++ [0x3D] <+: l then sSalt ++ [0x3D] ++ toStr "<salt>" else b :: go rest
  go s

def dump (st : Store toy Items) : Json :=
  let profs := sortBy (fun (a b : Str) => strLt a b) (st.profiles.map (·.1))
  Json.mkObj [("default", jstr st.defaultProfile), ("keyref", jstr (maskKeyRef st.keyRef)),
    ("profiles", .arr (profs.map fun p =>
      let recs := sortBy (fun (a b : Str × Str × Bytes) => strLt a.1 b.1 || (a.1 = b.1 && strLt a.2.1 b.2.1))
        ((st.items.filter fun it => it.1 = p).map fun it => it.2)
      Json.arr #[jstr p, .arr (recs.map fun r => Json.arr #[jstr r.1, jstr r.2.1, jhex r.2.2]).toArray]).toArray)]

def withMethod (j : Json) (k : Method → St × Json) (s : St) : St × Json :=
  match Method.parse (toStr (str! j "method")) with
  | .ok m => k m
  | .error e => (s, jerr e.name)

def step (s : St) (j : Json) : St × Json :=
  let op := str! j "op"
  let s := { s with ctr := s.ctr + 1 }
  let rnd := mkRnd s.ctr
  match op, s.h, s.fs with
  | "provision", none, fs =>
    withMethod j (fun m =>
      let r := provision toy ([] : Items) fs m (passOf j "pass") ((strOpt j "profile").map toStr) (bool! j "recreate") rnd
      match r.2 with
      | .ok h => ({ s with fs := r.1, h := some h }, jok (jstr h.profile))
      | .error e => ({ s with fs := r.1 }, jerr e.name)) s
  | "provision", some _, _ => (s, jskip "open")
  | "open", none, fs =>
    let go (m : Option Method) : St × Json :=
      let r := openStore toy fs m (passOf j "pass") ((strOpt j "profile").map toStr)
      match r.2 with
      | .ok h => ({ s with fs := r.1, h := some h }, jok (jstr h.profile))
      | .error e => ({ s with fs := r.1 }, jerr e.name)
    match strOpt j "method" with
    | none => go none
    | some _ => withMethod j (fun m => go (some m)) s
  | "open", some _, _ => (s, jskip "open")
  | "rekey", some h, .store st =>
    withMethod j (fun m =>
      let r := rekey toy st h m (passOf j "pass") rnd
      match r.2 with
      | .ok h' => ({ s with fs := .store r.1, h := some h' }, .str "ok")
      | .error e => ({ s with fs := .store r.1 }, jerr e.name)) s
  | "close", some _, _ => ({ s with h := none }, .str "ok")
  | "remove", none, fs =>
    let r := removeStore fs
    ({ s with fs := r.1 }, Json.mkObj [("removed", .bool r.2)])
  | "remove", some _, _ => (s, jskip "open")
  | "create_profile", some h, .store st =>
    let r := createProfile toy st h (toStr (str! j "name")) rnd
    match r.2 with
    | .ok n => ({ s with fs := .store r.1 }, jok (jstr n))
    | .error e => (s, jerr e.name)
  | "set_default", some _, .store st => ({ s with fs := .store (setDefaultProfile st (toStr (str! j "name"))) }, .str "ok")
  | "get_default", some _, .store st => (s, jok (jstr st.defaultProfile))
  | "insert", some _, .store st =>
    let p := toStr (str! j "profile"); let c := toStr (str! j "c"); let n := toStr (str! j "n")
    match lookup p st.profiles with
    | none => (s, jerr "NotFound")
    | some _ =>
      if st.items.any fun it => it.1 = p && it.2.1 = c && it.2.2.1 = n then (s, jerr "Duplicate")
      else ({ s with fs := .store { st with items := st.items ++ [(p, c, n, hex! j "v")] } }, .str "ok")
  | "dump", some _, .store st => (s, dump st)
  | _, none, _ => (s, jskip "closed")
  | _, _, _ => (s, jskip "state")

def runLife (j : Json) : Json :=
  let r := (arr! j "ops").foldl (fun (acc : St × List Json) op =>
    let r := step acc.1 op
    (r.1, r.2 :: acc.2)) (({} : St), [])
  .arr r.2.reverse.toArray


/-! ### second wave: config rows / file-level errors, SQLite URI parameters, shared handles, damaged profile keys -/

def runOps (s : St) (ops : List Json) : St × List Json :=
  let r := ops.foldl (fun (acc : St × List Json) op =>
    let r := step acc.1 op
    (r.1, r.2 :: acc.2)) (s, [])
  (r.1, r.2.reverse)

def jop (kv : List (String × Json)) : Json := Json.mkObj kv
def jstrOpt : Option String → Json
  | some s => .str s
  | none => .null

def isPrefixB : Str → Str → Bool
  | [], _ => true
  | _ :: _, [] => false
  | a :: as, b :: bs => a = b && isPrefixB as bs

def replaceAll (pat rep : Str) (s : Str) : Str :=
  let rec go : Nat → Str → Str
    | 0, l => l
    | _, [] => []
    | fuel + 1, l@(b :: rest) => if !pat.isEmpty && isPrefixB pat l then rep ++ go fuel (l.drop pat.length) else b :: go fuel rest
  go (s.length + 1) s

def afterPat (pat : Str) : Str → Option Str
  | [] => none
  | l@(_ :: rest) => if isPrefixB pat l then some (l.drop pat.length) else afterPat pat rest

def upperHex (s : Str) : Str := s.map fun b => if 0x61 ≤ b ∧ b ≤ 0x66 then b - 0x20 else b

def substKey (tpl key0 : Str) : Str :=
  let salt := match afterPat (toStr "salt=") key0 with
    | some x => if x.length = 32 then x else toStr "00112233445566778899aabbccddeeff"
    | none => toStr "00112233445566778899aabbccddeeff"
  replaceAll (toStr "{salt}") salt (replaceAll (toStr "{SALT}") (upperHex salt)
    (replaceAll (toStr "{salt30}") (salt.take 30) (replaceAll (toStr "{key}") key0 tpl)))

def cellOf (c : Json) (key0 : Str) : Cell :=
  match asArr c with
  | t :: rest =>
    match asStr t, rest with
    | "null", _ => Cell.null
    | "text", [v] => .text (substKey (toStr (asStr v)) key0)
    | "blob", _ => .blob
    | "int", [v] => .text (toStr (toString (v.getInt?.toOption.getD 0)))      -- TEXT affinity
    | _, _ => .missing
  | [] => .missing

def applyRow (cfg : Config) (key0 : Str) (o : Json) : Config :=
  match asArr o with
  | [row, c] =>
    let cell := cellOf c key0
    match asStr row with
    | "version" => { cfg with version := cell }
    | "key" => { cfg with key := cell }
    | "default_profile" => { cfg with defaultProfile := cell }
    | _ => cfg                       -- a row `open_db` does not select
  | _ => cfg

def resJson (r : Except Err (Handle toy)) : Json :=
  match r with
  | .ok h => jok (jstr h.profile)
  | .error e => jerr e.name

def tryOn (d : Disk toy Items) (t : Json) (ctr : Nat) : Json :=
  let go (m : Option Method) : Json :=
    let pass := passOf t "pass"
    let prof := (strOpt t "profile").map toStr
    if str! t "op" == "provision" then resJson (provisionDisk toy ([] : Items) d (m.getD .raw) pass prof (mkRnd ctr)).2
    else resJson (openDisk toy d m pass prof).2
  match strOpt t "method" with
  | none => go none
  | some ms => match Method.parse (toStr ms) with
    | .ok m => go (some m)
    | .error e => jerr e.name

def setupOps (m : String) (pass : Json) : List Json :=
  [jop [("op", "provision"), ("method", .str m), ("pass", pass), ("profile", "p0"), ("recreate", true)],
   jop [("op", "create_profile"), ("name", "p1")],
   jop [("op", "insert"), ("profile", "p0"), ("c", "c"), ("n", "n0"), ("v", "00")],
   jop [("op", "insert"), ("profile", "p1"), ("c", "c"), ("n", "n1"), ("v", "0102")],
   jop [("op", "close")]]

def passJson (j : Json) (k : String) : Json := jstrOpt (strOpt j k)

def runCfg (j : Json) : Json :=
  let (s, _) := runOps {} (setupOps (str! j "m") (passJson j "pass"))
  match s.fs, j.getObjVal? "edit", j.getObjVal? "try" with
  | .store st, .ok edit, .ok t =>
    if str! edit "t" == "rows" then
      let cfg := (arr! edit "ops").foldl (fun c o => applyRow c st.keyRef o) (Config.ofStore st)
      let d : Disk toy Items := .db cfg st.profiles st.items
      let (_, back) := runOps s [jop [("op", "open"), ("method", .null), ("pass", passJson j "pass"), ("profile", .null)], jop [("op", "dump")]]
      Json.mkObj [("try", tryOn d t (s.ctr + 1)), ("restored", .arr back.toArray)]
    else
      let d : Disk toy Items := match str! edit "how" with
        | "empty" => .noTables | "foreign" => .noTables
        | "bytes" => if nat! edit "n" ≤ 1 then .noTables else .notDb        -- SQLite takes a 1-byte file for an empty database
        | "dir" => .dir | "absent" => .absent
        | _ => .notDb
      Json.mkObj [("try", tryOn d t (s.ctr + 1)), ("restored", "n/a")]
  | _, _, _ => jerr "setup"

/-! #### c08:opts -/

def journalName : Journal → String
  | .delete => "Delete" | .truncate => "Truncate" | .persist => "Persist" | .memory => "Memory" | .wal => "Wal" | .off => "Off"
def lockingName : Locking → String
  | .normal => "Normal" | .exclusive => "Exclusive"
def syncName : Synchronous → String
  | .off => "Off" | .normal => "Normal" | .full => "Full" | .extra => "Extra"

def optsJson (o : SqliteOpts) : Json :=
  Json.mkObj [("in_memory", .bool o.inMemory), ("path", jstr (replaceAll (toStr "/P") (toStr "{P}") o.path)),
    ("busy_ms", .str (toString o.busyMs)), ("max", .str (toString o.maxConn)), ("min", .str (toString o.minConn)),
    ("journal", .str (journalName o.journal)), ("locking", .str (lockingName o.locking)), ("shared", .bool o.sharedCache),
    ("sync", .str (syncName o.sync))]

def runOpts (j : Json) : Json :=
  let dmax := (str! j "dmax").toNat!
  let uri := replaceAll (toStr "{P}") (toStr "/P") (toStr (str! j "uri"))
  let r := match str! j "via" with
    | "uri" => sqliteOptionsOfUri dmax uri
    | "from_path" => fromPath dmax uri
    | _ => fromPath dmax sMemory
  match r with
  | .error _ => Json.mkObj [("opts", jerr "Input")]
  | .ok o =>
    if !(bool! j "run") then Json.mkObj [("opts", optsJson o)] else
    let pass := passJson j "pass"
    let excl := o.locking == .exclusive
    let fill := [jop [("op", "create_profile"), ("name", "p1")],
      jop [("op", "insert"), ("profile", "p0"), ("c", "c"), ("n", "n0"), ("v", "00")],
      jop [("op", "insert"), ("profile", "p1"), ("c", "c"), ("n", "n1"), ("v", "0102")],
      jop [("op", "insert"), ("profile", "p1"), ("c", "é"), ("n", ""), ("v", "")],
      jop [("op", "dump")]]
    let (s1, o1) := runOps {} (jop [("op", "provision"), ("method", "raw"), ("pass", pass), ("profile", "p0"), ("recreate", false)] :: fill)
    let dump0 := o1.getLastD .null
    let dump0 := if o.inMemory then dump0.setObjVal! "keyref" "<in-memory>" else dump0
    let first := [o1.headD .null, if excl then Json.str "locked" else dump0]
    let life :=
      if o.inMemory then first ++ [Json.mkObj [("removed", true)], Json.mkObj [("removed", true)]]
      else
        let (s2, o2) := runOps s1 [jop [("op", "close")], jop [("op", "open"), ("method", "raw"), ("pass", pass), ("profile", .null)],
          jop [("op", "dump")], jop [("op", "close")]]
        let d2 := (o2.drop 2).headD .null
        let same (d : Json) : Json := if d == dump0 then "same" else d
        let (s3, o3) := runOps s2 [jop [("op", "open"), ("method", "raw"), ("pass", pass), ("profile", .null)], jop [("op", "dump")],
          jop [("op", "close")], jop [("op", "remove")], jop [("op", "remove")]]
        let _ := s3
        first ++ [if excl then d2 else same d2, same ((o3.drop 1).headD .null)] ++ o3.drop 3
    Json.mkObj [("opts", optsJson o), ("life", .arr life.toArray)]

/-! #### c08:misc -/

def setBlob (st : Store toy Items) (name : Str) (f : TBlob → TBlob) : Store toy Items :=
  { st with profiles := st.profiles.map fun e => if e.1 = name then (e.1, f e.2) else e }

/-- `session(profile)` + one insert: the profile's key has to load first -/
def sessionInsert (s : St) (profile n : String) : St × Json :=
  match s.h, s.fs with
  | some h, .store st =>
    match lookup (toStr profile) st.profiles with
    | none => (s, jerr "NotFound")
    | some blob =>
      match toy.loadPk h.storeKey blob with
      | .error e => (s, jerr e.name)
      | .ok _ => ({ s with fs := .store { st with items := st.items ++ [(toStr profile, toStr "c", toStr n, toStr "v")] } }, .str "ok")
  | _, _ => (s, jskip "closed")

def openPlain (s : St) (pass : Json) (profile : Json := .null) : St × Json :=
  step s (jop [("op", "open"), ("method", .null), ("pass", pass), ("profile", profile)])

def runMisc (j : Json) : Json :=
  let pass0 := passJson j "pass"
  let pass1 := passJson j "pass1"
  let openD (p : Json) := jop [("op", "open"), ("method", .null), ("pass", p), ("profile", .null)]
  match str! j "sc" with
  | "genraw" =>
    let p1 : Json := .str (String.ofList (List.replicate 32 '1'))
    let p2 : Json := .str (String.ofList (List.replicate 31 '1' ++ ['2']))
    let (_, o) := runOps {} [
      jop [("op", "provision"), ("method", "raw"), ("pass", p1), ("profile", "p0"), ("recreate", true)],
      jop [("op", "insert"), ("profile", "p0"), ("c", "c"), ("n", "n0"), ("v", "00")],
      jop [("op", "dump")], jop [("op", "close")],
      jop [("op", "open"), ("method", "raw"), ("pass", p2), ("profile", .null)],
      jop [("op", "open"), ("method", "raw"), ("pass", p1), ("profile", .null)],
      jop [("op", "dump")], jop [("op", "rekey"), ("method", "raw"), ("pass", p2)], jop [("op", "close")],
      openD p1, openD p2, jop [("op", "dump")], jop [("op", "close")]]
    .arr o.toArray
  | "clone-rekey" =>
    let (s, o) := runOps {} [
      jop [("op", "provision"), ("method", .str (str! j "m")), ("pass", pass0), ("profile", "p0"), ("recreate", true)],
      jop [("op", "create_profile"), ("name", "p1")],
      jop [("op", "insert"), ("profile", "p1"), ("c", "c"), ("n", "n1"), ("v", "0102")]]
    match s.h, s.fs, Method.parse (toStr (str! j "m1")) with
    | some h, .store st, .ok m1 =>
      let r := rekeyAny 2 toy st h m1 (passOf j "pass1") (mkRnd (s.ctr + 1))
      let refused : Json := match r.2 with | .ok _ => .str "ok" | .error e => jerr e.name
      let s := { s with fs := .store r.1, ctr := s.ctr + 1 }
      let names : Json := .arr ((sortBy (fun (a b : Str) => strLt a b) (r.1.profiles.map (·.1))).map jstr).toArray
      let rest := if bool! j "then" then
          [jop [("op", "rekey"), ("method", .str (str! j "m1")), ("pass", pass1)], jop [("op", "close")], openD pass1, jop [("op", "dump")], jop [("op", "close")]]
        else [jop [("op", "close")], openD pass0, jop [("op", "dump")], jop [("op", "close")]]
      let (_, o2) := runOps s rest
      .arr (o ++ [refused, names] ++ o2).toArray
    | _, _, _ => jerr "setup"
  | "pk" =>
    let (s, o) := runOps {} (setupOps (str! j "m") pass0)
    match s.fs, j.getObjVal? "damage" with
    | .store st, .ok d =>
      -- the version test of a version-checking reader (proposals/C08-profile-key-version.diff, a suggestion) on the same document
      let fin (l : List Json) : Json :=
        if str! d "t" == "cbor" then
          let okv := match Askar.Crypto.Cbor.decode (hex! d "hex") with
            | some m => pkVersionOk m
            | none => false
          .arr (l ++ [Json.mkObj [("fix_ver_ok", .bool okv)]]).toArray
        else .arr l.toArray
      let target := toStr (str! j "target")
      let st' := match str! d "t" with
        | "flip" => setBlob st target fun b => { b with st := .broken }
        | "null" => setBlob st target fun b => { b with st := .broken }
        | "trunc" => if nat! d "n" ≥ 1000 then st else setBlob st target fun b => { b with st := .broken }
        | "cbor" => setBlob st target fun b => { b with st := .plain (hex! d "hex") }
        | _ => st
      let s := { s with fs := .store st' }
      if target = toStr "p0" then
        let (sa, r1) := openPlain s pass0
        let (_, r2) := openPlain { s with ctr := sa.ctr } pass0 (.str "p1")
        let extra := match sa.h with
          | some _ => (runOps { s with ctr := sa.ctr + 1 } [openD pass0, jop [("op", "dump")], jop [("op", "close")]]).2
          | none => []
        fin (o ++ [r1, r2] ++ extra)
      else
        let (s1, r1) := openPlain s pass0
        match s1.h with
        | none => fin (o ++ [r1])
        | some _ =>
          let (s2, r2) := sessionInsert s1 "p1" "x1"
          let (s3, r3) := step s2 (jop [("op", "rekey"), ("method", .str (str! j "m1")), ("pass", pass1)])
          if r3 == .str "ok" then
            let (s4, _) := step s3 (jop [("op", "close")])
            let (_, r5) := openPlain s4 pass1
            fin (o ++ [r1, r2, r3, r5])
          else
            let (s4, r4) := sessionInsert s3 "p0" "x0"
            let (s5, _) := step s4 (jop [("op", "close")])
            let (_, r6) := openPlain s5 pass0
            fin (o ++ [r1, r2, r3, r4, r6, .str "kept"])
    | _, _ => jerr "setup"
  | sc => jerr ("unknown scenario " ++ sc)

/-! #### c08:pgopts — `PostgresStoreOptions::new` (Model/PgOptions.lean) -/

/-- Input: `uri` (a string, parsed by the model's `parseUri`) or `o` (an `Options` value handed over as it is).
    Output: the four numbers (decimal text: u64 does not fit a JSON double), host / name / username / schema, and for BOTH
    derived URIs the re-parse as canonical options (the raw text depends on the hash map's iteration order; it is added when
    at most one parameter is left, where it is determined). -/
def runPgOpts (j : Json) : Json :=
  let o : Uri.Options := match j.getObjVal? "o" with
    | .ok oj => (optsOf oj).1
    | _ => parseUri (toStr (str! j "uri"))
  match Askar.PgOptions.pgNew o with
  | .error .input => jerr "Input"
  | .error .panic => Json.mkObj [("panic", true)]
  | .ok r =>
    let text (x : Uri.Options) : Json := if x.query.length ≤ 1 then jstr (intoUri x) else .null
    -- host and path are written verbatim: a `?` / `#` in them moves the query text into another component, and with two or more
    -- parameters what is read back depends on the enumeration order of the map — not compared
    let reparse (x : Uri.Options) : Json :=
      if x.query.length ≥ 2 && (x.host ++ x.path).any (fun b => b = 0x3F || b = 0x23) then .str "order-dependent"
      else jopts (parseUri (intoUri x))
    Json.mkObj [("connect_timeout", .str (toString r.connectTimeout)), ("idle_timeout", .str (toString r.idleTimeout)),
      ("max", .str (toString r.maxConnections)), ("min", .str (toString r.minConnections)),
      ("host", jstr r.host), ("name", jstr r.name), ("username", jstr r.username),
      ("schema", match r.schema with | some s => jstr s | none => .null),
      ("uri", reparse r.uriOpts), ("admin_uri", reparse r.adminOpts),
      ("uri_text", text r.uriOpts), ("admin_text", text r.adminOpts)]

def runCase (j : Json) : Json :=
  match str! j "kind" with
  | "c08:uri-opts" => runUriOpts j
  | "c08:uri-parse" => runUriParse j
  | "c08:method" => runMethod j
  | "c08:life" => runLife j
  | "c08:cfg" => runCfg j
  | "c08:opts" => runOpts j
  | "c08:misc" => runMisc j
  | "c08:pgopts" => runPgOpts j
  | k => jerr ("unknown kind " ++ k)

end Driver.C08
