/-
C01 — a profile behaves as a faithful keyed map of records.
ONLY property theorems and non-vacuity examples; helper lemmas are in Lemmas/Refine.lean.
The specification is Model/Spec.lean (`Spec.step`: an association list keyed by (kind, category, name)).
-/
import AskarModel.Model.Spec
import AskarModel.Lemmas.Refine
import AskarModel.Model.SqlShape
import AskarModel.Generated.Stmts
import AskarModel.Generated.StmtsPg
import AskarModel.Generated.Tables

namespace Askar.Store

/-- One call: the store model's result equals the map's result, the abstraction commutes, and the
    invariants are kept.  For every database satisfying the invariant, every session whose key is
    coherent with its profile's rows, every call without expiry, every filter, page size > 0. -/
theorem step_refines (like : Bytes → Bytes → Bool) (page : Nat) (hp : 0 < page) (now : Int) (s : Sess) (db : Db)
    (hI : Inv db) (hK : KeyCoherent s db) (op : Op) (hop : op.noExpiry = true) :
    (step like page now s db op).2 = (Spec.step like page (abs s db) op).2 ∧
    abs s (step like page now s db op).1 = (Spec.step like page (abs s db) op).1 ∧
    Inv (step like page now s db op).1 ∧ KeyCoherent s (step like page now s db op).1 :=
  Lemmas.step_refines like page hp now s db hI hK op hop

/-- Any finite call sequence (over one or several sequential sessions of the same profile — they
    share the profile id and key) produces exactly the outputs of the in-memory map. -/
theorem run_refines (like : Bytes → Bytes → Bool) (page : Nat) (hp : 0 < page) (now : Int) (s : Sess) (db : Db)
    (hI : Inv db) (hK : KeyCoherent s db) (ops : List Op) (hops : ∀ op ∈ ops, op.noExpiry = true) :
    (run like page now s db ops).2 = (Spec.run like page (abs s db) ops).2 ∧
    abs s (run like page now s db ops).1 = (Spec.run like page (abs s db) ops).1 :=
  Lemmas.run_refines like page hp now s db hI hK ops hops

/-- From a fresh profile: outputs equal those of the map started empty. -/
theorem run_refines_fresh (like : Bytes → Bytes → Bool) (page : Nat) (hp : 0 < page) (now : Int) (s : Sess)
    (ops : List Op) (hops : ∀ op ∈ ops, op.noExpiry = true) :
    (run like page now s {} ops).2 = (Spec.run like page [] ops).2 :=
  Lemmas.run_refines_fresh like page hp now s ops hops

/-- The map really is keyed by kind as well: after any history, fetching with one kind never returns
    a record written with the other kind (Item and Kms records never collide or shadow each other). -/
theorem kinds_disjoint (like : Bytes → Bytes → Bool) (page : Nat) (m : Spec.Map) (ops : List Op) (k : Kind) (c n : String) (e : Entry)
    (h : (Spec.step like page (Spec.run like page m ops).1 (.fetch k c n)).2 = .entry (some e)) : e.kind = k :=
  Lemmas.kinds_disjoint like page m ops k c n e h

/-- Bit-for-bit: a fetch directly after a successful insert or replace returns exactly the bytes,
    strings and tag list that were written. -/
theorem fetch_after_write (like : Bytes → Bytes → Bool) (page : Nat) (m : Spec.Map) (k : Kind) (c n : String) (v : Bytes) (t : Option (List Wql.Tag))
    (hU : m.Pairwise fun a b => ¬(a.kind = b.kind ∧ a.cat = b.cat ∧ a.name = b.name))
    (op : Op) (hop : op = .insert k c n v t none ∨ op = .replace k c n v t none)
    (hok : (Spec.step like page m op).2 = .ok) :
    (Spec.step like page (Spec.step like page m op).1 (.fetch k c n)).2 = .entry (some ⟨k, c, n, v, t.getD []⟩) :=
  Lemmas.fetch_after_write like page m k c n v t hU op hop hok

/-! non-vacuity: the empty database satisfies the invariant; a concrete three-call history gives
    Duplicate on the second insert in both the model and the map. -/
example : Inv {} := ⟨by simp [Sorted], by simp, by simp⟩
example : KeyCoherent ⟨1, 0⟩ {} := by simp [KeyCoherent]
example : (Spec.run (fun _ _ => false) 32 [] [.insert 2 "c" "n" [1] none none, .insert 2 "c" "n" [2] none none, .insert 1 "c" "n" [3] none none]).2
    = [.ok, .err .duplicate, .ok] := by decide

/-! ### The model's statements are the source's statements
    `Sql.Generated.*` is re-extracted from sqlite/mod.rs on every run; `Sql.Expected.*` is what
    Model/Store.lean implements (`inScope`, `sameIdent`, `live`, INSERT OR IGNORE, UPDATE … RETURNING id). -/
open Askar.Sql in
theorem insert_stmt_matches_source : shapeOk Generated.insertQuery Expected.insertQuery = true := by decide
open Askar.Sql in
theorem update_stmt_matches_source : shapeOk Generated.updateQuery Expected.updateQuery = true := by decide
open Askar.Sql in
theorem delete_stmt_matches_source : shapeOk Generated.deleteQuery Expected.deleteQuery = true := by decide
open Askar.Sql in
theorem delete_all_stmt_matches_source : shapeOk Generated.deleteAllQuery Expected.deleteAllQuery = true := by decide
open Askar.Sql in
theorem fetch_stmt_matches_source : shapeOk Generated.fetchQuery Expected.fetchQuery = true := by decide
open Askar.Sql in
theorem scan_stmt_matches_source : shapeOk Generated.scanQuery Expected.scanQuery = true := by decide
open Askar.Sql in
theorem count_stmt_matches_source : shapeOk Generated.countQuery Expected.countQuery = true := by decide
open Askar.Sql in
theorem tag_stmts_match_source :
    shapeOk Generated.tagInsertQuery Expected.tagInsertQuery = true ∧ shapeOk Generated.tagDeleteQuery Expected.tagDeleteQuery = true := by decide

/-- The POSTGRES backend's statements (backend/postgres/mod.rs, re-extracted on every run) have the shapes the same model
    assumes of them: same identity / scope atoms, Postgres' expiry conjunct, `ON CONFLICT DO NOTHING RETURNING id`, and a
    row-locking twin of the fetch.  No Postgres server exists in the sandbox: this tie is by proof obligation only. -/
theorem pg_stmts_match_source :
    Sql.shapeOk Sql.GeneratedPg.insertQuery Sql.ExpectedPg.insertQuery = true ∧
    Sql.shapeOk Sql.GeneratedPg.updateQuery Sql.ExpectedPg.updateQuery = true ∧
    Sql.shapeOk Sql.GeneratedPg.deleteQuery Sql.ExpectedPg.deleteQuery = true ∧
    Sql.shapeOk Sql.GeneratedPg.deleteAllQuery Sql.ExpectedPg.deleteAllQuery = true ∧
    Sql.shapeOk Sql.GeneratedPg.fetchQuery Sql.ExpectedPg.fetchQuery = true ∧
    Sql.shapeOk Sql.GeneratedPg.fetchQueryUpdate Sql.ExpectedPg.fetchQueryUpdate = true ∧
    Sql.shapeOk Sql.GeneratedPg.scanQuery Sql.ExpectedPg.scanQuery = true ∧
    Sql.shapeOk Sql.GeneratedPg.countQuery Sql.ExpectedPg.countQuery = true ∧
    Sql.shapeOk Sql.GeneratedPg.tagInsertQuery Sql.ExpectedPg.tagInsertQuery = true ∧
    Sql.shapeOk Sql.GeneratedPg.tagDeleteQuery Sql.ExpectedPg.tagDeleteQuery = true := by decide

/-- the integers behind `Kind` (`items.kind`; the generators and the driver use 1 = Kms, 2 = Item) are the CURRENT source's
    `enum EntryKind` discriminants (regenerated from askar-storage/src/entry.rs on every run) -/
theorem entry_kinds_match_source : Askar.Generated.Tables.entryKinds = [("Kms", 1), ("Item", 2)] := by decide

end Askar.Store
