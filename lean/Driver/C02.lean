/- Driver for `kind = "c02"` cases: runs a write history on the provenance model (Model/Provenance.lean) with the toy
   primitives and reports, after every step, what an out-of-band reader of the tables can see: rows per table with
   the length of every stored column, which tag values are in the clear, how many secret columns are in the clear. -/
import Driver.Common
import Driver.Store
import AskarModel.Model.Provenance
import AskarModel.Model.Like

open Lean Askar Askar.Wql Askar.Provenance

namespace Driver.C02

def parseMethod (s : String) : Method :=
  if s == "raw" then .raw
  else if s == "none" then .none
  else .kdf ((s.splitOn ":").drop 2 |> String.intercalate ":")

def parseOp (j : Json) : Option Provenance.Op :=
  let p := str! j "profile"
  let k := (natOpt j "k").getD 2
  match str! j "op" with
  | "insert" => some (.update p k true (str! j "c") (str! j "n") (hex! j "v") (Driver.Store.parseTags j "t"))
  | "replace" => some (.update p k false (str! j "c") (str! j "n") (hex! j "v") (Driver.Store.parseTags j "t"))
  | "remove" => some (.remove p k (str! j "c") (str! j "n"))
  | "remove_all" => some (.removeAll p (natOpt j "k") (strOpt j "c") (Driver.Store.filterOpt j "f"))
  | "fetch" => some (.fetch p k (str! j "c") (str! j "n"))
  | "count" => some (.count p (natOpt j "k") (strOpt j "c") (Driver.Store.filterOpt j "f"))
  | "scan" => some (.scan p (natOpt j "k") (strOpt j "c") (Driver.Store.filterOpt j "f"))
  | "insert_key" =>
    some (.insertKey p (str! j "n") (strOpt j "meta") (utf8 (str! j "jwk")) (str! j "alg") ((arr! j "thumbs").map asStr)
      (Driver.Store.parseTags j "t"))
  | "create_profile" => some (.createProfile (str! j "name"))
  | "remove_profile" => some (.removeProfile (str! j "name"))
  | "set_default" => some (.setDefault (str! j "name"))
  | "rekey" => some (.rekey (parseMethod (str! j "method")))
  | "copy" => some (.copy (parseMethod (str! j "method")))
  | "checkpoint" => some .checkpoint
  | "reopen" => some .reopen
  | _ => none

def jout : Provenance.Out → Json
  | .ok => .str "ok"
  | .err e => jerr e.name
  | .n k => Json.mkObj [("n", jnat k)]
  | .found b => Json.mkObj [("found", .bool b)]
  | .removed b => Json.mkObj [("removed", .bool b)]

def strOfBytes (b : Bytes) : String := (String.fromUTF8? (ByteArray.mk b.toArray)).getD ""

/-- lexicographic order on (text, numbers), as Rust's derived tuple order on (String, ints…) -/
def keyLt (a b : Bytes × List Nat) : Bool :=
  if a.1 != b.1 then Bytes.lt a.1 b.1
  else
    let rec go : List Nat → List Nat → Bool
      | [], [] => false
      | [], _ => true
      | _, [] => false
      | x :: xs, y :: ys => if x < y then true else if y < x then false else go xs ys
    go a.2 b.2

def bnat (b : Bool) : Nat := if b then 1 else 0

def dump (s : PStore) : Json :=
  let db := s.db
  let keyRef := match db.config.find? (·.1 == "key") with
    | some (_, a) => ((strOfBytes a.bytes).splitOn "?").headD ""
    | none => ""
  let pname := fun (pid : Nat) => match db.profiles.find? (·.id == pid) with | some p => p.name.bytes | none => []
  let itemProfile := fun (itemId : Nat) => match db.items.find? (·.id == itemId) with | some it => pname it.pid | none => []
  let profiles := Driver.Store.sortBy keyLt (db.profiles.map fun p => (p.name.bytes, [p.key.bytes.length]))
  let items := Driver.Store.sortBy keyLt (db.items.map fun it =>
    (pname it.pid, [it.kind, it.cat.bytes.length, it.name.bytes.length, it.value.bytes.length]))
  let tags := Driver.Store.sortBy keyLt (db.tags.map fun t =>
    (itemProfile t.itemId, [t.name.bytes.length, t.value.bytes.length, bnat t.plain, bnat (t.value.prov == .plainTagValue)]))
  let secretCols :=
    (db.items.map fun it => bnat it.cat.prov.isSecretPlain + bnat it.name.prov.isSecretPlain + bnat it.value.prov.isSecretPlain).foldl (· + ·) 0 +
    (db.tags.map fun t => bnat t.name.prov.isSecretPlain + bnat (!t.plain && !t.value.prov.isCipher)).foldl (· + ·) 0
  Json.mkObj [
    ("key", .str keyRef),
    ("profiles", .arr (profiles.map fun (n, l) => Json.arr #[.str (strOfBytes n), jnat (l.headD 0)]).toArray),
    ("items", .arr (items.map fun (n, l) => Json.arr (#[Json.str (strOfBytes n)] ++ (l.map jnat).toArray)).toArray),
    ("tags", .arr (tags.map fun (n, l) =>
      match l with
      | [a, b, c, d] => Json.arr #[.str (strOfBytes n), jnat a, jnat b, jnat c, .bool (d == 1)]
      | _ => .null).toArray),
    ("clear_secret", jnat secretCols)]

def dumpStep (res : Json) (st : St) : Json :=
  Json.mkObj [("res", res), ("main", dump st.main), ("copy", match st.copy with | some c => dump c | none => .null)]

def runOps (st : St) : List Json → List Json → St × List Json
  | [], acc => (st, acc.reverse)
  | j :: js, acc =>
    match parseOp j with
    | none => runOps st js (dumpStep (jerr "unknown-op") st :: acc)
    | some op =>
      let (st', o) := step Crypto.toy toyNonce sqliteLike st op
      runOps st' js (dumpStep (jout o) st' :: acc)

def runCase (j : Json) : Json :=
  let st0 := init Crypto.toy toyNonce (parseMethod (str! j "method")) (str! j "profile")
  let (st, steps) := runOps st0 (arr! j "ops") [dumpStep (.str "ok") st0]
  Json.mkObj [("steps", .arr steps.toArray),
    ("closed", Json.mkObj [("main", dump st.main), ("copy", match st.copy with | some c => dump c | none => .null)])]

end Driver.C02
