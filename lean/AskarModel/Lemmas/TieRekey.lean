/-
Tie 2 (helpers): the two models of `rekey` agree.

  engine C08   `Askar.Keys`        `rekeyG` / `rekey` over `Store C I`: method table, blank-raw guard, `Method.resolve`,
                                   `rewrap` (load every wrapped profile key with the handle's store key, wrap it with the new one),
                                   config key text := the new reference; abstract primitives `Crypto` with `Crypto.Laws`
  engine C06S  `Askar.StoreFault`  `Call.rekey new` as the list of its SQL statements in one transaction, `runCall (fault)`;
                                   keys are IDENTITIES (`KeyId`), a profile remembers the identity its key is wrapped with

What is related (`Rel`, for an interpretation `ι` of identities and names, and the list `pks` of the profile keys in row order):
  * the `config.key` text is the reference `ι.ref st.storeKey` written as a URI; the default profile is the same name;
  * the profile rows correspond one to one in order, names through `ι.name`, and the wrapped key of row `i` IS a wrap of
    `pks[i]` under the store key `ι.key p.wrap` (some nonce): "wrapped with identity w" means "sealed under the key w stands for";
  * handles: the key cache's store key is `ι.key h.cacheKey` (`HRel`).
`pks` is a parameter of the relation and the SAME list before and after: a re-key preserves every profile key.
The theorems hold for EVERY `Crypto` satisfying `Crypto.Laws`; for the identity-style toy crypto the relation is a function
(`absToy`) and the tie is a commuting square (`rekey_toy_commutes`).
-/
import AskarModel.Lemmas.Keys
import AskarModel.Lemmas.StoreFault

namespace Askar.Ties.Rekey
open Askar

variable {C : Keys.Crypto} {I : Type}

/-- how the key identities and the names of the StoreFault model are read in the Keys model -/
structure Interp (C : Keys.Crypto) where
  /-- the store key an identity stands for (`none`: the unprotected store) -/
  key : StoreFault.KeyId → Option C.Key
  /-- the key reference stored in `config.key` for it -/
  ref : StoreFault.KeyId → Keys.KeyRef
  /-- profile names as bytes -/
  name : String → Uri.Str

def ProfRel (ι : Interp C) (p : StoreFault.Profile) (e : Uri.Str × C.Blob) (pk : C.PK) : Prop :=
  e.1 = ι.name p.name ∧ ∃ n, e.2 = C.wrapPk (ι.key p.wrap) n pk

def ProfsRel (ι : Interp C) : List StoreFault.Profile → List (Uri.Str × C.Blob) → List C.PK → Prop
  | [], [], [] => True
  | p :: ps, e :: es, k :: ks => ProfRel ι p e k ∧ ProfsRel ι ps es ks
  | _, _, _ => False

structure Rel (ι : Interp C) (pks : List C.PK) (st : StoreFault.St) (kst : Keys.Store C I) : Prop where
  keyRef : kst.keyRef = (ι.ref st.storeKey).toUri
  default : kst.defaultProfile = ι.name st.default
  profiles : ProfsRel ι st.profiles kst.profiles pks

def HRel (ι : Interp C) (h : StoreFault.Handle) (kh : Keys.Handle C) : Prop := kh.storeKey = ι.key h.cacheKey

/-! ## the Keys side -/

/-- every row wrapped with the handle's identity: `rewrap` succeeds and yields the related rows, same profile keys -/
theorem rewrap_rel (L : C.Laws) (ι : Interp C) (cache new : StoreFault.KeyId) (nonce : Nat → Bytes) :
    ∀ (ps : List StoreFault.Profile) (es : List (Uri.Str × C.Blob)) (pks : List C.PK) (i : Nat),
      ProfsRel ι ps es pks → (∀ p ∈ ps, p.wrap = cache) →
      ∃ es', Keys.rewrap C (ι.key cache) (ι.key new) nonce i es = .ok es' ∧
        ProfsRel ι (ps.map fun p => { p with wrap := new }) es' pks
  | [], [], [], _, _, _ => ⟨[], rfl, trivial⟩
  | p :: ps, e :: es, k :: ks, i, hr, hw => by
    obtain ⟨⟨hname, n, hblob⟩, hrest⟩ := hr
    obtain ⟨es', h1, h2⟩ := rewrap_rel L ι cache new nonce ps es ks (i + 1) hrest (fun q hq => hw q (List.mem_cons_of_mem _ hq))
    have hp : p.wrap = cache := hw p List.mem_cons_self
    obtain ⟨en, eb⟩ := e
    simp only at hname hblob
    have hload : C.loadPk (ι.key cache) eb = .ok k := by rw [hblob, hp]; exact L.load_wrap _ _ _
    refine ⟨(en, C.wrapPk (ι.key new) (nonce i) k) :: es', ?_, ?_⟩
    · simp only [Keys.rewrap, hload, h1]
    · exact ⟨⟨hname, nonce i, rfl⟩, h2⟩
  | [], [], _ :: _, _, hr, _ => by simp [ProfsRel] at hr
  | [], _ :: _, _, _, hr, _ => by simp [ProfsRel] at hr
  | _ :: _, [], _, _, hr, _ => by simp [ProfsRel] at hr
  | _ :: _, _ :: _, [], _, hr, _ => by simp [ProfsRel] at hr

/-- some row wrapped with another identity (standing for another key): `rewrap` fails -/
theorem rewrap_fails (L : C.Laws) (ι : Interp C) (cache : StoreFault.KeyId) (sk' : Option C.Key) (nonce : Nat → Bytes) :
    ∀ (ps : List StoreFault.Profile) (es : List (Uri.Str × C.Blob)) (pks : List C.PK) (i : Nat),
      ProfsRel ι ps es pks → (∃ p ∈ ps, ι.key p.wrap ≠ ι.key cache) →
      ∃ e, Keys.rewrap C (ι.key cache) sk' nonce i es = .error e
  | [], _, _, _, _, hex => by obtain ⟨p, hp, _⟩ := hex; cases hp
  | p :: ps, e :: es, k :: ks, i, hr, hex => by
    obtain ⟨⟨_, n, hblob⟩, hrest⟩ := hr
    obtain ⟨en, eb⟩ := e
    simp only at hblob
    cases hl : C.loadPk (ι.key cache) eb with
    | error er => exact ⟨er, by simp only [Keys.rewrap, hl]⟩
    | ok pk' =>
      have hkey : ι.key cache = ι.key p.wrap := by rw [hblob] at hl; exact L.ideal _ _ _ _ _ hl
      have hex' : ∃ q ∈ ps, ι.key q.wrap ≠ ι.key cache := by
        obtain ⟨q, hq, hne⟩ := hex
        rcases List.mem_cons.mp hq with rfl | hq'
        · exact absurd hkey.symm hne
        · exact ⟨q, hq', hne⟩
      obtain ⟨er, h1⟩ := rewrap_fails L ι cache sk' nonce ps es ks (i + 1) hrest hex'
      exact ⟨er, by simp only [Keys.rewrap, hl, h1]⟩
  | _ :: _, [], _, _, hr, _ => by simp [ProfsRel] at hr
  | _ :: _, _ :: _, [], _, hr, _ => by simp [ProfsRel] at hr

theorem lookup_of_rel (ι : Interp C) (n : String) :
    ∀ (ps : List StoreFault.Profile) (es : List (Uri.Str × C.Blob)) (pks : List C.PK),
      ProfsRel ι ps es pks → ps.any (fun p => p.name == n) = true → (Keys.lookup (ι.name n) es).isSome = true
  | [], _, _, _, h => by simp at h
  | p :: ps, e :: es, k :: ks, hr, h => by
    obtain ⟨⟨hname, _⟩, hrest⟩ := hr
    obtain ⟨en, eb⟩ := e
    simp only at hname
    simp only [Keys.lookup]
    by_cases he : en = ι.name n
    · simp [he]
    · rw [if_neg he]
      apply lookup_of_rel ι n ps es ks hrest
      simp only [List.any_cons, Bool.or_eq_true] at h
      rcases h with h | h
      · have : p.name = n := by simpa using h
        rw [this] at hname
        exact absurd hname he
      · exact h
  | _ :: _, [], _, hr, _ => by simp [ProfsRel] at hr
  | _ :: _, _ :: _, [], hr, _ => by simp [ProfsRel] at hr

/-- `Method.resolve` refuses with Input only -/
theorem resolve_err_input (m : Keys.Method) (pass : Keys.PassKey) (rnd : Keys.Rnd C) (e : Keys.Err)
    (h : m.resolve C pass rnd = .error e) : e = .input := by
  cases m with
  | kdf l =>
    simp only [Keys.Method.resolve] at h
    split at h
    · cases h
    · cases h; rfl
  | raw =>
    simp only [Keys.Method.resolve] at h
    split at h
    · split at h
      · cases h
      · cases h; rfl
    · cases h
  | unprotected => simp [Keys.Method.resolve] at h

/-! ## the StoreFault side -/

open StoreFault in
theorem updates_ok (new : KeyId) : ∀ (names : List String) (base : Nat) (st : St), (∀ n ∈ names, st.has n = true) →
    ∃ st', runTxn none base (names.map fun n => updateProfileKey n new) st = .ok st' := by
  intro names
  induction names with
  | nil => intro base st _; exact ⟨st, rfl⟩
  | cons n ns ih =>
    intro base st hall
    have h0 : ¬ ((none : Option Nat) = some base) := by simp
    have hn : st.has n = true := hall n List.mem_cons_self
    simp only [List.map_cons, runTxn, h0, if_false, updateProfileKey, hn, if_true]
    apply ih
    intro n' hn'
    rw [StoreFault.Lemmas.has_mapProfile st n n' (fun p => { p with wrap := new }) (fun _ => rfl)]
    exact hall n' (List.mem_cons_of_mem _ hn')

open StoreFault in
/-- no fault, every profile key loads with the handle's key: the transaction commits, with the complete effect -/
theorem sf_rekey_commits (h : Handle) (new : KeyId) (st : St) (hload : ∀ p ∈ st.profiles, p.wrap = h.cacheKey) :
    runCall none h (.rekey new) st = (StoreFault.Lemmas.rekeyed new st, ⟨new⟩, .ok) := by
  rcases StoreFault.Lemmas.rekey_result none h new st with ⟨e, he⟩ | he
  · exfalso
    have hall : (st.profiles.all fun p => p.wrap == h.cacheKey) = true := by
      rw [List.all_eq_true]; intro p hp; simp [hload p hp]
    have hup := updates_ok new (st.profiles.map (·.name)) 1 st (by
      intro n hn
      obtain ⟨p, hp, rfl⟩ := List.mem_map.mp hn
      simp only [St.has, List.any_eq_true]
      exact ⟨p, hp, by simp⟩)
    obtain ⟨st1, h1⟩ := hup
    rw [List.map_map] at h1
    have h0 : ¬ ((none : Option Nat) = some 0) := by simp
    have hrun : runTxn none 0 (stmts h (.rekey new) st) st = .ok { st1 with storeKey := new } := by
      simp only [stmts, List.cons_append, runTxn, h0, if_false, loadKeys, hall, if_true]
      rw [StoreFault.Lemmas.runTxn_append]
      have : (fun p : Profile => updateProfileKey p.name new) = ((fun n => updateProfileKey n new) ∘ fun p => p.name) := rfl
      rw [this, h1]
      simp [runTxn, setConfigKey]
    unfold runCall at he
    rw [hrun] at he
    simp only [Prod.mk.injEq] at he
    exact absurd he.2.2 (by simp [success])
  · exact he

open StoreFault in
/-- some profile key does not load with the handle's key: refused with Encryption before anything is written -/
theorem sf_rekey_unloadable (h : Handle) (new : KeyId) (st : St) (hex : ∃ p ∈ st.profiles, p.wrap ≠ h.cacheKey) :
    runCall none h (.rekey new) st = (st, h, .err .encryption) := by
  have hall : (st.profiles.all fun p => p.wrap == h.cacheKey) = false := by
    rw [List.all_eq_false]
    obtain ⟨p, hp, hne⟩ := hex
    exact ⟨p, hp, by simpa using hne⟩
  have h0 : ¬ ((none : Option Nat) = some 0) := by simp
  simp only [runCall, stmts, List.cons_append, runTxn, h0, if_false, loadKeys, hall, Bool.false_eq_true]

open StoreFault in
theorem sf_rekey_stmts_length (h : Handle) (new : KeyId) (st : St) :
    (stmts h (.rekey new) st).length = st.profiles.length + 2 := by
  simp [stmts]

open StoreFault in
/-- a fault at any statement of the re-key: nothing changed, handle untouched -/
theorem sf_rekey_fault (h : Handle) (new : KeyId) (st : St) (k : Nat) (hk : k < st.profiles.length + 2) :
    ∃ e, runCall (some k) h (.rekey new) st = (st, h, .err e) := by
  rcases StoreFault.Lemmas.runTxn_fault_cases k (stmts h (.rekey new) st) 0 st with ⟨e, he⟩ | ⟨hge, _⟩
  · exact ⟨e, by simp only [runCall, he]⟩
  · rw [sf_rekey_stmts_length] at hge
    omega

open StoreFault in
theorem runTxn_late_fault (k : Nat) : ∀ (ss : List Stmt) (base : Nat) (s : St), base + ss.length ≤ k →
    runTxn (some k) base ss s = runTxn none base ss s := by
  intro ss
  induction ss with
  | nil => intro base s _; rfl
  | cons x xs ih =>
    intro base s hb
    simp only [List.length_cons] at hb
    have hne : ¬ (some k = some base) := by
      intro e; injection e with e; omega
    have hne' : ¬ ((none : Option Nat) = some base) := by simp
    simp only [runTxn, hne, hne', if_false]
    cases x.run s with
    | error e => rfl
    | ok s' => exact ih (base + 1) s' (by omega)

open StoreFault in
/-- a fault number beyond the last statement never fires -/
theorem sf_rekey_late_fault (h : Handle) (new : KeyId) (st : St) (k : Nat) (hk : st.profiles.length + 2 ≤ k) :
    runCall (some k) h (.rekey new) st = runCall none h (.rekey new) st := by
  have := runTxn_late_fault k (stmts h (.rekey new) st) 0 st (by rw [sf_rekey_stmts_length]; omega)
  simp only [runCall, this]

/-! ## the tie -/

/-- NO FAULT, every profile key loads with the handle's key: both models commit, and the results are related — same profiles
    in the same order, every profile key (the SAME `pks`) now wrapped under the key `new` stands for, config key text = the new
    reference, the handle's cache swapped to the new key; items, active profile and its key untouched -/
theorem rekey_nofault (g : Bool) (L : C.Laws) (ι : Interp C) (pks : List C.PK) (st : StoreFault.St) (kst : Keys.Store C I)
    (h : StoreFault.Handle) (kh : Keys.Handle C) (hR : Rel ι pks st kst) (hH : HRel ι h kh)
    (m : Keys.Method) (pass : Keys.PassKey) (rnd : Keys.Rnd C) (new : StoreFault.KeyId)
    (hguard : ¬ (g = true ∧ m = .raw ∧ pass.str.isEmpty = true))
    (hnew : m.resolve C pass rnd = .ok (ι.key new, ι.ref new))
    (hload : ∀ p ∈ st.profiles, p.wrap = h.cacheKey) :
    ∃ kst' kh', Keys.rekeyG g C kst kh m pass rnd = (kst', .ok kh') ∧
      StoreFault.runCall none h (.rekey new) st = (StoreFault.Lemmas.rekeyed new st, ⟨new⟩, .ok) ∧
      Rel ι pks (StoreFault.Lemmas.rekeyed new st) kst' ∧ HRel ι ⟨new⟩ kh' ∧
      kst'.items = kst.items ∧ kh'.profile = kh.profile ∧ kh'.pk = kh.pk := by
  obtain ⟨es', h1, h2⟩ := rewrap_rel L ι h.cacheKey new rnd.nonce st.profiles kst.profiles pks 0 hR.profiles hload
  have hH' : kh.storeKey = ι.key h.cacheKey := hH
  refine ⟨{ kst with profiles := es', keyRef := (ι.ref new).toUri }, { kh with storeKey := ι.key new }, ?_,
    sf_rekey_commits h new st hload, ⟨rfl, hR.default, h2⟩, rfl, rfl, rfl, rfl⟩
  unfold Keys.rekeyG
  rw [if_neg hguard]
  simp only [hnew, hH', h1]

/-- NO FAULT, some profile key does not load with the handle's key (it is wrapped with an identity standing for another
    key): both models refuse and change nothing — StoreFault with Encryption, Keys with the error of its `loadPk` -/
theorem rekey_unloadable (g : Bool) (L : C.Laws) (ι : Interp C) (pks : List C.PK) (st : StoreFault.St) (kst : Keys.Store C I)
    (h : StoreFault.Handle) (kh : Keys.Handle C) (hR : Rel ι pks st kst) (hH : HRel ι h kh)
    (m : Keys.Method) (pass : Keys.PassKey) (rnd : Keys.Rnd C) (new : StoreFault.KeyId)
    (hex : ∃ p ∈ st.profiles, ι.key p.wrap ≠ ι.key h.cacheKey) :
    (∃ e, Keys.rekeyG g C kst kh m pass rnd = (kst, .error e)) ∧
    StoreFault.runCall none h (.rekey new) st = (st, h, .err .encryption) := by
  constructor
  · have hH' : kh.storeKey = ι.key h.cacheKey := hH
    unfold Keys.rekeyG
    by_cases hg : g = true ∧ m = .raw ∧ pass.str.isEmpty = true
    · exact ⟨.input, by rw [if_pos hg]⟩
    · rw [if_neg hg]
      cases hm : m.resolve C pass rnd with
      | error e => exact ⟨e, rfl⟩
      | ok r =>
        obtain ⟨sk', ref⟩ := r
        obtain ⟨e, he⟩ := rewrap_fails L ι h.cacheKey sk' rnd.nonce st.profiles kst.profiles pks 0 hR.profiles hex
        exact ⟨e, by simp only [hH', he]⟩
  · apply sf_rekey_unloadable
    obtain ⟨p, hp, hne⟩ := hex
    exact ⟨p, hp, fun e => hne (by rw [e])⟩

/-- the calls `Keys.rekeyG` refuses before it reads anything (blank raw pass key under the guard, a pass key the method cannot
    use) are StoreFault's `Call.refused .input`: Input, nothing changed, on both sides -/
theorem rekey_refused (g : Bool) (st : StoreFault.St) (kst : Keys.Store C I) (h : StoreFault.Handle) (kh : Keys.Handle C)
    (m : Keys.Method) (pass : Keys.PassKey) (rnd : Keys.Rnd C)
    (href : (g = true ∧ m = .raw ∧ pass.str.isEmpty = true) ∨ ∃ e, m.resolve C pass rnd = .error e) :
    Keys.rekeyG g C kst kh m pass rnd = (kst, .error .input) ∧
    StoreFault.runCall none h (.refused .input) st = (st, h, .err .input) := by
  refine ⟨?_, by simp [StoreFault.runCall, StoreFault.stmts, StoreFault.runTxn]⟩
  unfold Keys.rekeyG
  by_cases hg : g = true ∧ m = .raw ∧ pass.str.isEmpty = true
  · rw [if_pos hg]
  · rw [if_neg hg]
    rcases href with hg' | ⟨e, he⟩
    · exact absurd hg' hg
    · have := resolve_err_input m pass rnd e he
      subst this
      simp only [he]

/-- A FAULT at any statement of the re-key (`k` < number of statements = profiles + 2): the database and the handle are the
    ones before the call, so their image in the Keys model is the SAME store and the SAME handle — the identity, which is
    also the only non-committing outcome `Keys.rekeyG` has (`Keys.rekey_err_unchanged`) -/
theorem rekey_fault (ι : Interp C) (pks : List C.PK) (st : StoreFault.St) (kst : Keys.Store C I)
    (h : StoreFault.Handle) (kh : Keys.Handle C) (hR : Rel ι pks st kst) (hH : HRel ι h kh)
    (new : StoreFault.KeyId) (k : Nat) (hk : k < st.profiles.length + 2) :
    (∃ e, StoreFault.runCall (some k) h (.rekey new) st = (st, h, .err e)) ∧
    Rel ι pks (StoreFault.runCall (some k) h (.rekey new) st).1 kst ∧
    HRel ι (StoreFault.runCall (some k) h (.rekey new) st).2.1 kh := by
  obtain ⟨e, he⟩ := sf_rekey_fault h new st k hk
  exact ⟨⟨e, he⟩, by rw [he]; exact hR, by rw [he]; exact hH⟩

/-- WHICH KEY OPENS AFTERWARDS, in both models: after the committed re-key exactly the identity `new` opens the StoreFault
    database; the Keys store opens with the new method and pass key, and whoever opens it holds the key `new` stands for -/
theorem rekey_opens (g : Bool) (L : C.Laws) (ι : Interp C) (pks : List C.PK) (st : StoreFault.St) (kst kst' : Keys.Store C I)
    (kh kh' : Keys.Handle C)
    (m : Keys.Method) (pass : Keys.PassKey) (rnd : Keys.Rnd C) (new : StoreFault.KeyId)
    (hnew : m.resolve C pass rnd = .ok (ι.key new, ι.ref new))
    (hr : Keys.rekeyG g C kst kh m pass rnd = (kst', .ok kh'))
    (hR' : Rel ι pks (StoreFault.Lemmas.rekeyed new st) kst')
    (active : String) (ha : st.has active = true) (hsalt : rnd.salt.length = 16) (hraw : m = .raw → pass.str ≠ []) :
    (∀ k, StoreFault.opens k active (StoreFault.Lemmas.rekeyed new st) = true ↔ k = new) ∧
    (∃ hh, Keys.openDb C kst' (some m) pass (some (ι.name active)) = .ok hh ∧ hh.storeKey = ι.key new) ∧
    (∀ m0 pass0 p hh, Keys.openDb C kst' m0 pass0 p = .ok hh → hh.storeKey = ι.key new) := by
  have hkey : kh'.storeKey = ι.key new := by
    obtain ⟨_, _, _, _, _, _, _, _, ref, hres, _, _⟩ := Keys.rekey_ok g L kst kst' kh kh' m pass rnd hr
    rw [hnew] at hres
    simp only [Except.ok.injEq, Prod.mk.injEq] at hres
    exact hres.1.symm
  have ha' : (StoreFault.Lemmas.rekeyed new st).has active = true := by rw [StoreFault.Lemmas.has_rekeyed]; exact ha
  refine ⟨?_, ?_, ?_⟩
  · intro k
    exact StoreFault.Lemmas.opens_iff k active _ (StoreFault.Lemmas.consistent_rekeyed new st) ha'
  · have hex : (Keys.lookup ((some (ι.name active)).getD kst'.defaultProfile) kst'.profiles).isSome = true :=
      lookup_of_rel ι active _ _ _ hR'.profiles ha'
    obtain ⟨hh, ho, hk⟩ := Keys.rekey_then_open g L kst kst' kh kh' m pass rnd hsalt hraw hr (some (ι.name active)) hex
    exact ⟨hh, ho, hk.trans hkey⟩
  · intro m0 pass0 p hh ho
    exact (Keys.rekey_then_open_only_new g L kst kst' kh kh' m pass rnd hr m0 pass0 p hh ho).1.trans hkey

/-! ## identity-style crypto: the relation is a function and the tie a commuting square -/

/-- the image of a StoreFault database in the Keys model over `Crypto.toy` (a blob = the key it is sealed under + the profile
    key): `pk` names the profile keys; the items are the logical content -/
def absToy (ι : Interp Keys.Crypto.toy) (pk : String → Nat) (st : StoreFault.St) :
    Keys.Store Keys.Crypto.toy (List (String × List StoreFault.Rec)) :=
  { keyRef := (ι.ref st.storeKey).toUri, defaultProfile := ι.name st.default,
    profiles := st.profiles.map fun p => (ι.name p.name, (ι.key p.wrap, pk p.name)),
    items := (StoreFault.content st).1 }

theorem absToy_profsRel (ι : Interp Keys.Crypto.toy) (pk : String → Nat) : ∀ (ps : List StoreFault.Profile),
    ProfsRel ι ps (ps.map fun p => (ι.name p.name, (ι.key p.wrap, pk p.name))) (ps.map fun p => pk p.name)
  | [] => trivial
  | _ :: ps => ⟨⟨rfl, [], rfl⟩, absToy_profsRel ι pk ps⟩

theorem absToy_rel (ι : Interp Keys.Crypto.toy) (pk : String → Nat) (st : StoreFault.St) :
    Rel ι (st.profiles.map fun p => pk p.name) st (absToy ι pk st) :=
  ⟨rfl, rfl, absToy_profsRel ι pk st.profiles⟩

theorem rewrap_toy (ι : Interp Keys.Crypto.toy) (pk : String → Nat) (cache new : StoreFault.KeyId) (nonce : Nat → Bytes) :
    ∀ (ps : List StoreFault.Profile) (i : Nat), (∀ p ∈ ps, p.wrap = cache) →
      Keys.rewrap Keys.Crypto.toy (ι.key cache) (ι.key new) nonce i (ps.map fun p => (ι.name p.name, (ι.key p.wrap, pk p.name))) =
        .ok (ps.map fun p => (ι.name p.name, (ι.key new, pk p.name)))
  | [], _, _ => rfl
  | p :: ps, i, hw => by
    have hp : p.wrap = cache := hw p List.mem_cons_self
    have ih := rewrap_toy ι pk cache new nonce ps (i + 1) (fun q hq => hw q (List.mem_cons_of_mem _ hq))
    simp only [List.map_cons, Keys.rewrap, hp, ih, if_true]

/-- the commuting square: `Keys.rekeyG` on the image of `st` is the image of StoreFault's committed re-key -/
theorem rekey_toy_commutes (g : Bool) (ι : Interp Keys.Crypto.toy) (pk : String → Nat) (st : StoreFault.St)
    (h : StoreFault.Handle) (prof : Uri.Str) (pk0 : Nat)
    (m : Keys.Method) (pass : Keys.PassKey) (rnd : Keys.Rnd Keys.Crypto.toy) (new : StoreFault.KeyId)
    (hguard : ¬ (g = true ∧ m = .raw ∧ pass.str.isEmpty = true))
    (hnew : m.resolve Keys.Crypto.toy pass rnd = .ok (ι.key new, ι.ref new))
    (hload : ∀ p ∈ st.profiles, p.wrap = h.cacheKey) :
    Keys.rekeyG g Keys.Crypto.toy (absToy ι pk st) ⟨ι.key h.cacheKey, prof, pk0⟩ m pass rnd =
      (absToy ι pk (StoreFault.runCall none h (.rekey new) st).1,
       .ok ⟨ι.key (StoreFault.runCall none h (.rekey new) st).2.1.cacheKey, prof, pk0⟩) := by
  rw [sf_rekey_commits h new st hload]
  unfold Keys.rekeyG
  rw [if_neg hguard]
  simp only [hnew, absToy, rewrap_toy ι pk h.cacheKey new rnd.nonce st.profiles 0 hload]
  simp [StoreFault.Lemmas.rekeyed, StoreFault.content, List.map_map, Function.comp_def]

end Askar.Ties.Rekey
