/- Helper lemmas for C17 (expiry): reads ignore expired rows; writes do not (witnesses). -/
import AskarModel.Model.Spec
import AskarModel.Lemmas.Store

namespace Askar.Store
namespace Lemmas
open Askar.Wql

/-! ### `live` arithmetic -/

theorem no_expiry_never_expires (now : Int) (it : Item) (he : it.expiry = none) : live now it = true := by
  simp [live, he]

theorem visible_before_expiry (now e : Int) (it : Item) (he : it.expiry = some e) (h1 : now + 1000 ≤ e)
    (h0 : 0 ≤ now) (h2 : e / 1000 ≤ maxDatetimeSec) : live now it = true := by
  simp only [live, he, maxDatetimeSec] at *
  have a : e / 1000 > now / 1000 := by omega
  have c : (-62167219200 : Int) ≤ e / 1000 := by omega
  simp [a, h2, c]

/-- Slight generalisation: `0 ≤ now` is only used for SQLite's lower DATETIME bound (year 0000), so
    it can be replaced by that bound on `e`.  Some lower bound is necessary: with
    `now = -10^17`, `e = now + 1000` the row is not live. -/
theorem visible_before_expiry' (now e : Int) (it : Item) (he : it.expiry = some e) (h1 : now + 1000 ≤ e)
    (h0 : -62167219200000 ≤ e) (h2 : e / 1000 ≤ maxDatetimeSec) : live now it = true := by
  simp only [live, he, maxDatetimeSec] at *
  have a : e / 1000 > now / 1000 := by omega
  have c : (-62167219200 : Int) ≤ e / 1000 := by omega
  simp [a, h2, c]

theorem gone_after_expiry(now e : Int) (it : Item) (he : it.expiry = some e) (h1 : e ≤ now) : live now it = false := by
  simp only [live, he]
  have a : ¬ (e / 1000 > now / 1000) := by omega
  simp [a]

theorem far_future_invisible (now e : Int) (it : Item) (he : it.expiry = some e) (h : maxDatetimeSec < e / 1000) :
    live now it = false := by
  simp only [live, he]
  have a : ¬ (e / 1000 ≤ maxDatetimeSec) := by omega
  simp [a]

/-! ### membership through the paging pipeline -/

theorem mem_insertById {x y : Item} {l : List Item} : y ∈ insertById x l ↔ y = x ∨ y ∈ l := by
  induction l with
  | nil => simp [insertById]
  | cons z zs ih =>
    simp only [insertById]
    split
    · simp
    · simp only [List.mem_cons, ih]
      constructor
      · rintro (h | h | h)
        · exact .inr (.inl h)
        · exact .inl h
        · exact .inr (.inr h)
      · rintro (h | h | h)
        · exact .inr (.inl h)
        · exact .inl h
        · exact .inr (.inr h)

theorem mem_sortById {y : Item} {l : List Item} : y ∈ sortById l ↔ y ∈ l := by
  induction l with
  | nil => simp [sortById]
  | cons x xs ih =>
    have : sortById (x :: xs) = insertById x (sortById xs) := rfl
    rw [this, mem_insertById, ih]; simp

theorem mem_window {α} {off lim : Option Int} {rows : List α} {x : α} (h : x ∈ window off lim rows) : x ∈ rows := by
  unfold window at h
  split at h
  · exact h
  · simp only at h
    split at h
    · exact List.mem_of_mem_drop h
    · exact List.mem_of_mem_drop (List.mem_of_mem_take h)

/-! ### reads on `purge now db` -/

theorem readFilter_purge (now : Int) (p q : Item → Bool) (l : List Item) :
    (l.filter (live now)).filter (fun it => p it && live now it && q it) =
      l.filter (fun it => p it && live now it && q it) := by
  rw [List.filter_filter]
  congr 1
  funext it
  cases p it <;> cases live now it <;> cases q it <;> rfl

theorem selectRows_purge (like : Bytes → Bytes → Bool) (db : Db) (now : Int) (pid key : Nat) (kind : Option Kind)
    (cat : Option String) (f : Option (Query String)) (off lim : Option Int) (desc : Bool) :
    selectRows like (purge now db) now pid key kind cat f off lim desc =
      selectRows like db now pid key kind cat f off lim desc := by
  simp only [selectRows, purge]
  rw [readFilter_purge now (fun it => it.inScope pid key kind cat) (fun it => matchFilter like f it)]

theorem doCount_purge (like : Bytes → Bytes → Bool) (db : Db) (now : Int) (s : Sess) (kind : Option Kind)
    (cat : Option String) (f : Option (Query String)) :
    doCount like (purge now db) now s kind cat f = doCount like db now s kind cat f := by
  simp only [doCount, purge]
  rw [readFilter_purge now (fun it => it.inScope s.pid s.key kind cat) (fun it => matchFilter like f it)]

theorem find?_filter_and (p q : Item → Bool) (l : List Item) :
    (l.filter q).find? (fun it => p it && q it) = l.find? (fun it => p it && q it) := by
  induction l with
  | nil => rfl
  | cons x xs ih =>
    by_cases hq : q x = true
    · simp only [List.filter_cons, hq, if_true, List.find?_cons, Bool.and_true]
      cases p x
      · simpa using ih
      · rfl
    · have hq' : q x = false := by simpa using hq
      simp only [List.filter_cons, hq', List.find?_cons, Bool.and_false]
      simpa using ih

theorem doFetch_purge (db : Db) (now : Int) (s : Sess) (k : Kind) (c n : String) :
    doFetch (purge now db) now s k c n = doFetch db now s k c n := by
  simp only [doFetch, purge]
  rw [find?_filter_and (fun it => it.sameIdent s.pid s.key k c n) (live now)]

theorem doFetchAll_purge (like : Bytes → Bytes → Bool) (db : Db) (now : Int) (s : Sess) (kind : Option Kind)
    (cat : Option String) (f : Option (Query String)) (lim : Option Int) (desc : Bool) :
    doFetchAll like (purge now db) now s kind cat f lim desc = doFetchAll like db now s kind cat f lim desc := by
  simp only [doFetchAll, selectRows_purge]

theorem doScan_purge (like : Bytes → Bytes → Bool) (page : Nat) (db : Db) (now : Int) (s : Sess) (kind : Option Kind)
    (cat : Option String) (f : Option (Query String)) (off lim : Option Int) (desc : Bool) :
    doScan like page (purge now db) now s kind cat f off lim desc = doScan like page db now s kind cat f off lim desc := by
  simp only [doScan, selectRows_purge]

/-- local copy of `Op.isRead` (which lives in Props/C17.lean) -/
def isRead' : Op → Bool
  | .fetch .. => true
  | .fetchAll .. => true
  | .count .. => true
  | .scan .. => true
  | _ => false

theorem expired_is_absent_partial (like : Bytes → Bytes → Bool) (page : Nat) (now : Int) (s : Sess) (db : Db) (op : Op)
    (hr : isRead' op = true) :
    (step like page now s db op).2 = (step like page now s (purge now db) op).2 := by
  cases op with
  | insert => simp [isRead'] at hr
  | replace => simp [isRead'] at hr
  | remove => simp [isRead'] at hr
  | removeAll => simp [isRead'] at hr
  | fetch k c n => simp only [step, doFetch_purge]
  | fetchAll k c f lim desc =>
    simp only [step, doFetchAll_purge]
    cases doFetchAll like db now s k c f lim desc <;> rfl
  | count k c f => simp only [step, doCount_purge]
  | scan k c f off lim desc =>
    simp only [step, doScan_purge]
    cases doScan like page db now s k c f off lim desc <;> rfl

theorem reads_hide_expired (like : Bytes → Bytes → Bool) (db : Db) (now : Int) (s : Sess) (kind : Option Kind) (cat : Option String)
    (f : Option (Query String)) (off lim : Option Int) (desc : Bool) :
    (∀ it ∈ selectRows like db now s.pid s.key kind cat f off lim desc, live now it = true) ∧
    (∀ k c n e, doFetch db now s k c n = some e → ∃ it ∈ db.items, live now it = true ∧ toEntry it = e) ∧
    doCount like db now s kind cat f = (doCount like (purge now db) now s kind cat f) := by
  refine ⟨?_, ?_, (doCount_purge like db now s kind cat f).symm⟩
  · intro it hit
    simp only [selectRows] at hit
    have h1 := mem_window hit
    have h2 : it ∈ sortById (db.items.filter fun it =>
        it.inScope s.pid s.key kind cat && live now it && matchFilter like f it) := by
      cases desc
      · simpa using h1
      · simpa using h1
    rw [mem_sortById, List.mem_filter] at h2
    have h3 := h2.2
    simp only [Bool.and_eq_true] at h3
    exact h3.1.2
  · intro k c n e h
    simp only [doFetch] at h
    split at h
    · cases h
    · rename_i it hfind
      injection h with h
      refine ⟨it, List.mem_of_find?_eq_some hfind, ?_, h⟩
      have := List.find?_some hfind
      simp only [Bool.and_eq_true] at this
      exact this.2

/-! ### replace resets the expiry -/

theorem replace_resets_expiry (db db' : Db) (now : Int) (s : Sess) (k : Kind) (c n : String) (v : Bytes) (t : Option (List Tag))
    (ems : Option Int) (h : doReplace db now s k c n v t ems = .ok db') :
    ∀ it ∈ db'.items, it.sameIdent s.pid s.key k c n = true →
      it.expiry = ems.map (now + ·) ∧ it.value = v := by
  intro it hit hsame
  simp only [doReplace] at h
  split at h
  · cases h
  · rename_i exp hexp
    split at h
    · injection h with h
      subst h
      simp only [List.mem_map] at hit
      obtain ⟨it0, _, rfl⟩ := hit
      split at hsame
      · rename_i h0
        rw [if_pos h0]
        refine ⟨?_, rfl⟩
        show exp = _
        cases ems with
        | none => simp at hexp; simp [← hexp]
        | some ms =>
          simp only [expiryTimestamp] at hexp
          split at hexp
          · cases hexp
          · simp [Except.map] at hexp; simp [← hexp]
      · rename_i h0
        exact absurd hsame h0
    · cases h

/-! ### writes see expired rows: witnesses -/

def wItem : Item :=
  { id := 1, pid := 1, key := 0, kind := 2, cat := "c", name := "n", value := [], tags := [], expiry := some 0 }

def wDb : Db := { items := [wItem], profiles := [] }

theorem wDb_all_expired : ∀ it ∈ wDb.items, live 5000 it = false := by
  intro it hit
  simp only [wDb, List.mem_singleton] at hit
  subst hit
  simp [live, wItem]

theorem wItem_same : wItem.sameIdent 1 0 2 "c" "n" = true := by
  simp [Item.sameIdent, wItem]

theorem expired_insert_is_duplicate_witness :
    ∃ (db : Db) (now : Int) (s : Sess), (∀ it ∈ db.items, live now it = false) ∧
      (step (fun _ _ => false) 32 now s db (.insert 2 "c" "n" [] none none)).2 = .err .duplicate := by
  refine ⟨wDb, 5000, ⟨1, 0⟩, wDb_all_expired, ?_⟩
  simp [step, doInsert, wDb, wItem_same]

theorem expired_replace_resurrects_witness :
    ∃ (db : Db) (now : Int) (s : Sess), (∀ it ∈ db.items, live now it = false) ∧
      (step (fun _ _ => false) 32 now s db (.replace 2 "c" "n" [] none none)).2 = .ok := by
  refine ⟨wDb, 5000, ⟨1, 0⟩, wDb_all_expired, ?_⟩
  simp [step, doReplace, wDb, wItem_same]

theorem expired_remove_succeeds_witness :
    ∃ (db : Db) (now : Int) (s : Sess), (∀ it ∈ db.items, live now it = false) ∧
      (step (fun _ _ => false) 32 now s db (.remove 2 "c" "n")).2 = .ok := by
  refine ⟨wDb, 5000, ⟨1, 0⟩, wDb_all_expired, ?_⟩
  simp [step, doRemove, wDb, wItem_same]

theorem expired_remove_all_counts_witness :
    ∃ (db : Db) (now : Int) (s : Sess), (∀ it ∈ db.items, live now it = false) ∧
      (step (fun _ _ => false) 32 now s db (.removeAll none none none)).2 = .count 1 := by
  refine ⟨wDb, 5000, ⟨1, 0⟩, wDb_all_expired, ?_⟩
  simp [step, doRemoveAll, wDb, Item.inScope, matchFilter, matchTags, wItem]

theorem expired_is_absent_refuted :
    ¬ (∀ (like : Bytes → Bytes → Bool) (page : Nat) (now : Int) (s : Sess) (db : Db) (op : Op),
        (step like page now s db op).2 = (step like page now s (purge now db) op).2) := by
  intro h
  have h1 := h (fun _ _ => false) 32 5000 ⟨1, 0⟩ wDb (.insert 2 "c" "n" [] none none)
  have hp : purge 5000 wDb = { items := [], profiles := [] } := by
    simp [purge, wDb, live, wItem]
  rw [hp] at h1
  simp [step, doInsert, wDb, wItem_same] at h1

end Lemmas
end Askar.Store
