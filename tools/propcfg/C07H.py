"""C07H — second engine for C07: SEVERAL store handles (each with its own key cache) on ONE SQLite file; profiles are removed and
re-created behind the back of a handle that has used them, SQLite reuses the row ids, and every call is judged by the profile
NAME it was made against."""

CFG = {
    "extra_props": ["Ties"],
    "gens": ["C07H"],
    "feature": "c07h",
    "model_exe": "askar_model_c07h",
    "rule": (
        "c07h: a file-backed store (WAL or journal_mode=delete, max_connections 5) provisioned with profile p0 = handle 0; up to two "
        "more `Store` handles are opened on the same file (by default profile or by name), closed and re-opened.  Half of the cases "
        "start with a directed prefix (7 templates: A learns P by creating it or by a session on it and writes 0-2 records; B removes "
        "P; then nothing / B creates Q (the id is reused by ANOTHER profile) / B re-creates P (same id, new key) / Q then P (name "
        "back, other id) / P was not the last row (id not reused); the new owner writes 1-3 records; A then opens session(P) / "
        "transaction(P) / scan(P), or goes on with a session it kept open, and tries count / fetch_all / remove_all / insert and "
        "random calls), every case continues with a random history over profile names {p0, p1, p2, 'p\\u00e9', '', 'P1'} and "
        "colliding record identities: create / remove / re-create / set_default / get_default / list_profiles through any handle, "
        "sessions and transactions by name and as None (the handle's active profile), insert / replace / remove / fetch / "
        "fetch_all / count / remove_all (unfiltered and by category), store-level scans, commit / rollback, close + reopen, and a "
        "malformed stream (unknown session, handle out of range, unknown op, calls during a foreign transaction).  After EVERY "
        "call: raw `items` row counts per profile name and the number of ownerless rows through a separate OS-level connection; "
        "after every call that can write: the logical dump of all profiles through an observer handle that is re-opened after each "
        "removal.  The Lean driver predicts every result, every raw count and every dump from the model (shared tables + per-handle "
        "cache + SQLite rowid allocation + resolve / ping as they are).  Oracle: a reference with ONE map per profile name; errors "
        "are accepted only on calls labelled stale (counted), sessions kept open across the removal of their profile must stay "
        "void.  Non-trivial = a profile was removed by one handle after another OPEN handle had used it, and a session / scan was "
        "attempted afterwards; distinct = hash of the case"
    ),
    "assumptions": [
        "profile keys are abstract identifiers in the model; a key drawn by create_profile is new (theorem created_key_is_fresh "
        "over the model's counter; in reality: 256 random bits); a ciphertext produced under one key neither matches nor decrypts "
        "under another (the model keeps, per items row, the key it was written under)",
        "SQLite: rowid = max(rowid)+1 without AUTOINCREMENT, UNIQUE(profile_id, kind, category, name) on ciphertexts, ON DELETE "
        "CASCADE, FOREIGN KEY failure on insert without parent row — assumed in the model, validated against the bundled SQLite "
        "by this run (raw counts after every call)",
        "calls are sequential (one thread per case); while a transaction is open every call that is not on its session is refused "
        "by the executor (TxnOpen) — lock contention is C05's subject; at most 3 sessions per handle (pool of 5)",
        "an ERROR on a call through a handle that is behind the shared state is accepted and counted (`accept:*`); acting on "
        "another profile's rows, acknowledging a write that the named profile cannot read, opening a removed name, or returning "
        "empty data for it is an oracle failure",
        "all names in play sort the same by code point (driver) and bytewise (harness)",
    ],
    "trusted_base": [
        "harness/src/c07h.rs: executor, observer handle (re-opened after every removal), the reference and its stale / held "
        "labelling; harness/src/rawsql.rs",
        "AskarModel/Model/TwoHandles.lean was transcribed by hand from sqlite/mod.rs (resolve_profile_key, ping, create_profile, "
        "remove_profile, the item statements), protect/mod.rs (KeyCache), db_utils.rs (make_active), src/store.rs (session = "
        "resolve + ping, scan = resolve only), provision.rs (open_db); the correspondence run is what ties it to the code",
        "the switch `validateCurrent` (today: false) selects the variant of resolve_profile_key the driver runs",
    ],
}


def nontrivial(rec):
    impl = rec["impl"]
    out, feat = impl.get("out"), impl.get("feat") or {}
    if not isinstance(out, dict) or "steps" not in out:
        return False
    return (feat.get("stale:made", 0) + feat.get("held:made", 0)) > 0 and (feat.get("op:session", 0) + feat.get("op:scan", 0)) >= 2
