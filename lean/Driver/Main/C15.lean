import Driver.C15
def main : IO Unit := Driver.mainLoop fun _ j => Driver.C15.runCase j
