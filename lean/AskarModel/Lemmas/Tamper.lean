/- Helper lemmas and proofs for C03, logical level (`Model/Tamper.lean`).  Core Lean only. -/
import AskarModel.Model.Tamper
import AskarModel.Lemmas.Decrypt

namespace Askar.Tamper.Lemmas
open Askar Askar.Tamper
open Askar.Decrypt (EK Res)
open Askar.Decrypt.Lemmas (bind_ok bind_err bind_panic bind_ne_panic)

/-! ### nothing at this level panics except the unchecked unwrap -/

theorem dec_ne_panic (key : Nat) (f : Field) (bc bn : Bytes) (x : Ct) : dec key f bc bn x ≠ .panic := by
  cases x with
  | valid k f' c n pt => simp only [dec]; split <;> simp
  | garbage l => simp [dec]

theorem decTag_ne_panic (key : Nat) (t : TagRow) : decTag key t ≠ .panic := by
  unfold decTag
  apply bind_ne_panic _ _ (dec_ne_panic _ _ _ _ _)
  intro n
  cases t.value with
  | plain v => simp
  | enc c => exact bind_ne_panic _ _ (dec_ne_panic _ _ _ _ _) (fun _ => by simp)

theorem decTags_ne_panic (key : Nat) (ts : List TagRow) : decTags key ts ≠ .panic := by
  induction ts with
  | nil => simp [decTags]
  | cons t ts ih =>
    unfold decTags
    exact bind_ne_panic _ _ (decTag_ne_panic key t) fun _ => bind_ne_panic _ _ ih fun _ => by simp

theorem decRow_ne_panic (key : Nat) (cat : Option Bytes) (r : Row) : decRow key cat r ≠ .panic := by
  unfold decRow
  apply bind_ne_panic
  · cases cat with
    | none => exact dec_ne_panic _ _ _ _ _
    | some c => simp
  · intro c
    exact bind_ne_panic _ _ (dec_ne_panic _ _ _ _ _) fun _ => bind_ne_panic _ _ (dec_ne_panic _ _ _ _ _) fun _ =>
      bind_ne_panic _ _ (decTags_ne_panic _ _) fun _ => by simp

theorem decRows_ne_panic (key : Nat) (cat : Option Bytes) (rs : List Row) : decRows key cat rs ≠ .panic := by
  induction rs with
  | nil => simp [decRows]
  | cons r rs ih =>
    unfold decRows
    exact bind_ne_panic _ _ (decRow_ne_panic _ _ _) fun _ => bind_ne_panic _ _ ih fun _ => by simp

theorem decFetched_ne_panic (key kind : Nat) (cat name : Bytes) (r : Row) : decFetched key kind cat name r ≠ .panic := by
  unfold decFetched
  exact bind_ne_panic _ _ (dec_ne_panic _ _ _ _ _) fun _ => bind_ne_panic _ _ (decTags_ne_panic _ _) fun _ => by simp

theorem readAs_ne_panic (db : Db) (pid key : Nat) (r : Read) : readAs db pid key r ≠ .panic := by
  cases r with
  | fetch k c n =>
    unfold readAs fetch
    apply bind_ne_panic _ _ _ (fun _ => by simp)
    split
    · simp
    · exact bind_ne_panic _ _ (decFetched_ne_panic _ _ _ _ _) fun _ => by simp
  | scan k c =>
    unfold readAs scan
    exact bind_ne_panic _ _ (decRows_ne_panic _ _ _) fun _ => by simp
  | count k c => simp [readAs]

/-! ### inversion of successful decryptions -/

theorem bind_eq_ok {α β} (x : Res α) (f : α → Res β) (b : β) (h : x.bind f = .ok b) : ∃ a, x = .ok a ∧ f a = .ok b := by
  cases x with
  | ok a => exact ⟨a, rfl, h⟩
  | err e => simp at h
  | panic => simp at h

theorem dec_ok (key : Nat) (f : Field) (bc bn : Bytes) (x : Ct) (v : Bytes) (h : dec key f bc bn x = .ok v) :
    x = .valid key f bc bn v := by
  cases x with
  | garbage l => simp [dec] at h
  | valid k f' c n pt =>
    simp only [dec] at h
    split at h
    · rename_i hc
      obtain ⟨h1, h2, h3, h4⟩ := hc
      injection h with h5
      subst h1 h2 h3 h4 h5; rfl
    · simp at h

theorem dec_valid (key : Nat) (f : Field) (bc bn v : Bytes) : dec key f bc bn (.valid key f bc bn v) = .ok v := by
  simp [dec]

theorem decRow_ok_inv (key : Nat) (cat : Option Bytes) (r : Row) (e : Entry) (h : decRow key cat r = .ok e) :
    ∃ c n v ts, (match cat with | some c' => c = c' | none => r.cat = .valid key .category [] [] c) ∧
      r.name = .valid key .name [] [] n ∧ r.value = .valid key .value c n v ∧ decTags key r.tags = .ok ts ∧
      e = ⟨r.kind, c, n, v, ts⟩ := by
  unfold decRow at h
  obtain ⟨c, hc, h⟩ := bind_eq_ok _ _ _ h
  obtain ⟨n, hn, h⟩ := bind_eq_ok _ _ _ h
  obtain ⟨v, hv, h⟩ := bind_eq_ok _ _ _ h
  obtain ⟨ts, hts, h⟩ := bind_eq_ok _ _ _ h
  refine ⟨c, n, v, ts, ?_, dec_ok _ _ _ _ _ _ hn, dec_ok _ _ _ _ _ _ hv, hts, ?_⟩
  · cases cat with
    | none => exact dec_ok _ _ _ _ _ _ hc
    | some c' => simp at hc; exact hc.symm
  · injection h with h; exact h.symm

theorem decFetched_ok_inv (key kind : Nat) (cat name : Bytes) (r : Row) (e : Entry) (h : decFetched key kind cat name r = .ok e) :
    ∃ v ts, r.value = .valid key .value cat name v ∧ decTags key r.tags = .ok ts ∧ e = ⟨kind, cat, name, v, ts⟩ := by
  unfold decFetched at h
  obtain ⟨v, hv, h⟩ := bind_eq_ok _ _ _ h
  obtain ⟨ts, hts, h⟩ := bind_eq_ok _ _ _ h
  refine ⟨v, ts, dec_ok _ _ _ _ _ _ hv, hts, ?_⟩
  injection h with h; exact h.symm

/-! ### lifting a per-row guarantee to the reads -/

/-- the category predicate of `SCAN_QUERY` -/
def CatCond (key : Nat) (cat : Option Bytes) (r : Row) : Prop :=
  match cat with
  | none => True
  | some c => r.cat = encS key .category c

/-- what a session (pid, key) can get out of row `r`: only entries of `W` -/
def RowOK (W : List Entry) (pid key : Nat) (r : Row) : Prop :=
  r.pid = pid →
    (∀ cat e, CatCond key cat r → decRow key cat r = .ok e → e ∈ W) ∧
    (∀ kind cat name e, r.kind = kind → r.cat = encS key .category cat → r.name = encS key .name name →
      decFetched key kind cat name r = .ok e → e ∈ W)

theorem selects_true (pid key : Nat) (kind : Option Nat) (cat : Option Bytes) (r : Row) (h : selects pid key kind cat r = true) :
    r.pid = pid ∧ CatCond key cat r := by
  unfold selects at h
  simp only [Bool.and_eq_true, decide_eq_true_eq] at h
  refine ⟨h.1.1, ?_⟩
  cases cat with
  | none => trivial
  | some c => simpa [CatCond] using h.2

theorem decRows_mem (W : List Entry) (pid key : Nat) (cat : Option Bytes) :
    ∀ (l : List Row) (es : List Entry),
      (∀ r ∈ l, r.pid = pid ∧ CatCond key cat r ∧ RowOK W pid key r) →
      decRows key cat l = .ok es → ∀ e ∈ es, e ∈ W := by
  intro l
  induction l with
  | nil => intro es _ h; simp [decRows] at h; subst h; simp
  | cons r rs ih =>
    intro es hl h
    unfold decRows at h
    obtain ⟨e0, he0, h⟩ := bind_eq_ok _ _ _ h
    obtain ⟨es0, hes0, h⟩ := bind_eq_ok _ _ _ h
    injection h with h
    subst h
    have hr := hl r (by simp)
    intro e he
    cases he with
    | head => exact (hr.2.2 hr.1).1 cat _ hr.2.1 he0
    | tail _ hm => exact ih es0 (fun r' hr' => hl r' (by simp [hr'])) hes0 e hm

theorem scan_safe (W : List Entry) (db : Db) (pid key : Nat) (kind : Option Nat) (cat : Option Bytes) (es : List Entry)
    (hok : ∀ r ∈ db.items, RowOK W pid key r) (h : scan db pid key kind cat = .ok es) : ∀ e ∈ es, e ∈ W := by
  unfold scan at h
  apply decRows_mem W pid key cat _ es _ h
  intro r hr
  have hm := List.mem_filter.mp hr
  have hs := selects_true pid key kind cat r hm.2
  exact ⟨hs.1, hs.2, hok r hm.1⟩

theorem fetch_safe (W : List Entry) (db : Db) (pid key kind : Nat) (cat name : Bytes) (e : Entry)
    (hok : ∀ r ∈ db.items, RowOK W pid key r) (h : fetch db pid key kind cat name = .ok (some e)) : e ∈ W := by
  unfold fetch at h
  cases hf : db.items.find? (fetchSelects pid key kind cat name) with
  | none => simp [hf] at h
  | some r =>
    simp only [hf] at h
    obtain ⟨e0, he0, h⟩ := bind_eq_ok _ _ _ h
    have he : e0 = e := by injection h with h; injection h
    subst he
    have hmem := List.mem_of_find?_eq_some hf
    have hp := List.find?_some hf
    unfold fetchSelects at hp
    simp only [Bool.and_eq_true, decide_eq_true_eq] at hp
    exact ((hok r hmem) hp.1.1.1).2 kind cat name e0 hp.1.1.2 hp.1.2 hp.2 he0

/-! ### rows as written, and with one cell replaced -/

theorem decTag_encTag (key : Nat) (t : Tag) : decTag key (encTag key t) = .ok t := by
  obtain ⟨pl, n, v⟩ := t
  cases pl <;> simp [decTag, encTag, encS, dec]

theorem decTags_encTag (key : Nat) (ts : List Tag) : decTags key (ts.map (encTag key)) = .ok ts := by
  induction ts with
  | nil => rfl
  | cons t ts ih => simp [decTags, decTag_encTag, ih]

theorem decTag_setTag (key : Nat) (c : Col) (x : Ct) (i : Nat) (t t' : Tag)
    (hN : ∀ j, c = .tagName j → ∀ v, x ≠ .valid key .tagName [] [] v)
    (hV : ∀ j, c = .tagValue j → ∀ v, x ≠ .valid key .tagValue [] [] v)
    (h : decTag key (setTag c x i (encTag key t)) = .ok t') : t' = t := by
  have hgen : decTag key (encTag key t) = .ok t' → t' = t := by
    intro h'; rw [decTag_encTag] at h'; injection h' with h'; exact h'.symm
  cases c with
  | category => exact hgen h
  | name => exact hgen h
  | value => exact hgen h
  | tagName j =>
    simp only [setTag] at h
    by_cases hij : i = j
    · simp only [hij, if_true] at h
      unfold decTag at h
      obtain ⟨n, hn, _⟩ := bind_eq_ok _ _ _ h
      exact absurd (dec_ok _ _ _ _ _ _ hn) (hN j rfl n)
    · simp only [hij, if_false] at h; exact hgen h
  | tagValue j =>
    simp only [setTag] at h
    by_cases hij : i = j
    · simp only [hij, if_true] at h
      obtain ⟨pl, n, v⟩ := t
      cases pl with
      | true => simp only [encTag, if_true] at h; exact hgen (by simpa [encTag] using h)
      | false =>
        simp only [encTag] at h
        unfold decTag at h
        obtain ⟨n', _, h⟩ := bind_eq_ok _ _ _ h
        simp only [Bool.false_eq_true, if_false] at h
        obtain ⟨v', hv, _⟩ := bind_eq_ok _ _ _ h
        exact absurd (dec_ok _ _ _ _ _ _ hv) (hV j rfl v')
    · simp only [hij, if_false] at h; exact hgen h

theorem decTags_setTags (key : Nat) (c : Col) (x : Ct)
    (hN : ∀ j, c = .tagName j → ∀ v, x ≠ .valid key .tagName [] [] v)
    (hV : ∀ j, c = .tagValue j → ∀ v, x ≠ .valid key .tagValue [] [] v) :
    ∀ (ts : List Tag) (i : Nat) (out : List Tag), decTags key (setTags c x i (ts.map (encTag key))) = .ok out → out = ts := by
  intro ts
  induction ts with
  | nil => intro i out h; simp [setTags, decTags] at h; exact h
  | cons t ts ih =>
    intro i out h
    simp only [List.map_cons, setTags] at h
    unfold decTags at h
    obtain ⟨t', ht', h⟩ := bind_eq_ok _ _ _ h
    obtain ⟨ts', hts', h⟩ := bind_eq_ok _ _ _ h
    injection h with h
    subst h
    rw [decTag_setTag key c x i t t' hN hV ht', ih (i + 1) ts' hts']

/-- a row as written, read by ANY session (its own key or another): only its own record comes out -/
theorem genuine_rowOK (W : List Entry) (pid key' q : Nat) (rec : RecSpec)
    (hW : pid = q + 1 → key' = q + 1 → rec.entry ∈ W) : RowOK W pid key' (encRow (q + 1) (q + 1) rec) := by
  intro hp
  have hp' : pid = q + 1 := hp.symm
  constructor
  · intro cat e _ h
    obtain ⟨c, n, v, ts, _, h2, h3, h4, h5⟩ := decRow_ok_inv _ _ _ _ h
    simp only [encRow, encS] at h2 h3 h4
    injection h2 with k1 _ _ _ k2
    injection h3 with _ _ k3 k4 k5
    subst k1
    rw [decTags_encTag] at h4
    injection h4 with h4
    subst k2 k3 k5 h4 h5
    exact hW hp' rfl
  · intro kind cat name e hk _ _ h
    obtain ⟨v, ts, h3, h4, h5⟩ := decFetched_ok_inv _ _ _ _ _ _ h
    simp only [encRow] at h3 h4 hk
    injection h3 with k1 _ k3 k4 k5
    subst k1
    rw [decTags_encTag] at h4
    injection h4 with h4
    subst k3 k4 k5 h4 h5 hk
    exact hW hp' rfl

/-- the row with one admissible replacement, read by the session of its own profile: its own record or nothing -/
theorem tampered_rowOK (W : List Entry) (q : Nat) (rec : RecSpec) (c : Col) (x : Ct)
    (hx : Admissible (q + 1) rec c x) (hW : rec.entry ∈ W) :
    RowOK W (q + 1) (q + 1) ((encRow (q + 1) (q + 1) rec).set c x) := by
  intro _
  have htags : ∀ out, decTags (q + 1) ((encRow (q + 1) (q + 1) rec).set c x).tags = .ok out → out = rec.tags := by
    intro out h
    cases c with
    | category => simp only [Row.set, encRow] at h; rw [decTags_encTag] at h; injection h with h; exact h.symm
    | name => simp only [Row.set, encRow] at h; rw [decTags_encTag] at h; injection h with h; exact h.symm
    | value => simp only [Row.set, encRow] at h; rw [decTags_encTag] at h; injection h with h; exact h.symm
    | tagName j =>
      simp only [Row.set, encRow] at h
      exact decTags_setTags (q + 1) (.tagName j) x (fun j' hj v => by injection hj with hj; subst hj; exact hx v)
        (fun j' hj => by injection hj) rec.tags 0 out h
    | tagValue j =>
      simp only [Row.set, encRow] at h
      exact decTags_setTags (q + 1) (.tagValue j) x (fun j' hj => by injection hj)
        (fun j' hj v => by injection hj with hj; subst hj; exact hx v) rec.tags 0 out h
  have hkind : ((encRow (q + 1) (q + 1) rec).set c x).kind = rec.kind := by cases c <;> rfl
  -- the value cell, read with the binding (cat, name), gives the record's value provided the binding is the record's
  -- identity or the cell is the original one
  constructor
  · intro cat e hc h
    obtain ⟨c0, n, v, ts, h1, h2, h3, h4, h5⟩ := decRow_ok_inv _ _ _ _ h
    have ht := htags ts h4
    rw [hkind] at h5
    suffices hs : c0 = rec.cat ∧ n = rec.name ∧ v = rec.value by
      obtain ⟨a, b, d⟩ := hs; subst a b d ht h5; exact hW
    cases c with
    | category =>
      simp only [Row.set, encRow, encS] at h2 h3
      injection h2 with _ _ _ _ k2
      injection h3 with _ _ k3 k4 k5
      exact ⟨k3.symm, k2.symm, k5.symm⟩
    | name =>
      simp only [Row.set, encRow, encS] at h3
      injection h3 with _ _ k3 k4 k5
      exact ⟨k3.symm, k4.symm, k5.symm⟩
    | value =>
      simp only [Row.set, encRow, encS] at h1 h2 h3
      injection h2 with _ _ _ _ k2
      have hc0 : c0 = rec.cat := by
        cases cat with
        | none => simp only at h1; injection h1 with _ _ _ _ k1; exact k1.symm
        | some c' =>
          simp only at h1
          simp only [CatCond, Row.set, encRow, encS] at hc
          injection hc with _ _ _ _ k1
          rw [h1]; exact k1.symm
      subst hc0 k2
      exact ⟨rfl, rfl, hx v h3⟩
    | tagName j =>
      simp only [Row.set, encRow, encS] at h3
      injection h3 with _ _ k3 k4 k5
      exact ⟨k3.symm, k4.symm, k5.symm⟩
    | tagValue j =>
      simp only [Row.set, encRow, encS] at h3
      injection h3 with _ _ k3 k4 k5
      exact ⟨k3.symm, k4.symm, k5.symm⟩
  · intro kind cat name e hk hcat hname h
    obtain ⟨v, ts, h3, h4, h5⟩ := decFetched_ok_inv _ _ _ _ _ _ h
    have ht := htags ts h4
    rw [hkind] at hk
    suffices hs : cat = rec.cat ∧ name = rec.name ∧ v = rec.value by
      obtain ⟨a, b, d⟩ := hs; subst a b d ht h5 hk; exact hW
    cases c with
    | category =>
      simp only [Row.set, encRow, encS] at h3
      injection h3 with _ _ k3 k4 k5
      exact ⟨k3.symm, k4.symm, k5.symm⟩
    | name =>
      simp only [Row.set, encRow, encS] at h3
      injection h3 with _ _ k3 k4 k5
      exact ⟨k3.symm, k4.symm, k5.symm⟩
    | value =>
      simp only [Row.set, encRow, encS] at hcat hname h3
      injection hcat with _ _ _ _ k1
      injection hname with _ _ _ _ k2
      subst k1 k2
      exact ⟨rfl, rfl, hx v h3⟩
    | tagName j =>
      simp only [Row.set, encRow, encS] at h3
      injection h3 with _ _ k3 k4 k5
      exact ⟨k3.symm, k4.symm, k5.symm⟩
    | tagValue j =>
      simp only [Row.set, encRow, encS] at h3
      injection h3 with _ _ k3 k4 k5
      exact ⟨k3.symm, k4.symm, k5.symm⟩

/-! ### the shape of the written store -/

theorem mem_itemRows : ∀ (ps : List ProfSpec) (off : Nat) (r : Row), r ∈ itemRows off ps →
    ∃ q p rec, ps[q]? = some p ∧ rec ∈ p.recs ∧ r = encRow (off + q + 1) (off + q + 1) rec := by
  intro ps
  induction ps with
  | nil => intro off r h; simp [itemRows] at h
  | cons p ps ih =>
    intro off r h
    simp only [itemRows, List.mem_append, List.mem_map] at h
    cases h with
    | inl h =>
      obtain ⟨rec, hrec, hr⟩ := h
      exact ⟨0, p, rec, rfl, hrec, hr.symm⟩
    | inr h =>
      obtain ⟨q, p', rec, h1, h2, h3⟩ := ih (off + 1) r h
      refine ⟨q + 1, p', rec, by simpa using h1, h2, ?_⟩
      rw [h3]; congr 1 <;> omega

theorem mem_setNth (c : Col) (x : Ct) : ∀ (l : List Row) (i : Nat) (r' : Row), r' ∈ setNth c x i l →
    r' ∈ l ∨ ∃ r, l[i]? = some r ∧ r' = r.set c x := by
  intro l
  induction l with
  | nil => intro i r' h; simp [setNth] at h
  | cons r rs ih =>
    intro i r' h
    cases i with
    | zero =>
      simp only [setNth, List.mem_cons] at h
      cases h with
      | inl h => exact Or.inr ⟨r, rfl, h⟩
      | inr h => exact Or.inl (by simp [h])
    | succ i =>
      simp only [setNth, List.mem_cons] at h
      cases h with
      | inl h => exact Or.inl (by simp [h])
      | inr h =>
        cases ih i r' h with
        | inl h => exact Or.inl (by simp [h])
        | inr h => obtain ⟨r0, h1, h2⟩ := h; exact Or.inr ⟨r0, by simpa using h1, h2⟩

/-- looking a profile up by name in the written `profiles` table, one of whose keys may have been replaced by `w` -/
theorem find_profile (sk : Nat) (w : Wrapped) (profile : String) : ∀ (ps : List ProfSpec) (off i : Nat) (pr : ProfileRow),
    (setKeyNth w i (profileRows sk off ps)).find? (fun p => p.name = profile) = some pr →
    ∃ k p, ps[k]? = some p ∧ p.name = profile ∧ pr.pid = off + k + 1 ∧ (pr.key = .valid sk (off + k + 1) ∨ pr.key = w) := by
  intro ps
  induction ps with
  | nil => intro off i pr h; simp [profileRows, setKeyNth] at h
  | cons p ps ih =>
    intro off i pr h
    cases i with
    | zero =>
      simp only [profileRows, setKeyNth, List.find?_cons] at h
      by_cases hn : p.name = profile
      · simp only [hn, decide_true] at h
        injection h with h
        exact ⟨0, p, rfl, hn, by rw [← h], Or.inr (by rw [← h])⟩
      · simp only [hn, decide_false] at h
        -- the rest of the list is unmodified: it is `setKeyNth` beyond its end
        have : ∀ (l : List ProfileRow), setKeyNth w l.length l = l := by
          intro l; induction l with
          | nil => rfl
          | cons a l ihl => simp [setKeyNth, ihl]
        rw [← this (profileRows sk (off + 1) ps)] at h
        obtain ⟨k, p', h1, h2, h3, h4⟩ := ih (off + 1) _ pr h
        exact ⟨k + 1, p', by simpa using h1, h2, by omega, by
          cases h4 with
          | inl h4 => exact Or.inl (by rw [h4]; congr 1; omega)
          | inr h4 => exact Or.inr h4⟩
    | succ i =>
      simp only [profileRows, setKeyNth, List.find?_cons] at h
      by_cases hn : p.name = profile
      · simp only [hn, decide_true] at h
        injection h with h
        exact ⟨0, p, rfl, hn, by rw [← h], Or.inl (by rw [← h])⟩
      · simp only [hn, decide_false] at h
        obtain ⟨k, p', h1, h2, h3, h4⟩ := ih (off + 1) i pr h
        exact ⟨k + 1, p', by simpa using h1, h2, by omega, by
          cases h4 with
          | inl h4 => exact Or.inl (by rw [h4]; congr 1; omega)
          | inr h4 => exact Or.inr h4⟩

theorem setKeyNth_beyond (w : Wrapped) : ∀ (l : List ProfileRow), setKeyNth w l.length l = l := by
  intro l; induction l with
  | nil => rfl
  | cons a l ihl => simp [setKeyNth, ihl]

/-! ### the tamper theorem -/

theorem encTag_inj (key : Nat) (t t' : Tag) (h : encTag key t = encTag key t') : t = t' := by
  obtain ⟨pl, n, v⟩ := t
  obtain ⟨pl', n', v'⟩ := t'
  cases pl <;> cases pl' <;> simp [encTag, encS] at h ⊢ <;> exact h

theorem map_encTag_inj (key : Nat) : ∀ (ts ts' : List Tag), ts.map (encTag key) = ts'.map (encTag key) → ts = ts' := by
  intro ts
  induction ts with
  | nil => intro ts' h; cases ts' with
    | nil => rfl
    | cons a l => simp at h
  | cons t ts ih =>
    intro ts' h
    cases ts' with
    | nil => simp at h
    | cons t' ts' =>
      simp only [List.map_cons, List.cons.injEq] at h
      rw [encTag_inj key t t' h.1, ih ts' h.2]

theorem encRow_inj (pid key pid' key' : Nat) (rec rec' : RecSpec) (h : encRow pid key rec = encRow pid' key' rec') :
    pid = pid' ∧ key = key' ∧ rec = rec' := by
  obtain ⟨k, c, n, v, ts⟩ := rec
  obtain ⟨k', c', n', v', ts'⟩ := rec'
  simp only [encRow, encS, Row.mk.injEq, Ct.valid.injEq] at h
  obtain ⟨h1, h2, h3, h4, h5, h6⟩ := h
  have hk : key = key' := h3.1
  subst hk
  refine ⟨h1, rfl, ?_⟩
  rw [h2, h3.2.2.2.2, h4.2.2.2.2, h5.2.2.2.2, map_encTag_inj key ts ts' h6]

theorem set_pid (r : Row) (c : Col) (x : Ct) : (r.set c x).pid = r.pid := by cases c <;> rfl

theorem readAs_safe (ps : List ProfSpec) (profile : String) (db : Db) (pid key : Nat) (W : List Entry)
    (hW : ∀ e ∈ W, Written ps profile e) (hok : ∀ r ∈ db.items, RowOK W pid key r) (r : Read) (a : Answer)
    (h : readAs db pid key r = .ok a) : AnswerSafe ps profile a := by
  cases r with
  | fetch k c n =>
    unfold readAs at h
    obtain ⟨eo, he, h⟩ := bind_eq_ok _ _ _ h
    injection h with h; subst h
    cases eo with
    | none => trivial
    | some e => exact hW e (fetch_safe W db pid key k c n e hok he)
  | scan k c =>
    unfold readAs at h
    obtain ⟨es, he, h⟩ := bind_eq_ok _ _ _ h
    injection h with h; subst h
    intro e hm
    exact hW e (scan_safe W db pid key k c es hok he e hm)
  | count k c =>
    unfold readAs at h
    injection h with h; subst h; trivial

/-- rows of the written store are `RowOK` for a session on the k-th profile, whatever its key -/
theorem store_rowOK (ps : List ProfSpec) (k key : Nat) (p : ProfSpec) (hp : ps[k]? = some p) :
    ∀ r ∈ itemRows 0 ps, RowOK (p.recs.map RecSpec.entry) (k + 1) key r := by
  intro r hr
  obtain ⟨q, p', rec, h1, h2, h3⟩ := mem_itemRows ps 0 r hr
  simp only [Nat.zero_add] at h3
  subst h3
  apply genuine_rowOK
  intro hk _
  have : k = q := by omega
  subst this
  rw [hp] at h1
  injection h1 with h1
  subst h1
  exact List.mem_map.mpr ⟨rec, h2, rfl⟩

/-- what key resolution can give when at most one `profile_key` was replaced (by `w`) -/
theorem resolve_cases (chk : Bool) (sk : Nat) (ps : List ProfSpec) (items : List Row) (i : Nat) (w : Wrapped) (profile : String) :
    match resolveWith chk ⟨setKeyNth w i (profileRows sk 0 ps), items⟩ sk profile with
    | .ok (pid, key) => ∃ k p, ps[k]? = some p ∧ p.name = profile ∧ pid = k + 1 ∧ (key = k + 1 ∨ w = .valid sk key)
    | .err _ => True
    | .panic => chk = false ∧ ∃ len, len < 12 ∧ w = .garbage len := by
  unfold resolveWith
  cases hf : (setKeyNth w i (profileRows sk 0 ps)).find? (fun p => p.name = profile) with
  | none => simp
  | some pr =>
    obtain ⟨k, p, h1, h2, h3, h4⟩ := find_profile sk w profile ps 0 i pr hf
    simp only [Nat.zero_add] at h3 h4
    simp only
    cases h4 with
    | inl h4 =>
      simp only [h4, unwrapWith, if_true]
      exact ⟨k, p, h1, h2, h3, Or.inl rfl⟩
    | inr h4 =>
      rw [h4]
      cases w with
      | valid sk' pk =>
        simp only [unwrapWith]
        by_cases hs : sk' = sk
        · subst hs
          simp only [if_true]
          exact ⟨k, p, h1, h2, h3, Or.inr (by simp)⟩
        · simp [hs]
      | garbage len =>
        simp only [unwrapWith]
        by_cases hl : len < 12
        · cases chk with
          | true => simp [hl]
          | false => simp only [hl, if_true]; exact ⟨by simp, len, hl, rfl⟩
        · simp [hl]

theorem read_of_tampered_row (chk : Bool) (sk : Nat) (ps : List ProfSpec) (db : Db) (ht : Tampered sk ps db)
    (profile : String) (r : Read) :
    match readWith chk db sk profile r with
    | .ok a => AnswerSafe ps profile a
    | .err _ => True
    | .panic => chk = false ∧ ∃ i len, len < 12 ∧ db = tamperProfile (store sk ps) i (.garbage len) := by
  -- every case is "profiles = written profiles with at most one key replaced by w; items with at most one admissible cell replaced"
  have key_lemma : ∀ (items : List Row) (i : Nat) (w : Wrapped),
      (∀ k p, ps[k]? = some p → ∀ key, (key = k + 1 ∨ w = .valid sk key) →
        ∀ r ∈ items, RowOK (p.recs.map RecSpec.entry) (k + 1) key r) →
      match readWith chk ⟨setKeyNth w i (profileRows sk 0 ps), items⟩ sk profile r with
      | .ok a => AnswerSafe ps profile a
      | .err _ => True
      | .panic => chk = false ∧ ∃ len, len < 12 ∧ w = .garbage len := by
    intro items i w hrows
    unfold readWith
    have hres := resolve_cases chk sk ps items i w profile
    cases hr : resolveWith chk ⟨setKeyNth w i (profileRows sk 0 ps), items⟩ sk profile with
    | err e => simp
    | panic => simp only [hr] at hres; simpa using hres
    | ok pk =>
      obtain ⟨pid, key⟩ := pk
      simp only [hr] at hres
      obtain ⟨k, p, h1, h2, h3, h4⟩ := hres
      subst h3
      simp only [bind_ok]
      cases ha : readAs ⟨setKeyNth w i (profileRows sk 0 ps), items⟩ (k + 1) key r with
      | panic => exact absurd ha (readAs_ne_panic _ _ _ _)
      | err e => trivial
      | ok a =>
        simp only
        apply readAs_safe ps profile _ (k + 1) key (p.recs.map RecSpec.entry) _ (hrows k p h1 key h4) r a ha
        intro e he
        exact ⟨p, List.mem_of_getElem? h1, h2, he⟩
  cases ht with
  | intact =>
    have := key_lemma (itemRows 0 ps) (profileRows sk 0 ps).length (.valid (sk + 1) 0)
      (fun k p hp key _ => store_rowOK ps k key p hp)
    rw [setKeyNth_beyond] at this
    change match readWith chk (store sk ps) sk profile r with
      | .ok a => AnswerSafe ps profile a | .err _ => True | .panic => _ at this
    cases hh : readWith chk (store sk ps) sk profile r with
    | ok a => simp only [hh] at this; exact this
    | err e => trivial
    | panic => simp only [hh] at this; obtain ⟨_, len, _, hl⟩ := this; cases hl
  | item i c x q rec hrow hx =>
    have := key_lemma (setNth c x i (itemRows 0 ps)) (profileRows sk 0 ps).length (.valid (sk + 1) 0) (by
      intro k p hp key hkey r' hr'
      have hkey' : key = k + 1 := by
        cases hkey with
        | inl h => exact h
        | inr h => injection h with h _; omega
      subst hkey'
      cases mem_setNth c x _ i r' hr' with
      | inl h => exact store_rowOK ps k (k + 1) p hp r' h
      | inr h =>
        obtain ⟨r0, h1, h2⟩ := h
        have hrow' : (itemRows 0 ps)[i]? = some (encRow (q + 1) (q + 1) rec) := hrow
        rw [hrow'] at h1
        injection h1 with h1
        subst h1 h2
        by_cases hkq : k = q
        · subst hkq
          apply tampered_rowOK _ k rec c x hx
          obtain ⟨q', p', rec', g1, g2, g3⟩ := mem_itemRows ps 0 _ (List.mem_of_getElem? hrow')
          simp only [Nat.zero_add] at g3
          obtain ⟨e1, _, e3⟩ := encRow_inj _ _ _ _ _ _ g3
          have : k = q' := by omega
          subst this e3
          rw [hp] at g1
          injection g1 with g1
          subst g1
          exact List.mem_map.mpr ⟨rec, g2, rfl⟩
        · intro hpid
          rw [set_pid] at hpid
          simp only [encRow] at hpid
          omega)
    rw [setKeyNth_beyond] at this
    change match readWith chk (tamperItem (store sk ps) i c x) sk profile r with
      | .ok a => AnswerSafe ps profile a | .err _ => True | .panic => _ at this
    cases hh : readWith chk (tamperItem (store sk ps) i c x) sk profile r with
    | ok a => simp only [hh] at this; exact this
    | err e => trivial
    | panic => simp only [hh] at this; obtain ⟨_, len, _, hl⟩ := this; cases hl
  | profile i w =>
    have := key_lemma (itemRows 0 ps) i w (fun k p hp key _ => store_rowOK ps k key p hp)
    change match readWith chk (tamperProfile (store sk ps) i w) sk profile r with
      | .ok a => AnswerSafe ps profile a | .err _ => True | .panic => _ at this
    cases hh : readWith chk (tamperProfile (store sk ps) i w) sk profile r with
    | ok a => simp only [hh] at this; exact this
    | err e => trivial
    | panic =>
      simp only [hh] at this
      obtain ⟨hc, len, hlen, hl⟩ := this
      subst hl
      exact ⟨hc, i, len, hlen, rfl⟩

/-! ### opening with a wrong key -/

theorem profileRows_keys (sk : Nat) : ∀ (ps : List ProfSpec) (off : Nat) (pr : ProfileRow), pr ∈ profileRows sk off ps →
    ∃ k, pr.key = .valid sk k := by
  intro ps
  induction ps with
  | nil => intro off pr h; simp [profileRows] at h
  | cons p ps ih =>
    intro off pr h
    simp only [profileRows, List.mem_cons] at h
    cases h with
    | inl h => exact ⟨off + 1, by rw [h]⟩
    | inr h => exact ih (off + 1) pr h

/-- opening the written store with anything but its own well-formed key fails with an error (no handle, no panic) -/
theorem wrong_key_open_fails (chk : Bool) (sk : Nat) (ps : List ProfSpec) (method : Option Method) (pass : Pass) (profile : String)
    (h : pass ≠ .key sk) : ∃ e, openWith chk (store sk ps) method pass profile = .err e := by
  unfold openWith
  split
  · exact ⟨_, rfl⟩
  · cases pass with
    | empty => exact ⟨_, rfl⟩
    | malformed => exact ⟨_, rfl⟩
    | wrongLength => exact ⟨_, rfl⟩
    | key sk' =>
      have hne : sk ≠ sk' := fun e => h (by rw [e])
      simp only
      unfold resolveWith
      cases hf : (store sk ps).profiles.find? (fun p => p.name = profile) with
      | none => exact ⟨_, rfl⟩
      | some pr =>
        obtain ⟨k, hk⟩ := profileRows_keys sk ps 0 pr (List.mem_of_find?_eq_some hf)
        simp only [hk, unwrapWith, hne, if_false]
        exact ⟨_, rfl⟩

/-- a wrong method is refused before any key is looked at -/
theorem wrong_method_open_fails (chk : Bool) (db : Db) (method : Method) (pass : Pass) (profile : String) (h : method ≠ .raw) :
    openWith chk db (some method) pass profile = .err .Input := by
  unfold openWith
  have : (some method ≠ none ∧ some method ≠ some Method.raw) := ⟨by simp, by simpa using h⟩
  simp [this]

end Askar.Tamper.Lemmas
