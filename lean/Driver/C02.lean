/- Driver for `kind = "c02"` (and `"c02:…"`) cases. -/
import Driver.Common

open Lean

namespace Driver.C02

def runCase (_j : Json) : Json := jerr "not implemented"

end Driver.C02
