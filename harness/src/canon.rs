//! Canonical JSON forms shared with the Lean driver.
use askar_storage::entry::{Entry, EntryKind, EntryTag, TagFilter};
use askar_storage::{Error, ErrorKind};
use serde_json::{json, Value};

pub fn err_name(k: ErrorKind) -> &'static str {
    match k {
        ErrorKind::Backend => "Backend",
        ErrorKind::Busy => "Busy",
        ErrorKind::Custom => "Custom",
        ErrorKind::Duplicate => "Duplicate",
        ErrorKind::Encryption => "Encryption",
        ErrorKind::Input => "Input",
        ErrorKind::NotFound => "NotFound",
        ErrorKind::Unexpected => "Unexpected",
        ErrorKind::Unsupported => "Unsupported",
    }
}

pub fn jerr(e: &Error) -> Value {
    json!({ "err": err_name(e.kind()) })
}

/// values longer than 512 bytes are compared by length and FNV-1a-64 digest
pub fn jvalue(v: &[u8]) -> Value {
    if v.len() <= 512 { return json!(hex::encode(v)); }
    let mut h: u64 = 0xcbf29ce484222325;
    for b in v { h ^= *b as u64; h = h.wrapping_mul(0x100000001b3); }
    json!(format!("len:{}:fnv:{:016x}", v.len(), h))
}

/// value spec of the line protocol: hex string, or {"fill": byte, "len": n, "salt": k} = bytes (fill + i*salt) mod 256
pub fn value_from_json(v: &Value) -> Vec<u8> {
    if let Some(s) = v.as_str() { return hex::decode(s).unwrap_or_default(); }
    let fill = v["fill"].as_u64().unwrap_or(0);
    let salt = v["salt"].as_u64().unwrap_or(0);
    let len = v["len"].as_u64().unwrap_or(0);
    (0..len).map(|i| ((fill + i * salt) % 256) as u8).collect()
}

pub fn kind_of(k: i64) -> EntryKind {
    if k == 1 { EntryKind::Kms } else { EntryKind::Item }
}

pub fn kind_num(k: EntryKind) -> i64 {
    match k { EntryKind::Kms => 1, EntryKind::Item => 2 }
}

#[derive(Clone, Debug, PartialEq, Eq, PartialOrd, Ord, Hash)]
pub struct Tag {
    pub plain: bool,
    pub name: String,
    pub value: String,
}

impl Tag {
    pub fn to_entry_tag(&self) -> EntryTag {
        if self.plain { EntryTag::Plaintext(self.name.clone(), self.value.clone()) }
        else { EntryTag::Encrypted(self.name.clone(), self.value.clone()) }
    }
    pub fn from_entry_tag(t: &EntryTag) -> Tag {
        match t {
            EntryTag::Encrypted(n, v) => Tag { plain: false, name: n.clone(), value: v.clone() },
            EntryTag::Plaintext(n, v) => Tag { plain: true, name: n.clone(), value: v.clone() },
        }
    }
    pub fn to_json(&self) -> Value {
        json!([if self.plain { 1 } else { 0 }, self.name, self.value])
    }
    pub fn from_json(v: &Value) -> Tag {
        Tag {
            plain: v[0].as_i64().unwrap_or(0) != 0,
            name: v[1].as_str().unwrap_or("").to_string(),
            value: v[2].as_str().unwrap_or("").to_string(),
        }
    }
}

pub fn tags_from_json(v: &Value) -> Option<Vec<Tag>> {
    v.as_array().map(|a| a.iter().map(Tag::from_json).collect())
}

/// canonical tag order: (plain, name bytes, value bytes) — derived Ord on (bool, String, String)
pub fn sorted_tags(tags: &[Tag]) -> Vec<Tag> {
    let mut t = tags.to_vec();
    t.sort();
    t
}

#[derive(Clone, Debug, PartialEq, Eq)]
pub struct Rec {
    pub kind: i64,
    pub cat: String,
    pub name: String,
    pub value: Vec<u8>,
    pub tags: Vec<Tag>,
}

impl Rec {
    pub fn from_entry(e: &Entry) -> Rec {
        Rec {
            kind: kind_num(e.kind),
            cat: e.category.clone(),
            name: e.name.clone(),
            value: e.value.as_ref().to_vec(),
            tags: e.tags.iter().map(Tag::from_entry_tag).collect(),
        }
    }
    pub fn to_json(&self) -> Value {
        json!({"k": self.kind, "c": self.cat, "n": self.name, "v": jvalue(&self.value),
               "t": sorted_tags(&self.tags).iter().map(Tag::to_json).collect::<Vec<_>>()})
    }
    pub fn sort_key(&self) -> (i64, Vec<u8>, Vec<u8>) {
        (self.kind, self.cat.as_bytes().to_vec(), self.name.as_bytes().to_vec())
    }
}

pub fn recs_json(ordered: bool, recs: &[Rec]) -> Value {
    let mut r = recs.to_vec();
    if !ordered {
        r.sort_by_key(|x| x.sort_key());
    }
    Value::Array(r.iter().map(Rec::to_json).collect())
}

/// Filter AST of the line protocol -> TagFilter through the public builder API.
pub fn filter_from_json(v: &Value) -> Option<TagFilter> {
    let obj = v.as_object()?;
    let (k, x) = obj.iter().next()?;
    let s = |v: &Value| v.as_str().unwrap_or("").to_string();
    Some(match k.as_str() {
        "and" => TagFilter::all_of(x.as_array()?.iter().filter_map(filter_from_json).collect()),
        "or" => TagFilter::any_of(x.as_array()?.iter().filter_map(filter_from_json).collect()),
        "not" => TagFilter::negate(filter_from_json(x)?),
        "eq" => TagFilter::is_eq(s(&x[0]), s(&x[1])),
        "neq" => TagFilter::is_not_eq(s(&x[0]), s(&x[1])),
        "gt" => TagFilter::is_gt(s(&x[0]), s(&x[1])),
        "gte" => TagFilter::is_gte(s(&x[0]), s(&x[1])),
        "lt" => TagFilter::is_lt(s(&x[0]), s(&x[1])),
        "lte" => TagFilter::is_lte(s(&x[0]), s(&x[1])),
        "like" => TagFilter::is_like(s(&x[0]), s(&x[1])),
        "in" => TagFilter::is_in(s(&x[0]), x[1].as_array()?.iter().map(s).collect()),
        "exist" => TagFilter::exist(x.as_array()?.iter().map(s).collect()),
        _ => return None,
    })
}

/// Reference semantics of a filter (the property text), written independently of both the
/// library and the Lean model: polarity-passing Boolean evaluation over the record's tags.
pub fn ref_holds(f: &Value, tags: &[Tag], neg: bool) -> bool {
    let obj = match f.as_object() { Some(o) => o, None => return !neg };
    let (k, x) = match obj.iter().next() { Some(p) => p, None => return !neg };
    let name_of = |v: &Value| -> (bool, String) {
        let s = v.as_str().unwrap_or("");
        match s.strip_prefix('~') { Some(p) => (true, p.to_string()), None => (false, s.to_string()) }
    };
    let atom = |pred: &dyn Fn(&str) -> bool, nm: &Value| -> bool {
        let (plain, name) = name_of(nm);
        tags.iter().any(|t| t.plain == plain && t.name == name && pred(&t.value))
    };
    match k.as_str() {
        "and" => {
            let qs = x.as_array().cloned().unwrap_or_default();
            if neg { qs.iter().any(|q| ref_holds(q, tags, true)) } else { qs.iter().all(|q| ref_holds(q, tags, false)) }
        }
        "or" => {
            let qs = x.as_array().cloned().unwrap_or_default();
            if neg { qs.iter().all(|q| ref_holds(q, tags, true)) } else { qs.iter().any(|q| ref_holds(q, tags, false)) }
        }
        "not" => ref_holds(x, tags, !neg),
        "exist" => x.as_array().cloned().unwrap_or_default().iter().all(|n| neg != atom(&|_| true, n)),
        "in" => {
            let vs: Vec<String> = x[1].as_array().cloned().unwrap_or_default().iter().map(|v| v.as_str().unwrap_or("").to_string()).collect();
            neg != atom(&|tv| vs.iter().any(|v| v == tv), &x[0])
        }
        op => {
            let target = x[1].as_str().unwrap_or("").to_string();
            let t = target.as_bytes();
            let r = match op {
                "eq" => atom(&|tv| tv.as_bytes() == t, &x[0]),
                "neq" => atom(&|tv| tv.as_bytes() != t, &x[0]),
                "gt" => atom(&|tv| tv.as_bytes() > t, &x[0]),
                "gte" => atom(&|tv| tv.as_bytes() >= t, &x[0]),
                "lt" => atom(&|tv| tv.as_bytes() < t, &x[0]),
                "lte" => atom(&|tv| tv.as_bytes() <= t, &x[0]),
                "like" => atom(&|tv| sqlite_like(&target, tv), &x[0]),
                _ => false,
            };
            neg != r
        }
    }
}

/// SQLite LIKE (default configuration) on text that ends at the first NUL: `%`, `_`, ASCII case folding.
pub fn sqlite_like(pattern: &str, value: &str) -> bool {
    fn cut(s: &str) -> Vec<char> { s.chars().take_while(|c| *c != '\0').collect() }
    fn go(p: &[char], s: &[char]) -> bool {
        match p.first() {
            None => s.is_empty(),
            Some('%') => {
                if go(&p[1..], s) { return true; }
                if s.is_empty() { false } else { go(p, &s[1..]) }
            }
            Some('_') => !s.is_empty() && go(&p[1..], &s[1..]),
            Some(c) => !s.is_empty() && c.to_ascii_lowercase() == s[0].to_ascii_lowercase() && go(&p[1..], &s[1..]),
        }
    }
    go(&cut(pattern), &cut(value))
}
