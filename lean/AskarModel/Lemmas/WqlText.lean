/- Helper lemmas for Props/C04S.lean: the character-level `replaceArgs` against the token-level account. -/
import AskarModel.Model.WqlText
import AskarModel.Lemmas.Wql

namespace Askar.Wql.Lemmas

/-! ### strings ↔ character lists -/

theorem natChars (n : Nat) : (toString n).toList = Nat.toDigits 10 n := by
  simp

theorem tokStr_toList (t : Tok) : t.str.toList = t.chars := by
  cases t with
  | text s => rfl
  | ph p => cases p <;> simp [Tok.str, Tok.chars, String.toList_append]

theorem toksString_toList (ts : List Tok) : (toksString ts).toList = toksChars ts := by
  simp only [toksString, String.toList_join, toksChars, List.flatMap_map]
  congr 1
  funext t
  exact tokStr_toList t

theorem finalString_toList (xs : List (String ⊕ Nat)) : (finalString xs).toList = finalChars xs := by
  simp only [finalString, String.toList_join, finalChars, List.flatMap_map]
  congr 1
  funext x
  cases x <;> simp [finalPiece, String.toList_append]

/-! ### digits -/

theorem digit_ne_dollar {c : Char} (h : c.isDigit = true) : c ≠ '$' := by
  intro hc
  subst hc
  exact absurd h (by decide)

theorem toDigits_all_digit (n : Nat) : ∀ c ∈ Nat.toDigits 10 n, c.isDigit = true :=
  fun _ hc => Nat.isDigit_of_mem_toDigits (by decide) (by decide) hc

theorem toDigits_cons (n : Nat) : ∃ d ds, Nat.toDigits 10 n = d :: ds := by
  cases h : Nat.toDigits 10 n with
  | nil => exact absurd h Nat.toDigits_ne_nil
  | cons d ds => exact ⟨d, ds, rfl⟩

/-! ### the automaton on the three kinds of token -/

section Go
variable (start : Int)

/-- text without `$` is copied -/
theorem go_text (index : Int) (s rest : List Char) (h : s.contains '$' = false) :
    replaceGo start index .text (s ++ rest) = (replaceGo start index .text rest).map (s ++ ·) := by
  induction s with
  | nil => simp
  | cons c s ih =>
    have hc : c ≠ '$' := by
      intro hc; subst hc; simp at h
    have hs : s.contains '$' = false := by
      simp only [List.contains_cons, Bool.or_eq_false_iff] at h
      exact h.2
    simp only [List.cons_append, replaceGo, hc, if_false, ih hs, Option.map_map]
    rfl

/-- `$$` -/
theorem go_dd (index : Int) (rest : List Char) :
    replaceGo start index .text ('$' :: '$' :: rest)
      = (chk (index + 1)).bind fun i' => (replaceGo start i' .text rest).map (placeholderChars index ++ ·) := by
  simp [replaceGo]

/-- inside a digit run: the remaining digits are consumed -/
theorem go_digits (index : Int) (ds more rest : List Char) (hmore : ∀ c ∈ more, c.isDigit = true)
    :
    replaceGo start index (.digits ds) (more ++ rest) = replaceGo start index (.digits (ds ++ more)) rest := by
  induction more generalizing ds with
  | nil => simp
  | cons c more ih =>
    have hc : c.isDigit = true := hmore c (by simp)
    simp only [List.cons_append, replaceGo, hc, if_true]
    rw [ih (ds ++ [c]) (fun c' hc' => hmore c' (by simp [hc']))]
    simp

/-- the end of a digit run -/
theorem go_digits_end (index : Int) (ds rest : List Char) (hrest : startsDigit rest = false) :
    replaceGo start index (.digits ds) rest
      = (subIndex start ds).bind fun k => (chk (index + 1)).bind fun i' =>
          (replaceGo start i' .text rest).map (placeholderChars k ++ ·) := by
  cases rest with
  | nil =>
    simp only [replaceGo]
    cases subIndex start ds <;> cases chk (index + 1) <;> simp
  | cons c cs =>
    have hc : c.isDigit = false := by simpa [startsDigit] using hrest
    simp only [replaceGo, hc]
    by_cases h : c = '$'
    · subst h
      simp
    · simp [h]

/-- `$N` followed by something that does not begin with a digit -/
theorem go_num (index : Int) (n : Nat) (rest : List Char) (hrest : startsDigit rest = false) :
    replaceGo start index .text ('$' :: Nat.toDigits 10 n ++ rest)
      = (subIndex start (Nat.toDigits 10 n)).bind fun k => (chk (index + 1)).bind fun i' =>
          (replaceGo start i' .text rest).map (placeholderChars k ++ ·) := by
  obtain ⟨d, ds, hd⟩ := toDigits_cons n
  have hall := toDigits_all_digit n
  rw [hd] at hall ⊢
  have hdd : d.isDigit = true := hall d (by simp)
  have hne : d ≠ '$' := digit_ne_dollar hdd
  simp only [List.cons_append, replaceGo, if_true, hne, if_false, hdd]
  rw [go_digits start index [d] ds rest (fun c hc => hall c (by simp [hc])),
    go_digits_end start index _ rest hrest]
  rfl

end Go

/-! ### no overflow ⇒ the checked operations succeed -/

theorem chk_of_range {x : Int} (h1 : 0 ≤ x) (h2 : x ≤ i64Max) : chk x = some x := by
  have : i64Min ≤ x := by unfold i64Min; omega
  simp [chk, this, h2]

theorem subIndex_toDigits (start n : Nat) (hs : 1 ≤ start) (h : (n : Int) + start ≤ i64Max) :
    subIndex start (Nat.toDigits 10 n) = some ((n + start - 1 : Nat) : Int) := by
  unfold i64Max at h
  simp only [subIndex, Nat.ofDigitChars_ten_toDigits, Int.ofNat_eq_natCast]
  rw [chk_of_range (by omega) (by unfold i64Max; omega)]
  simp only [Option.bind_some]
  rw [chk_of_range (by omega) (by unfold i64Max; omega)]
  simp only [Option.bind_some]
  rw [chk_of_range (by omega) (by unfold i64Max; omega)]
  congr 1
  omega

/-! ### the main lemma, with a running index -/

theorem toksChars_cons (t : Tok) (ts : List Tok) : toksChars (t :: ts) = t.chars ++ toksChars ts := by
  simp [toksChars]

theorem replaceGo_tokens (start : Nat) (hs : 1 ≤ start) (ts : List Tok) :
    ∀ k : Nat, wfToks ts = true →
      (∀ n, Tok.ph (.num n) ∈ ts → (n : Int) + start ≤ i64Max) →
      (start : Int) + k + phCount ts ≤ i64Max →
      replaceGo start ((start : Int) + k) .text (toksChars ts) = some (finalChars (replaceToks start k ts)) := by
  induction ts with
  | nil => intro k _ _ _; simp [toksChars, finalChars, replaceToks, replaceGo]
  | cons t ts ih =>
    intro k hwf hnum hidx
    have hnum' : ∀ n, Tok.ph (.num n) ∈ ts → (n : Int) + start ≤ i64Max :=
      fun n hn => hnum n (by simp [hn])
    cases t with
    | text s =>
      simp only [wfToks, Bool.and_eq_true, Bool.not_eq_true'] at hwf
      simp only [phCount] at hidx
      have := ih k hwf.2 hnum' hidx
      simp only [toksChars_cons, Tok.chars]
      rw [go_text _ _ _ _ hwf.1, this]
      simp [replaceToks, finalChars, finalPiece]
    | ph p =>
      simp only [phCount] at hidx
      have hidx' : (start : Int) + (k + 1 : Nat) + phCount ts ≤ i64Max := by
        simp only [Int.natCast_add] at hidx ⊢; omega
      have hchk : chk ((start : Int) + k + 1) = some ((start : Int) + (k + 1 : Nat)) := by
        have e : (start : Int) + k + 1 = (start : Int) + (k + 1 : Nat) := by
          simp only [Int.natCast_add]; omega
        rw [e]
        exact chk_of_range (by omega) (by unfold i64Max at hidx' ⊢; omega)
      cases p with
      | dd =>
        simp only [wfToks] at hwf
        have := ih (k + 1) hwf hnum' hidx'
        simp only [toksChars_cons, Tok.chars, List.cons_append, List.nil_append]
        rw [go_dd, hchk]
        simp only [Option.bind_some, this, Option.map_some]
        simp only [replaceToks, finalChars, List.flatMap_cons, finalPiece, placeholderChars]
        have : (start : Int) + k = ((start + k : Nat) : Int) := by simp
        rw [this]
        rfl
      | num n =>
        simp only [wfToks, Bool.and_eq_true, Bool.not_eq_true'] at hwf
        have := ih (k + 1) hwf.2 hnum' hidx'
        simp only [toksChars_cons, Tok.chars]
        rw [go_num _ _ _ _ hwf.1, subIndex_toDigits start n hs (hnum n (by simp)), hchk]
        simp only [Option.bind_some, this, Option.map_some]
        simp only [replaceToks, finalChars, List.flatMap_cons, finalPiece, placeholderChars]
        rfl

theorem replaceArgs_tokens (ts : List Tok) (start : Nat) (hs : 1 ≤ start) (hwf : wfToks ts = true)
    (hno : NoOverflow start ts) :
    replaceArgsStr (toksString ts) start = some (finalString (replaceToks start 0 ts)) := by
  have h := replaceGo_tokens start hs ts 0 hwf hno.1 (by simpa using hno.2)
  simp only [replaceArgsStr, replaceArgs, toksString_toList]
  simp only [Int.natCast_zero, Int.add_zero] at h
  rw [h, Option.map_some, ← finalString_toList, String.ofList_toList]

/-! ### `render` produces well-formed token text -/

/-- appending well-formed text keeps it well-formed -/
def WFR (ts : List Tok) : Prop := ∀ rest, wfToks rest = true → wfToks (ts ++ rest) = true

/-- whatever follows, the text does not begin with a digit -/
def ND (ts : List Tok) : Prop := ∀ rest, startsDigit (toksChars (ts ++ rest)) = false

theorem wfr_nil : WFR [] := fun _ h => h

theorem wfr_append {a b : List Tok} (ha : WFR a) (hb : WFR b) : WFR (a ++ b) := by
  intro rest h
  rw [List.append_assoc]
  exact ha _ (hb _ h)

theorem wfr_text_cons (s : String) (ts : List Tok) (h : s.toList.contains '$' = false) (hw : WFR ts) :
    WFR (.text s :: ts) := by
  intro rest hr
  simp only [List.cons_append, wfToks, h, Bool.not_false, Bool.true_and]
  exact hw rest hr

theorem wfr_text (s : String) (h : s.toList.contains '$' = false) : WFR [.text s] :=
  wfr_text_cons s [] h wfr_nil

theorem wfr_ph (numbered : Bool) (i : Nat) (ts : List Tok) (hnd : ND ts) (hw : WFR ts) :
    WFR (phOf numbered i :: ts) := by
  intro rest hr
  cases numbered
  · simp only [phOf, List.cons_append]
    exact hw rest hr
  · simp only [phOf, List.cons_append, wfToks, if_true, hnd rest, Bool.not_false, Bool.true_and]
    exact hw rest hr

theorem nd_text (s : String) (ts : List Tok) (h : startsDigit s.toList = false) (hne : s.toList ≠ []) :
    ND (.text s :: ts) := by
  intro rest
  simp only [List.cons_append, toksChars_cons, Tok.chars]
  cases hs : s.toList with
  | nil => exact absurd hs hne
  | cons c cs =>
    rw [hs] at h
    simpa [startsDigit] using h

theorem wfr_inl (numbered : Bool) (vs : List Nat) (tail : List Tok) (hw : WFR tail) :
    WFR (((vs.map fun i => [phOf numbered i]).intersperse [.text ", "]).flatten ++ .text ")" :: tail) := by
  induction vs with
  | nil => simpa using wfr_text_cons ")" tail (by decide) hw
  | cons a vs ih =>
    cases vs with
    | nil =>
      simp only [List.map_cons, List.map_nil, List.intersperse_singleton, List.flatten_cons, List.flatten_nil,
        List.append_nil, List.cons_append, List.nil_append]
      exact wfr_ph numbered a _ (nd_text ")" tail (by decide) (by decide)) (wfr_text_cons ")" tail (by decide) hw)
    | cons b vs =>
      simp only [List.map_cons, List.intersperse_cons_cons, List.flatten_cons, List.cons_append,
        List.nil_append] at ih ⊢
      exact wfr_ph numbered a _ (nd_text ", " _ (by decide) (by decide)) (wfr_text_cons ", " _ (by decide) ih)

theorem wfr_cond (numbered : Bool) (a : Nat) (c : Cond) (tail : List Tok) (hw : WFR tail) (hnd : ND tail) :
    WFR (phOf numbered a :: (renderCond numbered c ++ tail)) := by
  cases c with
  | none => simpa [renderCond] using wfr_ph numbered a tail hnd hw
  | op o v pfx =>
    have h1 : (" AND value " ++ o.sql ++ " ").toList.contains '$' = false := by cases o <;> decide
    have h2 : startsDigit (" AND value " ++ o.sql ++ " ").toList = false := by cases o <;> decide
    have h3 : (" AND value " ++ o.sql ++ " ").toList ≠ [] := by cases o <;> decide
    cases pfx with
    | none =>
      simp only [renderCond, List.cons_append, List.nil_append, List.append_nil]
      exact wfr_ph numbered a _ (nd_text _ _ h2 h3) (wfr_text_cons _ _ h1 (wfr_ph numbered v tail hnd hw))
    | some pk =>
      obtain ⟨po, k⟩ := pk
      have g1 : (" AND SUBSTR(value, 1, 12) " ++ po.sql ++ " ").toList.contains '$' = false := by cases po <;> decide
      have g2 : startsDigit (" AND SUBSTR(value, 1, 12) " ++ po.sql ++ " ").toList = false := by cases po <;> decide
      have g3 : (" AND SUBSTR(value, 1, 12) " ++ po.sql ++ " ").toList ≠ [] := by cases po <;> decide
      simp only [renderCond, List.cons_append, List.nil_append]
      exact wfr_ph numbered a _ (nd_text _ _ h2 h3) (wfr_text_cons _ _ h1
        (wfr_ph numbered v _ (nd_text _ _ g2 g3) (wfr_text_cons _ _ g1 (wfr_ph numbered k tail hnd hw))))
  | inl vs =>
    simp only [renderCond, List.cons_append, List.nil_append, List.append_assoc]
    exact wfr_ph numbered a _ (nd_text _ _ (by decide) (by decide))
      (wfr_text_cons _ _ (by decide) (wfr_inl numbered vs tail hw))

theorem wfr_renderList (op : ConjOp) (cs : List Clause) (ih : ∀ c ∈ cs, WFR (render c)) :
    WFR (renderList op cs) := by
  induction cs with
  | nil => simpa [renderList] using wfr_nil
  | cons c cs ihcs =>
    simp only [renderList]
    refine wfr_append (wfr_append (ih c (by simp)) ?_) (ihcs fun c' hc' => ih c' (by simp [hc']))
    split
    · exact wfr_nil
    · exact wfr_text _ (by cases op <;> decide)

theorem render_wfr (c : Clause) : WFR (render c) := by
  induction c using Clause.induct' with
  | sub neg a cnd p numbered =>
    simp only [render, List.cons_append, List.nil_append]
    have htail : (" AND plaintext = " ++ (if p = true then "1" else "0") ++ ")").toList.contains '$' = false := by
      cases p <;> decide
    have htail2 : startsDigit (" AND plaintext = " ++ (if p = true then "1" else "0") ++ ")").toList = false := by
      cases p <;> decide
    have htail3 : (" AND plaintext = " ++ (if p = true then "1" else "0") ++ ")").toList ≠ [] := by
      cases p <;> decide
    refine wfr_text_cons _ _ (by cases neg <;> decide) ?_
    exact wfr_cond numbered a cnd _ (wfr_text _ htail) (nd_text _ _ htail2 htail3)
  | conj op cs ih =>
    simp only [render]
    refine wfr_append (wfr_append ?_ (wfr_renderList op cs ih)) ?_
    · split
      · exact wfr_text _ (by decide)
      · exact wfr_nil
    · split
      · exact wfr_text _ (by decide)
      · exact wfr_nil
  | zero => exact wfr_text _ (by decide)

theorem render_wellformed (c : Clause) : wfToks (render c) = true := by
  have := render_wfr c [] rfl
  simpa using this

/-! ### end to end: the text the real code sends to SQLite for an encoded filter -/

theorem phs_length (start k : Nat) (ts : List Tok) : (phs (replaceToks start k ts)).length = phCount ts := by
  induction ts generalizing k with
  | nil => simp [replaceToks, phs, phCount]
  | cons t ts ih =>
    cases t with
    | text s => simpa [replaceToks, phs, phCount] using ih k
    | ph p =>
      cases p with
      | num n => simpa [replaceToks, phs, phCount] using ih (k + 1)
      | dd => simpa [replaceToks, phs, phCount] using ih (k + 1)

theorem mem_num_phs (start k : Nat) (ts : List Tok) (n : Nat) (h : Tok.ph (.num n) ∈ ts) :
    (n + start - 1) ∈ phs (replaceToks start k ts) := by
  induction ts generalizing k with
  | nil => cases h
  | cons t ts ih =>
    cases h with
    | head => simp [replaceToks, phs]
    | tail _ h =>
      cases t with
      | text s => simpa [replaceToks, phs] using ih k h
      | ph p =>
        cases p with
        | num m =>
          have := ih (k + 1) h
          simp only [replaceToks, phs, List.filterMap_cons, List.mem_cons] at this ⊢
          exact Or.inr this
        | dd =>
          have := ih (k + 1) h
          simp only [replaceToks, phs, List.filterMap_cons, List.mem_cons] at this ⊢
          exact Or.inr this

theorem render_noOverflow (E : TagCrypto) (q : Query TagName) (c : Clause) (start : Nat) (hs : 1 ≤ start)
    (h : (encodeQuery E q).1 = some c)
    (hlen : (start : Int) + (encodeQuery E q).2.length ≤ i64Max) : NoOverflow start (render c) := by
  obtain ⟨h1, h2⟩ := placeholders_numbered E q c start hs h
  have h1' : phs (replaceToks start 0 (render c)) = c.argRefs.map (· + start) := h1
  constructor
  · intro n hn
    have hm := mem_num_phs start 0 (render c) n hn
    rw [h1', h2] at hm
    simp only [List.mem_map, List.mem_range] at hm
    obtain ⟨i, hi, he⟩ := hm
    unfold i64Max at hlen ⊢
    omega
  · have hl := phs_length start 0 (render c)
    rw [h1', h2] at hl
    simp only [List.length_map, List.length_range] at hl
    rw [← hl]
    exact hlen

theorem encode_text_exact (E : TagCrypto) (q : Query TagName) (c : Clause) (start : Nat) (hs : 1 ≤ start)
    (h : (encodeQuery E q).1 = some c)
    (hlen : (start : Int) + (encodeQuery E q).2.length ≤ i64Max) :
    replaceArgsStr (toksString (render c)) start = some (finalString (replaceToks start 0 (render c))) :=
  replaceArgs_tokens (render c) start hs (render_wellformed c) (render_noOverflow E q c start hs h hlen)

/-! ### text without `$`; the LIMIT suffix -/

theorem replaceArgs_no_dollar (s : List Char) (start : Int) (h : s.contains '$' = false) :
    replaceArgs s start = some s := by
  have := go_text start start s [] h
  simpa [replaceArgs, replaceGo] using this

theorem limitQuery_numbered (q : List Char) (nargs : Nat) (offset limit : Option Int)
    (h : (offset.isSome || limit.isSome) = true) (hn : (nargs : Int) + 3 ≤ i64Max) :
    limitQuery q nargs offset limit
      = some (q ++ (" LIMIT ?" ++ toString (nargs + 1) ++ ", ?" ++ toString (nargs + 2)).toList, nargs + 2) := by
  have hg := replaceGo_tokens (nargs + 1) (by omega) [.text " LIMIT ", .ph .dd, .text ", ", .ph .dd] 0 (by decide)
    (by intro n hn; simp at hn) (by simp only [phCount]; unfold i64Max at hn ⊢; omega)
  have ht : toksChars [.text " LIMIT ", .ph .dd, .text ", ", .ph .dd] = " LIMIT $$, $$".toList := by decide
  rw [ht] at hg
  simp only [Int.natCast_zero, Int.add_zero] at hg
  simp only [limitQuery, h, if_true, replaceArgs]
  have hc : ((nargs : Int) + 1) = ((nargs + 1 : Nat) : Int) := by simp
  rw [hc, hg]
  simp only [Option.map_some, replaceToks, finalChars, List.flatMap_cons, List.flatMap_nil, finalPiece,
    String.toList_append, natChars, List.append_nil, Nat.add_zero]
  have e1 : " LIMIT ?".toList = " LIMIT ".toList ++ ['?'] := by decide
  have e2 : ", ?".toList = ", ".toList ++ ['?'] := by decide
  rw [e1, e2]
  simp [Nat.add_assoc]

end Askar.Wql.Lemmas
