import AskarModel.Base.Bytes
import AskarModel.Model.Wql
import AskarModel.Model.Store
