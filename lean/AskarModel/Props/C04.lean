/-
C04 — WQL filters select exactly the records their reference semantics define.
ONLY property theorems and non-vacuity examples live here; helper lemmas are in Lemmas/Wql.lean.
-/
import AskarModel.Model.Wql
import AskarModel.Lemmas.Wql
import AskarModel.Model.WqlJson
import AskarModel.Lemmas.WqlJson

namespace Askar.Wql

/-- The main theorem: for every filter in the property's domain, every tag crypto satisfying the
    stated idealisation, every LIKE relation and every record (tag list, any length), the SQL that
    the encoder emits, evaluated as SQLite evaluates it on the stored (encrypted) tag rows, selects
    the record iff the reference semantics says so. -/
theorem encode_correct (like : Bytes → Bytes → Bool) (E : TagCrypto) (hE : E.Inj)
    (q : Query TagName) (hq : q.InDomain) (tags : List Tag)
    (hP : E.NoPrefixCollision (q.values ++ tags.map (·.value))) :
    evalFilter like (encodeQuery E q) (tags.map E.encTag) = holds like tags q :=
  Lemmas.encode_correct like E hE q hq tags hP

/-- The same, for a whole store scan: over any number of records, the records the emitted SQL
    selects are exactly those the reference semantics selects — so count / fetch-all / remove-all
    operate on exactly the reference set. -/
theorem filter_selects_ref (like : Bytes → Bytes → Bool) (E : TagCrypto) (hE : E.Inj)
    (q : Query TagName) (hq : q.InDomain) (recs : List (List Tag))
    (hP : E.NoPrefixCollision (q.values ++ recs.flatten.map (·.value))) :
    (recs.filter fun tags => evalFilter like (encodeQuery E q) (tags.map E.encTag))
      = recs.filter (holds like · q) :=
  Lemmas.filter_selects_ref like E hE q hq recs hP

/-- Every placeholder index used by the emitted clause denotes an argument that was pushed. -/
theorem encode_args_bound (E : TagCrypto) (q : Query TagName) (c : Clause)
    (h : (encodeQuery E q).1 = some c) : c.Bounded (encodeQuery E q).2.length :=
  Lemmas.encode_args_bound E q c h

/-- Placeholder numbering: after `replace_arg_placeholders` with offset `start`, the k-th
    placeholder of the rendered clause is `?(start + k)`, i.e. it is bound to the k-th filter
    argument appended after the fixed parameters — and that is the argument the clause tree means. -/
theorem placeholders_numbered (E : TagCrypto) (q : Query TagName) (c : Clause) (start : Nat) (hs : 1 ≤ start)
    (h : (encodeQuery E q).1 = some c) :
    (replaceToks start 0 (render c)).filterMap (fun | .inr n => some n | .inl _ => none)
      = (c.argRefs).map (· + start)
    ∧ c.argRefs = List.range (encodeQuery E q).2.length :=
  Lemmas.placeholders_numbered E q c start hs h

/-- `$not` is exact complement whenever no multi-name `$exist` occurs (the one pinned deviation). -/
theorem negate_is_complement (like : Bytes → Bytes → Bool) (q : Query TagName) (h1 : q.SingleNameExist)
    (tags : List Tag) : holds like tags (.not q) = !holds like tags q :=
  Lemmas.negate_is_complement like q h1 tags

/-- Outside the pinned deviation the polarity-passing reference semantics *is* the plain Boolean one. -/
theorem holds_eq_std (like : Bytes → Bytes → Bool) (q : Query TagName) (h1 : q.SingleNameExist)
    (tags : List Tag) : holds like tags q = std like tags q :=
  Lemmas.holds_eq_std like q h1 tags

/-- The multi-name `$exist` under `$not`: the per-name reading, stated outright. -/
theorem not_exist_per_name (like : Bytes → Bytes → Bool) (ns : List TagName) (tags : List Tag) :
    holds like tags (.not (.exist ns)) = ns.all fun n => !atomExist n tags :=
  Lemmas.not_exist_per_name like ns tags

/-- What the code does with nested empty connectives (outside the domain; stated, not alarmed):
    a child without a clause is dropped from its parent. -/
theorem encode_nested_empty (E : TagCrypto) (neg : Bool) (args : List Bytes) (qs : List (Query TagName)) :
    encodeList E neg args (.and [] :: qs) = encodeList E neg args qs ∨ neg = true :=
  Lemmas.encode_nested_empty E neg args qs

/-! Non-vacuity: the toy crypto satisfies the hypotheses on a concrete value set; a concrete filter
    with negation, a multi-valued `$in`, both tag kinds and an ordered comparison is in the domain;
    and the theorem's two sides are `true` on a concrete record (so neither side is constant). -/
example : TagCrypto.toy.Inj := Lemmas.toy_inj
example : TagCrypto.toy.NoPrefixCollision ["1", "x", "y", "5", "7"] := by
  -- `utf8` goes through `ByteArray.toList` (well-founded recursion), which `decide` cannot unfold;
  -- `Lemmas.utf8_eq : utf8 s = s.toByteArray.data.toList` puts it in a reducible form first.
  unfold TagCrypto.NoPrefixCollision TagCrypto.toy; simp only [Lemmas.utf8_eq]; decide

def exQ : Query TagName := .and [.not (.or [.cmp .eq (.enc "a") "1", .isIn (.plain "b") ["x", "y"]]),
    .cmp .gte (.plain "n") "5", .exist [.enc "a"]]
example : exQ.InDomain := by decide
example : holds (fun _ _ => false) [⟨false, "a", "7"⟩, ⟨true, "n", "5"⟩] exQ = true := by
  simp only [exQ, holds, holdsP, holdsAll, holdsAny, atomCmp, atomIn, atomExist, Lemmas.utf8_eq]
  decide
example : holds (fun _ _ => false) [⟨false, "a", "1"⟩, ⟨true, "n", "5"⟩] exQ = false := by
  simp only [exQ, holds, holdsP, holdsAll, holdsAny, atomCmp, atomIn, atomExist, Lemmas.utf8_eq]
  decide

/-! ## The JSON form (`wql/query.rs`, `mod serde_support`; model in Model/WqlJson.lean)

"A filter serialised to JSON and parsed back selects the same records"; "JSON round-trip excludes
the empty `$or`, which the JSON form cannot express". -/

/-- Round trip: for every filter the JSON form can express, `Deserialize` applied to `to_value`
    succeeds and returns the explicit normal form `normJ` (the filter itself, except that an empty
    `$exist` list has become the empty `$and`). -/
theorem json_roundtrip (q : Query String) (h : q.jsonExpressible) :
    parseQuery (toValue q) = .ok (normJ q) :=
  Lemmas.json_roundtrip_names q ((Lemmas.jsonExpressible_iff q).mp h).2

/-- The same under the weaker hypothesis that actually matters for *parsing back*: no compared
    tag name is a reserved key.  (With an empty `$or` inside, `normJ` shows what comes back.) -/
theorem json_roundtrip_names (q : Query String) (h : q.namesUnreserved) :
    parseQuery (toValue q) = .ok (normJ q) :=
  Lemmas.json_roundtrip_names q h

/-- Through the text (`TagFilter::to_string` then `TagFilter::from_str`): the same, as long as the
    JSON nesting stays within what serde_json's parser accepts (127 levels). -/
theorem json_text_roundtrip (q : Query String) (h : q.jsonExpressible)
    (hd : (toValue q).depth ≤ jsonDepthLimit) : jsonRoute q = .ok (normJ q) :=
  Lemmas.jsonRoute_roundtrip q ((Lemmas.jsonExpressible_iff q).mp h).2 hd

/-- The parsed-back filter has the same reference meaning: on every record, for every LIKE
    relation.  Domain: C04's (no nested empty list), as for `encode_correct`. -/
theorem json_roundtrip_same_records (like : Bytes → Bytes → Bool) (q : Query String)
    (h : q.jsonExpressible) (hd : (tagQuery q).InDomain) (tags : List Tag) :
    holds like tags (tagQuery (normJ q)) = holds like tags (tagQuery q) :=
  Lemmas.json_roundtrip_same_records like q ((Lemmas.jsonExpressible_iff q).mp h).1 hd tags

/-- Stronger, and about the code rather than the reference: the parsed-back filter is encoded to
    the very same SQL clause and arguments, so it selects the same rows whatever the store holds. -/
theorem json_roundtrip_same_sql (E : TagCrypto) (q : Query String)
    (h : q.jsonExpressible) (hd : (tagQuery q).InDomain) :
    encodeQuery E (tagQuery (normJ q)) = encodeQuery E (tagQuery q) :=
  Lemmas.json_roundtrip_same_sql E q ((Lemmas.jsonExpressible_iff q).mp h).1 hd

/-- Both together, in the property's words: serialise, parse back, and the result exists and
    selects the same records. -/
theorem json_roundtrip_selects_same (like : Bytes → Bytes → Bool) (q : Query String)
    (h : q.jsonExpressible) (hd : (tagQuery q).InDomain) :
    ∃ q', parseQuery (toValue q) = .ok q' ∧
      ∀ tags, holds like tags (tagQuery q') = holds like tags (tagQuery q) :=
  ⟨normJ q, json_roundtrip q h, json_roundtrip_same_records like q h hd⟩

/-- `to_value` only builds objects that are already in `BTreeMap` order (at most one member each),
    so the parser model's assumption holds on everything the round trip feeds it. -/
theorem toValue_wf (q : Query String) : (toValue q).wf = true := Lemmas.toValue_wf q

/-- The documented exclusion, stated outright: the empty `$or` (selects nothing) is written as `{}`,
    which reads back as the empty `$and` (selects everything). -/
theorem json_or_empty_not_expressible : parseQuery (toValue (.or [])) = .ok (.and []) := rfl

/-- ... and the two really differ: on every record. -/
theorem json_or_empty_differs (like : Bytes → Bytes → Bool) (tags : List Tag) :
    holds like tags (tagQuery (.or [])) = false ∧ holds like tags (tagQuery (.and [])) = true :=
  ⟨rfl, rfl⟩

/-- "Cannot express", in full: NO JSON value whatsoever parses to a filter containing an empty
    `$or` (or an empty `$exist`) at any depth. -/
theorem json_cannot_express_empty_or (j : J) (q : Query String) (h : parseQuery j = .ok q) :
    q.noEmptyOr = true ∧ noEmptyOrExist q = true :=
  ⟨Lemmas.noEmptyOr_of_noEmptyOrExist q (Lemmas.parseQuery_noEmpty j q h), Lemmas.parseQuery_noEmpty j q h⟩

/-- The other exclusion: a tag name equal to a reserved key is read as that operator. -/
theorem json_reserved_name_misparsed :
    parseQuery (toValue (.cmp .eq "$exist" "x")) = .ok (.exist ["x"]) := rfl

example : parseQuery (toValue (.cmp .neq "$not" "x")) = .ok (.not (.cmp .eq "$neq" "x")) := rfl
example : parseQuery (toValue (.cmp .eq "$and" "x")) = .error "$and must be array of JSON objects" := rfl
example : parseQuery (toValue (.isIn "$not" ["x"])) = .error "Unsupported value" := rfl
/-- names inside `$exist` are array elements, not keys: reserved words are fine there -/
example : parseQuery (toValue (.exist ["$exist", "$and"])) = .ok (.exist ["$exist", "$and"]) := rfl
/-- the empty name and the empty `$in` list are expressible -/
example : parseQuery (toValue (.cmp .eq "" "x")) = .ok (.cmp .eq "" "x") := rfl
example : parseQuery (toValue (.isIn "a" [])) = .ok (.isIn "a" []) := rfl

/-- Outside the domain (an empty `$exist` under `$not`) the round trip does change the selection:
    `Not (Exist [])` selects every record, its parsed-back form `Not (And [])` none.  This is why
    `json_roundtrip_same_records` carries the domain hypothesis. -/
example : (Query.not (.exist [])).jsonExpressible = true
    ∧ parseQuery (toValue (.not (.exist []))) = .ok (.not (.and []))
    ∧ holds (fun _ _ => false) [] (tagQuery (.not (.exist []))) = true
    ∧ holds (fun _ _ => false) [] (tagQuery (.not (.and []))) = false := ⟨rfl, rfl, rfl, rfl⟩

/-! Parser-side behaviour the property text relies on (each by evaluation). -/
/-- an object with no / several operators is their `$and`; with exactly one it is that operator -/
example : parseQuery (.obj []) = .ok (.and []) := rfl
example : parseQuery (.obj [("a", .str "1"), ("b", .str "2")]) = .ok (.and [.cmp .eq "a" "1", .cmp .eq "b" "2"]) := rfl
example : parseQuery (.obj [("a", .str "1")]) = .ok (.cmp .eq "a" "1") := rfl
/-- empty `$and` / `$or` / `$exist` arrays contribute nothing -/
example : parseQuery (.obj [("$and", .arr []), ("$exist", .arr []), ("$or", .arr []), ("a", .str "1")])
    = .ok (.cmp .eq "a" "1") := rfl
/-- `$exist` takes a string or an array of strings -/
example : parseQuery (.obj [("$exist", .str "a")]) = .ok (.exist ["a"]) := rfl
example : parseQuery (.obj [("$exist", .arr [.str "a", .num 1])])
    = .error "$exist must be used with a string or array of strings" := rfl
/-- the legacy array form: `$or` of the objects, `null` members and empty objects dropped -/
example : parseQuery (.arr [.obj [("a", .str "1"), ("b", .null)], .obj [], .obj [("c", .str "2")]])
    = .ok (.or [.cmp .eq "a" "1", .cmp .eq "c" "2"]) := rfl
example : parseQuery (.arr []) = .ok (.and []) := rfl
example : parseQuery (.arr [.str "a"]) = .error "Restriction is invalid" := rfl
example : parseQuery (.str "a") = .error "Restriction must be either object or array" := rfl
example : parseQuery (.obj [("a", .obj [("$neq", .str "1"), ("$gt", .str "0")])])
    = .error "value must be JSON object of length 1" := rfl
example : parseQuery (.obj [("a", .obj [("$regex", .str "1")])]) = .error "Unknown operator" := rfl

/-! Non-vacuity of the round-trip theorems: a concrete filter using every constructor, both tag
    kinds, a multi-valued `$in` and a multi-name `$exist` satisfies both hypotheses, is not changed
    by `normJ`, and is selected on one record and rejected on another. -/
def exJ : Query String := .and [.not (.or [.cmp .eq "a" "1", .isIn "~b" ["x", "y"]]),
    .cmp .gte "~n" "5", .exist ["a", "~n"], .cmp .like "~n" "5%"]
example : exJ.jsonExpressible = true := by decide
example : (tagQuery exJ).InDomain := by decide
example : (toValue exJ).depth ≤ jsonDepthLimit := by decide
example : parseQuery (toValue exJ) = .ok exJ := rfl
example : holds (fun _ _ => true) [⟨false, "a", "7"⟩, ⟨true, "n", "5"⟩] (tagQuery exJ) = true := by
  simp only [exJ, tagQuery, Query.mapNames, mapNamesList, splitName, holds, holdsP, holdsAll, holdsAny,
    atomCmp, atomIn, atomExist, Lemmas.utf8_eq]
  decide
example : holds (fun _ _ => true) [⟨false, "a", "1"⟩, ⟨true, "n", "5"⟩] (tagQuery exJ) = false := by
  simp only [exJ, tagQuery, Query.mapNames, mapNamesList, splitName, holds, holdsP, holdsAll, holdsAny,
    atomCmp, atomIn, atomExist, Lemmas.utf8_eq]
  decide
/-- the root `Exist []` is expressible, in the domain, and genuinely rewritten -/
example : (Query.exist []).jsonExpressible = true ∧ (tagQuery (.exist [])).InDomain
    ∧ parseQuery (toValue (.exist [])) = .ok (.and []) := ⟨rfl, by decide, rfl⟩
/-- `J.normObj`: members in text order ↦ map order (sorted by key bytes, last duplicate wins) -/
example : J.normObj [("b", .str "1"), ("a", .str "2"), ("b", .str "3")] = [("a", .str "2"), ("b", .str "3")] := by
  have h : J.keyLt "a" "b" = true := by simp only [J.keyLt, Lemmas.utf8_eq]; decide
  have h' : J.keyLt "b" "a" = false := by simp only [J.keyLt, Lemmas.utf8_eq]; decide
  simp [J.normObj, J.insertKV, h, h']

end Askar.Wql
