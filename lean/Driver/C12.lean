/- Driver for `kind = "c12"` (and `"c12:…"`) cases: runs the C12 model (`Model/Aead.lean`) instantiated with
   the executable specifications of `AskarModel/Crypto/`. -/
import Driver.Common
import AskarModel.Model.Aead
import AskarModel.Model.ResizeBuf
import AskarModel.Crypto.Hmac
import AskarModel.Crypto.KeyWrap
import AskarModel.Crypto.Gcm
import AskarModel.Crypto.ChaChaPoly
import AskarModel.Crypto.ConcatKdf

open Lean
open Askar Askar.Aead Askar.Crypto Askar.ResizeBuf

namespace Driver.C12

/-! ### the primitives, instantiated by the specifications -/

def aesCipher : BlockCipher := ⟨Aes.encryptBlockL, Aes.decryptBlockL⟩

def gcmPrim : AeadPrim :=
  ⟨16,
   fun k n a m =>
     if m.length > Gcm.maxPlainBytes || a.length > Gcm.maxAadBytes then none else
       let r := Gcm.aesGcmEncrypt k.toByteArray n.toByteArray a.toByteArray m.toByteArray
       some (r.1.toList, r.2.toList),
   fun k n a c t =>
     (Gcm.aesGcmDecrypt k.toByteArray n.toByteArray a.toByteArray c.toByteArray t.toByteArray).map ByteArray.toList⟩

def c20pPrim : AeadPrim :=
  ⟨16,
   fun k n a m =>
     if m.length > ChaChaPoly.maxPlainBytes then none else
       let r := ChaChaPoly.encrypt k.toByteArray n.toByteArray a.toByteArray m.toByteArray
       some (r.1.toList, r.2.toList),
   fun k n a c t =>
     (ChaChaPoly.decrypt k.toByteArray n.toByteArray a.toByteArray c.toByteArray t.toByteArray).map ByteArray.toList⟩

def xc20pPrim : AeadPrim :=
  ⟨16,
   fun k n a m =>
     if m.length > ChaChaPoly.maxPlainBytes then none else
       let r := ChaChaPoly.xEncrypt k.toByteArray n.toByteArray a.toByteArray m.toByteArray
       some (r.1.toList, r.2.toList),
   fun k n a c t =>
     (ChaChaPoly.xDecrypt k.toByteArray n.toByteArray a.toByteArray c.toByteArray t.toByteArray).map ByteArray.toList⟩

def prims : Prims :=
  { aes128 := aesCipher, aes256 := aesCipher,
    hmac256 := ⟨32, Hmac.hmacSha256L⟩, hmac512 := ⟨64, Hmac.hmacSha512L⟩,
    gcm128 := gcmPrim, gcm256 := gcmPrim, c20p := c20pPrim, xc20p := xc20pPrim }

/-! ### canonical forms -/

/-- `From<askar_crypto::Error> for aries_askar::Error`: kind mapping -/
def kindName : Kind → String
  | .Custom => "Custom"
  | .Encryption => "Encryption"
  | .ExceededBuffer | .Unexpected => "Unexpected"
  | .Invalid | .InvalidKeyData | .InvalidNonce | .MissingSecretKey | .Usage => "Input"
  | .Unsupported => "Unsupported"

/-- `askar_crypto::ErrorKind::as_str` -/
def kindText : Kind → String
  | .Custom => "Custom error"
  | .Encryption => "Encryption error"
  | .ExceededBuffer => "Exceeded buffer size"
  | .Invalid => "Invalid input"
  | .InvalidNonce => "Invalid encryption nonce"
  | .InvalidKeyData => "Invalid key data"
  | .MissingSecretKey => "Missing secret key"
  | .Unexpected => "Unexpected error"
  | .Usage => "Usage error"
  | .Unsupported => "Unsupported"

def msgText (e : Err) : String :=
  match e.msg with
  | .default => kindText e.kind
  | .cbcTagSize => "AES-CBC-HMAC tag size exceeds maximum supported"
  | .cbcAadSize => "AES-CBC-HMAC AAD size exceeds maximum supported"
  | .cbcEncrypt => "AES-CBC encryption error"
  | .cbcDecrypt => "AES-CBC decryption error"
  | .aeadEncrypt => "AEAD encryption error"
  | .aeadDecrypt => "AEAD decryption error"
  | .invalidSize => "Invalid size for encrypted data"
  | .kwNonce => "Custom nonce not supported"
  | .kwAad => "AAD not supported"
  | .kwLen => "Data length must be a multiple of 8 bytes"
  | .aeadUnsupported => "AEAD is not supported for this key type"

def jerr2 (e : Err) : Json := Json.mkObj [("err", .str (kindName e.kind)), ("msg", .str (msgText e))]

def jres {α : Type} (f : α → Json) : Res α → Json
  | .ok a => f a
  | .err e => jerr2 e
  | .panic p => Json.mkObj [("panic", .str (reprStr p))]

/-- outcome code used in run-length encoded sweeps -/
def code {α : Type} (okCode : α → String) : Res α → String
  | .ok a => okCode a
  | .err e => "E:" ++ kindName e.kind ++ ":" ++ msgText e
  | .panic _ => "panic"

def rle (xs : List String) : Json :=
  let rec go : List String → Option (String × Nat) → List Json → List Json
    | [], none, acc => acc.reverse
    | [], some (s, n), acc => (Json.arr #[.str s, jnat n] :: acc).reverse
    | x :: r, none, acc => go r (some (x, 1)) acc
    | x :: r, some (s, n), acc => if x == s then go r (some (s, n + 1)) acc else go r (some (x, 1)) (Json.arr #[.str s, jnat n] :: acc)
  .arr (go xs none []).toArray

def algOf (s : String) : Option Alg :=
  match s with
  | "a128gcm" => some .A128Gcm | "a256gcm" => some .A256Gcm
  | "a128cbchs256" => some .A128CbcHs256 | "a256cbchs512" => some .A256CbcHs512
  | "a128kw" => some .A128Kw | "a256kw" => some .A256Kw
  | "c20p" => some .C20P | "xc20p" => some .XC20P | "ed25519" => some .Ed25519
  | _ => none

/-- flip bit `i` (bit 0 = least significant bit of byte 0) -/
def flipBit (b : Bytes) (i : Nat) : Bytes := b.set (i / 8) ((b.getD (i / 8) 0) ^^^ (UInt8.ofNat (2 ^ (i % 8))))

/-- deterministic pattern of length n -/
def pattern (fill n : Nat) : Bytes := (List.range n).map fun i => UInt8.ofNat ((fill + 7 * i) % 256)

def okSame (expect : Bytes) (got : Bytes) : String := if got == expect then "ok:same" else "ok:diff"

/-! ### operations -/

def encJson (k : Key) (msg nonce aad : Bytes) : Json :=
  let randomNonce := nonce.isEmpty && k.alg.params.1 > 0
  let rnd := zeros k.alg.params.1
  match aeadEncrypt prims rnd k msg nonce aad with
  | .ok e =>
    if randomNonce then
      Json.mkObj [("random_nonce", .bool true), ("buf_len", jnat e.buffer.length), ("tag_pos", jnat e.tagPos), ("nonce_pos", jnat e.noncePos)]
    else
      let ct := e.ciphertext
      let tag := e.tag
      let dec := match ct, tag, e.nonce with
        | .ok c, .ok t, .ok n => jres (fun pt => Json.mkObj [("pt", jvalue pt)]) (aeadDecrypt d5Fixed prims k c t n aad)
        | _, _, _ => Json.mkObj [("panic", .str "accessor")]
      Json.mkObj [("ct", jres jvalue ct), ("tag", jres jhex tag), ("nonce", jres jhex e.nonce),
                  ("tag_pos", jnat e.tagPos), ("nonce_pos", jnat e.noncePos), ("buf", jvalue e.buffer), ("dec", dec)]
  | .err er => jerr2 er
  | .panic p => Json.mkObj [("panic", .str (reprStr p))]

def decJson (k : Key) (ct tag nonce aad : Bytes) : Json :=
  jres (fun pt => Json.mkObj [("pt", jvalue pt)]) (aeadDecrypt d5Fixed prims k ct tag nonce aad)

/-- encrypt, then decrypt every single-bit flip of ct‖tag, of the nonce and of the aad -/
def flipsJson (k : Key) (msg nonce aad : Bytes) : Json :=
  match aeadEncrypt prims [] k msg nonce aad with
  | .ok e =>
    match e.ciphertext, e.tag with
    | .ok ct, .ok tag =>
      let whole := ct ++ tag
      let d (c t n a : Bytes) := code (okSame msg) (aeadDecrypt d5Fixed prims k c t n a)
      let a := (List.range (8 * whole.length)).map fun i => let w := flipBit whole i; d (w.take ct.length) (w.drop ct.length) nonce aad
      let b := (List.range (8 * nonce.length)).map fun i => d ct tag (flipBit nonce i) aad
      let c := (List.range (8 * aad.length)).map fun i => d ct tag nonce (flipBit aad i)
      let kf := (List.range (8 * k.bytes.length)).map fun i =>
        code (okSame msg) (do
          let k2 ← fromSecretBytes k.alg (flipBit k.bytes i)
          aeadDecrypt d5Fixed prims k2 ct tag nonce aad)
      Json.mkObj [("base", .str (d ct tag nonce aad)), ("ct_tag", rle a), ("nonce", rle b), ("aad", rle c), ("key", rle kf)]
    | _, _ => Json.mkObj [("panic", .str "accessor")]
  | .err er => jerr2 er
  | .panic p => Json.mkObj [("panic", .str (reprStr p))]

/-- encrypt, then decrypt every truncation of ct‖tag and every extension by a prefix of `ext` (passed as one
    combined buffer, empty separate tag) -/
def resizeJson (k : Key) (msg nonce aad ext : Bytes) : Json :=
  match aeadEncrypt prims [] k msg nonce aad with
  | .ok e =>
    match e.ciphertext, e.tag with
    | .ok ct, .ok tag =>
      let whole := ct ++ tag
      let d (c : Bytes) := code (okSame msg) (aeadDecrypt d5Fixed prims k c [] nonce aad)
      let a := (List.range whole.length).map fun n => d (whole.take n)
      let b := (List.range ext.length).map fun n => d (whole ++ ext.take (n + 1))
      Json.mkObj [("base", .str (d whole)), ("trunc", rle a), ("extend", rle b)]
    | _, _ => Json.mkObj [("panic", .str "accessor")]
  | .err er => jerr2 er
  | .panic p => Json.mkObj [("panic", .str (reprStr p))]

/-- every nonce length 0 … max for encryption and for decryption of a valid ciphertext -/
def nonceLensJson (k : Key) (msg aad : Bytes) (max fill : Nat) : Json :=
  let good := pattern fill k.alg.params.1
  let valid : Bytes := match aeadEncrypt prims [] k msg good aad with
    | .ok e => e.buffer.take e.noncePos
    | _ => pattern fill 40
  let encs := (List.range (max + 1)).map fun n =>
    if n == 0 && k.alg.params.1 > 0 then
      code (fun (e : Encrypted) => "random:" ++ toString e.buffer.length) (aeadEncrypt prims (zeros k.alg.params.1) k msg [] aad)
    else code (fun (e : Encrypted) => "ok:" ++ toString e.buffer.length) (aeadEncrypt prims [] k msg (pattern fill n) aad)
  let decs := (List.range (max + 1)).map fun n => code (okSame msg) (aeadDecrypt d5Fixed prims k valid [] (pattern fill n) aad)
  Json.mkObj [("enc", rle encs), ("dec", rle decs)]

def wrapJson (k : Key) (palg : Alg) (pkey nonce : Bytes) : Json :=
  match fromSecretBytes palg pkey with
  | .ok payload =>
    match wrapKey prims k payload nonce with
    | .ok e =>
      let ct := e.ciphertext
      let tag := e.tag
      let un := match ct, tag, e.nonce with
        | .ok c, .ok t, .ok n => jres (fun (q : Key) => Json.mkObj [("key", jhex q.bytes)]) (unwrapKey d5Fixed prims k palg c t n)
        | _, _, _ => Json.mkObj [("panic", .str "accessor")]
      Json.mkObj [("ct", jres jvalue ct), ("tag", jres jhex tag), ("nonce", jres jhex e.nonce),
                  ("tag_pos", jnat e.tagPos), ("nonce_pos", jnat e.noncePos), ("buf", jvalue e.buffer), ("unwrap", un)]
    | .err er => jerr2 er
    | .panic p => Json.mkObj [("panic", .str (reprStr p))]
  | .err er => Json.mkObj [("payload_err", jerr2 er)]
  | .panic p => Json.mkObj [("panic", .str (reprStr p))]

def runOp (k : Key) (op : Json) : Json :=
  match str! op "op" with
  | "params" => jres (fun (p : Nat × Nat) => Json.mkObj [("nonce", jnat p.1), ("tag", jnat p.2)]) (aeadParams k)
  | "padding" => Json.mkObj [("pad", jnat (aeadPadding k (nat! op "len")))]
  | "enc" => encJson k (value! op "msg") (hex! op "nonce") (value! op "aad")
  | "dec" => decJson k (value! op "ct") (hex! op "tag") (hex! op "nonce") (value! op "aad")
  | "flips" => flipsJson k (value! op "msg") (hex! op "nonce") (value! op "aad")
  | "resize" => resizeJson k (value! op "msg") (hex! op "nonce") (value! op "aad") (hex! op "ext")
  | "nonce_lens" => nonceLensJson k (value! op "msg") (value! op "aad") (nat! op "max") (nat! op "fill")
  | "wrap" =>
    match algOf (str! op "palg") with
    | some palg => wrapJson k palg (hex! op "pkey") (hex! op "nonce")
    | none => jerr "bad palg"
  | "unwrap" =>
    match algOf (str! op "alg") with
    | some alg => jres (fun (q : Key) => Json.mkObj [("key", jhex q.bytes)]) (unwrapKey d5Fixed prims k alg (value! op "ct") (hex! op "tag") (hex! op "nonce"))
    | none => jerr "bad alg"
  | "random_nonce" => Json.mkObj [("len", jnat (aeadRandomNonceLen k))]
  | o => jerr ("unknown op " ++ o)

/-! ### the buffer type as a dimension (`c12:buf`, `c12:bufops`), guards (`c12:misc`) -/

/-- `Debug` of `askar_crypto::ErrorKind` -/
def crateKindName : Kind → String
  | .Custom => "Custom" | .Encryption => "Encryption" | .ExceededBuffer => "ExceededBuffer" | .Invalid => "Invalid"
  | .InvalidKeyData => "InvalidKeyData" | .InvalidNonce => "InvalidNonce" | .MissingSecretKey => "MissingSecretKey"
  | .Unexpected => "Unexpected" | .Usage => "Usage" | .Unsupported => "Unsupported"

def cerr (e : Err) : Json := Json.mkObj [("err", .str (crateKindName e.kind)), ("msg", .str (msgText e))]

def jpanic : Json := Json.mkObj [("panic", .bool true)]

def jdone (view : Bytes) (ret : Option Nat) : Json :=
  match ret with
  | some r => Json.mkObj [("buf", jvalue view), ("pos", jnat view.length), ("ret", jnat r)]
  | none => Json.mkObj [("buf", jvalue view), ("pos", jnat view.length)]

inductive BufKind
  | growable                       -- Vec<u8>, SecretBytes
  | writer (cap stale : Nat)       -- Writer::from_slice_position(&mut [u8; cap], |input|), the rest filled with `pattern stale`

/-- the harness's array: `pattern(stale, cap)` with the input copied over its head -/
def writerOf (input : Bytes) (cap stale : Nat) : Writer := ⟨input ++ (pattern stale cap).drop input.length, input.length⟩

def runOn {α : Type} (kind : BufKind) (input : Bytes) (prog : Prog α) (ret : α → Option Nat) : Json :=
  match kind with
  | .growable =>
    match prog.run specImpl ⟨input, none⟩ with
    | .ok (b, a) => jdone b.data (ret a)
    | .err e => cerr e
    | .panic _ => jpanic
  | .writer cap stale =>
    match prog.run (writerImpl writerFixed) (writerOf input cap stale) with
    | .ok (w, a) => (match w.view with | .ok v => jdone v (ret a) | _ => jpanic)
    | .err e => cerr e
    | .panic _ => jpanic

def bufVariants {α : Type} (input : Bytes) (extra staleA staleB : Nat) (prog : Prog α) (ret : α → Option Nat) : Json :=
  let need := match prog.run specImpl ⟨input, none⟩ with
    | .ok (b, _) => max b.data.length input.length
    | _ => input.length
  let reference := runOn .growable input prog ret
  Json.mkObj [("vec", reference), ("secret", reference),
    ("w_exact", runOn (.writer need staleA) input prog ret),
    ("w_short", if need > input.length then runOn (.writer (need - 1) staleA) input prog ret else .null),
    ("w_extra_a", runOn (.writer (need + extra) staleA) input prog ret),
    ("w_extra_b", runOn (.writer (need + extra) staleB) input prog ret)]

def runBuf (j : Json) : Json :=
  match algOf (str! j "alg") with
  | none => jerr "bad alg"
  | some alg =>
    match fromSecretBytes alg (hex! j "key") with
    | .ok k =>
      let msg := value! j "msg"
      let nonce := hex! j "nonce"
      let aad := value! j "aad"
      let extra := nat! j "extra"
      let (sa, sb) := match arr! j "stale" with
        | [a, b] => ((a.getNat?.toOption).getD 0, (b.getNat?.toOption).getD 0)
        | _ => (0xEE, 0x11)
      let encP := encryptInPlaceP prims k nonce aad
      let decP := decryptInPlaceP d5Fixed prims k nonce aad
      let input : Option Bytes := match getD? j "raw" with
        | some _ => some (value! j "raw")
        | none => match encP.run specImpl ⟨msg, none⟩ with
          | .ok (b, _) => some b.data
          | _ => none
      Json.mkObj [("enc", bufVariants msg extra sa sb encP some),
        ("dec", match input with
          | some i => bufVariants i extra sa sb decP (fun _ => none)
          | none => .null)]
    | .err e => Json.mkObj [("key", cerr e)]
    | .panic _ => jpanic

def opOf (j : Json) : Option Op :=
  match str! j "o" with
  | "write" => some (.write (hex! j "d"))
  | "insert" => some (.insert (nat! j "p") (hex! j "d"))
  | "remove" => some (.remove (nat! j "s") (nat! j "e"))
  | "resize" => some (.resize (nat! j "n"))
  | "extend" => some (.extend (nat! j "n"))
  | _ => none

/-- one result per operation; an error leaves the state as it was, a panic ends the run -/
def opSteps {β : Type} (I : BufImpl β) (view : β → Option Bytes) : List Op → β → List Json
  | [], _ => []
  | op :: rest, b =>
    match (Prog.ofOps [op]).run I b with
    | .ok (b', _) =>
      match view b' with
      | some v => jdone v none :: opSteps I view rest b'
      | none => [jpanic]
    | .err e => cerr e :: opSteps I view rest b
    | .panic _ => [jpanic]

def runBufOps (j : Json) : Json :=
  let cap := nat! j "cap"
  let init := hex! j "init"
  let ops := (arr! j "ops").filterMap opOf
  if init.length > cap then jerr "init longer than cap" else
  let growable := Json.arr (opSteps specImpl (fun b => some b.data) ops ⟨init, none⟩).toArray
  let writer := opSteps (writerImpl writerFixed) (fun w => match w.view with | .ok v => some v | _ => none) ops
    (writerOf init cap (nat! j "stale"))
  Json.mkObj [("vec", growable), ("secret", growable), ("writer", .arr writer.toArray)]

def guardJson (crate : Bool) : Option Err → Json
  | none => .str "ok"
  | some e => jerr (if crate then crateKindName e.kind else kindName e.kind)

def runMisc (j : Json) : Json :=
  .arr ((arr! j "probes").map fun p =>
    match str! p "p" with
    | "from_seed" => guardJson false (fromSeedGuard (strOpt p "method") (hex! p "seed").length)
    | "argon2_new" => guardJson true (argon2NewGuard (nat! p "salt_len"))
    | _ => jerr "unknown probe").toArray

def selfTests : Json :=
  Json.mkObj [("sha2", .bool Sha2.selfTest), ("hmac", .bool Hmac.selfTest), ("aes", .bool Aes.selfTest),
              ("cbc", .bool Cbc.selfTest), ("keywrap", .bool KeyWrap.selfTest), ("gcm", .bool Gcm.selfTest),
              ("chacha20", .bool ChaCha20.selfTest), ("poly1305", .bool Poly1305.selfTest),
              ("chachapoly", .bool ChaChaPoly.selfTest), ("concatkdf", .bool ConcatKdf.selfTest)]

def runCase (j : Json) : Json :=
  match str! j "kind" with
  | "c12:selftest" => selfTests
  | "c12:buf" => runBuf j
  | "c12:bufops" => runBufOps j
  | "c12:misc" => runMisc j
  | "c12:keylens" =>
    match algOf (str! j "alg") with
    | none => jerr "bad alg"
    | some alg =>
      rle ((List.range (nat! j "max" + 1)).map fun n => code (fun (_ : Key) => "ok") (fromSecretBytes alg (pattern (nat! j "fill") n)))
  | _ =>
    match algOf (str! j "alg") with
    | none => jerr "bad alg"
    | some alg =>
      match fromSecretBytes alg (hex! j "key") with
      | .ok k => .arr ((Json.str "ok") :: (arr! j "ops").map (runOp k)).toArray
      | .err e => .arr (jerr2 e :: (arr! j "ops").map fun _ => Json.null).toArray
      | .panic p => Json.mkObj [("panic", .str (reprStr p))]

end Driver.C12
