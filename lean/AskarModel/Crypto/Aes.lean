/-
AES-128 / AES-192 / AES-256 block cipher — executable SPECIFICATION written from FIPS 197 (not from the Rust).

The S-box is *computed* from its definition (§5.1.1: multiplicative inverse in GF(2^8) followed by
the affine map), the round constants from §5.2; `Cipher`, `InvCipher` and `KeyExpansion` follow
Fig. 5, 12 and 11.  ORACLE for differential runs; validated against FIPS 197 Appendix C in
`selfTest` (THESE ARE TESTS).  The state is the 16-byte array in input order (s[r,c] = in[r + 4c]).
-/
import AskarModel.Crypto.Sha2

namespace Askar.Crypto.Aes

/-- §4.2.1: multiplication by x modulo x^8 + x^4 + x^3 + x + 1 -/
@[inline] def xtime (a : UInt8) : UInt8 := (a <<< 1) ^^^ (if a &&& 0x80 != 0 then 0x1b else 0)

/-- §4.2: multiplication in GF(2^8) -/
def gmul (a b : UInt8) : UInt8 := Id.run do
  let mut p : UInt8 := 0
  let mut x := a
  let mut y := b
  for _ in [0:8] do
    if y &&& 1 != 0 then p := p ^^^ x
    x := xtime x
    y := y >>> 1
  return p

/-- multiplicative inverse (0 ↦ 0) by search -/
def ginv (a : UInt8) : UInt8 :=
  if a == 0 then 0 else
    match (List.range 256).find? fun y => gmul a (UInt8.ofNat y) == 1 with
    | some y => UInt8.ofNat y
    | none => 0

@[inline] def rotl8 (x : UInt8) (n : UInt8) : UInt8 := (x <<< n) ||| (x >>> (8 - n))

/-- §5.1.1 -/
def sboxAt (a : UInt8) : UInt8 :=
  let b := ginv a
  b ^^^ rotl8 b 1 ^^^ rotl8 b 2 ^^^ rotl8 b 3 ^^^ rotl8 b 4 ^^^ 0x63

def sbox : ByteArray := ((List.range 256).map fun i => sboxAt (UInt8.ofNat i)).toByteArray

def invSbox : ByteArray := Id.run do
  let mut t := (List.replicate 256 (0 : UInt8)).toByteArray
  for i in [0:256] do
    t := t.set! (sbox.get! i).toNat (UInt8.ofNat i)
  return t

/-- §5.2: Rcon[i] = x^(i-1), i ≥ 1 -/
def rcon (i : Nat) : UInt8 := Id.run do
  let mut r : UInt8 := 1
  for _ in [1:i] do
    r := xtime r
  return r

/-- §5.2 KeyExpansion; the schedule is returned as 16·(Nr+1) bytes.  Nk = key.size / 4 ∈ {4, 6, 8}. -/
def expandKey (key : ByteArray) : ByteArray := Id.run do
  let nk := key.size / 4
  let nr := nk + 6
  let mut w := key.extract 0 (4 * nk)
  for i in [nk:4 * (nr + 1)] do
    let mut t0 := w.get! (4 * (i - 1))
    let mut t1 := w.get! (4 * (i - 1) + 1)
    let mut t2 := w.get! (4 * (i - 1) + 2)
    let mut t3 := w.get! (4 * (i - 1) + 3)
    if i % nk == 0 then
      -- SubWord(RotWord(temp)) xor Rcon[i/Nk]
      let r0 := sbox.get! t1.toNat ^^^ rcon (i / nk)
      let r1 := sbox.get! t2.toNat
      let r2 := sbox.get! t3.toNat
      let r3 := sbox.get! t0.toNat
      t0 := r0; t1 := r1; t2 := r2; t3 := r3
    else if nk > 6 && i % nk == 4 then
      t0 := sbox.get! t0.toNat; t1 := sbox.get! t1.toNat; t2 := sbox.get! t2.toNat; t3 := sbox.get! t3.toNat
    w := w.push (w.get! (4 * (i - nk)) ^^^ t0)
    w := w.push (w.get! (4 * (i - nk) + 1) ^^^ t1)
    w := w.push (w.get! (4 * (i - nk) + 2) ^^^ t2)
    w := w.push (w.get! (4 * (i - nk) + 3) ^^^ t3)
  return w

def addRoundKey (s w : ByteArray) (round : Nat) : ByteArray := Id.run do
  let mut o := ByteArray.emptyWithCapacity 16
  for i in [0:16] do
    o := o.push (s.get! i ^^^ w.get! (16 * round + i))
  return o

def subBytes (t s : ByteArray) : ByteArray := Id.run do
  let mut o := ByteArray.emptyWithCapacity 16
  for i in [0:16] do
    o := o.push (t.get! (s.get! i).toNat)
  return o

/-- §5.1.2: row r is rotated left by r; s'[r,c] = s[r,(c+r) mod 4] -/
def shiftRows (s : ByteArray) : ByteArray := Id.run do
  let mut o := ByteArray.emptyWithCapacity 16
  for i in [0:16] do
    let r := i % 4
    let c := i / 4
    o := o.push (s.get! (r + 4 * ((c + r) % 4)))
  return o

/-- §5.3.1: s'[r,c] = s[r,(c−r) mod 4] -/
def invShiftRows (s : ByteArray) : ByteArray := Id.run do
  let mut o := ByteArray.emptyWithCapacity 16
  for i in [0:16] do
    let r := i % 4
    let c := i / 4
    o := o.push (s.get! (r + 4 * ((c + 4 - r) % 4)))
  return o

/-- §5.1.3: each column multiplied by {03}x³ + {01}x² + {01}x + {02} -/
def mixColumns (s : ByteArray) : ByteArray := Id.run do
  let mut o := ByteArray.emptyWithCapacity 16
  for c in [0:4] do
    let a0 := s.get! (4 * c); let a1 := s.get! (4 * c + 1); let a2 := s.get! (4 * c + 2); let a3 := s.get! (4 * c + 3)
    o := o.push (xtime a0 ^^^ (xtime a1 ^^^ a1) ^^^ a2 ^^^ a3)
    o := o.push (a0 ^^^ xtime a1 ^^^ (xtime a2 ^^^ a2) ^^^ a3)
    o := o.push (a0 ^^^ a1 ^^^ xtime a2 ^^^ (xtime a3 ^^^ a3))
    o := o.push ((xtime a0 ^^^ a0) ^^^ a1 ^^^ a2 ^^^ xtime a3)
  return o

/-- §5.3.3: each column multiplied by {0b}x³ + {0d}x² + {09}x + {0e} -/
def invMixColumns (s : ByteArray) : ByteArray := Id.run do
  let mut o := ByteArray.emptyWithCapacity 16
  for c in [0:4] do
    let a0 := s.get! (4 * c); let a1 := s.get! (4 * c + 1); let a2 := s.get! (4 * c + 2); let a3 := s.get! (4 * c + 3)
    o := o.push (gmul a0 0x0e ^^^ gmul a1 0x0b ^^^ gmul a2 0x0d ^^^ gmul a3 0x09)
    o := o.push (gmul a0 0x09 ^^^ gmul a1 0x0e ^^^ gmul a2 0x0b ^^^ gmul a3 0x0d)
    o := o.push (gmul a0 0x0d ^^^ gmul a1 0x09 ^^^ gmul a2 0x0e ^^^ gmul a3 0x0b)
    o := o.push (gmul a0 0x0b ^^^ gmul a1 0x0d ^^^ gmul a2 0x09 ^^^ gmul a3 0x0e)
  return o

/-- Fig. 5 Cipher, with an already expanded key `w` -/
def cipher (w : ByteArray) (input : ByteArray) : ByteArray := Id.run do
  let nr := w.size / 16 - 1
  let mut s := addRoundKey input w 0
  for round in [1:nr] do
    s := addRoundKey (mixColumns (shiftRows (subBytes sbox s))) w round
  return addRoundKey (shiftRows (subBytes sbox s)) w nr

/-- Fig. 12 InvCipher -/
def invCipher (w : ByteArray) (input : ByteArray) : ByteArray := Id.run do
  let nr := w.size / 16 - 1
  let mut s := addRoundKey input w nr
  for i in [1:nr] do
    let round := nr - i
    s := invMixColumns (addRoundKey (subBytes invSbox (invShiftRows s)) w round)
  return addRoundKey (subBytes invSbox (invShiftRows s)) w 0

def encryptBlock (key block : ByteArray) : ByteArray := cipher (expandKey key) block
def decryptBlock (key block : ByteArray) : ByteArray := invCipher (expandKey key) block

def encryptBlockL (key block : List UInt8) : List UInt8 := (encryptBlock key.toByteArray block.toByteArray).toList
def decryptBlockL (key block : List UInt8) : List UInt8 := (decryptBlock key.toByteArray block.toByteArray).toList

def seq (n : Nat) : ByteArray := ((List.range n).map UInt8.ofNat).toByteArray
def ofHexL (s : String) : ByteArray :=
  let v (c : Char) : Nat := if c.toNat ≥ 97 then c.toNat - 87 else if c.toNat ≥ 65 then c.toNat - 55 else c.toNat - 48
  let rec go : List Char → List UInt8
    | a :: b :: r => UInt8.ofNat (v a * 16 + v b) :: go r
    | _ => []
  (go s.toList).toByteArray

/-- TEST: S-box corners (Fig. 7), FIPS 197 Appendix C.1–C.3 in both directions, Appendix B -/
def selfTest : Bool :=
  let h := Sha2.toHex
  let pt := ofHexL "00112233445566778899aabbccddeeff"
  sbox.get! 0 == 0x63 && sbox.get! 0x53 == 0xed && sbox.get! 0xff == 0x16 && invSbox.get! 0x63 == 0 &&
  h (encryptBlock (seq 16) pt) == "69c4e0d86a7b0430d8cdb78070b4c55a" &&
  h (encryptBlock (seq 24) pt) == "dda97ca4864cdfe06eaf70a0ec0d7191" &&
  h (encryptBlock (seq 32) pt) == "8ea2b7ca516745bfeafc49904b496089" &&
  h (decryptBlock (seq 16) (ofHexL "69c4e0d86a7b0430d8cdb78070b4c55a")) == "00112233445566778899aabbccddeeff" &&
  h (decryptBlock (seq 24) (ofHexL "dda97ca4864cdfe06eaf70a0ec0d7191")) == "00112233445566778899aabbccddeeff" &&
  h (decryptBlock (seq 32) (ofHexL "8ea2b7ca516745bfeafc49904b496089")) == "00112233445566778899aabbccddeeff" &&
  h (encryptBlock (ofHexL "2b7e151628aed2a6abf7158809cf4f3c") (ofHexL "3243f6a8885a308d313198a2e0370734")) == "3925841d02dc09fbdc118597196a0b32"

end Askar.Crypto.Aes
