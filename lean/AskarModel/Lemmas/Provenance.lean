/-
Helper lemmas for Props/C02.lean (provenance model, Model/Provenance.lean).
-/
import AskarModel.Model.Provenance

namespace Askar.Provenance
open Askar.Wql Askar.Store

/-- `Good allowKey a`: `a` is not a plaintext secret — except, when `allowKey`, the unwrapped profile key
    (which a store with key method `none` stores by design). -/
def Good (allowKey : Bool) (a : Arg) : Prop := ∀ f, a.prov = .secretPlain f → (allowKey = true ∧ f = .profileKey)

def AllGood (b : Bool) (l : List Arg) : Prop := ∀ a ∈ l, Good b a

namespace Lemmas

theorem good_of_not_secret {b : Bool} {a : Arg} (h : a.prov.isSecretPlain = false) : Good b a := by
  intro f hf; rw [hf] at h; simp [Prov.isSecretPlain] at h

@[simp] theorem good_searchable (b : Bool) (C : Crypto) (k f x) : Good b (C.searchable k f x) := by
  intro f' h; simp [Crypto.searchable] at h
@[simp] theorem good_sealValue (b : Bool) (C : Crypto) (k c n r v) : Good b (C.sealValue k c n r v) := by
  intro f' h; simp [Crypto.sealValue] at h
@[simp] theorem good_metaStr (b : Bool) (s) : Good b (Src.metaStr s) := by intro f h; simp [Src.metaStr] at h
@[simp] theorem good_nat (b : Bool) (n) : Good b (Src.nat n) := by simp [Src.nat]
@[simp] theorem good_null (b : Bool) : Good b Src.null := by simp [Src.null]
@[simp] theorem good_optNat (b : Bool) (n) : Good b (Src.optNat n) := by cases n <;> simp [Src.optNat]
@[simp] theorem good_flag (b : Bool) (p) : Good b (Src.flag p) := by simp [Src.flag]
@[simp] theorem good_profileName (b : Bool) (s) : Good b (Src.profileName s) := by
  intro f h; simp [Src.profileName] at h
@[simp] theorem good_plainTagValue (b : Bool) (s) : Good b (Src.tagValue true s) := by
  intro f h; simp [Src.tagValue] at h
@[simp] theorem good_valueArg (b : Bool) (C : Crypto) (k p v) : Good b (valueArg C k p v) := by
  unfold valueArg; split <;> simp_all
@[simp] theorem good_nameArg (b : Bool) (C : Crypto) (k n) : Good b (nameArg C k n) := by simp [nameArg]
@[simp] theorem good_prefix12 (b : Bool) (a : Arg) (h : Good b a) : Good b a.prefix12 := by
  intro f hf; exact h f (by simpa [Arg.prefix12] using hf)

/-- the wrapped profile key is good when there is a store key, or when the unwrapped key is tolerated -/
theorem good_wrap (b : Bool) (C : Crypto) (sk : Option Nat) (r k) (h : b = false → sk.isSome) :
    Good b (C.wrap sk r (Src.profileKey C k)) := by
  intro f hf
  cases sk with
  | none =>
    cases b with
    | false => simp at h
    | true => simp [Crypto.wrap, Src.profileKey] at hf; exact ⟨rfl, hf.symm⟩
  | some s => simp [Crypto.wrap] at hf

@[simp] theorem allGood_nil (b) : AllGood b [] := by intro a h; cases h
theorem allGood_append {b l₁ l₂} : AllGood b (l₁ ++ l₂) ↔ AllGood b l₁ ∧ AllGood b l₂ := by
  simp [AllGood, List.mem_append, or_imp, forall_and]
theorem allGood_cons {b a l} : AllGood b (a :: l) ↔ Good b a ∧ AllGood b l := by
  simp [AllGood]

/-! #### filter arguments -/

theorem opArgs_good (b : Bool) (C : Crypto) (k op n v) : AllGood b (opArgs C k op n v) := by
  unfold opArgs
  simp only
  split
  · split <;> simp [allGood_cons]
  · simp [allGood_cons]

mutual
theorem filterArgs_good (b : Bool) (C : Crypto) (k : Nat) : ∀ q, AllGood b (filterArgs C k q)
  | .and qs => by simpa [filterArgs] using filterArgsList_good b C k qs
  | .or qs => by simpa [filterArgs] using filterArgsList_good b C k qs
  | .not q => by simpa [filterArgs] using filterArgs_good b C k q
  | .cmp op n v => by simpa [filterArgs] using opArgs_good b C k op n v
  | .isIn n vs => by
    simp only [filterArgs, allGood_cons, good_nameArg, true_and]
    intro a ha; simp only [List.mem_map] at ha; obtain ⟨v, _, rfl⟩ := ha; simp
  | .exist ns => by
    simp only [filterArgs]
    intro a ha; simp only [List.mem_map] at ha; obtain ⟨v, _, rfl⟩ := ha; simp
theorem filterArgsList_good (b : Bool) (C : Crypto) (k : Nat) : ∀ qs, AllGood b (filterArgsList C k qs)
  | [] => by simp [filterArgsList]
  | q :: qs => by
    simp only [filterArgsList, allGood_append]
    exact ⟨filterArgs_good b C k q, filterArgsList_good b C k qs⟩
end

theorem encodeFilter_good (b : Bool) (C : Crypto) (k f) : AllGood b (encodeFilter C k f).2 := by
  unfold encodeFilter; split
  · simp
  · exact filterArgs_good b C k _

/-! #### every operation binds good arguments only and keeps the store key -/

def BG (b : Bool) (x : Ctx) : Prop := AllGood b x.bound

theorem bind_good {b x as} (h : BG b x) (ha : AllGood b as) : BG b (x.bind as) := by
  simp only [BG, Ctx.bind, allGood_append]; exact ⟨h, ha⟩

theorem resolveP_good {b s x p} (h : BG b x) :
    BG b (resolveP s x p).2.1 ∧ (resolveP s x p).1.storeKey = s.storeKey := by
  unfold resolveP
  split
  · exact ⟨h, rfl⟩
  · simp only [sqlSelectProfile]
    split <;> exact ⟨bind_good h (by simp [allGood_cons]), rfl⟩

theorem insertTags_good (b : Bool) (C : Crypto) (k : Nat) (id : Nat) :
    ∀ (ts : List Tag) (db : PDb), AllGood b (insertTags db id (ts.map (encryptTag C k))).2
  | [], db => by simp [insertTags]
  | t :: ts, db => by
    simp only [List.map, insertTags, encryptTag, sqlInsertTag, allGood_append, allGood_cons]
    refine ⟨⟨by simp, by simp, ?_, by simp, by simp⟩, insertTags_good b C k id ts _⟩
    split <;> simp

theorem encTags_good (b : Bool) (C : Crypto) (k id : Nat) (tags : Option (List Tag)) (db : PDb) :
    AllGood b (insertTags db id ((tags.map fun ts => ts.map (encryptTag C k)).getD [])).2 := by
  cases tags with
  | none => simp [insertTags]
  | some ts => exact insertTags_good b C k id ts db

end Lemmas
end Askar.Provenance
