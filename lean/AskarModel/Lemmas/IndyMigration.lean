/-
Helper lemmas for the failure semantics of the Indy migration (C18): `migrateFile` of Model/IndyMigration.lean.
The master lemma is `migrateFile_cases`: a run ends in exactly one of three ways — refused before anything is written,
failed after `pre_upgrade` (what is left depends on the variant), or complete.
-/
import AskarModel.Lemmas.Copy

namespace Askar.Indy
open Askar.Store Askar.Wql Askar.Copy

namespace Lemmas

/-! ### `fetch_indy_key` -/

theorem masterKey_error (P : KeyPrims) (kdf : Kdf) (wk : String) (salt : Option Bytes) (e : Err)
    (h : masterKey P kdf wk salt = .error e) : e = .input := by
  unfold masterKey at h
  split at h
  · split at h
    · cases h; rfl
    · split at h
      · cases h
      · cases h; rfl
  · split at h
    · cases h; rfl
    · cases h

/-- the classification of `fetch_indy_key`'s failures -/
theorem fetchIndyKey_error (A : Aead) (P : KeyPrims) (kdf : Kdf) (wk : String) (m : Meta) (e : Err)
    (h : fetchIndyKey A P kdf wk m = .error e) :
    (e = .backend ∧ m = .noRow) ∨ (e = .panic ∧ ∃ k s, m = .json k (some s) ∧ s.length < saltLen) ∨ e = .input := by
  cases m with
  | noRow => simp only [fetchIndyKey] at h; cases h; exact .inl ⟨rfl, rfl⟩
  | notJson => simp only [fetchIndyKey] at h; cases h; exact .inr (.inr rfl)
  | json k salt =>
    cases salt with
    | none =>
      simp only [fetchIndyKey] at h
      split at h
      · rename_i e' hm; cases h; exact .inr (.inr (masterKey_error P kdf wk _ _ hm))
      · split at h
        · cases h; exact .inr (.inr rfl)
        · split at h
          · cases h; exact .inr (.inr rfl)
          · split at h
            · cases h; exact .inr (.inr rfl)
            · cases h
    | some s =>
      by_cases hs : s.length < saltLen
      · simp only [fetchIndyKey, hs, if_true] at h
        cases h
        exact .inr (.inl ⟨rfl, k, s, rfl, hs⟩)
      · simp only [fetchIndyKey, hs, if_false] at h
        split at h
        · rename_i e' hm; cases h; exact .inr (.inr (masterKey_error P kdf wk _ _ hm))
        · split at h
          · cases h; exact .inr (.inr rfl)
          · split at h
            · cases h; exact .inr (.inr rfl)
            · split at h
              · cases h; exact .inr (.inr rfl)
              · cases h

/-- `s[..16]` panics exactly on a salt shorter than 16 bytes — whatever the method, the key and the key record -/
theorem fetchIndyKey_panics_iff (A : Aead) (P : KeyPrims) (kdf : Kdf) (wk : String) (m : Meta) :
    fetchIndyKey A P kdf wk m = .error .panic ↔ ∃ k s, m = .json k (some s) ∧ s.length < saltLen := by
  constructor
  · intro h
    rcases fetchIndyKey_error A P kdf wk m .panic h with ⟨h1, _⟩ | ⟨_, h2⟩ | h3
    · cases h1
    · exact h2
    · cases h3
  · rintro ⟨k, s, rfl, hs⟩
    simp only [fetchIndyKey, hs, if_true]

/-- the wallet key (or the method) does not open the key record: Input -/
theorem fetchIndyKey_wrong_key (A : Aead) (P : KeyPrims) (kdf : Kdf) (wk : String) (keysEnc : Bytes) (salt : Option Bytes)
    (master : Bytes) (hs : ∀ s, salt = some s → saltLen ≤ s.length)
    (hmaster : masterKey P kdf wk (salt.map (·.take saltLen)) = .ok master)
    (hdec : A.dec master (keysEnc.take nonceLen) (keysEnc.drop nonceLen) = none) :
    fetchIndyKey A P kdf wk (.json keysEnc salt) = .error .input := by
  cases salt with
  | none =>
    simp only [Option.map_none] at hmaster
    simp only [fetchIndyKey, hmaster, hdec]
    split <;> rfl
  | some s =>
    have : ¬ s.length < saltLen := Nat.not_lt.mpr (hs s rfl)
    simp only [Option.map_some] at hmaster
    simp only [fetchIndyKey, this, if_false, hmaster, hdec]
    split <;> rfl

/-! ### `update_items` -/

theorem updateItems_suffix (A : Aead) (u : Bytes → Option String) (keys : Keys) (pkey : Nat) (fault : Option Nat) :
    ∀ (rows : List Row) (db : Db), (updateItems A u keys pkey fault rows db).1 <:+ rows := by
  intro rows
  induction rows with
  | nil => intro db; simp [updateItems]
  | cons r rest ih =>
    intro db
    simp only [updateItems]
    split
    · exact List.suffix_refl _
    · split
      · exact List.suffix_refl _
      · split
        · exact List.suffix_refl _
        · exact (ih _).trans (List.suffix_cons r rest)

theorem updateItems_ok_nil (A : Aead) (u : Bytes → Option String) (keys : Keys) (pkey : Nat) (fault : Option Nat) :
    ∀ (rows : List Row) (db : Db) (p : List Row) (db' : Db),
      updateItems A u keys pkey fault rows db = (p, db', .ok ()) → p = [] := by
  intro rows
  induction rows with
  | nil => intro db p db' h; simp only [updateItems] at h; cases h; rfl
  | cons r rest ih =>
    intro db p db' h
    simp only [updateItems] at h
    split at h
    · cases h
    · split at h
      · cases h
      · split at h
        · cases h
        · exact ih _ _ _ h

/-- without a fault `update_items` is `migrateRows` -/
theorem updateItems_of_migrateRows (A : Aead) (u : Bytes → Option String) (keys : Keys) (pkey : Nat) :
    ∀ (rows : List Row) (db db' : Db), migrateRows A u keys pkey rows db = .ok db' →
      updateItems A u keys pkey none rows db = ([], db', .ok ()) := by
  intro rows
  induction rows with
  | nil => intro db db' h; simp only [migrateRows] at h; cases h; rfl
  | cons r rest ih =>
    intro db db' h
    simp only [migrateRows] at h
    simp only [updateItems]
    cases hdec : decryptItem A u keys r with
    | error e => rw [hdec] at h; cases h
    | ok it =>
      rw [hdec] at h
      simp only at h ⊢
      cases hins : insertMigrated u pkey db it with
      | error e => rw [hins] at h; cases h
      | ok db1 =>
        rw [hins] at h
        simp only at h ⊢
        have : ¬ ((none : Option Nat) = some r.id) := by simp
        simp only [this, if_false]
        exact ih _ _ h

/-- and conversely: a successful `update_items` is a successful `migrateRows` -/
theorem migrateRows_of_updateItems (A : Aead) (u : Bytes → Option String) (keys : Keys) (pkey : Nat) (fault : Option Nat) :
    ∀ (rows : List Row) (db : Db) (p : List Row) (db' : Db),
      updateItems A u keys pkey fault rows db = (p, db', .ok ()) → migrateRows A u keys pkey rows db = .ok db' := by
  intro rows
  induction rows with
  | nil => intro db p db' h; simp only [updateItems] at h; cases h; rfl
  | cons r rest ih =>
    intro db p db' h
    simp only [updateItems] at h
    simp only [migrateRows]
    cases hdec : decryptItem A u keys r with
    | error e => rw [hdec] at h; cases h
    | ok it =>
      rw [hdec] at h
      simp only at h ⊢
      cases hins : insertMigrated u pkey db it with
      | error e => rw [hins] at h; cases h
      | ok db1 =>
        rw [hins] at h
        simp only at h ⊢
        split at h
        · cases h
        · exact ih _ _ _ h

/-! ### `migrate` on the file -/

/-- the store `migrate` writes when everything goes through -/
def finished (a : Args) (kdf : Kdf) (f : File) (db' : Db) : File :=
  { hasMeta := false, mval := .noRow, upgraded := true, pending := [],
    config := [("default_profile", a.walletName),
               ("key", keyUri kdf (match f.mval with | .json _ (some s) => some (s.take saltLen) | _ => none)),
               ("version", "1")],
    db := db' }

theorem migrateFile_bad_kdf (g : Bool) (A : Aead) (u : Bytes → Option String) (P : KeyPrims) (fault : Option Nat)
    (a : Args) (f : File) (hk : Kdf.parse a.kdf = none) : migrateFile g A u P fault a f = (f, .error .input) := by
  unfold migrateFile; simp only [hk]

theorem migrateFile_refused (g : Bool) (A : Aead) (u : Bytes → Option String) (P : KeyPrims) (fault : Option Nat)
    (a : Args) (f : File) (kdf : Kdf) (hk : Kdf.parse a.kdf = some kdf) (h : f.hasMeta = false ∨ f.upgraded = true) :
    migrateFile g A u P fault a f = (f, .error .backend) := by
  unfold migrateFile
  simp only [hk]
  rcases h with h | h
  · simp [h]
  · cases hm : f.hasMeta <;> simp [h]

/-- a failure of `fetch_indy_key`: the single-transaction variant gives the wallet back, the current code leaves the
    Askar tables behind -/
theorem key_failure (g : Bool) (A : Aead) (u : Bytes → Option String) (P : KeyPrims) (fault : Option Nat)
    (a : Args) (f : File) (kdf : Kdf) (e : Err) (hk : Kdf.parse a.kdf = some kdf)
    (hm : f.hasMeta = true) (hu : f.upgraded = false)
    (hf : fetchIndyKey A P kdf a.walletKey f.mval = .error e) :
    migrateFile g A u P fault a f = (if g then f else { f with upgraded := true }, .error e) := by
  unfold migrateFile
  simp only [hk, hm, hu, Bool.not_true, Bool.false_eq_true, if_false, hf]

/-- what the current code leaves after a failure among the items -/
def stuckAt (a : Args) (kdf : Kdf) (f : File) (p' : List Row) (db' : Db) : File :=
  { f with upgraded := true, pending := p', db := db',
           config := [("default_profile", a.walletName),
                      ("key", keyUri kdf (match f.mval with | .json _ (some s) => some (s.take saltLen) | _ => none))] }

theorem items_failure (g : Bool) (A : Aead) (u : Bytes → Option String) (P : KeyPrims) (fault : Option Nat)
    (a : Args) (f : File) (kdf : Kdf) (keys : Keys) (p' : List Row) (db' : Db) (e : Err)
    (hk : Kdf.parse a.kdf = some kdf) (hm : f.hasMeta = true) (hu : f.upgraded = false)
    (hf : fetchIndyKey A P kdf a.walletKey f.mval = .ok keys)
    (hup : updateItems A u keys a.pkey fault f.pending { profiles := [⟨1, a.walletName, a.pkey⟩] } = (p', db', .error e)) :
    migrateFile g A u P fault a f = (if g then f else stuckAt a kdf f p' db', .error e) := by
  unfold migrateFile
  simp only [hk, hm, hu, Bool.not_true, Bool.false_eq_true, if_false, hf, hup, stuckAt]
  rfl

theorem migrate_complete (g : Bool) (A : Aead) (u : Bytes → Option String) (P : KeyPrims) (fault : Option Nat)
    (a : Args) (f : File) (kdf : Kdf) (keys : Keys) (p' : List Row) (db' : Db)
    (hk : Kdf.parse a.kdf = some kdf) (hm : f.hasMeta = true) (hu : f.upgraded = false)
    (hf : fetchIndyKey A P kdf a.walletKey f.mval = .ok keys)
    (hup : updateItems A u keys a.pkey fault f.pending { profiles := [⟨1, a.walletName, a.pkey⟩] } = (p', db', .ok ())) :
    migrateFile g A u P fault a f = (finished a kdf f db', .ok ()) := by
  unfold migrateFile
  simp only [hk, hm, hu, Bool.not_true, Bool.false_eq_true, if_false, hf, hup, finished, List.cons_append, List.nil_append]
  rfl

/-- **master lemma**: the three ways a run ends. -/
theorem migrateFile_cases (g : Bool) (A : Aead) (u : Bytes → Option String) (P : KeyPrims) (fault : Option Nat)
    (a : Args) (f : File) :
    -- refused: bad method name, already migrated, or half migrated — nothing written
    (∃ e, migrateFile g A u P fault a f = (f, .error e) ∧
       ((Kdf.parse a.kdf = none ∧ e = .input) ∨
        (Kdf.parse a.kdf ≠ none ∧ (f.hasMeta = false ∨ f.upgraded = true) ∧ e = .backend))) ∨
    -- failed after `pre_upgrade`
    (∃ kdf cur e, Kdf.parse a.kdf = some kdf ∧ f.hasMeta = true ∧ f.upgraded = false ∧
       migrateFile g A u P fault a f = (if g then f else cur, .error e) ∧
       cur.hasMeta = true ∧ cur.upgraded = true ∧ cur.mval = f.mval ∧ cur.pending <:+ f.pending ∧
       ((fetchIndyKey A P kdf a.walletKey f.mval = .error e ∧ cur = { f with upgraded := true }) ∨
        (∃ keys, fetchIndyKey A P kdf a.walletKey f.mval = .ok keys ∧
           (updateItems A u keys a.pkey fault f.pending { profiles := [⟨1, a.walletName, a.pkey⟩] }).2.2 = .error e))) ∨
    -- complete
    (∃ kdf keys db', Kdf.parse a.kdf = some kdf ∧ f.hasMeta = true ∧ f.upgraded = false ∧
       fetchIndyKey A P kdf a.walletKey f.mval = .ok keys ∧
       updateItems A u keys a.pkey fault f.pending { profiles := [⟨1, a.walletName, a.pkey⟩] } = ([], db', .ok ()) ∧
       migrateFile g A u P fault a f = (finished a kdf f db', .ok ())) := by
  cases hk : Kdf.parse a.kdf with
  | none => exact .inl ⟨.input, migrateFile_bad_kdf g A u P fault a f hk, .inl ⟨rfl, rfl⟩⟩
  | some kdf =>
    by_cases hm : f.hasMeta = true
    · by_cases hu : f.upgraded = true
      · exact .inl ⟨.backend, migrateFile_refused g A u P fault a f kdf hk (.inr hu), .inr ⟨by simp, .inr hu, rfl⟩⟩
      · have hu : f.upgraded = false := by simpa using hu
        cases hf : fetchIndyKey A P kdf a.walletKey f.mval with
        | error e =>
          exact .inr (.inl ⟨kdf, { f with upgraded := true }, e, rfl, hm, hu, key_failure g A u P fault a f kdf e hk hm hu hf,
            hm, rfl, rfl, List.suffix_refl _, .inl ⟨hf, rfl⟩⟩)
        | ok keys =>
          generalize hup : updateItems A u keys a.pkey fault f.pending { profiles := [⟨1, a.walletName, a.pkey⟩] } = res
          obtain ⟨p', db', r⟩ := res
          have hsuf := updateItems_suffix A u keys a.pkey fault f.pending { profiles := [⟨1, a.walletName, a.pkey⟩] }
          rw [hup] at hsuf
          cases r with
          | error e =>
            exact .inr (.inl ⟨kdf, stuckAt a kdf f p' db', e, rfl, hm, hu, items_failure g A u P fault a f kdf keys p' db' e hk hm hu hf hup,
              hm, rfl, rfl, hsuf, .inr ⟨keys, hf, by rw [hup]⟩⟩)
          | ok v =>
            cases v
            have hp := updateItems_ok_nil A u keys a.pkey fault _ _ _ _ hup
            subst hp
            exact .inr (.inr ⟨kdf, keys, db', rfl, hm, hu, hf, hup, migrate_complete g A u P fault a f kdf keys [] db' hk hm hu hf hup⟩)
    · have hm : f.hasMeta = false := by simpa using hm
      exact .inl ⟨.backend, migrateFile_refused g A u P fault a f kdf hk (.inl hm), .inr ⟨by simp, .inl hm, rfl⟩⟩

theorem finished_isAskar (a : Args) (kdf : Kdf) (f : File) (db' : Db) : (finished a kdf f db').isAskar := by
  simp [finished, File.isAskar]

/-- all-or-nothing of the single-transaction variant -/
theorem migrate_all_or_nothing_true (A : Aead) (u : Bytes → Option String) (P : KeyPrims) (fault : Option Nat)
    (a : Args) (f f' : File) (e : Err) (h : migrateFile true A u P fault a f = (f', .error e)) : f' = f := by
  rcases migrateFile_cases true A u P fault a f with ⟨e', h1, _⟩ | ⟨kdf, cur, e', _, _, _, h2, _⟩ | ⟨kdf, keys, db', _, _, _, _, _, h3⟩
  · rw [h1] at h; cases h; rfl
  · rw [h2] at h; simp only [if_true] at h; cases h; rfl
  · rw [h3] at h; cases h

/-- success: the file was an un-upgraded wallet and is now a complete store holding what `migrateRows` yields -/
theorem migrate_ok_complete (g : Bool) (A : Aead) (u : Bytes → Option String) (P : KeyPrims) (fault : Option Nat)
    (a : Args) (f f' : File) (h : migrateFile g A u P fault a f = (f', .ok ())) :
    f.hasMeta = true ∧ f.upgraded = false ∧ f'.isAskar ∧
    ∃ kdf keys, Kdf.parse a.kdf = some kdf ∧ fetchIndyKey A P kdf a.walletKey f.mval = .ok keys ∧
      migrateRows A u keys a.pkey f.pending { profiles := [⟨1, a.walletName, a.pkey⟩] } = .ok f'.db := by
  rcases migrateFile_cases g A u P fault a f with ⟨e', h1, _⟩ | ⟨kdf, cur, e', _, _, _, h2, _⟩ | ⟨kdf, keys, db', hk, hm, hu, hf, hup, h3⟩
  · rw [h1] at h; cases h
  · rw [h2] at h; cases h
  · rw [h3] at h
    cases h
    exact ⟨hm, hu, finished_isAskar a kdf f db', kdf, keys, hk, hf, migrateRows_of_updateItems A u keys a.pkey fault _ _ _ _ hup⟩

/-- a migrated file refuses every further run and is not changed by it -/
theorem migrated_refuses (g : Bool) (A : Aead) (u : Bytes → Option String) (P : KeyPrims) (fault : Option Nat)
    (a : Args) (f : File) (hm : f.hasMeta = false) :
    migrateFile g A u P fault a f = (f, .error (if (Kdf.parse a.kdf).isSome then .backend else .input)) := by
  unfold migrateFile
  cases hk : Kdf.parse a.kdf with
  | none => simp
  | some kdf => simp [hm]

/-- a half-migrated file (left by a failed run of the current code) refuses every further run -/
theorem half_migrated_refuses (g : Bool) (A : Aead) (u : Bytes → Option String) (P : KeyPrims) (fault : Option Nat)
    (a : Args) (f : File) (hu : f.upgraded = true) :
    migrateFile g A u P fault a f = (f, .error (if (Kdf.parse a.kdf).isSome then .backend else .input)) := by
  unfold migrateFile
  cases hk : Kdf.parse a.kdf with
  | none => simp
  | some kdf =>
    cases hm : f.hasMeta <;> simp [hu]

/-- the complete run on an untouched wallet whose rows encode `recs` (any variant, no fault) -/
theorem migrate_file_exact (g : Bool) (A : Aead) (hA : A.Correct) (u : Bytes → Option String) (P : KeyPrims)
    (a : Args) (f : File) (kdf : Kdf) (keys : Keys) (recs : List Rec)
    (hk : Kdf.parse a.kdf = some kdf) (hm : f.hasMeta = true) (hu : f.upgraded = false)
    (hf : fetchIndyKey A P kdf a.walletKey f.mval = .ok keys)
    (hU : ∀ r ∈ recs, RecDecodes u r)
    (henc : Forall2 (RowEncodes A keys) f.pending recs)
    (huniq : recs.Pairwise (fun x y => ¬(x.typ = y.typ ∧ x.name = y.name))) :
    ∃ f' : File, migrateFile g A u P none a f = (f', .ok ()) ∧ f'.isAskar ∧
      f'.config.map (·.1) = ["default_profile", "key", "version"] ∧
      abs ⟨1, a.pkey⟩ f'.db = recs.map Rec.toEntry ∧
      (∀ it ∈ f'.db.items, it.key = a.pkey ∧ it.expiry = none) ∧
      f'.db.profiles = [⟨1, a.walletName, a.pkey⟩] ∧
      resolve (f'.store a.walletName a.pkey).db (f'.store a.walletName a.pkey).h a.walletName =
        .ok (⟨1, a.pkey⟩, (f'.store a.walletName a.pkey).h) := by
  obtain ⟨db', added, hmr, hitems, hmap, hall, hprof⟩ :=
    migrateRows_encoded A hA u keys a.pkey f.pending recs henc { profiles := [⟨1, a.walletName, a.pkey⟩] } hU huniq (by simp)
  have hup := updateItems_of_migrateRows A u keys a.pkey _ _ _ hmr
  refine ⟨finished a kdf f db', ?_, finished_isAskar a kdf f db', by simp [finished], ?_, ?_, ?_, ?_⟩
  · exact migrate_complete g A u P none a f kdf keys [] db' hk hm hu hf hup
  · simp only [finished, abs, hitems, List.nil_append]
    rw [List.filter_eq_self.mpr (by intro it hit; simp [(hall it hit).1]), hmap]
  · intro it hit
    simp only [finished, hitems, List.nil_append] at hit
    exact ⟨(hall it hit).2.1, (hall it hit).2.2⟩
  · simpa [finished] using hprof
  · simp [File.store, resolve, cacheGet]

theorem macAead_correct : macAead.Correct := ⟨by
  intro k n m
  have hl : (macOf k n m).length = tagLen := by simp [macOf]
  have h0 : ¬ (m ++ macOf k n m).length < tagLen := by simp [hl]
  have h1 : (m ++ macOf k n m).length - tagLen = m.length := by simp [hl]
  simp only [macAead, h0, if_false, h1, List.take_left', List.drop_left', beq_self_eq_true, if_true]⟩

end Lemmas
end Askar.Indy
