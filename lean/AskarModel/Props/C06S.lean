/-
C06 (second engine, C06S): every STORE-LEVEL mutating call — create_profile, remove_profile, set_default_profile,
rekey, the record import of copy_profile / import_scan, provisioning with `recreate` — is all-or-nothing under a
failure of any of its internal SQL statements and under a process kill at any instant, the store stays usable with
the key it had, and acknowledged calls survive.  Model: `AskarModel.Model.StoreFault` (each call = the list of its
statements inside one transaction; fault = index of the failing statement; kill = number of completed steps).
-/
import AskarModel.Lemmas.StoreFault

namespace Askar.StoreFault

/-- For EVERY call, state and statement index `k`: either the call reports an error and database AND handle are exactly
    what they were, or `k` lies beyond the call's last statement and the run is the fault-free run. -/
theorem store_call_all_or_nothing (c : Call) (h : Handle) (st : St) (k : Nat) :
    (∃ e, runCall (some k) h c st = (st, h, .err e)) ∨
    ((stmts h c st).length ≤ k ∧ runCall (some k) h c st = runCall none h c st) :=
  Lemmas.runCall_all_or_nothing k h c st

/-- Whatever makes a call report an error (an injected fault, a statement failing by itself, Duplicate): nothing changed. -/
theorem failed_call_changes_nothing (f : Option Nat) (h : Handle) (c : Call) (st : St)
    (herr : (runCall f h c st).2.2.isErr = true) :
    (runCall f h c st).1 = st ∧ (runCall f h c st).2.1 = h :=
  Lemmas.runCall_err_unchanged f h c st herr

/-- After a failed call every later call (faulted or not) behaves exactly as from the state before it:
    `run (failed :: rest) = run rest`, on the database, on the handle and on every reported result. -/
theorem failed_call_then_usable (f : Option Nat) (h : Handle) (c : Call) (st : St) (rest : List (Call × Option Nat))
    (herr : (runCall f h c st).2.2.isErr = true) :
    (runSeq h st ((c, f) :: rest)).1 = (runSeq h st rest).1 ∧
    (runSeq h st ((c, f) :: rest)).2.1 = (runSeq h st rest).2.1 ∧
    (runSeq h st ((c, f) :: rest)).2.2 = (runCall f h c st).2.2 :: (runSeq h st rest).2.2 := by
  rw [Lemmas.failed_call_then_usable f h c st rest herr]
  exact ⟨rfl, rfl, rfl⟩

/-- "Remains fully usable with its previous key": on a handle that holds the store key of a consistent store, ANY call under
    ANY fault leaves a consistent store whose key is the one the handle holds — the handle keeps reading every profile, a
    profile it creates next is wrapped with the right key, and closing + reopening with that key works (`opens_iff`). -/
theorem store_stays_usable (f : Option Nat) (h : Handle) (c : Call) (st : St)
    (hc : Consistent st) (hh : h.cacheKey = st.storeKey) :
    Consistent (runCall f h c st).1 ∧ (runCall f h c st).2.1.cacheKey = (runCall f h c st).1.storeKey :=
  Lemmas.usable_invariant f h c st hc hh

/-- In a consistent store that contains the opened profile, a key opens the store iff it is the key the config row names. -/
theorem opens_iff_store_key (k : KeyId) (active : String) (st : St) (hc : Consistent st) (ha : st.has active = true) :
    opens k active st = true ↔ k = st.storeKey :=
  Lemmas.opens_iff k active st hc ha

/-- A re-key of a consistent store under ANY fault (any of the per-profile UPDATEs, the config UPDATE, none): the content is
    unchanged, every profile key is wrapped with the key the config row names, the handle's in-memory key is that key
    (swapped only by a committed re-key), exactly one of {old key, new key} opens the store — the new one iff the call
    reported success, the old one (with the database untouched) iff it reported an error. -/
theorem rekey_old_xor_new (f : Option Nat) (h : Handle) (st : St) (new : KeyId) (active : String)
    (hc : Consistent st) (hh : h.cacheKey = st.storeKey) (ha : st.has active = true) (hne : new ≠ st.storeKey) :
    content (runCall f h (.rekey new) st).1 = content st ∧
    Consistent (runCall f h (.rekey new) st).1 ∧
    (runCall f h (.rekey new) st).2.1.cacheKey = (runCall f h (.rekey new) st).1.storeKey ∧
    (opens st.storeKey active (runCall f h (.rekey new) st).1 = true ↔ ¬ opens new active (runCall f h (.rekey new) st).1 = true) ∧
    ((runCall f h (.rekey new) st).2.2 = .ok → opens new active (runCall f h (.rekey new) st).1 = true) ∧
    ((runCall f h (.rekey new) st).2.2.isErr = true →
        opens st.storeKey active (runCall f h (.rekey new) st).1 = true ∧ (runCall f h (.rekey new) st).1 = st) := by
  rcases Lemmas.rekey_result f h new st with ⟨e, he⟩ | he
  · rw [he]
    refine ⟨rfl, hc, hh, Lemmas.opens_xor _ _ active st hc ha hne (Or.inl rfl), ?_, ?_⟩
    · intro h1; cases h1
    · intro _; exact ⟨(Lemmas.opens_iff _ active st hc ha).mpr rfl, rfl⟩
  · rw [he]
    have hc' := Lemmas.consistent_rekeyed new st
    have ha' : (Lemmas.rekeyed new st).has active = true := by rw [Lemmas.has_rekeyed]; exact ha
    refine ⟨Lemmas.content_rekeyed new st, hc', rfl, Lemmas.opens_xor _ _ active _ hc' ha' hne (Or.inr rfl), ?_, ?_⟩
    · intro _; exact (Lemmas.opens_iff _ active _ hc' ha').mpr rfl
    · intro h1; simp [Out.isErr] at h1

/-- A process kill at any step of a re-key (any of its statements, before or after COMMIT): exactly one of the two keys opens,
    every profile is readable with it, and the content is unchanged. -/
theorem rekey_kill_old_xor_new (j : Nat) (h : Handle) (st : St) (new : KeyId) (active : String)
    (hc : Consistent st) (ha : st.has active = true) (hne : new ≠ st.storeKey) :
    content (killCall j h (.rekey new) st) = content st ∧ Consistent (killCall j h (.rekey new) st) ∧
    (opens st.storeKey active (killCall j h (.rekey new) st) = true ↔ ¬ opens new active (killCall j h (.rekey new) st) = true) := by
  rcases Lemmas.killCall_cases j h (.rekey new) st with hk | hk
  · rw [hk]; exact ⟨rfl, hc, Lemmas.opens_xor _ _ active st hc ha hne (Or.inl rfl)⟩
  · rw [hk]
    rcases Lemmas.rekey_result none h new st with ⟨e, he⟩ | he
    · rw [he]; exact ⟨rfl, hc, Lemmas.opens_xor _ _ active st hc ha hne (Or.inl rfl)⟩
    · rw [he]
      have hc' := Lemmas.consistent_rekeyed new st
      have ha' : (Lemmas.rekeyed new st).has active = true := by rw [Lemmas.has_rekeyed]; exact ha
      exact ⟨Lemmas.content_rekeyed new st, hc', Lemmas.opens_xor _ _ active _ hc' ha' hne (Or.inr rfl)⟩

/-- For every call sequence, every number `n` of acknowledged calls and every kill point `j` inside the next call, the reopened
    database is the state after the `n` acknowledged calls, or that state plus the COMPLETE call in flight. -/
theorem acknowledged_calls_survive_kill (cs : List Call) (h : Handle) (st : St) (n j : Nat) :
    crash h st cs n j = afterN h st cs n ∨ crash h st cs n j = afterN h st cs (n + 1) :=
  Lemmas.crash_cases cs h st n j

/-- `copy_profile` under a fault at any statement (0 = the INSERT of its create_profile, 1… = the import transaction): it reports
    an error and every record of the store is what it was — the state is the one before, or the one before plus the (complete)
    creation of an EMPTY target profile — or the fault lies beyond the last statement and the run is the fault-free run. -/
theorem copy_import_all_or_nothing (fault : Option Nat) (h : Handle) (to : String) (recs : List Rec) (st : St) :
    (∃ e, (runCopy fault h to recs st).2 = .err e ∧
        ((runCopy fault h to recs st).1 = st ∨
         (runCopy fault h to recs st).1 = { st with profiles := st.profiles ++ [⟨to, h.cacheKey, []⟩] })) ∨
    runCopy fault h to recs st = runCopy none h to recs st := by
  rcases Lemmas.copy_import_all_or_nothing fault h to recs st with ⟨e, he, hs⟩ | hr
  · refine Or.inl ⟨e, he, ?_⟩
    rcases hs with hs | hs
    · exact Or.inl hs
    · rcases Lemmas.createProfile_state h to st with hc | hc
      · exact Or.inl (hs.trans hc)
      · exact Or.inr (hs.trans hc)
  · exact Or.inr hr

/-- A process kill at any step of `copy_profile`: nothing, the complete create_profile, or the complete copy. -/
theorem copy_kill_all_or_nothing (j : Nat) (h : Handle) (to : String) (recs : List Rec) (st : St) :
    killCopy j h to recs st = st ∨ killCopy j h to recs st = (runCall none h (.createProfile to) st).1 ∨
    killCopy j h to recs st = (runCopy none h to recs st).1 :=
  Lemmas.killCopy_cases j h to recs st

/-- Provisioning over an existing file with `recreate`, killed at any step: the old store, no store, or the complete new one. -/
theorem provision_recreate_kill (j : Nat) (old : Option St) (k : KeyId) (profile : String) :
    provisionKill j old k profile = old ∨ provisionKill j old k profile = none ∨
    provisionKill j old k profile = (provisionRecreate true k profile).1 := by
  unfold provisionKill
  split
  · exact Or.inl rfl
  · exact Or.inr (Or.inl rfl)
  · exact Or.inr (Or.inr rfl)

/-! ### non-vacuity: two profiles, a re-key of four statements (load, two UPDATEs, the config UPDATE) -/

def ex2 : St := ⟨[⟨"p0", 7, [⟨"c", "n", "aa", [(0, "t", "v")]⟩]⟩, ⟨"p1", 7, []⟩], 7, "p0"⟩

example : Consistent ex2 := by
  intro p hp
  simp only [ex2, List.mem_cons, List.mem_nil_iff, or_false] at hp
  rcases hp with rfl | rfl <;> rfl

example : ex2.has "p0" = true := by decide
example : (stmts ⟨7⟩ (.rekey 9) ex2).length = 4 := by decide
-- the second per-profile UPDATE fails: error, nothing changed, the old key opens, the new one does not
example : runCall (some 2) ⟨7⟩ (.rekey 9) ex2 = (ex2, ⟨7⟩, .err .backend) := by decide
example : opens 7 "p0" (runCall (some 2) ⟨7⟩ (.rekey 9) ex2).1 = true ∧ opens 9 "p0" (runCall (some 2) ⟨7⟩ (.rekey 9) ex2).1 = false := by decide
-- the config UPDATE fails
example : runCall (some 3) ⟨7⟩ (.rekey 9) ex2 = (ex2, ⟨7⟩, .err .backend) := by decide
-- beyond the last statement: complete; the new key opens, the old one does not; the handle's key is the new one
example : runCall (some 4) ⟨7⟩ (.rekey 9) ex2 = runCall none ⟨7⟩ (.rekey 9) ex2 := by decide
example : opens 9 "p0" (runCall none ⟨7⟩ (.rekey 9) ex2).1 = true ∧ opens 7 "p0" (runCall none ⟨7⟩ (.rekey 9) ex2).1 = false ∧
    (runCall none ⟨7⟩ (.rekey 9) ex2).2.1 = ⟨9⟩ := by decide
-- what a per-profile COMMIT would leave behind is excluded by the theorems: p0 re-wrapped, p1 and the config row not
example : ¬ Consistent ⟨[⟨"p0", 9, []⟩, ⟨"p1", 7, []⟩], 7, "p0"⟩ := by
  intro h
  have := h ⟨"p0", 9, []⟩ (by simp)
  simp at this
-- a copy whose second record insert fails: the target profile exists and is empty, every other record is untouched
example : runCopy (some 3) ⟨7⟩ "t" [⟨"c", "a", "01", []⟩, ⟨"c", "b", "02", []⟩] ex2 =
    ({ ex2 with profiles := ex2.profiles ++ [⟨"t", 7, []⟩] }, .err .backend) := by decide
example : (runCopy none ⟨7⟩ "t" [⟨"c", "a", "01", []⟩, ⟨"c", "b", "02", []⟩] ex2).2 = .ok := by decide
-- killed one step before the COMMIT of a re-key / right after it
example : killCall 4 ⟨7⟩ (.rekey 9) ex2 = ex2 := by decide
example : (killCall 5 ⟨7⟩ (.rekey 9) ex2).storeKey = 9 := by decide

end Askar.StoreFault
