"""C18 — store copy, profile copy and Indy migration carry over every record."""

SQLITE = "SQLite statement semantics of DESIGN.md 3.2 (rowid = max+1, unique index, DATETIME expiry predicate, one write transaction, WAL readers see the committed state) — assumed in the model, validated against the bundled SQLite by this run"

CFG = {
    "gens": ["C18"],
    "feature": "c18",
    "model_exe": "askar_model_c18",
    "rule": (
        "(a) whole-store copies (Store::copy_to on file targets, backend::copy_store on file and in-memory targets) of stores with 1-4 profiles "
        "(names incl. empty / non-ASCII / case variants; default profile not necessarily the first) and per profile a record count from "
        "{0,1,2,5,7,p-1,p,p+1,2p,2p+1,40,3p+4,100} (p = PAGE_SIZE) of both kinds with colliding + exotic categories/names, 0-9 tags of both kinds "
        "(duplicates, empty, NUL, astral), empty / 300-byte / 30-70 KiB values, some records already expired or expiring tomorrow, for target key "
        "methods raw / none (thorough: + argon2i int / mod); the file target is closed and reopened under its own key before it is dumped; "
        "(b) copy_profile into another store: new profile, existing empty, non-empty (must be refused), only-expired, missing source; "
        "(c) copy_profile inside one file-backed store (new / empty / non-empty / same profile); "
        "(d) a RAISE(ABORT) trigger on the j-th INSERT INTO items of the target (first, last, random, beyond the end) during copy_to (recreate=false on a "
        "pre-provisioned file) and copy_profile; (e) copy_to / copy_store onto an existing store (empty, first or later profile non-empty, default profile "
        "missing, unrelated profile, recreate=true); (f) source whose configured default profile does not exist; (g) expired record in the target under a source identity; "
        "(i) large values as compact specs (a profile of 6-12 records of 120-400 KiB: fewer than PAGE_SIZE rows carrying well over 1 MiB; a profile of PAGE_SIZE+1..+8 records of "
        "40-70 KiB: the first page alone over 1 MiB and more rows after it), both kinds, through copy_profile / copy_to / copy_store — dumps compare values > 512 bytes by length + FNV-1a digest; "
        "every dump is read with fetch_all and cross-checked against the paged Scan dump; "
        "(h) the shipped Indy fixture and Indy wallets written by the harness (RAW / ARGON2I_INT / ARGON2I_MOD, 0-64 items, both tag tables, non-dense ids). "
        "(j) failure semantics of the migration (kind c18:indyx, harness/src/c18_indyx.rs): one generated wallet and a script of ops, the file classified after every op "
        "(indy / askar + dump / mixed + row counts / other / missing): wrong wallet key (another valid raw key, 31/33-byte base58, non-base58, empty, trailing blank, leading '1'; "
        "other passphrases) and wrong method (RAW / ARGON2I_INT / ARGON2I_MOD swapped, invalid names) for each wallet, then the right key; migrate twice (+ wrong key / invalid / other method "
        "on the migrated store); an Askar store, an empty file, a missing file; damaged metadata (salt of 0/1/15/16/17 bytes or none/null on RAW and Argon2i wallets, not JSON, empty, keys missing / "
        "a string / cut to 0,11,12,27,28,266 bytes / bit-flipped / authentic but not the msgpack key record (4 shapes), no row) then repaired; damaged cells (type/name/value/key column and "
        "encrypted/plaintext tag name, encrypted tag value of the first/last/a random row cut to 0,1,11,12,13,27,28,29 bytes, bit-flipped, 31-byte item key, non-UTF-8 tag; sometimes two columns of one "
        "row) then repaired; a RAISE(ABORT) trigger and a SIGKILL (child process stalled by a counting trigger inside `DELETE FROM items_old` of the j-th row; killed when the file shows every earlier "
        "statement committed) at the first/last/a random row, then a re-run. Judged on every case: all-or-nothing (after a failed / panicking / killed attempt the Indy tables hold row for row what they held, "
        "and after the damage is repaired the right key migrates the wallet to exactly its records), refusal kinds for wrong key / method / second run; what migrate answers on a DAMAGED wallet "
        "(error kind or panic) is outside the property's domain and only counted (feat obs:indyx:<panic|err:Kind|ok>:<damage>), the model predicts it. "
        "non-trivial = a copy case whose source holds > PAGE_SIZE live records in some profile, or >= 2 profiles, or that exercises a refusal / fault / existing "
        "target; an Indy case with >= 1 item; an indyx case in which some migrate/kill op ran on an Indy wallet (all generated ones); distinct = hash of the case"
    ),
    "assumptions": [
        SQLITE,
        "AEAD correctness (decryptability) of the entry encryption and key separation between profile keys (abstracted to key identities in the model)",
        "`SELECT name FROM profiles` yields names in byte order (covering index ix_profile_name) — only decides which profiles are already copied when copy_to fails midway; validated by cases (d)/(e)",
        "Indy part: an abstract correct AEAD (dec (enc m) = m) stands for ChaCha20-Poly1305; String::from_utf8 returns the string for the UTF-8 bytes of the wallet's strings; items.id is a primary key; "
        "the GROUP_CONCAT/HEX packing of tag lists and hex::decode are inverse (the packing is executable in the driver, not in the theorem); master-key derivation and msgpack decoding of the key record are a parameter (`unwrapKeys`)",
        "a statement failure injected by a trigger is representative of a backend failure at that statement",
        "indyx: the on-disk state after a failed or killed run is what the committed statements left (SQLite atomic commit / hot-journal rollback); interruption points modelled and exercised: every error exit of "
        "migrate and the deletion of any migrated row (fault, SIGKILL) — not a kill between the tag inserts of one row; base58 / Argon2i / msgpack are parameters of the model (`KeyPrims`), instantiated in the driver by a "
        "base58 decoder and stand-ins; `decrypt_in_place` reports a ciphertext shorter than the tag as Input and any other failure as Encryption (validated by the cut cells)",
    ],
    "trusted_base": [
        "the harness's independent writer/reader of the Indy-SDK SQLite wallet format (schema, nonce||ct||tag columns, per-item keys under the value key, msgpack key record = fixarray(7) of bin8(32), "
        "argon2i13 with the first 16 salt bytes, INT = 4 passes / 32 MiB, MOD = 6 passes / 128 MiB): it is the specification of 'an Indy wallet' for generated wallets; nonces are random (Indy derives searchable nonces by HMAC, irrelevant to decryption)",
        "askar-crypto's ChaCha20-Poly1305 and Argon2i primitives are used by that writer/reader (shared with the code under test; the migration glue in migration/*.rs is not)",
        "corpus/C18/fixture_dump.json: dump of the shipped fixture (it holds no items) produced by the unmodified code and frozen",
    ],
}


def nontrivial(rec):
    case = rec["case"]
    kind = case.get("kind", "")
    feat = rec["impl"].get("feat") or {}
    if kind == "c18:indy":
        return len(case.get("items") or []) >= 1
    if kind == "c18:indyx":
        return any(k.startswith(("migrate:", "kill:")) for k in feat) and case.get("start") == "indy"
    if kind == "c18:fixture":
        return False
    if kind == "c18:copy":
        if case.get("fault") or case.get("dst"):
            return True
        return feat.get("profiles-multi-page", 0) > 0 or feat.get("profiles", 0) >= 2
    return False
