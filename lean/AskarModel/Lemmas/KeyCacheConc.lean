/- Helper lemmas for the key-cache interleaving model (C10 / D35).  Core Lean only. -/
import AskarModel.Model.KeyCacheConc
import AskarModel.Generated.Flags

namespace Askar.KeyCacheConc

/-! ### association lists -/

theorem mem_eraseName {l : List Row} {p : Name} {e : Row} : e ∈ eraseName l p ↔ e ∈ l ∧ e.1 ≠ p := by
  simp [eraseName, List.mem_filter]

theorem mem_insertRow {l : List Row} {p : Name} {v : Pid × KeyId} {e : Row} :
    e ∈ insertRow l p v ↔ e = (p, v) ∨ (e ∈ l ∧ e.1 ≠ p) := by
  simp [insertRow, mem_eraseName]

theorem lookupRow_mem {l : List Row} {p : Name} {v : Pid × KeyId} (h : lookupRow l p = some v) : (p, v) ∈ l := by
  induction l with
  | nil => simp [lookupRow] at h
  | cons a l ih =>
    obtain ⟨q, w⟩ := a
    simp only [lookupRow] at h
    split at h
    · next hq => cases h; subst hq; exact List.mem_cons_self
    · exact List.mem_cons_of_mem _ (ih h)

theorem lookupRow_none {l : List Row} {p : Name} (h : lookupRow l p = none) (v : Pid × KeyId) : (p, v) ∉ l := by
  induction l with
  | nil => simp
  | cons a l ih =>
    obtain ⟨q, w⟩ := a
    simp only [lookupRow] at h
    split at h
    · cases h
    · next hq =>
      intro hm
      rcases List.mem_cons.1 hm with he | hm
      · cases he; exact hq rfl
      · exact ih h hm

theorem lookupRow_none_names {l : List Row} {p : Name} (h : lookupRow l p = none) : p ∉ l.map (·.1) := by
  intro hm
  obtain ⟨e, he, rfl⟩ := List.mem_map.1 hm
  exact lookupRow_none h e.2 he

theorem lookupRow_isSome_of_mem {l : List Row} {p : Name} {v : Pid × KeyId} (h : (p, v) ∈ l) :
    ∃ w, lookupRow l p = some w := by
  cases hl : lookupRow l p with
  | none => exact absurd h (lookupRow_none hl v)
  | some w => exact ⟨w, rfl⟩

/-- unique names make the table a function of the name -/
theorem nodup_functional {l : List Row} (hn : (l.map (·.1)).Nodup) {p : Name} {v w : Pid × KeyId}
    (hv : (p, v) ∈ l) (hw : (p, w) ∈ l) : v = w := by
  induction l with
  | nil => simp at hv
  | cons a l ih =>
    simp only [List.map_cons, List.nodup_cons] at hn
    rcases List.mem_cons.1 hv with hv | hv <;> rcases List.mem_cons.1 hw with hw | hw
    · rw [← hv] at hw; cases hw; rfl
    · exact absurd (List.mem_map.2 ⟨_, hw, by rw [← hv]⟩) hn.1
    · exact absurd (List.mem_map.2 ⟨_, hv, by rw [← hw]⟩) hn.1
    · exact ih hn.2 hv hw

theorem lookupRow_of_mem {l : List Row} (hn : (l.map (·.1)).Nodup) {p : Name} {v : Pid × KeyId}
    (hv : (p, v) ∈ l) : lookupRow l p = some v := by
  obtain ⟨w, hw⟩ := lookupRow_isSome_of_mem hv
  rw [hw, nodup_functional hn (lookupRow_mem hw) hv]

theorem nodup_eraseName {l : List Row} (hn : (l.map (·.1)).Nodup) (p : Name) :
    ((eraseName l p).map (·.1)).Nodup :=
  List.Nodup.sublist (List.Sublist.map _ List.filter_sublist) hn

theorem lookupRow_eraseName_self (l : List Row) (p : Name) : lookupRow (eraseName l p) p = none := by
  cases h : lookupRow (eraseName l p) p with
  | none => rfl
  | some v => exact absurd rfl (mem_eraseName.1 (lookupRow_mem h)).2

theorem lookupRow_eraseName_ne (l : List Row) {p q : Name} (h : q ≠ p) :
    lookupRow (eraseName l p) q = lookupRow l q := by
  induction l with
  | nil => rfl
  | cons a l ih =>
    obtain ⟨r, w⟩ := a
    by_cases hr : r = p
    · have : eraseName ((r, w) :: l) p = eraseName l p := by simp [eraseName, hr]
      rw [this, ih]
      have : r ≠ q := fun e => h (e ▸ hr)
      simp [lookupRow, this]
    · have : eraseName ((r, w) :: l) p = (r, w) :: eraseName l p := by simp [eraseName, hr]
      rw [this]
      simp only [lookupRow, ih]

theorem lookupRow_insertRow_self (l : List Row) (p : Name) (v : Pid × KeyId) :
    lookupRow (insertRow l p v) p = some v := by
  simp [insertRow, lookupRow]

theorem lookupRow_insertRow_ne (l : List Row) {p q : Name} (v : Pid × KeyId) (h : q ≠ p) :
    lookupRow (insertRow l p v) q = lookupRow l q := by
  have : p ≠ q := fun e => h e.symm
  simp [insertRow, lookupRow, this, lookupRow_eraseName_ne l h]

/-! ### the in-flight table -/

theorem getPend_mem {l : List (Tid × Pending)} {t : Tid} {ph : Pending} (h : getPend l t = some ph) : (t, ph) ∈ l := by
  induction l with
  | nil => simp [getPend] at h
  | cons a l ih =>
    obtain ⟨u, x⟩ := a
    simp only [getPend] at h
    split at h
    · next hu => cases h; subst hu; exact List.mem_cons_self
    · exact List.mem_cons_of_mem _ (ih h)

theorem getPend_none {l : List (Tid × Pending)} {t : Tid} (h : getPend l t = none) (ph : Pending) : (t, ph) ∉ l := by
  induction l with
  | nil => simp
  | cons a l ih =>
    obtain ⟨u, x⟩ := a
    simp only [getPend] at h
    split at h
    · cases h
    · next hu =>
      intro hm
      rcases List.mem_cons.1 hm with he | hm
      · cases he; exact hu rfl
      · exact ih h hm

theorem mem_erasePend {l : List (Tid × Pending)} {t u : Tid} {x : Pending} :
    (u, x) ∈ erasePend l t ↔ (u, x) ∈ l ∧ u ≠ t := by
  simp [erasePend, List.mem_filter]

theorem mem_setPend {l : List (Tid × Pending)} {t u : Tid} {ph x : Pending} :
    (u, x) ∈ setPend l t ph ↔ (u = t ∧ x = ph) ∨ ((u, x) ∈ l ∧ u ≠ t) := by
  simp [setPend, mem_erasePend]

theorem getPend_erasePend_ne (l : List (Tid × Pending)) {t u : Tid} (h : u ≠ t) :
    getPend (erasePend l t) u = getPend l u := by
  induction l with
  | nil => rfl
  | cons a l ih =>
    obtain ⟨r, w⟩ := a
    by_cases hr : r = t
    · have : erasePend ((r, w) :: l) t = erasePend l t := by simp [erasePend, hr]
      rw [this, ih]
      have : r ≠ u := fun e => h (e ▸ hr)
      simp [getPend, this]
    · have : erasePend ((r, w) :: l) t = (r, w) :: erasePend l t := by simp [erasePend, hr]
      rw [this]
      simp only [getPend, ih]

theorem getPend_erasePend_self (l : List (Tid × Pending)) (t : Tid) : getPend (erasePend l t) t = none := by
  cases h : getPend (erasePend l t) t with
  | none => rfl
  | some v => exact absurd rfl (mem_erasePend.1 (getPend_mem h)).2

theorem getPend_setPend_self (l : List (Tid × Pending)) (t : Tid) (ph : Pending) :
    getPend (setPend l t ph) t = some ph := by
  simp [setPend, getPend]

theorem getPend_setPend_ne (l : List (Tid × Pending)) {t u : Tid} (ph : Pending) (h : u ≠ t) :
    getPend (setPend l t ph) u = getPend l u := by
  have : t ≠ u := fun e => h e.symm
  simp [setPend, getPend, this, getPend_erasePend_ne l h]

/-- the table is a partial function of the thread id -/
def PendFun (l : List (Tid × Pending)) : Prop := ∀ t ph, (t, ph) ∈ l → getPend l t = some ph

theorem PendFun.erase {l : List (Tid × Pending)} (h : PendFun l) (t : Tid) : PendFun (erasePend l t) := by
  intro u x hm
  obtain ⟨hm, hu⟩ := mem_erasePend.1 hm
  rw [getPend_erasePend_ne l hu]; exact h u x hm

theorem PendFun.set {l : List (Tid × Pending)} (h : PendFun l) (t : Tid) (ph : Pending) : PendFun (setPend l t ph) := by
  intro u x hm
  rcases mem_setPend.1 hm with ⟨rfl, rfl⟩ | ⟨hm, hu⟩
  · exact getPend_setPend_self l u x
  · rw [getPend_setPend_ne l ph hu]; exact h u x hm

/-- a pending remove survives an update of the entry of a thread that is not removing -/
theorem RemPending.set {l : List (Tid × Pending)} (hf : PendFun l) {t : Tid} {ph : Pending} {p : Name}
    (ht : ∀ q f, getPend l t ≠ some (.removeDeleted q f)) (h : RemPending l p) : RemPending (setPend l t ph) p := by
  obtain ⟨u, f, hm⟩ := h
  have hu : u ≠ t := fun e => ht p f (e ▸ hf u _ hm)
  exact ⟨u, f, mem_setPend.2 (Or.inr ⟨hm, hu⟩)⟩

theorem RemPending.erase {l : List (Tid × Pending)} (hf : PendFun l) {t : Tid} {p : Name}
    (ht : ∀ f, getPend l t ≠ some (.removeDeleted p f)) (h : RemPending l p) : RemPending (erasePend l t) p := by
  obtain ⟨u, f, hm⟩ := h
  have hu : u ≠ t := fun e => ht f (e ▸ hf u _ hm)
  exact ⟨u, f, mem_erasePend.2 ⟨hm, hu⟩⟩

/-! ### the invariant is inductive (guard = true) -/

/-- the entry of `t` is replaced by a phase whose obligations hold; `t` is not removing -/
theorem Inv.setPend {s : St} (h : Inv s) (t : Tid) (ph : Pending)
    (ht : ∀ q f, getPend s.pend t ≠ some (.removeDeleted q f))
    (hg : ∀ g, ph.gen = some g → g ≤ s.removals)
    (hi : ∀ g e, ph.insertee = some (g, e) → s.removals = g → e ∈ s.db ∨ RemPending s.pend e.1) :
    Inv { s with pend := setPend s.pend t ph } where
  pendFun := PendFun.set h.pendFun t ph
  dbNodup := h.dbNodup
  cacheOk e he := (h.cacheOk e he).imp id (RemPending.set h.pendFun ht)
  insOk u x g e hm hx hr := by
    rcases mem_setPend.1 hm with ⟨_, rfl⟩ | ⟨hm, _⟩
    · exact (hi g e hx hr).imp id (RemPending.set h.pendFun ht)
    · exact (h.insOk u x g e hm hx hr).imp id (RemPending.set h.pendFun ht)
  genLe u x g hm hx := by
    rcases mem_setPend.1 hm with ⟨_, rfl⟩ | ⟨hm, _⟩
    · exact hg g hx
    · exact h.genLe u x g hm hx

/-- the entry of `t` is dropped; `t` is not removing -/
theorem Inv.erasePend {s : St} (h : Inv s) (t : Tid)
    (ht : ∀ q f, getPend s.pend t ≠ some (.removeDeleted q f)) :
    Inv { s with pend := erasePend s.pend t } where
  pendFun := PendFun.erase h.pendFun t
  dbNodup := h.dbNodup
  cacheOk e he := (h.cacheOk e he).imp id (RemPending.erase h.pendFun (ht _))
  insOk u x g e hm hx hr :=
    (h.insOk u x g e (mem_erasePend.1 hm).1 hx hr).imp id (RemPending.erase h.pendFun (ht _))
  genLe u x g hm hx := h.genLe u x g (mem_erasePend.1 hm).1 hx

/-- a justified entry is put into the cache -/
theorem Inv.cacheInsert {s : St} (h : Inv s) (p : Name) (v : Pid × KeyId)
    (hv : (p, v) ∈ s.db ∨ RemPending s.pend p) :
    Inv { s with cache := insertRow s.cache p v } where
  pendFun := h.pendFun
  dbNodup := h.dbNodup
  cacheOk e he := by
    rcases mem_insertRow.1 he with rfl | ⟨he, _⟩
    · exact hv
    · exact h.cacheOk e he
  insOk := h.insOk
  genLe := h.genLe

/-- the compare-and-insert of a call whose obligation (b) is part of the invariant -/
theorem Inv.guardedInsert {s : St} (h : Inv s) {t : Tid} {ph : Pending} {g0 : Nat} {p : Name} {pid : Pid} {key : KeyId}
    (hm : getPend s.pend t = some ph) (hi : ph.insertee = some (g0, p, pid, key)) :
    Inv { s with cache := guardedInsert true s g0 p pid key } := by
  unfold KeyCacheConc.guardedInsert
  by_cases hr : s.removals = g0
  · have : (true && s.removals != g0) = false := by simp [hr]
    rw [this]
    exact h.cacheInsert p (pid, key) (h.insOk t ph g0 _ (getPend_mem hm) hi hr)
  · have : (true && s.removals != g0) = true := by simp [hr]
    rw [this]
    exact h

/-- INSERT of a row with a new name -/
theorem Inv.dbInsert {s : St} (h : Inv s) (p : Name) (v : Pid × KeyId) (k : Nat) (hp : lookupRow s.db p = none) :
    Inv { s with db := (p, v) :: s.db, nextKey := k } where
  pendFun := h.pendFun
  dbNodup := by
    show ((p, v) :: s.db |>.map (·.1)).Nodup
    rw [List.map_cons, List.nodup_cons]
    exact ⟨lookupRow_none_names hp, h.dbNodup⟩
  cacheOk e he := (h.cacheOk e he).imp (List.mem_cons_of_mem _) id
  insOk u x g e hm hx hr := (h.insOk u x g e hm hx hr).imp (List.mem_cons_of_mem _) id
  genLe := h.genLe

/-- DELETE by a thread that starts a remove -/
theorem Inv.dbDelete {s : St} (h : Inv s) (t : Tid) (p : Name) (f : Bool) (ht : getPend s.pend t = none) :
    Inv { s with db := eraseName s.db p, pend := KeyCacheConc.setPend s.pend t (.removeDeleted p f) } := by
  have ht' : ∀ q f, getPend s.pend t ≠ some (.removeDeleted q f) := by intro q f; rw [ht]; exact nofun
  have key : ∀ e : Row, e ∈ s.db ∨ RemPending s.pend e.1 →
      e ∈ eraseName s.db p ∨ RemPending (KeyCacheConc.setPend s.pend t (.removeDeleted p f)) e.1 := by
    intro e he
    rcases he with he | he
    · by_cases hp : e.1 = p
      · exact Or.inr ⟨t, f, mem_setPend.2 (Or.inl ⟨rfl, by rw [hp]⟩)⟩
      · exact Or.inl (mem_eraseName.2 ⟨he, hp⟩)
    · exact Or.inr (RemPending.set h.pendFun ht' he)
  exact {
    pendFun := PendFun.set h.pendFun t _
    dbNodup := nodup_eraseName h.dbNodup p
    cacheOk := fun e he => key e (h.cacheOk e he)
    insOk := by
      intro u x g e hm hx hr
      rcases mem_setPend.1 hm with ⟨_, rfl⟩ | ⟨hm, _⟩
      · cases hx
      · exact key e (h.insOk u x g e hm hx hr)
    genLe := by
      intro u x g hm hx
      rcases mem_setPend.1 hm with ⟨_, rfl⟩ | ⟨hm, _⟩
      · cases hx
      · exact h.genLe u x g hm hx }

/-- evict + bump by the thread whose remove is pending -/
theorem Inv.evict {s : St} (h : Inv s) (t : Tid) (p : Name) (f : Bool) (ht : getPend s.pend t = some (.removeDeleted p f)) :
    Inv { s with cache := eraseName s.cache p, removals := s.removals + 1, pend := KeyCacheConc.erasePend s.pend t } where
  pendFun := PendFun.erase h.pendFun t
  dbNodup := h.dbNodup
  cacheOk e he := by
    obtain ⟨he, hp⟩ := mem_eraseName.1 he
    refine (h.cacheOk e he).imp id (RemPending.erase h.pendFun ?_)
    intro f' hc; rw [ht] at hc; cases hc; exact hp rfl
  insOk u x g e hm hx hr := by
    have := h.genLe u x g (mem_erasePend.1 hm).1
      (by cases x <;> simp_all [Pending.insertee, Pending.gen])
    exact absurd hr (by show s.removals + 1 ≠ g; omega)
  genLe u x g hm hx := Nat.le_succ_of_le (h.genLe u x g (mem_erasePend.1 hm).1 hx)

theorem step_inv {s : St} (h : Inv s) (σ : Step) : Inv (step true s σ).1 := by
  cases σ with
  | resolveStart t p =>
    simp only [step]; split
    · next hn =>
      exact h.setPend t _ (by intro q f; rw [hn]; exact nofun) (by intro g hg; cases hg; exact Nat.le_refl _) (by intro g e hx; cases hx)
    · exact h
  | resolveLookup t =>
    simp only [step]; split
    · next p g0 hp =>
      have ht : ∀ q f, getPend s.pend t ≠ some (.removeDeleted q f) := by intro q f; rw [hp]; exact nofun
      split
      · exact h.erasePend t ht
      · exact h.setPend t _ ht (fun g hg => h.genLe t _ g (getPend_mem hp) (by cases hg; rfl)) (by intro g e hx; cases hx)
    · exact h
  | resolveSelect t =>
    simp only [step]; split
    · next p g0 hp =>
      have ht : ∀ q f, getPend s.pend t ≠ some (.removeDeleted q f) := by intro q f; rw [hp]; exact nofun
      split
      · next pid key hl =>
        refine h.setPend t _ ht (fun g hg => h.genLe t _ g (getPend_mem hp) (by cases hg; rfl)) ?_
        intro g e hx _; cases hx
        exact Or.inl (lookupRow_mem hl)
      · exact h.erasePend t ht
    · exact h
  | resolveInsert t =>
    simp only [step]; split
    · next p g0 pid key hp =>
      exact Inv.erasePend (s := { s with cache := guardedInsert true s g0 p pid key }) (h.guardedInsert hp rfl) t
        (by intro q f; show getPend s.pend t ≠ _; rw [hp]; exact nofun)
    · exact h
  | createStart t p =>
    simp only [step]; split
    · next hn =>
      exact h.setPend t _ (by intro q f; rw [hn]; exact nofun) (by intro g hg; cases hg; exact Nat.le_refl _) (by intro g e hx; cases hx)
    · exact h
  | createInsert t =>
    simp only [step]; split
    · next p g0 hp =>
      have ht : ∀ q f, getPend s.pend t ≠ some (.removeDeleted q f) := by intro q f; rw [hp]; exact nofun
      split
      · exact h.erasePend t ht
      · next hl =>
        refine Inv.setPend (s := { s with db := (p, nextPid s.db, s.nextKey) :: s.db, nextKey := s.nextKey + 1 })
          (h.dbInsert p _ _ hl) t _ ht (fun g hg => h.genLe t _ g (getPend_mem hp) (by cases hg; rfl)) ?_
        intro g e hx _; cases hx
        exact Or.inl List.mem_cons_self
    · exact h
  | createCache t =>
    simp only [step]; split
    · next p g0 pid key hp =>
      exact Inv.erasePend (s := { s with cache := guardedInsert true s g0 p pid key }) (h.guardedInsert hp rfl) t
        (by intro q f; show getPend s.pend t ≠ _; rw [hp]; exact nofun)
    · exact h
  | removeDelete t p =>
    simp only [step]; split
    · next hn => exact h.dbDelete t p _ hn
    · exact h
  | removeEvict t =>
    simp only [step]; split
    · next p f hp => exact h.evict t p f hp
    · exact h

theorem run_inv {s : St} (h : Inv s) (σs : List Step) : Inv (run true s σs).1 := by
  induction σs generalizing s with
  | nil => exact h
  | cons σ rest ih => exact ih (step_inv h σ)

theorem Init.inv {s : St} (h : Init s) : Inv s where
  pendFun := by rw [h.noPend]; intro t ph hm; cases hm
  dbNodup := h.dbNodup
  cacheOk e he := Or.inl (h.cacheSub e he)
  insOk := by rw [h.noPend]; intro t ph g e hm; cases hm
  genLe := by rw [h.noPend]; intro t ph g hm; cases hm

theorem init_Init : Init init := ⟨rfl, nofun, List.nodup_nil⟩

/-! ### quiescent states -/

theorem quiescent_iff {s : St} : quiescent s = true ↔ s.pend = [] := by
  simp [quiescent]

theorem not_remPending_of_quiescent {s : St} (hq : quiescent s = true) (p : Name) : ¬ RemPending s.pend p := by
  rw [quiescent_iff.1 hq]; rintro ⟨t, f, hm⟩; cases hm

theorem Inv.cache_sub_db {s : St} (h : Inv s) (hq : quiescent s = true) : ∀ e, e ∈ s.cache → e ∈ s.db :=
  fun e he => (h.cacheOk e he).resolve_right (not_remPending_of_quiescent hq _)

theorem Inv.open_resolved_iff {s : St} (h : Inv s) (hq : quiescent s = true) (p : Name) (pid : Pid) (key : KeyId) :
    openResult s p = .resolved p pid key ↔ (p, pid, key) ∈ s.db := by
  unfold openResult
  constructor
  · intro ho
    split at ho
    · next pid' key' hl => cases ho; exact h.cache_sub_db hq _ (lookupRow_mem hl)
    · split at ho
      · next pid' key' hl => cases ho; exact lookupRow_mem hl
      · cases ho
  · intro hm
    have hdb := lookupRow_of_mem h.dbNodup hm
    split
    · next pid' key' hl =>
      have := nodup_functional h.dbNodup (h.cache_sub_db hq _ (lookupRow_mem hl)) hm
      cases this; rfl
    · rw [hdb]

theorem Inv.open_notFound_iff {s : St} (h : Inv s) (hq : quiescent s = true) (p : Name) :
    openResult s p = .notFound p ↔ ∀ pid key, (p, pid, key) ∉ s.db := by
  unfold openResult
  constructor
  · intro ho pid key hm
    split at ho
    · cases ho
    · rw [lookupRow_of_mem h.dbNodup hm] at ho; cases ho
  · intro hn
    split
    · next pid' key' hl => exact absurd (h.cache_sub_db hq _ (lookupRow_mem hl)) (hn _ _)
    · split
      · next pid' key' hl => exact absurd (lookupRow_mem hl) (hn _ _)
      · rfl

/-! ### schedules -/

theorem run_append (guard : Bool) (s : St) (a b : List Step) :
    (run guard s (a ++ b)).1 = (run guard (run guard s a).1 b).1 := by
  induction a generalizing s with
  | nil => rfl
  | cons σ rest ih => exact ih _

/-- `openResult` is what a resolve call returns when nothing else runs (either variant of the protocol) -/
theorem resolveAlone_returns (guard : Bool) (s : St) (hq : quiescent s = true) (t : Tid) (p : Name) :
    (run guard s (resolveAlone t p)).2.filterMap id = [openResult s p] := by
  obtain ⟨db, nk, cache, rem, pend⟩ := s
  have hp : pend = [] := quiescent_iff.1 hq
  subst hp
  cases hc : lookupRow cache p with
  | some v => simp [resolveAlone, run, step, getPend, setPend, erasePend, openResult, hc]
  | none =>
    cases hd : lookupRow db p with
    | some v => simp [resolveAlone, run, step, getPend, setPend, erasePend, openResult, hc, hd]
    | none => simp [resolveAlone, run, step, getPend, setPend, erasePend, openResult, hc, hd]

/-! ### progress: without removals the guard never refuses -/

/-- no remove in flight and every captured counter value is the current one -/
def NoRem (s : St) : Prop := ∀ t ph, (t, ph) ∈ s.pend → ph.gen = some s.removals

theorem NoRem.not_remPending {s : St} (hn : NoRem s) (p : Name) : ¬ RemPending s.pend p := by
  rintro ⟨t, f, hm⟩; have := hn t _ hm; cases this

theorem NoRem.set {s : St} (hn : NoRem s) (t : Tid) (ph : Pending) (hg : ph.gen = some s.removals)
    (db cache : List Row) (k : Nat) :
    NoRem { db := db, nextKey := k, cache := cache, removals := s.removals, pend := setPend s.pend t ph } := by
  intro u x hm
  rcases mem_setPend.1 hm with ⟨_, rfl⟩ | ⟨hm, _⟩
  · exact hg
  · exact hn u x hm

theorem NoRem.erase {s : St} (hn : NoRem s) (t : Tid) (db cache : List Row) (k : Nat) :
    NoRem { db := db, nextKey := k, cache := cache, removals := s.removals, pend := erasePend s.pend t } :=
  fun u x hm => hn u x (mem_erasePend.1 hm).1

theorem step_noRem {s : St} (hn : NoRem s) (σ : Step) (hσ : σ.isRemove = false) : NoRem (step true s σ).1 := by
  cases σ with
  | resolveStart t p =>
    simp only [step]; split
    · exact hn.set t _ rfl _ _ _
    · exact hn
  | resolveLookup t =>
    simp only [step]; split
    · next p g0 hp =>
      have : some g0 = some s.removals := hn t _ (getPend_mem hp)
      split
      · exact hn.erase t _ _ _
      · exact hn.set t _ (by exact this) _ _ _
    · exact hn
  | resolveSelect t =>
    simp only [step]; split
    · next p g0 hp =>
      have : some g0 = some s.removals := hn t _ (getPend_mem hp)
      split
      · exact hn.set t _ (by exact this) _ _ _
      · exact hn.erase t _ _ _
    · exact hn
  | resolveInsert t =>
    simp only [step]; split
    · exact hn.erase t _ _ _
    · exact hn
  | createStart t p =>
    simp only [step]; split
    · exact hn.set t _ rfl _ _ _
    · exact hn
  | createInsert t =>
    simp only [step]; split
    · next p g0 hp =>
      have : some g0 = some s.removals := hn t _ (getPend_mem hp)
      split
      · exact hn.erase t _ _ _
      · exact hn.set t _ (by exact this) _ _ _
    · exact hn
  | createCache t =>
    simp only [step]; split
    · exact hn.erase t _ _ _
    · exact hn
  | removeDelete t p => cases hσ
  | removeEvict t => cases hσ

/-- the insert of a call in flight, when no remove is: it happens, and it does not disturb what is cached -/
theorem guardedInsert_noRem {s : St} (h : Inv s) (hn : NoRem s) {t : Tid} {ph : Pending} {g0 : Nat} {p : Name}
    {pid : Pid} {key : KeyId} (hm : getPend s.pend t = some ph) (hi : ph.insertee = some (g0, p, pid, key)) :
    lookupRow (guardedInsert true s g0 p pid key) p = some (pid, key) ∧
    ∀ q v, lookupRow s.cache q = some v → lookupRow (guardedInsert true s g0 p pid key) q = some v := by
  have hg : s.removals = g0 := by
    have := hn t ph (getPend_mem hm)
    cases ph <;> simp_all [Pending.insertee, Pending.gen]
  have hdb : (p, pid, key) ∈ s.db :=
    (h.insOk t ph g0 _ (getPend_mem hm) hi hg).resolve_right (hn.not_remPending _)
  have : guardedInsert true s g0 p pid key = insertRow s.cache p (pid, key) := by
    simp [guardedInsert, hg]
  rw [this]
  refine ⟨lookupRow_insertRow_self _ _ _, ?_⟩
  intro q v hq
  by_cases hqp : q = p
  · subst hqp
    have hc : (q, v) ∈ s.db := (h.cacheOk _ (lookupRow_mem hq)).resolve_right (hn.not_remPending _)
    rw [nodup_functional h.dbNodup hc hdb]
    exact lookupRow_insertRow_self _ _ _
  · rw [lookupRow_insertRow_ne _ _ hqp]; exact hq

/-- one step without removal: cached stays cached (same id, same key), and a call that completes
    successfully leaves its profile cached with what it returned -/
theorem step_progress {s : St} (h : Inv s) (hn : NoRem s) (σ : Step) :
    (∀ q v, lookupRow s.cache q = some v → lookupRow (step true s σ).1.cache q = some v) ∧
    (∀ p pid key, ((step true s σ).2 = some (.resolved p pid key) ∨ (step true s σ).2 = some (.created p pid key)) →
      lookupRow (step true s σ).1.cache p = some (pid, key)) := by
  cases σ with
  | resolveStart t p =>
    simp only [step]; split <;> exact ⟨fun _ _ hq => hq, by intro p pid key hr; rcases hr with hr | hr <;> cases hr⟩
  | resolveLookup t =>
    simp only [step]; split
    · split
      · next pid key hl =>
        refine ⟨fun _ _ hq => hq, ?_⟩
        intro p' pid' key' hr
        rcases hr with hr | hr <;> cases hr
        exact hl
      · exact ⟨fun _ _ hq => hq, by intro p pid key hr; rcases hr with hr | hr <;> cases hr⟩
    · exact ⟨fun _ _ hq => hq, by intro p pid key hr; rcases hr with hr | hr <;> cases hr⟩
  | resolveSelect t =>
    simp only [step]; split
    · split <;> exact ⟨fun _ _ hq => hq, by intro p pid key hr; rcases hr with hr | hr <;> cases hr⟩
    · exact ⟨fun _ _ hq => hq, by intro p pid key hr; rcases hr with hr | hr <;> cases hr⟩
  | resolveInsert t =>
    simp only [step]; split
    · next p g0 pid key hp =>
      have := guardedInsert_noRem h hn hp rfl
      refine ⟨this.2, ?_⟩
      intro p' pid' key' hr
      rcases hr with hr | hr <;> cases hr
      exact this.1
    · exact ⟨fun _ _ hq => hq, by intro p pid key hr; rcases hr with hr | hr <;> cases hr⟩
  | createStart t p =>
    simp only [step]; split <;> exact ⟨fun _ _ hq => hq, by intro p pid key hr; rcases hr with hr | hr <;> cases hr⟩
  | createInsert t =>
    simp only [step]; split
    · split <;> exact ⟨fun _ _ hq => hq, by intro p pid key hr; rcases hr with hr | hr <;> cases hr⟩
    · exact ⟨fun _ _ hq => hq, by intro p pid key hr; rcases hr with hr | hr <;> cases hr⟩
  | createCache t =>
    simp only [step]; split
    · next p g0 pid key hp =>
      have := guardedInsert_noRem h hn hp rfl
      refine ⟨this.2, ?_⟩
      intro p' pid' key' hr
      rcases hr with hr | hr <;> cases hr
      exact this.1
    · exact ⟨fun _ _ hq => hq, by intro p pid key hr; rcases hr with hr | hr <;> cases hr⟩
  | removeDelete t p =>
    -- not used by the progress theorem (the schedule has no remove step), but true: DELETE leaves the cache alone
    simp only [step]; split <;> exact ⟨fun _ _ hq => hq, by intro p pid key hr; rcases hr with hr | hr <;> cases hr⟩
  | removeEvict t =>
    simp only [step]; split
    · next p f hp => exact absurd (hn t _ (getPend_mem hp)) nofun
    · exact ⟨fun _ _ hq => hq, by intro p pid key hr; rcases hr with hr | hr <;> cases hr⟩

theorem run_noRem {s : St} (h : Inv s) (hn : NoRem s) (σs : List Step) (hσ : ∀ x ∈ σs, x.isRemove = false) :
    NoRem (run true s σs).1 ∧
    ∀ q v, lookupRow s.cache q = some v → lookupRow (run true s σs).1.cache q = some v := by
  induction σs generalizing s with
  | nil => exact ⟨hn, fun _ _ hq => hq⟩
  | cons σ rest ih =>
    have h1 := step_inv h σ
    have hn1 := step_noRem hn σ (hσ σ List.mem_cons_self)
    have := ih h1 hn1 (fun x hx => hσ x (List.mem_cons_of_mem _ hx))
    exact ⟨this.1, fun q v hq => this.2 q v ((step_progress h hn σ).1 q v hq)⟩

theorem Init.noRem {s : St} (h : Init s) : NoRem s := by
  intro t ph hm; rw [h.noPend] at hm; cases hm

theorem progress {s0 : St} (h0 : Init s0) (pre post : List Step) (σ : Step)
    (hnr : ∀ x ∈ pre ++ σ :: post, x.isRemove = false) (p : Name) (pid : Pid) (key : KeyId)
    (hret : (step true (run true s0 pre).1 σ).2 = some (.resolved p pid key) ∨
            (step true (run true s0 pre).1 σ).2 = some (.created p pid key)) :
    lookupRow (run true s0 (pre ++ σ :: post)).1.cache p = some (pid, key) := by
  have hpre := run_noRem h0.inv h0.noRem pre (fun x hx => hnr x (List.mem_append_left _ hx))
  have hi1 := run_inv h0.inv pre
  have hσ := step_progress hi1 hpre.1 σ
  have hpost := run_noRem (step_inv hi1 σ) (step_noRem hpre.1 σ (hnr σ (by simp))) post
    (fun x hx => hnr x (by simp [hx]))
  rw [run_append]
  exact hpost.2 p _ (hσ.2 p pid key hret)

/-! ### the current tree -/

/-- whether `/repo` has the repair (read from the source by tools/extract.py): `add_profile_unless_removed`
    in both inserting paths and the counter bump in `KeyCache::remove_profile` -/
def currentGuard : Bool := Askar.Generated.Flags.keyCacheRemovalGuard

end Askar.KeyCacheConc
