/- Driver for `kind = "c15:kdf" | "c15:box" | "c15:seal"` cases: runs `Askar.Ecdh` (Model/Ecdh.lean) with the executable
   specifications of the third-party primitives as instance: X25519 (RFC 7748), short-Weierstrass scalar multiplication
   (SEC 1), SHA-256 (FIPS 180-4), HSalsa20 / XSalsa20-Poly1305 (NaCl), BLAKE2b (RFC 7693). -/
import Driver.Common
import AskarModel.Model.Ecdh
import AskarModel.Crypto.Sha2
import AskarModel.Crypto.Ec
import AskarModel.Crypto.X25519
import AskarModel.Crypto.NaclBox

open Lean

namespace Driver.C15
open Askar Askar.Ecdh

def ecCurve : Curve → Option Ec.Curve
  | .p256 => some Ec.p256
  | .p384 => some Ec.p384
  | .k256 => some Ec.k256
  | .x25519 => none

/-- x-coordinate of `sk · P`, `P = x ‖ y` affine -/
def ecDh (c : Ec.Curve) (sk pk : Bytes) : Bytes :=
  let x := Ec.beNat (pk.take c.len)
  let y := Ec.beNat (pk.drop c.len)
  match c.toAffine (c.mulAux x y 800 (Ec.beNat sk)) with
  | some (zx, _) => Ec.natBE c.len zx
  | none => []

def realDh : DhOps where
  pub c sk := match ecCurve c with
    | none => Crypto.X25519.pubOf sk
    | some ec => (ec.pubOf sk).getD []
  dh c sk pk := match ecCurve c with
    | none => Crypto.X25519.x25519 sk pk
    | some ec => ecDh ec sk pk

def realBox : BoxOps where
  pub := Crypto.X25519.pubOf
  beforenm := Crypto.NaclBox.boxKey
  sealBox := Crypto.NaclBox.secretboxSeal
  openBox := Crypto.NaclBox.secretboxOpen
  nonceHash := Crypto.NaclBox.blake2b 24

def sha256 : Bytes → Bytes := Crypto.Sha2.sha256L

def curveOf : String → Option Curve
  | "x25519" => some .x25519 | "p256" => some .p256 | "p384" => some .p384 | "k256" => some .k256
  | _ => none

def targetOf : String → Target
  | "a128gcm" => .a128gcm | "a256gcm" => .a256gcm | "a128cbchs256" => .a128cbcHs256 | "a256cbchs512" => .a256cbcHs512
  | "a128kw" => .a128kw | "a256kw" => .a256kw | "c20p" => .c20p | "xc20p" => .xc20p
  | _ => .notSymmetric

/-- (key as its owner holds it, key as everybody else sees it) -/
def keyOf (j : Json) : Key × Key :=
  match curveOf (str! j "c") with
  | none => (⟨.other, [], some (value! j "sk")⟩, ⟨.other, [], none⟩)
  | some c =>
    match getD? j "sk" with
    | some _ =>
      let sk := value! j "sk"
      (Key.full realDh c sk, Key.public realDh c sk)
    | none =>
      let raw := value! j "pk"
      let pk := match ecCurve c with
        | none => raw
        | some ec => (ec.fromSec1 raw).getD []
      (⟨.dh c, pk, none⟩, ⟨.dh c, pk, none⟩)

def jres (r : Res Bytes) (f : Bytes → Json := jhex) : Json :=
  match r with
  | .ok b => f b
  | .err e => jerr e.toPublic.name
  | .panic => Json.mkObj [("panic", .str "model")]

structure KdfArgs where
  mode : String
  target : Target
  eph : Json
  snd : Json
  rcp : Json
  alg : Bytes
  apu : Bytes
  apv : Bytes
  tag : Bytes

def KdfArgs.of (j : Json) : KdfArgs :=
  { mode := str! j "mode", target := targetOf (str! j "target"),
    eph := (getD? j "eph").getD .null, snd := (getD? j "snd").getD .null, rcp := (getD? j "rcp").getD .null,
    alg := value! j "alg", apu := value! j "apu", apv := value! j "apv", tag := value! j "tag" }

def KdfArgs.perturb (a : KdfArgs) (p : Json) : KdfArgs :=
  match str! p "f" with
  | "alg" => { a with alg := value! p "v" }
  | "apu" => { a with apu := value! p "v" }
  | "apv" => { a with apv := value! p "v" }
  | "tag" => { a with tag := value! p "v" }
  | "eph" => { a with eph := (getD? p "v").getD .null }
  | "snd" => { a with snd := (getD? p "v").getD .null }
  | "rcp" => { a with rcp := (getD? p "v").getD .null }
  | "target" => { a with target := targetOf (str! p "v") }
  | _ => a

def KdfArgs.derive (a : KdfArgs) (receive : Bool) : Res Bytes :=
  let (ephF, ephP) := keyOf a.eph
  let (rcpF, rcpP) := keyOf a.rcp
  let (eph, rcp) := if receive then (ephP, rcpF) else (ephF, rcpP)
  if a.mode == "1pu" then
    let (sndF, sndP) := keyOf a.snd
    let snd := if receive then sndP else sndF
    deriveKeyEcdh1pu realDh sha256 a.target eph snd rcp a.alg a.apu a.apv a.tag receive
  else
    deriveKeyEcdhEs realDh sha256 a.target eph rcp a.alg a.apu a.apv receive

def KdfArgs.dh (a : KdfArgs) (receive : Bool) : Res (List Bytes) := do
  let (ephF, ephP) := keyOf a.eph
  let (rcpF, rcpP) := keyOf a.rcp
  let ze ← if receive then keyExchange realDh rcpF ephP else keyExchange realDh ephF rcpP
  if a.mode == "1pu" then
    let (sndF, sndP) := keyOf a.snd
    let zs ← if receive then keyExchange realDh rcpF sndP else keyExchange realDh sndF rcpP
    pure [ze, zs]
  else pure [ze]

def jz (r : Res (List Bytes)) : Json :=
  match r with
  | .ok zs => .arr (zs.map jhex).toArray
  | .err e => jerr e.toPublic.name
  | .panic => Json.mkObj [("panic", .str "model")]

def runKdf (j : Json) : Json :=
  let a := KdfArgs.of j
  let kx := toKeyExchange realDh a.target (keyOf a.eph).1 (keyOf a.rcp).2
  Json.mkObj [
    ("send", jres (a.derive false)), ("recv", jres (a.derive true)),
    ("z_send", jz (a.dh false)), ("z_recv", jz (a.dh true)), ("kx", jres kx),
    ("perturbed", .arr ((arr! j "perturb").map fun p => jres ((a.perturb p).derive false)).toArray)]

def flipBit (b : Bytes) (bit : Nat) : Bytes :=
  if b.isEmpty then b
  else
    let i := bit % (b.length * 8)
    b.set (i / 8) (b.getD (i / 8) 0 ^^^ UInt8.ofNat (2 ^ (i % 8)))

/-- the harness's `apply_mut`: flip, take, append, raw on the ciphertext; nflip, nonce on the nonce -/
def applyMut (m : Json) (ct nonce : Bytes) : Bytes × Bytes :=
  let c := match natOpt m "flip" with | some b => flipBit ct b | none => ct
  let c := match natOpt m "take" with | some k => c.take k | none => c
  let c := match getD? m "append" with | some _ => c ++ value! m "append" | none => c
  let c := match getD? m "raw" with | some _ => value! m "raw" | none => c
  let n := match natOpt m "nflip" with | some b => flipBit nonce b | none => nonce
  let n := match getD? m "nonce" with | some _ => value! m "nonce" | none => n
  (c, n)

def isOk : Res Bytes → Bool
  | .ok _ => true
  | _ => false

def okBytes : Res Bytes → Bytes
  | .ok b => b
  | _ => []

def runBox (j : Json) : Json :=
  let msg := value! j "msg"
  let nonce := value! j "nonce"
  let sndJ := (getD? j "snd").getD .null
  let rcpJ := (getD? j "rcp").getD .null
  let boxed := envCryptoBox realBox (keyOf rcpJ).2 (keyOf sndJ).1 msg nonce
  let ct := okBytes boxed
  let openWith (rcp snd : Json) (c n : Bytes) : Res Bytes := envCryptoBoxOpen realBox (keyOf rcp).1 (keyOf snd).2 c n
  let muts := (arr! j "muts").map fun m =>
    let (c, n) := applyMut m ct nonce
    jres (openWith ((getD? m "rcp").getD rcpJ) ((getD? m "snd").getD sndJ) c n) jvalue
  let allbits : Json :=
    if bool! j "allbits" && isOk boxed then
      .arr (((List.range (ct.length * 8)).filter fun bit => isOk (openWith rcpJ sndJ (flipBit ct bit) nonce)).map jnat).toArray
    else .null
  Json.mkObj [("box", jres boxed jvalue), ("open", jres (openWith rcpJ sndJ ct nonce) jvalue), ("muts", .arr muts.toArray),
    ("allbits", allbits)]

def runSeal (j : Json) : Json :=
  let msg := value! j "msg"
  let ephJ := (getD? j "eph").getD .null
  let rcpJ := (getD? j "rcp").getD .null
  let (rcpF, rcpP) := keyOf rcpJ
  let ephSk : Bytes := match getD? j "eph" with | some _ => value! ephJ "sk" | none => List.replicate 32 1
  let sealed : Res Bytes :=
    match getD? j "ct" with
    | some _ => .ok (value! j "ct")
    | none => envCryptoBoxSeal realBox ephSk rcpP msg
  let ct := okBytes sealed
  let openWith (rcp : Json) (c : Bytes) : Res Bytes := envCryptoBoxSealOpen realBox (keyOf rcp).1 c
  let random : Json :=
    match envCryptoBoxSeal realBox ephSk rcpP msg with
    | .ok s =>
      match envCryptoBoxSealOpen realBox rcpF s with
      | .ok o =>
        let epk := s.take 32
        match envCryptoBoxOpen realBox rcpF ⟨.dh .x25519, epk, none⟩ (s.drop 32) (Ecdh.sealNonce realBox epk rcpF.pub) with
        | .ok p => Json.mkObj [("len", jnat s.length), ("open", jvalue o), ("parts", jvalue p)]
        | r => jres r
      | r => jres r
    | r => jres r
  let muts := (arr! j "muts").map fun m =>
    let (c, _) := applyMut m ct []
    jres (openWith ((getD? m "rcp").getD rcpJ) c) jvalue
  let allbits : Json :=
    if bool! j "allbits" && isOk sealed then
      .arr (((List.range (ct.length * 8)).filter fun bit => isOk (openWith rcpJ (flipBit ct bit))).map jnat).toArray
    else .null
  Json.mkObj [("sealed", jres sealed jvalue), ("open", jres (openWith rcpJ ct) jvalue), ("random", random),
    ("muts", .arr muts.toArray), ("allbits", allbits)]

def runCase (j : Json) : Json :=
  match str! j "kind" with
  | "c15:kdf" => runKdf j
  | "c15:box" => runBox j
  | "c15:seal" => runSeal j
  | k => jerr ("unknown kind " ++ k)

end Driver.C15
