//! C12: authenticated encryption is correct, standard-conformant and tamper-evident
//! (generators, executor and the property's own oracle; see DESIGN.md section 4, C12).
//!
//! Case forms (all through the public `aries_askar::kms::LocalKey` API):
//!   {"kind":"c12","alg":A,"key":hex,"ops":[op…]}   out = [key result, op result…]
//!   {"kind":"c12:keylens","alg":A,"max":n,"fill":b} out = run-length encoded outcome per key length 0..=max
//!   {"kind":"c12:selftest"}                          out = the Lean specifications' self tests (all true); the executor
//!                                                    runs the standards' known-answer tests through LocalKey as oracle
//!   {"kind":"c12:buf","alg":A,"key":hex,"msg":v,"nonce":hex,"aad":hex,"raw":v?,"extra":n,"stale":[a,b]}
//!                                                    the crate-level `encrypt_in_place` / `decrypt_in_place` of `AnyKey` over
//!                                                    every PUBLIC buffer type: Vec, SecretBytes (exact capacity),
//!                                                    `Writer::from_slice_position(&mut [u8; n], len)` with n = exact, exact-1,
//!                                                    exact+extra (two different stale fills); out = result per buffer type
//!   {"kind":"c12:bufops","cap":n,"init":hex,"stale":a,"ops":[…]}  raw `ResizeBuffer` calls (write / insert / remove / resize /
//!                                                    extend) on a `Writer<[u8]>` of capacity n, on Vec and on SecretBytes
//!   {"kind":"c12:misc","probes":[…]}                 guards of `LocalKey::from_seed` and `Argon2::new` (coverage row 20)
//! The oracle judges the PROPERTY (round trip, layout, every tampering rejected, same error for all same-length
//! forgeries, errors instead of panics, standards' vectors) and never looks at the Lean model.
use crate::canon::{jvalue, value_from_json};
use crate::rng::Rng;
use aries_askar::crypto::alg::{AesTypes, Chacha20Types};
use aries_askar::kms::{KeyAlg, LocalKey};
use aries_askar::{Error, ErrorKind};
use serde_json::{json, Map, Value};
use askar_crypto::alg::{AnyKey, AnyKeyCreate};
use askar_crypto::buffer::{ResizeBuffer, SecretBytes, Writer};
use askar_crypto::encrypt::KeyAeadInPlace;
use std::collections::BTreeSet;
use std::panic::{catch_unwind, AssertUnwindSafe};

pub const ALGS: [&str; 8] = ["a128gcm", "a256gcm", "a128cbchs256", "a256cbchs512", "a128kw", "a256kw", "c20p", "xc20p"];

fn alg_of(s: &str) -> Option<KeyAlg> {
    Some(match s {
        "a128gcm" => KeyAlg::Aes(AesTypes::A128Gcm),
        "a256gcm" => KeyAlg::Aes(AesTypes::A256Gcm),
        "a128cbchs256" => KeyAlg::Aes(AesTypes::A128CbcHs256),
        "a256cbchs512" => KeyAlg::Aes(AesTypes::A256CbcHs512),
        "a128kw" => KeyAlg::Aes(AesTypes::A128Kw),
        "a256kw" => KeyAlg::Aes(AesTypes::A256Kw),
        "c20p" => KeyAlg::Chacha20(Chacha20Types::C20P),
        "xc20p" => KeyAlg::Chacha20(Chacha20Types::XC20P),
        "ed25519" => KeyAlg::Ed25519,
        _ => return None,
    })
}

fn key_len(alg: &str) -> usize {
    match alg {
        "a128gcm" | "a128kw" => 16,
        "a256cbchs512" => 64,
        _ => 32,
    }
}

fn nonce_len(alg: &str) -> usize {
    match alg {
        "a128gcm" | "a256gcm" | "c20p" => 12,
        "a128cbchs256" | "a256cbchs512" => 16,
        "xc20p" => 24,
        _ => 0,
    }
}

fn is_kw(alg: &str) -> bool {
    alg == "a128kw" || alg == "a256kw"
}

fn kind_name(k: ErrorKind) -> &'static str {
    match k {
        ErrorKind::Backend => "Backend",
        ErrorKind::Busy => "Busy",
        ErrorKind::Custom => "Custom",
        ErrorKind::Duplicate => "Duplicate",
        ErrorKind::Encryption => "Encryption",
        ErrorKind::Input => "Input",
        ErrorKind::NotFound => "NotFound",
        ErrorKind::Unexpected => "Unexpected",
        ErrorKind::Unsupported => "Unsupported",
    }
}

fn jerr2(e: &Error) -> Value {
    json!({"err": kind_name(e.kind()), "msg": e.message().unwrap_or("")})
}

fn ecode(e: &Error) -> String {
    format!("E:{}:{}", kind_name(e.kind()), e.message().unwrap_or(""))
}

fn hx(v: &Value, k: &str) -> Vec<u8> {
    hex::decode(v[k].as_str().unwrap_or("")).unwrap_or_default()
}

fn pattern(fill: usize, n: usize) -> Vec<u8> {
    (0..n).map(|i| ((fill + 7 * i) % 256) as u8).collect()
}

fn flip_bit(b: &[u8], i: usize) -> Vec<u8> {
    let mut v = b.to_vec();
    v[i / 8] ^= 1u8 << (i % 8);
    v
}

fn rle(xs: &[String]) -> Value {
    let mut out: Vec<Value> = vec![];
    let mut cur: Option<(String, usize)> = None;
    for x in xs {
        match &mut cur {
            Some((s, n)) if s == x => *n += 1,
            _ => {
                if let Some((s, n)) = cur.take() { out.push(json!([s, n])); }
                cur = Some((x.clone(), 1));
            }
        }
    }
    if let Some((s, n)) = cur { out.push(json!([s, n])); }
    Value::Array(out)
}

struct Ctx {
    alg: String,
    key: Vec<u8>,
    oracle: Vec<Value>,
    feat: Map<String, Value>,
}

impl Ctx {
    fn count(&mut self, k: &str) {
        let n = self.feat.get(k).and_then(|v| v.as_u64()).unwrap_or(0);
        self.feat.insert(k.to_string(), json!(n + 1));
    }
    fn fail(&mut self, sig: String, detail: Value) {
        if self.oracle.len() < 8 { self.oracle.push(json!({"sig": sig, "detail": detail})); }
    }
}

/// a call on the real code; a panic is an outcome of its own (and always an oracle failure)
fn guarded<T>(cx: &mut Ctx, what: &str, f: impl FnOnce() -> Result<T, Error>) -> Result<Result<T, Error>, ()> {
    match catch_unwind(AssertUnwindSafe(f)) {
        Ok(r) => {
            match &r {
                Ok(_) => cx.count(&format!("{}:ok", what)),
                Err(e) => cx.count(&format!("{}:{}", what, ecode(e))),
            }
            Ok(r)
        }
        Err(p) => {
            let msg = p.downcast_ref::<String>().cloned().or_else(|| p.downcast_ref::<&str>().map(|s| s.to_string())).unwrap_or_default();
            let alg = cx.alg.clone();
            cx.fail(format!("c12:panic:{}:{}", alg, what), json!({"panic": msg}));
            cx.count("panic");
            Err(())
        }
    }
}

fn dec_code(cx: &mut Ctx, what: &str, key: &LocalKey, ct: &[u8], tag: &[u8], nonce: &[u8], aad: &[u8], expect: &[u8]) -> String {
    match guarded(cx, what, || key.aead_decrypt((ct, tag), nonce, aad)) {
        Ok(Ok(pt)) => if pt.as_ref() == expect { "ok:same".into() } else { "ok:diff".into() },
        Ok(Err(e)) => ecode(&e),
        Err(()) => "panic".into(),
    }
}

fn dec_json(cx: &mut Ctx, key: &LocalKey, ct: &[u8], tag: &[u8], nonce: &[u8], aad: &[u8]) -> Value {
    match guarded(cx, "dec", || key.aead_decrypt((ct, tag), nonce, aad)) {
        Ok(Ok(pt)) => json!({"pt": jvalue(pt.as_ref())}),
        Ok(Err(e)) => jerr2(&e),
        Err(()) => json!({"panic": "dec"}),
    }
}

/// the authentication tag RFC 7518 prescribes for the two AES-CBC-HMAC algorithms (None for the others / an odd key)
fn rfc7518_tag(alg: &str, key: &[u8], aad: &[u8], iv: &[u8], ct: &[u8]) -> Option<Vec<u8>> {
    use hmac::{Hmac, Mac};
    let al = ((aad.len() as u64) * 8).to_be_bytes();
    match alg {
        "a128cbchs256" if key.len() == 32 => {
            let mut m = <Hmac<sha2::Sha256> as Mac>::new_from_slice(&key[..16]).ok()?;
            m.update(aad); m.update(iv); m.update(ct); m.update(&al);
            Some(m.finalize().into_bytes()[..16].to_vec())
        }
        "a256cbchs512" if key.len() == 64 => {
            let mut m = <Hmac<sha2::Sha512> as Mac>::new_from_slice(&key[..32]).ok()?;
            m.update(aad); m.update(iv); m.update(ct); m.update(&al);
            Some(m.finalize().into_bytes()[..32].to_vec())
        }
        _ => None,
    }
}

fn op_enc(cx: &mut Ctx, key: &LocalKey, msg: &[u8], nonce: &[u8], aad: &[u8]) -> Value {
    let alg = cx.alg.clone();
    let nl = nonce_len(&alg);
    let random = nonce.is_empty() && nl > 0;
    let enc = match guarded(cx, "enc", || key.aead_encrypt(msg, nonce, aad)) {
        Ok(Ok(e)) => e,
        Ok(Err(e)) => return jerr2(&e),
        Err(()) => return json!({"panic": "enc"}),
    };
    // accessors slice the buffer: a panic there is a layout failure
    let parts = catch_unwind(AssertUnwindSafe(|| (enc.ciphertext().to_vec(), enc.tag().to_vec(), enc.nonce().to_vec())));
    let (ct, tag, n) = match parts {
        Ok(p) => p,
        Err(_) => {
            cx.fail(format!("c12:layout:{}:accessor panics", alg), json!({}));
            return json!({"panic": "accessor"});
        }
    };
    let buf: Vec<u8> = enc.as_ref().to_vec();
    let tag_pos = ct.len();
    let nonce_pos = ct.len() + tag.len();
    // ---- oracle: layout ct‖tag‖nonce, lengths, round trip, determinism
    let mut cat = ct.clone();
    cat.extend_from_slice(&tag);
    cat.extend_from_slice(&n);
    if cat != buf { cx.fail(format!("c12:layout:{}:buffer != ct‖tag‖nonce", alg), json!({"buf": hex::encode(&buf)})); }
    let params = key.aead_params().ok();
    if is_kw(&alg) {
        if ct.len() != msg.len() + 8 || !tag.is_empty() || !n.is_empty() {
            cx.fail(format!("c12:layout:{}:key-wrap output is not |m|+8 bytes without tag and nonce", alg), json!({"ct": ct.len(), "tag": tag.len()}));
        }
    } else if let Some(p) = params {
        if tag.len() != p.tag_length || n.len() != p.nonce_length || ct.len() != msg.len() + key.aead_padding(msg.len()) {
            cx.fail(format!("c12:layout:{}:lengths differ from aead_params/aead_padding", alg), json!({"ct": ct.len(), "tag": tag.len(), "nonce": n.len()}));
        }
    }
    if !random && n != nonce { cx.fail(format!("c12:layout:{}:returned nonce differs from the given nonce", alg), json!({})); }
    // RFC 7518 section 5.2.2.1, computed here with the hmac / sha2 crates (nothing of askar): T = first half of
    // HMAC(MAC_KEY, A ‖ IV ‖ E ‖ AL), AL = 64-bit big-endian bit length of A — also for EMPTY associated data
    if let Some(want) = rfc7518_tag(&alg, &cx.key, aad, &n, &ct) {
        if want != tag { cx.fail(format!("c12:tag-differs-from-rfc7518:{}:aad{}", alg, if aad.is_empty() { "=empty" } else { ">0" }), json!({"want": hex::encode(&want), "got": hex::encode(&tag)})); }
    }
    match guarded(cx, "dec", || key.aead_decrypt((&ct[..], &tag[..]), &n, aad)) {
        Ok(Ok(pt)) if pt.as_ref() == msg => {}
        Ok(Ok(_)) => cx.fail(format!("c12:roundtrip:{}:decrypt(encrypt(m)) != m", alg), json!({"len": msg.len()})),
        Ok(Err(e)) => cx.fail(format!("c12:roundtrip:{}:decrypt(encrypt(m)) fails", alg), json!({"len": msg.len(), "err": ecode(&e)})),
        Err(()) => {}
    }
    // the same through the combined form (ciphertext‖tag, empty tag) and through &Encrypted
    match guarded(cx, "dec", || key.aead_decrypt(&cat[..nonce_pos], &n, aad)) {
        Ok(Ok(pt)) if pt.as_ref() == msg => {}
        Ok(_) => cx.fail(format!("c12:roundtrip:{}:combined-form decrypt differs", alg), json!({"len": msg.len()})),
        Err(()) => {}
    }
    match guarded(cx, "enc", || key.aead_encrypt(msg, &n, aad)) {
        Ok(Ok(e2)) if e2.as_ref() == &buf[..] => {}
        Ok(_) => cx.fail(format!("c12:determinism:{}:same key, nonce, aad, message give different output", alg), json!({})),
        Err(()) => {}
    }
    if random {
        cx.count("enc:random_nonce");
        return json!({"random_nonce": true, "buf_len": buf.len(), "tag_pos": tag_pos, "nonce_pos": nonce_pos});
    }
    let dec = dec_json(cx, key, &ct, &tag, &n, aad);
    json!({"ct": jvalue(&ct), "tag": hex::encode(&tag), "nonce": hex::encode(&n), "tag_pos": tag_pos, "nonce_pos": nonce_pos,
           "buf": jvalue(&buf), "dec": dec})
}

fn encrypt_parts(cx: &mut Ctx, key: &LocalKey, msg: &[u8], nonce: &[u8], aad: &[u8]) -> Result<(Vec<u8>, Vec<u8>), Value> {
    match guarded(cx, "enc", || key.aead_encrypt(msg, nonce, aad)) {
        Ok(Ok(e)) => match catch_unwind(AssertUnwindSafe(|| (e.ciphertext().to_vec(), e.tag().to_vec()))) {
            Ok(p) => Ok(p),
            Err(_) => Err(json!({"panic": "accessor"})),
        },
        Ok(Err(e)) => Err(jerr2(&e)),
        Err(()) => Err(json!({"panic": "enc"})),
    }
}

fn op_flips(cx: &mut Ctx, key: &LocalKey, msg: &[u8], nonce: &[u8], aad: &[u8]) -> Value {
    let alg = cx.alg.clone();
    let (ct, tag) = match encrypt_parts(cx, key, msg, nonce, aad) { Ok(p) => p, Err(v) => return v };
    let mut whole = ct.clone();
    whole.extend_from_slice(&tag);
    let base = dec_code(cx, "dec", key, &ct, &tag, nonce, aad, msg);
    let mut a = vec![];
    for i in 0..8 * whole.len() {
        let w = flip_bit(&whole, i);
        a.push(dec_code(cx, "dec:flip", key, &w[..ct.len()], &w[ct.len()..], nonce, aad, msg));
    }
    let mut b = vec![];
    for i in 0..8 * nonce.len() { b.push(dec_code(cx, "dec:flip", key, &ct, &tag, &flip_bit(nonce, i), aad, msg)); }
    let mut c = vec![];
    for i in 0..8 * aad.len() { c.push(dec_code(cx, "dec:flip", key, &ct, &tag, nonce, &flip_bit(aad, i), msg)); }
    // the same ciphertext under every key that differs in one bit
    let mut d = vec![];
    let kb = cx.key.clone();
    if let Some(ka) = alg_of(&alg) {
        for i in 0..8 * kb.len() {
            let fk = flip_bit(&kb, i);
            d.push(match guarded(cx, "from_secret_bytes", || LocalKey::from_secret_bytes(ka, &fk)) {
                Ok(Ok(k2)) => dec_code(cx, "dec:flip", &k2, &ct, &tag, nonce, aad, msg),
                Ok(Err(e)) => ecode(&e),
                Err(()) => "panic".into(),
            });
        }
    }
    // ---- oracle: every tampering is rejected, and all same-length forgeries are rejected with the same error
    for (field, codes) in [("ct‖tag", &a), ("nonce", &b), ("aad", &c)] {
        if let Some(pos) = codes.iter().position(|x| x.starts_with("ok")) {
            cx.fail(format!("c12:tamper:{}:single-bit flip of {} accepted", alg, field), json!({"bit": pos, "msg_len": msg.len()}));
        }
    }
    // key: for the composite CBC-HMAC key (RFC 7518 5.2.2: MAC_KEY ‖ ENC_KEY) the tag is computed under MAC_KEY only, so a
    // changed ENC_KEY is by specification not detected by the tag (the outcome is then a padding error or, with
    // probability about 1/256 per flip, a different plaintext) — there only the original plaintext coming back is a failure.
    let mac_half_bits = if alg == "a128cbchs256" { 128 } else if alg == "a256cbchs512" { 256 } else { usize::MAX };
    for (pos, x) in d.iter().enumerate() {
        let bad = if pos < mac_half_bits { x.starts_with("ok") } else { x == "ok:same" };
        if bad {
            if is_kw(&alg) && msg.is_empty() {
                cx.fail(format!("c12:kw-empty:{}:the wrapping of the empty input (A6A6A6A6A6A6A6A6) unwraps under every key; RFC 3394 requires n >= 2", alg), json!({"bit": pos}));
            } else {
                cx.fail(format!("c12:tamper:{}:single-bit flip of key accepted", alg), json!({"bit": pos, "msg_len": msg.len(), "got": x}));
            }
            break;
        }
    }
    let distinct: BTreeSet<&String> = a.iter().chain(b.iter()).chain(c.iter()).filter(|x| x.starts_with("E:")).collect();
    if distinct.len() > 1 {
        let list: Vec<String> = distinct.iter().map(|s| s.to_string()).collect();
        cx.fail(format!("c12:uniform:{}:same-length forgeries distinguishable:{}", alg, list.join("|")), json!({"msg_len": msg.len(), "errors": list}));
    }
    cx.count("flips");
    json!({"base": base, "ct_tag": rle(&a), "nonce": rle(&b), "aad": rle(&c), "key": rle(&d)})
}

fn op_resize(cx: &mut Ctx, key: &LocalKey, msg: &[u8], nonce: &[u8], aad: &[u8], ext: &[u8]) -> Value {
    let alg = cx.alg.clone();
    let (ct, tag) = match encrypt_parts(cx, key, msg, nonce, aad) { Ok(p) => p, Err(v) => return v };
    let mut whole = ct.clone();
    whole.extend_from_slice(&tag);
    let base = dec_code(cx, "dec", key, &whole, &[], nonce, aad, msg);
    let mut a = vec![];
    for n in 0..whole.len() { a.push(dec_code(cx, "dec:trunc", key, &whole[..n], &[], nonce, aad, msg)); }
    let mut b = vec![];
    for n in 0..ext.len() {
        let mut w = whole.clone();
        w.extend_from_slice(&ext[..n + 1]);
        b.push(dec_code(cx, "dec:extend", key, &w, &[], nonce, aad, msg));
    }
    for (field, codes) in [("truncation", &a), ("extension", &b)] {
        if let Some(pos) = codes.iter().position(|x| x.starts_with("ok")) {
            cx.fail(format!("c12:tamper:{}:{} accepted", alg, field), json!({"index": pos, "msg_len": msg.len()}));
        }
    }
    cx.count("resize");
    json!({"base": base, "trunc": rle(&a), "extend": rle(&b)})
}

fn op_nonce_lens(cx: &mut Ctx, key: &LocalKey, msg: &[u8], aad: &[u8], max: usize, fill: usize) -> Value {
    let alg = cx.alg.clone();
    let nl = nonce_len(&alg);
    let good = pattern(fill, nl);
    let valid: Vec<u8> = match encrypt_parts(cx, key, msg, &good, aad) {
        Ok((ct, tag)) => { let mut w = ct; w.extend_from_slice(&tag); w }
        Err(_) => pattern(fill, 40),
    };
    let supported = alg != "ed25519" && encrypt_parts(cx, key, msg, &good, aad).is_ok();
    let mut encs = vec![];
    let mut decs = vec![];
    for n in 0..=max {
        let nonce = pattern(fill, n);
        let e = match guarded(cx, "enc:noncelen", || key.aead_encrypt(msg, &nonce, aad)) {
            Ok(Ok(e)) => format!("{}:{}", if n == 0 && nl > 0 { "random" } else { "ok" }, e.as_ref().len()),
            Ok(Err(e)) => ecode(&e),
            Err(()) => "panic".into(),
        };
        let d = dec_code(cx, "dec:noncelen", key, &valid, &[], &nonce, aad, msg);
        // ---- oracle: a nonce of wrong length is an error (an empty nonce asks for a random one on encryption)
        if supported {
            let enc_ok = !e.starts_with("E:");
            if enc_ok != (n == nl || (n == 0 && nl > 0)) && e != "panic" {
                cx.fail(format!("c12:noncelen:{}:encrypt verdict wrong for nonce length", alg), json!({"len": n, "got": e}));
            }
            if d.starts_with("ok") != (n == nl) && d != "panic" {
                cx.fail(format!("c12:noncelen:{}:decrypt verdict wrong for nonce length", alg), json!({"len": n, "got": d}));
            }
        }
        encs.push(e);
        decs.push(d);
    }
    cx.count("nonce_lens");
    json!({"enc": rle(&encs), "dec": rle(&decs)})
}

fn op_wrap(cx: &mut Ctx, key: &LocalKey, palg: &str, pkey: &[u8], nonce: &[u8]) -> Value {
    let alg = cx.alg.clone();
    let pa = match alg_of(palg) { Some(a) => a, None => return json!({"err": "bad palg"}) };
    let payload = match guarded(cx, "from_secret_bytes", || LocalKey::from_secret_bytes(pa, pkey)) {
        Ok(Ok(k)) => k,
        Ok(Err(e)) => return json!({"payload_err": jerr2(&e)}),
        Err(()) => return json!({"panic": "from_secret_bytes"}),
    };
    let enc = match guarded(cx, "wrap", || key.wrap_key(&payload, nonce)) {
        Ok(Ok(e)) => e,
        Ok(Err(e)) => return jerr2(&e),
        Err(()) => return json!({"panic": "wrap"}),
    };
    let parts = catch_unwind(AssertUnwindSafe(|| (enc.ciphertext().to_vec(), enc.tag().to_vec(), enc.nonce().to_vec())));
    let (ct, tag, n) = match parts {
        Ok(p) => p,
        Err(_) => {
            cx.fail(format!("c12:layout:{}:accessor panics", alg), json!({}));
            return json!({"panic": "accessor"});
        }
    };
    let buf = enc.as_ref().to_vec();
    let un = match guarded(cx, "unwrap", || key.unwrap_key(pa, (&ct[..], &tag[..]), &n)) {
        Ok(Ok(k)) => match k.to_secret_bytes() {
            Ok(sb) => {
                if sb.as_ref() != pkey { cx.fail(format!("c12:roundtrip:{}:unwrap(wrap(k)) != k", alg), json!({"palg": palg})); }
                json!({"key": hex::encode(sb.as_ref())})
            }
            Err(e) => jerr2(&e),
        },
        Ok(Err(e)) => {
            cx.fail(format!("c12:roundtrip:{}:unwrap(wrap(k)) fails", alg), json!({"palg": palg, "err": ecode(&e)}));
            jerr2(&e)
        }
        Err(()) => json!({"panic": "unwrap"}),
    };
    json!({"ct": jvalue(&ct), "tag": hex::encode(&tag), "nonce": hex::encode(&n), "tag_pos": ct.len(), "nonce_pos": ct.len() + tag.len(),
           "buf": jvalue(&buf), "unwrap": un})
}

fn run_op(cx: &mut Ctx, key: &LocalKey, op: &Value) -> Value {
    let name = op["op"].as_str().unwrap_or("");
    cx.count(&format!("op:{}", name));
    match name {
        "params" => match guarded(cx, "params", || key.aead_params()) {
            Ok(Ok(p)) => json!({"nonce": p.nonce_length, "tag": p.tag_length}),
            Ok(Err(e)) => jerr2(&e),
            Err(()) => json!({"panic": "params"}),
        },
        "padding" => {
            let len = op["len"].as_u64().unwrap_or(0) as usize;
            match catch_unwind(AssertUnwindSafe(|| key.aead_padding(len))) {
                Ok(p) => json!({"pad": p}),
                Err(_) => { let a = cx.alg.clone(); cx.fail(format!("c12:panic:{}:padding", a), json!({})); json!({"panic": "padding"}) }
            }
        }
        "enc" => op_enc(cx, key, &value_from_json(&op["msg"]), &hx(op, "nonce"), &value_from_json(&op["aad"])),
        "dec" => dec_json(cx, key, &value_from_json(&op["ct"]), &hx(op, "tag"), &hx(op, "nonce"), &value_from_json(&op["aad"])),
        "flips" => op_flips(cx, key, &value_from_json(&op["msg"]), &hx(op, "nonce"), &value_from_json(&op["aad"])),
        "resize" => op_resize(cx, key, &value_from_json(&op["msg"]), &hx(op, "nonce"), &value_from_json(&op["aad"]), &hx(op, "ext")),
        "nonce_lens" => op_nonce_lens(cx, key, &value_from_json(&op["msg"]), &value_from_json(&op["aad"]),
                                      op["max"].as_u64().unwrap_or(0) as usize, op["fill"].as_u64().unwrap_or(0) as usize),
        "wrap" => op_wrap(cx, key, op["palg"].as_str().unwrap_or(""), &hx(op, "pkey"), &hx(op, "nonce")),
        "unwrap" => {
            let a = match alg_of(op["alg"].as_str().unwrap_or("")) { Some(a) => a, None => return json!({"err": "bad alg"}) };
            let ct = value_from_json(&op["ct"]);
            let (tag, nonce) = (hx(op, "tag"), hx(op, "nonce"));
            match guarded(cx, "unwrap", || key.unwrap_key(a, (&ct[..], &tag[..]), &nonce)) {
                Ok(Ok(k)) => match k.to_secret_bytes() { Ok(sb) => json!({"key": hex::encode(sb.as_ref())}), Err(e) => jerr2(&e) },
                Ok(Err(e)) => jerr2(&e),
                Err(()) => json!({"panic": "unwrap"}),
            }
        }
        "random_nonce" => match guarded(cx, "random_nonce", || key.aead_random_nonce()) {
            Ok(Ok(n)) => {
                // ---- oracle: the length `aead_params` announces (0 for key wrap), and not a constant
                let want = key.aead_params().map(|p| p.nonce_length).unwrap_or(0);
                let again = key.aead_random_nonce().map(|v| v.to_vec()).unwrap_or_default();
                let a = cx.alg.clone();
                if n.len() != want { cx.fail(format!("c12:random-nonce:{}:length differs from aead_params", a), json!({"len": n.len()})); }
                if !n.is_empty() && n == again { cx.fail(format!("c12:random-nonce:{}:two calls return the same nonce", a), json!({})); }
                json!({"len": n.len()})
            }
            Ok(Err(e)) => jerr2(&e),
            Err(()) => json!({"panic": "random_nonce"}),
        },
        o => json!({"err": format!("unknown op {}", o)}),
    }
}

// ---------------------------------------------------------------------------------------------------------------
// the buffer type as a dimension (COVERAGE.md row 1): every in-place operation over every public buffer type

fn cerr(e: &askar_crypto::Error) -> Value {
    json!({"err": format!("{:?}", e.kind()), "msg": e.message()})
}

#[derive(Clone, Copy)]
enum BufKind { Vec, Secret, Writer { cap: usize, stale: usize } }

type InPlace<'a> = &'a dyn Fn(&mut dyn ResizeBuffer) -> Result<Option<usize>, askar_crypto::Error>;

fn jdone(view: &[u8], ret: Option<usize>) -> Value {
    match ret {
        Some(r) => json!({"buf": jvalue(view), "pos": view.len(), "ret": r}),
        None => json!({"buf": jvalue(view), "pos": view.len()}),
    }
}

/// one in-place call on one buffer type; canonical result: the visible bytes, the position, the returned value — or the
/// crate-level error — or a panic
fn inplace(kind: BufKind, input: &[u8], f: InPlace) -> Value {
    let r = catch_unwind(AssertUnwindSafe(|| -> Value {
        match kind {
            BufKind::Vec => {
                let mut b: Vec<u8> = input.to_vec();
                match f(&mut b) { Ok(ret) => jdone(&b, ret), Err(e) => cerr(&e) }
            }
            BufKind::Secret => {
                let mut b = SecretBytes::from_slice(input);
                match f(&mut b) { Ok(ret) => jdone(b.as_ref(), ret), Err(e) => cerr(&e) }
            }
            BufKind::Writer { cap, stale } => {
                let mut arr = pattern(stale, cap);
                arr[..input.len()].copy_from_slice(input);
                let mut w = Writer::from_slice_position(&mut arr[..], input.len());
                match f(&mut w) {
                    Ok(ret) => { let v: Vec<u8> = AsRef::<[u8]>::as_ref(&w).to_vec(); jdone(&v, ret) }
                    Err(e) => cerr(&e),
                }
            }
        }
    }));
    r.unwrap_or_else(|_| json!({"panic": true}))
}

fn res_class(v: &Value) -> String {
    if v.get("panic").is_some() { "panic".into() }
    else if let Some(k) = v.get("err").and_then(|k| k.as_str()) { format!("err:{}", k) }
    else { "ok".into() }
}

fn diff_class(expect: &Value, got: &Value) -> String {
    if res_class(got) != "ok" || res_class(expect) != "ok" { return res_class(got); }
    if got["pos"] != expect["pos"] { "ok-wrong-position".into() }
    else if got["buf"] != expect["buf"] { "ok-wrong-bytes".into() }
    else if got["ret"] != expect["ret"] { "ok-wrong-return".into() }
    else { "ok".into() }
}

fn family(alg: &str) -> &'static str {
    if is_kw(alg) { "kw" } else if alg.contains("cbc") { "cbchmac" } else if alg == "ed25519" { "none" } else { "stream" }
}

/// all buffer types for one direction; `need` = the largest length the buffer has during the reference (Vec) run
fn buf_variants(cx: &mut Ctx, dir: &str, input: &[u8], extra: usize, stale: (usize, usize), f: InPlace) -> Value {
    let alg = cx.alg.clone();
    let reference = inplace(BufKind::Vec, input, f);
    let need = reference["pos"].as_u64().map(|p| (p as usize).max(input.len())).unwrap_or(input.len());
    let secret = inplace(BufKind::Secret, input, f);
    let w_exact = inplace(BufKind::Writer { cap: need, stale: stale.0 }, input, f);
    let w_short = if need > input.len() { inplace(BufKind::Writer { cap: need - 1, stale: stale.0 }, input, f) } else { Value::Null };
    let w_a = inplace(BufKind::Writer { cap: need + extra, stale: stale.0 }, input, f);
    let w_b = inplace(BufKind::Writer { cap: need + extra, stale: stale.1 }, input, f);
    cx.count(&format!("buf:{}:{}", dir, res_class(&reference)));
    // ---- oracle: the buffer type does not matter — same bytes up to the position, same position, same return value,
    //      same error; one byte too small is a clean ExceededBuffer error; bytes beyond the position are never read
    let fam = family(&alg);
    for (name, got) in [("SecretBytes", &secret), ("Writer<[u8]>:exact", &w_exact), ("Writer<[u8]>:exact+n", &w_a), ("Writer<[u8]>:exact+n", &w_b)] {
        if got != &reference {
            cx.fail(format!("c12:buffer:{}:{}:{}:{}→{}", name, dir, fam, res_class(&reference), diff_class(&reference, got)),
                    json!({"alg": alg, "input_len": input.len(), "cap": need, "expected": reference, "got": got}));
        }
    }
    if !w_short.is_null() {
        let want = if res_class(&reference) == "ok" { "err:ExceededBuffer".to_string() } else { res_class(&reference) };
        if res_class(&w_short) != want {
            cx.fail(format!("c12:buffer:Writer<[u8]>:exact-1:{}:{}:{}→{}", dir, fam, want, res_class(&w_short)),
                    json!({"alg": alg, "input_len": input.len(), "cap": need - 1, "got": w_short}));
        }
        cx.count("buf:short");
    }
    if w_a != w_b {
        cx.fail(format!("c12:buffer:Writer<[u8]>:{}:{}:stale bytes beyond the position are visible", dir, fam), json!({"alg": alg, "a": w_a, "b": w_b}));
    }
    json!({"vec": reference, "secret": secret, "w_exact": w_exact, "w_short": w_short, "w_extra_a": w_a, "w_extra_b": w_b})
}

fn exec_buf(cx: &mut Ctx, case: &Value) -> Value {
    let a = match alg_of(&cx.alg) { Some(a) => a, None => return json!({"err": "bad alg"}) };
    let key = match Box::<AnyKey>::from_secret_bytes(a, &cx.key) { Ok(k) => k, Err(e) => return json!({"key": cerr(&e)}) };
    let msg = value_from_json(&case["msg"]);
    let (nonce, aad) = (hx(case, "nonce"), value_from_json(&case["aad"]));
    let extra = case["extra"].as_u64().unwrap_or(64) as usize;
    let stale = (case["stale"][0].as_u64().unwrap_or(0xEE) as usize, case["stale"][1].as_u64().unwrap_or(0x11) as usize);
    let enc = buf_variants(cx, "enc", &msg, extra, stale, &|b| key.encrypt_in_place(b, &nonce, &aad).map(Some));
    // what is decrypted: the case's raw bytes, else the reference ciphertext
    let input: Option<Vec<u8>> = if case.get("raw").is_some() { Some(value_from_json(&case["raw"])) } else {
        let mut v = msg.clone();
        match catch_unwind(AssertUnwindSafe(|| key.encrypt_in_place(&mut v, &nonce, &aad))) { Ok(Ok(_)) => Some(v), _ => None }
    };
    let dec = match &input {
        Some(i) => {
            let d = buf_variants(cx, "dec", i, extra, stale, &|b| key.decrypt_in_place(b, &nonce, &aad).map(|_| None));
            // ---- oracle: round trip through the reference buffer
            if case.get("raw").is_none() && d["vec"]["buf"] != jvalue(&msg) {
                let alg = cx.alg.clone();
                cx.fail(format!("c12:roundtrip:{}:decrypt_in_place(encrypt_in_place(m)) != m", alg), json!({"len": msg.len()}));
            }
            d
        }
        None => Value::Null,
    };
    json!({"enc": enc, "dec": dec})
}

/// raw trait calls on the three buffer types
fn apply_op(b: &mut dyn ResizeBuffer, op: &Value) -> Result<(), askar_crypto::Error> {
    let n = |k: &str| op[k].as_u64().unwrap_or(0) as usize;
    match op["o"].as_str().unwrap_or("") {
        "write" => b.buffer_write(&hx(op, "d")),
        "insert" => b.buffer_insert(n("p"), &hx(op, "d")),
        "remove" => b.buffer_remove(n("s")..n("e")),
        "resize" => b.buffer_resize(n("n")),
        "extend" => b.buffer_extend(n("n")).map(|_| ()),
        _ => Ok(()),
    }
}

fn op_steps(b: &mut dyn ResizeBuffer, ops: &[Value]) -> Vec<Value> {
    let mut out = vec![];
    for op in ops {
        match catch_unwind(AssertUnwindSafe(|| apply_op(b, op))) {
            Ok(Ok(())) => { let v = b.as_ref().to_vec(); out.push(jdone(&v, None)); }
            Ok(Err(e)) => out.push(cerr(&e)),
            Err(_) => { out.push(json!({"panic": true})); break; }       // the state after a panic is not inspected
        }
    }
    out
}

fn exec_bufops(cx: &mut Ctx, case: &Value) -> Value {
    let cap = case["cap"].as_u64().unwrap_or(0) as usize;
    let init = hx(case, "init");
    let stale = case["stale"].as_u64().unwrap_or(0xEE) as usize;
    let ops = case["ops"].as_array().cloned().unwrap_or_default();
    if init.len() > cap { return json!({"err": "init longer than cap"}); }
    let mut v = init.clone();
    let vec_steps = op_steps(&mut v, &ops);
    let mut sb = SecretBytes::from_slice(&init);
    let secret_steps = op_steps(&mut sb, &ops);
    let mut arr = pattern(stale, cap);
    arr[..init.len()].copy_from_slice(&init);
    let writer_steps = {
        let mut w = Writer::from_slice_position(&mut arr[..], init.len());
        op_steps(&mut w, &ops)
    };
    // ---- oracle: the reference is a plain list with a capacity — an operation whose result fits has the list result,
    //      one that does not fit is ExceededBuffer and changes nothing; preconditions (pos ≤ len, s ≤ e ≤ len) are the
    //      generator's business: after a violated one (the Vec panics) nothing is judged any more
    let mut reference = init.clone();
    for (i, op) in ops.iter().enumerate() {
        let mut next = reference.clone();
        let r = catch_unwind(AssertUnwindSafe(|| apply_op(&mut next, op)));
        if !matches!(r, Ok(Ok(()))) { break; }
        let name = op["o"].as_str().unwrap_or("?");
        let (want, fits) = if next.len() <= cap { (jdone(&next, None), true) } else { (json!({"err": "ExceededBuffer"}), false) };
        let got = writer_steps.get(i).cloned().unwrap_or(Value::Null);
        let ok = if fits { got == want } else { got["err"] == "ExceededBuffer" };
        if !ok {
            cx.fail(format!("c12:buffer:Writer<[u8]>:op:{}:{}→{}", name, res_class(&want), diff_class(&want, &got)),
                    json!({"step": i, "op": op, "cap": cap, "before": hex::encode(&reference), "expected": want, "got": got}));
            break;
        }
        if fits { reference = next; }
        cx.count(&format!("bufop:{}:{}", name, if fits { "fits" } else { "exceeds" }));
        if secret_steps.get(i) != vec_steps.get(i) {
            cx.fail(format!("c12:buffer:SecretBytes:op:{}:differs from Vec", name), json!({"step": i, "op": op}));
            break;
        }
    }
    json!({"vec": vec_steps, "secret": secret_steps, "writer": writer_steps})
}

/// guards in front of key generation / key derivation (COVERAGE.md row 20)
fn exec_misc(cx: &mut Ctx, case: &Value) -> Value {
    let mut out = vec![];
    for p in case["probes"].as_array().cloned().unwrap_or_default() {
        let name = p["p"].as_str().unwrap_or("").to_string();
        cx.count(&format!("probe:{}", name));
        match name.as_str() {
            "from_seed" => {
                let a = alg_of(p["alg"].as_str().unwrap_or("")).expect("alg");
                let seed = hx(&p, "seed");
                let method = p["method"].as_str().map(|s| s.to_string());
                let r = guarded(cx, "from_seed", || LocalKey::from_seed(a, &seed, method.as_deref()));
                let known = matches!(method.as_deref(), None | Some("") | Some("bls_keygen"));
                let short_bls = method.as_deref() == Some("bls_keygen") && seed.len() < 32;
                out.push(match r {
                    Ok(Ok(k)) => {
                        // ---- oracle: an unknown method / a short BLS seed never yields a key; the same seed yields the same key
                        if !known || short_bls { cx.fail("c12:from_seed:a key from an unknown method or a short BLS seed".into(), json!({"p": p})); }
                        let again = LocalKey::from_seed(a, &seed, method.as_deref()).ok().and_then(|k2| k2.to_secret_bytes().ok()).map(|b| b.to_vec());
                        if again != k.to_secret_bytes().ok().map(|b| b.to_vec()) { cx.fail("c12:from_seed:not deterministic".into(), json!({"p": p})); }
                        json!("ok")
                    }
                    Ok(Err(e)) => {
                        if known && !short_bls { cx.fail(format!("c12:from_seed:valid seed refused:{}", kind_name(e.kind())), json!({"p": p})); }
                        json!({"err": kind_name(e.kind())})
                    }
                    Err(()) => json!({"panic": true}),
                });
            }
            "argon2_new" => {
                let salt = pattern(3, p["salt_len"].as_u64().unwrap_or(0) as usize);
                let r = catch_unwind(AssertUnwindSafe(|| askar_crypto::kdf::argon2::Argon2::new(b"password", &salt, askar_crypto::kdf::argon2::PARAMS_INTERACTIVE).map(|_| ())));
                out.push(match r {
                    Ok(Ok(())) => {
                        if salt.len() < 16 { cx.fail("c12:argon2:salt shorter than 16 bytes accepted".into(), json!({"len": salt.len()})); }
                        json!("ok")
                    }
                    Ok(Err(e)) => {
                        if salt.len() >= 16 { cx.fail("c12:argon2:salt of 16 bytes or more refused".into(), json!({"len": salt.len()})); }
                        json!({"err": format!("{:?}", e.kind())})
                    }
                    Err(_) => { cx.fail("c12:panic:argon2_new".into(), json!({})); json!({"panic": true}) }
                });
            }
            _ => out.push(json!({"err": "unknown probe"})),
        }
    }
    Value::Array(out)
}

// ---------------------------------------------------------------------------------------------------------------
// known-answer tests from the standards, run through LocalKey (oracle of the self-test case)

fn kat(cx: &mut Ctx, name: &str, alg: &str, key: &str, nonce: &str, aad: &[u8], msg: &[u8], ct: &str, tag: &str) {
    let k = match LocalKey::from_secret_bytes(alg_of(alg).unwrap(), &hex::decode(key).unwrap()) {
        Ok(k) => k,
        Err(e) => { cx.fail(format!("c12:kat:{}:key rejected", name), json!({"err": ecode(&e)})); return; }
    };
    cx.alg = alg.to_string();
    match guarded(cx, "enc", || k.aead_encrypt(msg, &hex::decode(nonce).unwrap(), aad)) {
        Ok(Ok(e)) => {
            if hex::encode(e.ciphertext()) != ct || hex::encode(e.tag()) != tag {
                cx.fail(format!("c12:kat:{}:ciphertext or tag differs from the standard's vector", name),
                        json!({"ct": hex::encode(e.ciphertext()), "tag": hex::encode(e.tag())}));
            }
        }
        Ok(Err(e)) => cx.fail(format!("c12:kat:{}:encryption fails", name), json!({"err": ecode(&e)})),
        Err(()) => {}
    }
    match guarded(cx, "dec", || k.aead_decrypt((&hex::decode(ct).unwrap()[..], &hex::decode(tag).unwrap()[..]), &hex::decode(nonce).unwrap(), aad)) {
        Ok(Ok(pt)) if pt.as_ref() == msg => {}
        Ok(_) => cx.fail(format!("c12:kat:{}:the standard's vector does not decrypt", name), json!({})),
        Err(()) => {}
    }
    cx.count("kat");
}

fn run_kats(cx: &mut Ctx) {
    let sunscreen = b"Ladies and Gentlemen of the class of '99: If I could offer you only one tip for the future, sunscreen would be it.";
    let kerckhoffs = b"A cipher system must not be required to be secret, and it must be able to fall into the hands of the enemy without inconvenience";
    let aad8439 = hex::decode("50515253c0c1c2c3c4c5c6c7").unwrap();
    let key8439 = "808182838485868788898a8b8c8d8e8f909192939495969798999a9b9c9d9e9f";
    kat(cx, "rfc8439-2.8.2", "c20p", key8439, "070000004041424344454647", &aad8439, sunscreen,
        "d31a8d34648e60db7b86afbc53ef7ec2a4aded51296e08fea9e2b5a736ee62d63dbea45e8ca9671282fafb69da92728b1a71de0a9e060b2905d6a5b67ecd3b3692ddbd7f2d778b8c9803aee328091b58fab324e4fad675945585808b4831d7bc3ff4def08e4b7a9de576d26586cec64b6116",
        "1ae10b594f09e26a7e902ecbd0600691");
    kat(cx, "xchacha-A.3.1", "xc20p", key8439, "404142434445464748494a4b4c4d4e4f5051525354555657", &aad8439, sunscreen,
        "bd6d179d3e83d43b9576579493c0e939572a1700252bfaccbed2902c21396cbb731c7f1b0b4aa6440bf3a82f4eda7e39ae64c6708c54c216cb96b72e1213b4522f8c9ba40db5d945b11b69b982c1bb9e3f3fac2bc369488f76b2383565d3fff921f9664c97637da9768812f615c68b13b52e",
        "c0875924c1c7987947deafd8780acf49");
    let p4 = hex::decode("d9313225f88406e5a55909c5aff5269a86a7a9531534f7da2e4c303d8a318a721c3c0c95956809532fcf0e2449a6b525b16aedf5aa0de657ba637b39").unwrap();
    let a4 = hex::decode("feedfacedeadbeeffeedfacedeadbeefabaddad2").unwrap();
    kat(cx, "gcm-spec-tc4", "a128gcm", "feffe9928665731c6d6a8f9467308308", "cafebabefacedbaddecaf888", &a4, &p4,
        "42831ec2217774244b7221b784d0d49ce3aa212f2c02a4e035c17e2329aca12e21d514b25466931c7d8f6a5aac84aa051ba30b396a0aac973d58e091",
        "5bc94fbc3221a5db94fae95ae7121a47");
    kat(cx, "gcm-spec-tc14", "a256gcm", "0000000000000000000000000000000000000000000000000000000000000000", "000000000000000000000000", &[], &[0u8; 16],
        "cea7403d4d606b6e074ec5d3baf39d18", "d0d1c8a799996bf0265b98b5d48ab919");
    kat(cx, "rfc7518-B.1", "a128cbchs256", "000102030405060708090a0b0c0d0e0f101112131415161718191a1b1c1d1e1f", "1af38c2dc2b96ffdd86694092341bc04",
        b"The second principle of Auguste Kerckhoffs", kerckhoffs,
        "c80edfa32ddf39d5ef00c0b468834279a2e46a1b8049f792f76bfe54b903a9c9a94ac9b47ad2655c5f10f9aef71427e2fc6f9b3f399a221489f16362c703233609d45ac69864e3321cf82935ac4096c86e133314c54019e8ca7980dfa4b9cf1b384c486f3a54c51078158ee5d79de59fbd34d848b3d69550a67646344427ade54b8851ffb598f7f80074b9473c82e2db",
        "652c3fa36b0a7c5b3219fab3a30bc1c4");
    kat(cx, "rfc7518-B.3", "a256cbchs512",
        "000102030405060708090a0b0c0d0e0f101112131415161718191a1b1c1d1e1f202122232425262728292a2b2c2d2e2f303132333435363738393a3b3c3d3e3f",
        "1af38c2dc2b96ffdd86694092341bc04", b"The second principle of Auguste Kerckhoffs", kerckhoffs,
        "4affaaadb78c31c5da4b1b590d10ffbd3dd8d5d302423526912da037ecbcc7bd822c301dd67c373bccb584ad3e9279c2e6d12a1374b77f077553df829410446b36ebd97066296ae6427ea75c2e0846a11a09ccf5370dc80bfecbad28c73f09b3a3b75e662a2594410ae496b2e2e6609e31e6e02cc837f053d21f37ff4f51950bbe2638d09dd7a4930930806d0703b1f6",
        "4dd3b4c088a7f45c216839645b2012bf2e6269a8c56a816dbc1b267761955bc5");
    kat(cx, "rfc3394-4.1", "a128kw", "000102030405060708090a0b0c0d0e0f", "", &[], &hex::decode("00112233445566778899aabbccddeeff").unwrap(),
        "1fa68b0a8112b447aef34bd8fb5a7b829d3e862371d2cfe5", "");
    kat(cx, "rfc3394-4.6", "a256kw", "000102030405060708090a0b0c0d0e0f101112131415161718191a1b1c1d1e1f", "", &[],
        &hex::decode("00112233445566778899aabbccddeeff000102030405060708090a0b0c0d0e0f").unwrap(),
        "28c9f404c4b810f4cbccb35cfb87f8263f5786e2d80ed326cbc7f0e71a99f43bfb988b9b7a02dd21", "");
}

// ---------------------------------------------------------------------------------------------------------------

/// run one case against the real code; returns {"out": …, "oracle": […], "feat": {…}}
pub fn exec(case: &Value, _tag: &str) -> Value {
    let kind = case["kind"].as_str().unwrap_or("");
    let alg = case["alg"].as_str().unwrap_or("").to_string();
    let mut cx = Ctx { alg: alg.clone(), key: hx(case, "key"), oracle: vec![], feat: Map::new() };
    let out = match kind {
        "c12:selftest" => {
            run_kats(&mut cx);
            json!({"sha2": true, "hmac": true, "aes": true, "cbc": true, "keywrap": true, "gcm": true, "chacha20": true,
                   "poly1305": true, "chachapoly": true, "concatkdf": true})
        }
        "c12:buf" => exec_buf(&mut cx, case),
        "c12:bufops" => exec_bufops(&mut cx, case),
        "c12:misc" => exec_misc(&mut cx, case),
        "c12:keylens" => {
            let a = alg_of(&alg).expect("alg");
            let max = case["max"].as_u64().unwrap_or(0) as usize;
            let fill = case["fill"].as_u64().unwrap_or(0) as usize;
            let mut codes = vec![];
            for n in 0..=max {
                let kb = pattern(fill, n);
                let c = match guarded(&mut cx, "from_secret_bytes", || LocalKey::from_secret_bytes(a, &kb)) {
                    Ok(Ok(_)) => "ok".to_string(),
                    Ok(Err(e)) => ecode(&e),
                    Err(()) => "panic".into(),
                };
                // ---- oracle: exactly the algorithm's key length is accepted
                if (c == "ok") != (n == key_len(&alg)) && c != "panic" {
                    cx.fail(format!("c12:keylen:{}:wrong verdict for key length", alg), json!({"len": n, "got": c}));
                }
                codes.push(c);
            }
            rle(&codes)
        }
        _ => {
            let a = alg_of(&alg).expect("alg");
            let kb = hx(case, "key");
            let ops = case["ops"].as_array().cloned().unwrap_or_default();
            match guarded(&mut cx, "from_secret_bytes", || LocalKey::from_secret_bytes(a, &kb)) {
                Ok(Ok(key)) => {
                    let mut outs = vec![json!("ok")];
                    for op in &ops { outs.push(run_op(&mut cx, &key, op)); }
                    Value::Array(outs)
                }
                Ok(Err(e)) => {
                    let mut outs = vec![jerr2(&e)];
                    outs.extend(ops.iter().map(|_| Value::Null));
                    Value::Array(outs)
                }
                Err(()) => json!({"panic": "from_secret_bytes"}),
            }
        }
    };
    json!({"out": out, "oracle": cx.oracle, "feat": cx.feat})
}

// ---------------------------------------------------------------------------------------------------------------
// generators

fn hexs(b: &[u8]) -> String { hex::encode(b) }

/// message spec: small messages as hex, large ones as a fill pattern (keeps case lines short)
fn msg_spec(r: &mut Rng, len: usize) -> Value {
    if len <= 64 { json!(hexs(&r.bytes(len))) } else { json!({"fill": r.below(256), "salt": 1 + 2 * r.below(64), "len": len}) }
}

fn pick_bytes(r: &mut Rng, lens: &[usize]) -> Vec<u8> { let n = *r.pick(lens); r.bytes(n) }

fn good_nonce(r: &mut Rng, alg: &str) -> Vec<u8> { r.bytes(nonce_len(alg)) }

fn aad_for(r: &mut Rng, alg: &str) -> Vec<u8> {
    if is_kw(alg) { return vec![]; }
    let n = *r.pick(&[0usize, 0, 1, 7, 8, 13, 16, 17, 42, 64]);
    r.bytes(n)
}

fn case(id: String, alg: &str, key: &[u8], ops: Vec<Value>) -> Value {
    json!({"kind": "c12", "id": id, "alg": alg, "key": hexs(key), "ops": ops})
}

/// generated cases for this property (each a JSON object with "kind": "c12…")
pub fn gen(r: &mut Rng, thorough: bool, count: Option<usize>) -> Vec<Value> {
    let mut out = vec![json!({"kind": "c12:selftest", "id": "selftest"})];
    let scale = if thorough { 30 } else { 1 };
    // every key length 0..80 for every algorithm
    for alg in ALGS.iter().chain(["ed25519"].iter()) {
        out.push(json!({"kind": "c12:keylens", "id": format!("keylens-{}", alg), "alg": alg, "max": 80, "fill": r.below(256)}));
    }
    for alg in ALGS {
        let kl = key_len(alg);
        // parameters and padding, exhaustive 0..49 + block boundaries further out
        let key = r.bytes(kl);
        let mut ops = vec![json!({"op": "params"})];
        for len in (0..50).chain([63, 64, 65, 255, 256, 257, 4095, 4096, 4097]) { ops.push(json!({"op": "padding", "len": len})); }
        out.push(case(format!("params-{}", alg), alg, &key, ops));

        // message lengths 0..49 exhaustively (fresh nonce and aad per message)
        for rep in 0..scale {
            let key = r.bytes(kl);
            let mut ops = vec![];
            for len in 0..50 {
                let (n, a) = (good_nonce(r, alg), aad_for(r, alg));
                ops.push(json!({"op": "enc", "msg": msg_spec(r, len), "nonce": hexs(&n), "aad": hexs(&a)}));
            }
            out.push(case(format!("lens-{}-{}", alg, rep), alg, &key, ops));
        }
        // random lengths up to 4 KiB, block boundaries favoured
        for rep in 0..(3 * scale) {
            let key = r.bytes(kl);
            let mut ops = vec![];
            for _ in 0..4 {
                let mut len = match r.below(4) { 0 => 16 * r.below(257), 1 => 16 * r.below(257) + 1, 2 => (16 * (1 + r.below(256))) - 1, _ => r.below(4097) };
                if is_kw(alg) && r.chance(3, 4) { len = 8 * (len / 8); }
                let (n, a) = (good_nonce(r, alg), aad_for(r, alg));
                ops.push(json!({"op": "enc", "msg": msg_spec(r, len), "nonce": hexs(&n), "aad": hexs(&a)}));
            }
            // an empty nonce asks for a random one
            let rl = 8 * r.below(6);
            ops.push(json!({"op": "enc", "msg": msg_spec(r, rl), "nonce": "", "aad": hexs(&aad_for(r, alg))}));
            out.push(case(format!("rand-{}-{}", alg, rep), alg, &key, ops));
        }
        // every single-bit flip of ct‖tag, nonce, aad for small messages
        let flip_lens: Vec<usize> = if thorough { (0..50).collect() } else if is_kw(alg) { vec![0, 8, 16, 24, 40] } else { vec![0, 1, 15, 16, 17, 33] };
        for len in flip_lens {
            let key = r.bytes(kl);
            let (n, a) = (good_nonce(r, alg), if is_kw(alg) { vec![] } else { pick_bytes(r, &[0, 1, 5, 16]) });
            out.push(case(format!("flips-{}-{}", alg, len), alg, &key,
                          vec![json!({"op": "flips", "msg": hexs(&r.bytes(len)), "nonce": hexs(&n), "aad": hexs(&a)})]));
        }
        // truncations and extensions
        let rs_lens: Vec<usize> = if thorough { (0..50).step_by(3).collect() } else if is_kw(alg) { vec![0, 16, 32] } else { vec![0, 15, 16, 31, 48] };
        for len in rs_lens {
            let key = r.bytes(kl);
            let (n, a) = (good_nonce(r, alg), aad_for(r, alg));
            out.push(case(format!("resize-{}-{}", alg, len), alg, &key,
                          vec![json!({"op": "resize", "msg": hexs(&r.bytes(len)), "nonce": hexs(&n), "aad": hexs(&a), "ext": hexs(&r.bytes(33))})]));
        }
        // every nonce length 0..40
        for rep in 0..scale {
            let key = r.bytes(kl);
            let len = if is_kw(alg) { 8 * r.below(5) } else { r.below(40) };
            out.push(case(format!("noncelens-{}-{}", alg, rep), alg, &key,
                          vec![json!({"op": "nonce_lens", "msg": hexs(&r.bytes(len)), "aad": hexs(&aad_for(r, alg)), "max": 40, "fill": r.below(256)})]));
        }
        // key wrapping: every payload algorithm, right and wrong nonces, unwrap as another algorithm
        for rep in 0..scale {
            let key = r.bytes(kl);
            let mut ops = vec![];
            for palg in ALGS {
                let pk = r.bytes(key_len(palg));
                ops.push(json!({"op": "wrap", "palg": palg, "pkey": hexs(&pk), "nonce": hexs(&good_nonce(r, alg))}));
            }
            ops.push(json!({"op": "wrap", "palg": "ed25519", "pkey": hexs(&r.bytes(32)), "nonce": hexs(&good_nonce(r, alg))}));
            ops.push(json!({"op": "wrap", "palg": "a128gcm", "pkey": hexs(&r.bytes(16)), "nonce": hexs(&pick_bytes(r, &[0, 1, 8, 12, 16, 24]))}));
            ops.push(json!({"op": "wrap", "palg": "a128gcm", "pkey": hexs(&r.bytes(17)), "nonce": hexs(&good_nonce(r, alg))}));
            out.push(case(format!("wrap-{}-{}", alg, rep), alg, &key, ops));
        }
        // malformed stream: arbitrary ciphertext / tag / nonce / aad, wrong algorithms on unwrap
        for rep in 0..(2 * scale) {
            let key = r.bytes(kl);
            let mut ops = vec![];
            for _ in 0..12 {
                let ctl = *r.pick(&[0usize, 1, 7, 8, 15, 16, 17, 24, 31, 32, 33, 40, 48, 64, 100]);
                let tl = *r.pick(&[0usize, 0, 1, 8, 15, 16, 17, 32, 33]);
                let nl = if r.chance(2, 3) { nonce_len(alg) } else { r.below(33) };
                ops.push(json!({"op": "dec", "ct": hexs(&r.bytes(ctl)), "tag": hexs(&r.bytes(tl)), "nonce": hexs(&r.bytes(nl)), "aad": hexs(&aad_for(r, alg))}));
            }
            for _ in 0..4 {
                let ctl = *r.pick(&[0usize, 8, 16, 24, 32, 40, 48, 72]);
                let tl = *r.pick(&[0usize, 16, 32]);
                ops.push(json!({"op": "unwrap", "alg": *r.pick(&ALGS), "ct": hexs(&r.bytes(ctl)), "tag": hexs(&r.bytes(tl)), "nonce": hexs(&good_nonce(r, alg))}));
            }
            out.push(case(format!("malformed-{}-{}", alg, rep), alg, &key, ops));
        }
        // a key of the wrong length: nothing else runs
        let bad = pick_bytes(r, &[0, 1, 15, 17, 24, 31, 33, 48, 63, 65]);
        if bad.len() != kl { out.push(case(format!("badkey-{}", alg), alg, &bad, vec![json!({"op": "params"})])); }
    }
    // a key type without AEAD support
    let key = r.bytes(32);
    out.push(case("nonaead".into(), "ed25519", &key, vec![
        json!({"op": "params"}), json!({"op": "padding", "len": 5}),
        json!({"op": "enc", "msg": "00", "nonce": "", "aad": ""}),
        json!({"op": "enc", "msg": "00", "nonce": hexs(&r.bytes(12)), "aad": ""}),
        json!({"op": "dec", "ct": hexs(&r.bytes(32)), "tag": "", "nonce": hexs(&r.bytes(12)), "aad": ""}),
        json!({"op": "wrap", "palg": "a128gcm", "pkey": hexs(&r.bytes(16)), "nonce": ""}),
        json!({"op": "unwrap", "alg": "a128gcm", "ct": hexs(&r.bytes(32)), "tag": "", "nonce": ""}),
    ]));
    // ---- the buffer type as a dimension: every in-place operation over Vec, SecretBytes and the fixed-size Writer
    for alg in ALGS {
        let kl = key_len(alg);
        let mut lens: Vec<usize> = if is_kw(alg) { vec![0, 8, 16, 24, 40, 12] } else { vec![0, 1, 15, 16, 17, 33, 64] };
        if thorough { lens.extend(if is_kw(alg) { vec![32, 48, 64, 128, 256, 7] } else { vec![2, 7, 8, 31, 32, 47, 48, 63, 65, 100, 255, 256, 1000] }); }
        for len in lens {
            let key = r.bytes(kl);
            let (n, a) = (good_nonce(r, alg), aad_for(r, alg));
            out.push(json!({"kind": "c12:buf", "id": format!("buf-{}-{}", alg, len), "alg": alg, "key": hexs(&key), "msg": msg_spec(r, len),
                            "nonce": hexs(&n), "aad": hexs(&a), "extra": *r.pick(&[1usize, 16, 64]), "stale": [r.below(256), r.below(256)]}));
        }
        // malformed: arbitrary bytes to decrypt (around the tag length), a nonce of the wrong length
        for rep in 0..(if thorough { 8 } else { 2 }) {
            let key = r.bytes(kl);
            let rl = *r.pick(&[0usize, 7, 8, 15, 16, 17, 24, 31, 32, 33, 40, 48]);
            out.push(json!({"kind": "c12:buf", "id": format!("buf-{}-raw{}", alg, rep), "alg": alg, "key": hexs(&key), "msg": hexs(&r.bytes(8)),
                            "nonce": hexs(&good_nonce(r, alg)), "aad": hexs(&aad_for(r, alg)), "raw": hexs(&r.bytes(rl)), "extra": 64,
                            "stale": [r.below(256), r.below(256)]}));
        }
        let key = r.bytes(kl);
        let bad_nonce = pick_bytes(r, &[1, 8, 11, 13, 17, 25]);
        out.push(json!({"kind": "c12:buf", "id": format!("buf-{}-badnonce", alg), "alg": alg, "key": hexs(&key), "msg": hexs(&r.bytes(16)),
                        "nonce": hexs(&bad_nonce), "aad": "", "raw": hexs(&r.bytes(40)), "extra": 64, "stale": [r.below(256), r.below(256)]}));
    }
    out.push(json!({"kind": "c12:buf", "id": "buf-nonaead", "alg": "ed25519", "key": hexs(&r.bytes(32)), "msg": hexs(&r.bytes(5)),
                    "nonce": hexs(&r.bytes(12)), "aad": "", "raw": hexs(&r.bytes(32)), "extra": 16, "stale": [1, 2]}));
    // ---- raw ResizeBuffer calls: sequences within and beyond the capacity, preconditions mostly met
    for i in 0..(if thorough { 600 } else { 48 }) { out.push(gen_bufops(r, format!("bufops-{}", i))); }
    // the two calls the in-place operations make on an empty / short prefix (the audit's witnesses)
    out.push(json!({"kind": "c12:bufops", "id": "bufops-insert0", "cap": 24, "init": hexs(&r.bytes(16)), "stale": 0xEE,
                    "ops": [{"o": "insert", "p": 0, "d": "0000000000000000"}]}));
    out.push(json!({"kind": "c12:bufops", "id": "bufops-resize", "cap": 91, "init": hexs(&r.bytes(27)), "stale": 0xEE,
                    "ops": [{"o": "resize", "n": 11}]}));
    // ---- key wrap with associated data / nonce in every entry point; random nonces; guards of from_seed and Argon2::new
    for alg in ["a128kw", "a256kw"] {
        let key = r.bytes(key_len(alg));
        let pk = r.bytes(16);
        let ops = vec![
            json!({"op": "enc", "msg": hexs(&r.bytes(16)), "nonce": "", "aad": hexs(&r.bytes(5))}),
            json!({"op": "enc", "msg": hexs(&r.bytes(16)), "nonce": hexs(&r.bytes(8)), "aad": hexs(&r.bytes(5))}),
            json!({"op": "dec", "ct": hexs(&r.bytes(24)), "tag": "", "nonce": "", "aad": hexs(&r.bytes(1))}),
            json!({"op": "dec", "ct": hexs(&r.bytes(24)), "tag": "", "nonce": hexs(&r.bytes(12)), "aad": hexs(&r.bytes(13))}),
            json!({"op": "dec", "ct": hexs(&r.bytes(23)), "tag": "", "nonce": "", "aad": hexs(&r.bytes(64))}),
            json!({"op": "unwrap", "alg": "a128gcm", "ct": hexs(&r.bytes(24)), "tag": "", "nonce": hexs(&r.bytes(1))}),
            json!({"op": "wrap", "palg": "a128gcm", "pkey": hexs(&pk), "nonce": hexs(&r.bytes(8))}),
            json!({"op": "wrap", "palg": "a128gcm", "pkey": hexs(&pk), "nonce": ""}),
            json!({"op": "random_nonce"}), json!({"op": "params"}),
        ];
        out.push(case(format!("kwaad-{}", alg), alg, &key, ops));
    }
    for alg in ALGS.iter().chain(["ed25519"].iter()) {
        if is_kw(alg) { continue; }
        let key = r.bytes(key_len(alg));
        out.push(case(format!("rnonce-{}", alg), alg, &key, vec![json!({"op": "random_nonce"}), json!({"op": "params"})]));
    }
    {
        let mut probes = vec![];
        for method in [json!("bogus"), json!("bls_keygen"), json!(""), Value::Null, json!("BLS_KEYGEN"), json!("bls_keygen ")] {
            for sl in [0usize, 31, 32, 33] {
                probes.push(json!({"p": "from_seed", "alg": *r.pick(&ALGS), "seed": hexs(&r.bytes(sl)), "method": method}));
            }
        }
        for sl in (0..=17).chain([32, 64]) { probes.push(json!({"p": "argon2_new", "salt_len": sl})); }
        out.push(json!({"kind": "c12:misc", "id": "misc-guards", "probes": probes}));
    }
    if let Some(c) = count { out.truncate(c.max(1)); }
    out
}

fn gen_bufops(r: &mut Rng, id: String) -> Value {
    let cap = *r.pick(&[0usize, 1, 8, 16, 24, 32, 64]);
    let init_len = if r.chance(1, 4) { cap } else { r.below(cap + 1) };
    let mut len = init_len;
    let mut ops = vec![];
    for _ in 0..(6 + r.below(8)) {
        let bad = r.chance(1, 16);                       // a violated precondition now and then
        match r.below(5) {
            0 => { let dl = r.below(10); let d = r.bytes(dl); if len + d.len() <= cap { len += d.len(); } ops.push(json!({"o": "write", "d": hexs(&d)})); }
            1 => {
                let p = if bad { len + 1 + r.below(3) } else if r.chance(1, 3) { 0 } else { r.below(len + 1) };
                let d = pick_bytes(r, &[0, 1, 2, 3, 8, 9, 16]);
                if len + d.len() <= cap { len += d.len(); }
                ops.push(json!({"o": "insert", "p": p, "d": hexs(&d)}));
            }
            2 => {
                let e = if bad { len + 1 + r.below(3) } else { r.below(len + 1) };
                let s = if bad && r.chance(1, 2) { e + 1 } else { r.below(e + 1) };
                if s <= e && e <= len { len -= e - s; }
                ops.push(json!({"o": "remove", "s": s, "e": e}));
            }
            3 => { let n = r.below(cap + 3); if n <= cap { len = n; } ops.push(json!({"o": "resize", "n": n})); }
            _ => { let n = r.below(cap.saturating_sub(len) + 3); if len + n <= cap { len += n; } ops.push(json!({"o": "extend", "n": n})); }
        }
    }
    json!({"kind": "c12:bufops", "id": id, "cap": cap, "init": hexs(&r.bytes(init_len)), "stale": 1 + r.below(255), "ops": ops})
}
